"""C14 — integer range strings expand to the denoted set and compress back canonically."""
import itertools
import random
import re

import wire
from props.common import quiet_ccp

ID = "C14"
LEAN_MODULES = ["Ccp.Props.C14", "Ccp.Props.RxC14"]
RULE = ("texts: every subset of {0..11} as a shuffled comma list (quick and thorough: exhaustive, 4096), "
        "random lists of singles/intervals over 0..70000 in any order with overlaps, duplicates, blanks around "
        "numbers and hyphens, descending intervals, plus a malformed stream (',,', 'a-b-c', letters, empty parts); "
        "each followed by a random sequence of read accessors (len/iter/list/set/cstr/has) and append/remove calls. "
        "non-trivial = at least one interval of width>=2 or an append/remove, distinct by request line. "
        "int hashing is not affected by PYTHONHASHSEED, so hash seeds are not varied; '_' digit separators and "
        "non-ASCII digits (accepted by int()) are not generated. "
        "OPTION STREAMS (channel rangex, 1200 random + 13 fixed + malformed texts in quick): the constructor with "
        "result_type int / float / an invalid type and reverse on/off; as_list(result_type=) and as_set(result_type=) over "
        "every rung of the ladder (auto, None, an interface instance, str, int, float, invalid) with container kind and "
        "member type compared; append(val, sort=, ignore_errors=) with an int, a decimal str and a non-numeric str; "
        "remove(arg, ignore_errors=) with an int, a decimal str and None; insert; on empty and non-empty ranges; "
        "about 40% of these ranges are built with reverse=True and the read sequences interleave as_list()/as_set() (every cast) with "
        "iteration, len, str(), repr(), obj[k] (inside and beyond the end), == against a freshly parsed range and the raw obj.data "
        "(reverse must show in as_list only; reading must not change the object); the "
        "generator steers values to members / non-members and keeps append(member, ignore_errors=True) (known finding "
        "FC14a, repaired) in about half of the ignore_errors appends. A float range ('' only) gets "
        "reads only. Anchored statements executed by the quick run: 194 of 326 (was 141); the 132 left are "
        "trunk_vlans_allowed (73, checked by C19), interface / str / float member branches (C15 or unsupported), debug "
        "logging and unreachable branches (notes/coverage/C14.json).")
LEVEL_TEXT = ("Theorems (Lean 4, all inputs, no bound on size or magnitude): accepted range texts expand to exactly the union of "
              "their closed intervals, strictly ascending (parse_denotes); append/remove are sorted-set insert/delete raising exactly on "
              "duplicate/absent; ordered views equal the state; for every strictly ascending S the index loop of as_compressed_str "
              "(3-element window, de-duplicated '-' markers, type-switch comma logic) writes exactly renderRuns (runs S): the maximal "
              "runs as a / a,b / a-b joined by ',' (compress_canonical), the runs being well formed, covering exactly S in order and "
              "pairwise separated by a gap (runs_canonical); the compressed string is accepted by the parser and expands to S again at "
              "the character level, using int(str(n)) = n, split/join and strip lemmas (expand_compress, parse_compress_idem, "
              "compress_injective); any blank-free list of parts lo / lo-hi joined by ',' parses to the sorted union of its parts "
              "(parse_written_parts); every read accessor, any sequence of them, and a failed append/remove leave the state unchanged "
              "(readers_pure, readers_pure_seq, failed_mutation_pure, stated about the model function stepOp that the driver executes). "
              "Options (Model/RangeX.lean): construct_int / construct_rejects (result_type int is parse, an invalid type is always refused, "
              "float for every non-empty text); as_list_ordered / as_set_members (for every state and every cast str/int/float/auto the view "
              "holds each member once, ascending, descending exactly under reverse=True); appendX_plain / removeX_plain (default flags = "
              "append / remove), appendX_ignore_new, removeX_ignore, appendX_other_forms (sort=False, str and non-numeric values), "
              "appendX_ignore_member / appendX_ignore_keeps_ascending (append(member, ignore_errors=True) is a no-op and the range stays strictly ascending; FC14a repaired by /repo aef5a7a); readersX_pure, "
              "readersX_pure_seq, failedX_pure, stepX_old_state; reverse_only_in_as_list / reverse_not_in_readers (every call other than as_list answers "
              "and acts the same under either reverse flag), further_readers (obj.data = iteration, obj[k] and its IndexError, == against a freshly parsed range). "
              "The model is tied to CiscoRange(result_type=int) by differential runs on every check "
              "(all 4096 subsets of 0..11 plus random interval lists and accessor/mutator sequences).")
LEVEL_NOTE = ("Trusted: Lean kernel; axioms propext/Classical.choice/Quot.sound only; the correspondence harness; model of int() "
              "restricted to ASCII digits, sign and surrounding whitespace. Proved about the model, measured against the code. "
              "readers_pure is a statement about the model's step function (reads return `data` unchanged by construction); that the "
              "real accessors do not mutate is measured by the correspondence (state re-read after every accessor sequence), not proved.")
LEVEL_NOTE += (" " + "regexes_as_modelled (Ccp.RxC14): the literal separators of CiscoRange.__init__ + parse_integers and the helpers they reach (',,' test, split(','), '-' test, split('-'), the digit filter) are re-read from /repo's AST on every run and proved equal to the ones Model/Range.lean hard-wires (and no regex call has appeared).")
LEVEL_NOTE += (" Scan sets as revised: regexes_as_modelled ties the regex-engine calls with the pattern in canonical form (canonical verbose form without the flag, group names and redundant escapes removed, per-value specialisation of a pattern passed to a same-file helper or built from a name that ranges over a constant collection, always-true searches left out), flags, re.sub replacements and the separator arguments of str.split/join/replace/strip; the literal tests (\"lit\" in x, == against string literals and their subscripts, startswith) are informational definitions Gen.rx...Info, no theorem is about them.")
EXHAUSTIVE = {"quick": False, "thorough": False}
ASSUMPTIONS = [
    "model int() = optional surrounding whitespace, optional sign, ASCII digits",
    "members are natural numbers (a part containing '-' is split on it, so no negative value can be written)",
]
TRUSTED = ["CiscoRange on integers only (result_type=int, and the rejection of float / invalid types); interface ranges are C15"]

READS = ["len", "iter", "list", "set", "cstr", "rexp"]


def mk(text, ops, origin="gen"):
    return {"text": text, "ops": ops, "req": wire.req("range", wire.enc_str(text), *ops), "_origin": origin}


def from_corpus(c):
    return mk(c["text"], c["ops"], "corpus")


def _rand_text(rng, big=False):
    parts = []
    for _ in range(rng.choice([1, 1, 2, 3, 4, 6, 9])):
        base = rng.choice([0, 1, 5, 9, 10, 99, 100, 4094, 65535, 69990]) if rng.random() < 0.5 else rng.randint(0, 70000)
        kind = rng.random()
        sp = lambda: rng.choice(["", "", "", " ", "  ", "\t"])  # noqa: E731
        if kind < 0.45:
            parts.append(f"{sp()}{base}{sp()}")
        else:
            width = rng.choice([0, 1, 2, 3, 5, 17]) if not big else rng.choice([2, 300, 3000, 20000])
            lo, hi = base, min(70000, base + width)
            if rng.random() < 0.08:
                lo, hi = hi, lo
            parts.append(f"{sp()}{lo}{sp()}-{sp()}{hi}{sp()}")
    if rng.random() < 0.3 and parts:
        parts.append(rng.choice(parts))
    rng.shuffle(parts)
    return ",".join(parts)


MALFORMED = ["", " ", ",", "1,,2", "1-2-3", "a", "1-", "-1", "1 2", "1,", ",1", "1-a", "3-+5", "+3", "1--2", "0x10", "1.5", "7-7", "9-3"]


def _rand_ops(rng, text):
    nums = [int(x) for x in re.findall(r"\d+", text)] or [0]
    ops = []
    for _ in range(rng.choice([1, 2, 3, 5, 8])):
        r = rng.random()
        if r < 0.5:
            ops.append(rng.choice(READS))
        else:
            n = rng.choice(nums) + rng.choice([-1, 0, 0, 1, 2])
            n = max(0, n)
            ops.append(rng.choice(["has", "app", "rem"]) + ":" + str(n))
    ops.append("iter")
    ops.append("cstr")
    return ops


# ---------------------------------------------------------------- option streams (channel `rangex`)
# constructor options result_type (int / float / an invalid type) and reverse; every rung of the result_type ladder of
# as_list / as_set; append(sort=, ignore_errors=) with an int, a decimal str, a non-numeric str; remove(ignore_errors=)
# with an int, a decimal str, None; insert.
VIEW_TYPES = ["auto", "none", "inst", "str", "int", "float", "bad"]


def mkx(text, rt, rev, ops, origin="gen"):
    return {"text": text, "ops": ops, "x": {"rt": rt, "rev": int(bool(rev))}, "_origin": origin,
            "req": wire.req("rangex", wire.enc_str(text), rt, str(int(bool(rev))), *ops)}


def _rand_xops(rng, text):
    nums = [int(x) for x in re.findall(r"\d+", text)] or [0]
    cur = set(ref_denote(text) or ())      # only steers the choice of values (members / non-members)
    ops = []
    for _ in range(rng.choice([2, 3, 4, 6, 9])):
        r = rng.random()
        n = max(0, rng.choice(nums) + rng.choice([-1, 0, 0, 0, 1, 2]))
        if r < 0.25:
            ops.append(rng.choice(["list", "set"]) + ":" + rng.choice(VIEW_TYPES))
        elif r < 0.35:
            ops.append(rng.choice(READS + ["has:%d" % n]))
        elif r < 0.45:
            ops.append(rng.choice(["str", "repr", "eqfresh", "data", "idx:%d" % rng.choice([0, 0, 1, 2, 5, len(cur), len(cur) + 1,
                                                                                              max(0, len(cur) - 1)])]))
        elif r < 0.7:
            ign = rng.choice("01")
            # appending a member with ignore_errors=True must leave the range unchanged (FC14a, repaired by /repo aef5a7a):
            # about half of the ignore_errors appends hit a member
            val = rng.choice(["i%d" % n] * 5 + ["s%d" % n] * 2 + ["j"])
            ops.append("appx:%s:%s%s" % (val, rng.choice("1110"), ign))
            if val != "j":
                cur.add(n)
        elif r < 0.9:
            val = rng.choice(["i%d" % n] * 5 + ["s%d" % n] * 2 + ["j"])
            ops.append("remx:%s:%s" % (val, rng.choice("01")))
            if val[0] == "i":
                cur.discard(n)
        elif r < 0.95:
            ops.append("ins:%d" % n)
        else:
            ops.append(rng.choice(["app", "rem"]) + ":%d" % n)
        if ":s" in ops[-1]:
            ops.append("iter")      # a str argument may be refused or converted: the oracle looks at once which it was
        elif rng.random() < 0.5:
            ops.append(rng.choice(["iter", "len", "list", "cstr", "data", "str", "set", "eqfresh"]))
    ops += ["iter", "list:int", "data", "cstr"]
    return ops


X_FIXED = [
    ("", "bad", 0, ["iter"]), ("1-3", "bad", 0, ["iter"]), ("1,,3", "bad", 1, ["iter"]), ("1,,3", "float", 0, ["iter"]),
    ("", "float", 0, ["len", "iter", "cstr", "list", "set", "list:int", "set:str", "list:none", "set:none", "list:inst",
                      "set:inst", "list:bad", "set:bad"]),
    ("1-3", "float", 1, ["iter"]), ("7", "float", 0, ["iter"]),
    ("", "int", 0, ["list", "set", "list:none", "set:none", "list:inst", "set:inst", "list:float", "set:bad",
                    "remx:i1:0", "remx:i1:1", "remx:j:0", "remx:j:1", "appx:j:10", "appx:j:11", "appx:s4:10", "iter",
                    "appx:s4:11", "iter", "len", "list:int"]),
    ("", "int", 1, ["appx:i4:00", "appx:i2:00", "iter", "list", "appx:i3:10", "iter", "list:str", "cstr"]),
    ("1-3,7", "int", 1, ["list", "data", "iter", "set", "data", "str", "repr", "idx:0", "idx:3", "idx:4", "eqfresh", "list:str", "data",
                         "len", "eqfresh"]),
    ("", "int", 1, ["str", "repr", "idx:0", "eqfresh", "data", "list", "data"]),
    ("", "float", 1, ["str", "repr", "idx:0", "eqfresh", "data"]),
    ("1-3,7", "int", 1, ["list", "set", "iter", "cstr", "list:str", "list:int", "list:float", "set:float", "list:none",
                         "set:none", "list:inst", "set:inst", "list:bad", "set:bad", "ins:5", "iter"]),
    ("1-3,7", "int", 0, ["appx:s9:10", "appx:j:10", "appx:j:11", "appx:s9:11", "iter", "remx:s9:1", "iter", "remx:s9:0",
                         "iter", "remx:j:0", "remx:j:1", "remx:i55:1", "remx:i55:0", "remx:i2:1", "iter", "len"]),
    ("5,1-3", "int", 0, ["appx:i0:00", "iter", "list", "cstr", "len", "appx:i4:10", "iter"]),
    ("1-3,7", "int", 0, ["appx:i2:11", "iter", "len", "list", "cstr"]),
    ("1-3,7", "int", 0, ["appx:s7:11", "iter", "len", "remx:i7:0", "iter"]),
]


def x_cases(rng, tier):
    if tier != "search":
        for t, rt, rev, ops in X_FIXED:
            yield mkx(t, rt, rev, ops)
        for t in MALFORMED:
            yield mkx(t, rng.choice(["int", "float", "bad"]), rng.random() < 0.5, ["iter", "list:int"])
    n = {"quick": 1200, "thorough": 30000, "search": 1500}[tier]
    for i in range(n):
        t = _rand_text(rng)
        if rng.random() < 0.05:
            t = rng.choice(MALFORMED) + rng.choice(["", ",", ",3"]) + (t if rng.random() < 0.5 else "")
        r = rng.random()
        rt = "int" if r < 0.92 else ("float" if r < 0.96 else "bad")
        ops = _rand_xops(rng, t)
        if rt == "float":
            # CiscoRange("", result_type=float) is an empty range whose appended members would be floats: reads only
            ops = [o for o in ops if not o.startswith(("app", "rem"))]
        yield mkx(t, rt, rng.random() < 0.4, ops)


def cases(rng, tier):
    if tier != "search":
        for bits in range(4096):
            members = [i for i in range(12) if bits >> i & 1]
            rng.shuffle(members)
            yield mk(",".join(map(str, members)), ["iter", "cstr", "rexp", "len"])
        for t in MALFORMED:
            yield mk(t, ["iter", "cstr"])
    n = {"quick": 1500, "thorough": 60000, "search": 3000}[tier]
    for i in range(n):
        t = _rand_text(rng, big=(tier == "thorough" and i % 500 == 0))
        if rng.random() < 0.05:
            t = rng.choice(MALFORMED) + rng.choice(["", ",", ",3"]) + (t if rng.random() < 0.5 else "")
        yield mk(t, _rand_ops(rng, t))
    yield from x_cases(random_child(rng), tier)


def random_child(rng):
    """an independent stream for the option cases, so that the older streams keep the cases they had"""
    return random.Random(rng.getrandbits(64) ^ 0xC14)


def neighbours(case, rng):
    t = case["text"]
    for _ in range(300):
        s = list(t)
        if s and rng.random() < 0.5:
            del s[rng.randrange(len(s))]
        else:
            s.insert(rng.randrange(len(s) + 1), rng.choice("0123456789,- "))
        if any(int(x) > 200000 for x in re.findall(r"\d+", "".join(s))):
            continue      # stay near the property's value range (an interval up to 10**9 takes minutes to expand)
        if "x" in case:
            yield mkx("".join(s), case["x"]["rt"], case["x"]["rev"], case["ops"])
        else:
            yield mk("".join(s), case["ops"])


def nontrivial(case):
    if "x" in case:
        return any(":" in o and not o.startswith("has") for o in case["ops"]) or case["x"]["rt"] != "int"
    return bool(re.search(r"\d\s*-\s*\d", case["text"])) or any(o[:3] in ("app", "rem") for o in case["ops"])


def describe(case):
    if "x" in case:
        return {"text": case["text"], "result_type": case["x"]["rt"], "reverse": bool(case["x"]["rev"]), "ops": case["ops"]}
    return {"text": case["text"], "ops": case["ops"]}


def buckets(case, ans):
    out = ["answer:" + (ans.split("|")[0] if not ans.startswith("err") else ans)]
    out.append("parts:%d" % min(9, case["text"].count(",") + 1))
    for o in case["ops"]:
        out.append("op:" + o.split(":")[0])
    if "x" in case:
        out.append("ctor:%s,reverse=%d" % (case["x"]["rt"], case["x"]["rev"]))
        for o in case["ops"]:
            f = o.split(":")
            if f[0] in ("list", "set") and len(f) == 2:
                out.append("view:%s(%s)" % (f[0], f[1]))
            elif f[0] == "appx":
                out.append("append:%s,sort=%s,ignore_errors=%s" % (f[1][0], f[2][0], f[2][1]))
            elif f[0] == "remx":
                out.append("remove:%s,ignore_errors=%s" % (f[1][0], f[2]))
    return out


# ------------------------------------------------------------------ implementation
def _enc_view(r):
    """container kind + member type + members (a set is listed ascending)"""
    kind = "L" if type(r) is list else "S" if type(r) is set else "?"
    items = list(r)
    tys = {type(x) for x in items}
    if not items:
        tag, nums = "e", []
    elif tys == {int}:
        tag, nums = "i", items
    elif tys == {str} and all(re.fullmatch(r"0|[1-9][0-9]*", x) for x in items):
        tag, nums = "s", [int(x) for x in items]
    elif tys == {float} and all(x == int(x) for x in items):
        tag, nums = "f", [int(x) for x in items]
    else:
        return kind + "?:" + repr(items)[:60]
    if kind == "S":
        nums = sorted(nums)
    return kind + tag + ":" + wire.enc_nats(nums)


def _impl_x(case):
    from ciscoconfparse2.ccp_util import CiscoRange, CiscoIOSInterface
    from ciscoconfparse2.errors import InvalidCiscoRange
    rt = {"int": int, "float": float, "bad": bool}[case["x"]["rt"]]
    try:
        obj = CiscoRange(case["text"], result_type=rt, reverse=bool(case["x"]["rev"]))
    except (InvalidCiscoRange, ValueError, NotImplementedError) as e:
        return "err:" + type(e).__name__
    view_arg = {"none": None, "str": str, "int": int, "float": float, "bad": bool}

    def value(w, junk):
        return junk if w == "j" else int(w[1:]) if w[0] == "i" else w[1:]

    out = ["ok"]
    for op in case["ops"]:
        f = op.split(":")
        name = f[0]
        try:
            if name in ("list", "set"):
                meth = obj.as_list if name == "list" else obj.as_set
                if len(f) == 1 or f[1] == "auto":
                    out.append(_enc_view(meth()))
                elif f[1] == "inst":
                    out.append(_enc_view(meth(result_type=CiscoIOSInterface("Ethernet1"))))
                else:
                    out.append(_enc_view(meth(result_type=view_arg[f[1]])))
            elif name == "len":
                out.append(str(len(obj)))
            elif name == "iter":
                out.append(wire.enc_nats(list(iter(obj))) if all(type(x) is int for x in obj) else "?" + repr(list(obj))[:60])
            elif name == "cstr":
                out.append(wire.enc_str(obj.as_compressed_str()))
            elif name == "rexp":
                out.append(wire.enc_nats(list(CiscoRange(obj.as_compressed_str(), result_type=int))))
            elif name == "has":
                out.append("T" if int(f[1]) in obj else "F")
            elif name == "str":
                out.append(wire.enc_str(str(obj)))
            elif name == "repr":
                out.append(wire.enc_str(repr(obj)))
            elif name == "idx":
                v = obj[int(f[1])]
                out.append(str(v) if type(v) is int else "?" + repr(v)[:40])
            elif name == "eqfresh":
                r = obj == CiscoRange(case["text"], result_type=rt)
                out.append("T" if r is True else "F" if r is False else "?" + repr(r)[:40])
            elif name == "data":
                d = obj.data
                out.append(wire.enc_nats(d) if type(d) is list and all(type(x) is int for x in d) else "?" + repr(d)[:60])
            elif name == "app":
                obj.append(int(f[1]))
                out.append("ok")
            elif name == "appx":
                obj.append(value(f[1], "abc"), sort=f[2][0] == "1", ignore_errors=f[2][1] == "1")
                out.append("ok")
            elif name in ("rem", "remx"):
                try:
                    if name == "rem":
                        obj.remove(int(f[1]))
                    else:
                        obj.remove(value(f[1], None), ignore_errors=f[2] == "1")
                    out.append("ok")
                except Exception:  # the class differs by path (MismatchedType, UnboundLocalError, ValueError)
                    out.append("err:absent")
            elif name == "ins":
                obj.insert(0, int(f[1]))
                out.append("ok")
            else:
                raise AssertionError(op)
        except AssertionError:
            raise
        except Exception as e:  # noqa: BLE001  (the class is part of the compared answer)
            out.append("err:" + type(e).__name__)
    return "|".join(out)


def impl(case):
    quiet_ccp()
    if "x" in case:
        return _impl_x(case)
    from ciscoconfparse2.ccp_util import CiscoRange
    from ciscoconfparse2.errors import InvalidCiscoRange, DuplicateMember
    try:
        obj = CiscoRange(case["text"], result_type=int)
    except InvalidCiscoRange:
        return "err:InvalidCiscoRange"
    except ValueError:
        return "err:ValueError"
    out = ["ok"]
    for op in case["ops"]:
        name, _, arg = op.partition(":")
        if name == "len":
            out.append(str(len(obj)))
        elif name == "iter":
            out.append(wire.enc_nats(list(iter(obj))))
        elif name == "list":
            out.append(wire.enc_nats(list(obj.as_list())))
        elif name == "set":
            out.append(wire.enc_nats(sorted(obj.as_set())))
        elif name == "cstr":
            out.append(wire.enc_str(obj.as_compressed_str()))
        elif name == "rexp":
            try:
                out.append(wire.enc_nats(list(CiscoRange(obj.as_compressed_str(), result_type=int))))
            except (InvalidCiscoRange, ValueError) as e:
                out.append("err:" + type(e).__name__)
        elif name == "has":
            out.append("T" if int(arg) in obj else "F")
        elif name == "app":
            try:
                obj.append(int(arg))
                out.append("ok")
            except DuplicateMember:
                out.append("err:DuplicateMember")
        elif name == "rem":
            try:
                obj.remove(int(arg))
                out.append("ok")
            except Exception:  # absent member: the class differs by path (InvalidMember, MismatchedType, UnboundLocalError)
                out.append("err:absent")
        else:
            raise AssertionError(op)
    return "|".join(out)


# ------------------------------------------------------------------ oracle (independent of the Lean model)
WELL = re.compile(r"^\s*\d+\s*(-\s*\d+\s*)?$")


def ref_denote(text):
    """None when the text is outside the property's grammar."""
    if text == "":
        return set()
    members = set()
    for part in text.split(","):
        if not WELL.match(part):
            return None
        nums = [int(x) for x in re.findall(r"\d+", part)]
        if len(nums) == 1:
            members.add(nums[0])
        else:
            members.update(range(nums[0], nums[1] + 1))
    return members


def ref_compress(members):
    xs = sorted(members)
    runs = []
    for x in xs:
        if runs and x == runs[-1][1] + 1:
            runs[-1][1] = x
        else:
            runs.append([x, x])
    out = []
    for a, b in runs:
        if a == b:
            out.append(str(a))
        elif b == a + 1:
            out += [str(a), str(b)]
        else:
            out.append(f"{a}-{b}")
    return ",".join(out)


def _judge_x(state, op, got, rev, case_text="", rt_is_int=True):
    """One call against one candidate state (members, iteration still ordered?, member duplicated by an ignored
    append or None).  Returns (complaint or None, successor states).  A str / None argument is outside what the
    property fixes: such a call may be refused or taken as the integer it spells, nothing else."""
    cur, ordered, dup = state
    f = op.split(":")
    name = f[0]
    asc = sorted(cur)
    same = [state]
    label = name
    if name == "data":
        # the raw member list is what iteration shows
        name = "iter"
    elif name in ("str", "repr"):
        text = wire.dec_str(got) if got.startswith("s") else got
        if name == "repr":
            m = re.fullmatch(r"<CiscoRange (\[[0-9, ]*\]) (members|result_type): <class '(int|float)'>>", text)
            if not m or (m.group(2) == "members") != bool(cur) and dup is None:
                return f"repr is {text[:80]!r}", same
            text = m.group(1)
        if not re.fullmatch(r"\[(\d+(, \d+)*)?\]", text):
            return f"{name} is {text[:80]!r}", same
        name, got = "iter", text[1:-1].replace(" ", "")
    elif name == "idx":
        k = int(f[1])
        if dup is not None or not ordered:
            return None, same
        if k < len(asc):
            return (None if got == str(asc[k]) else f"obj[{k}] is {got} expected {asc[k]}"), same
        return (None if got == "err:IndexError" else f"obj[{k}] beyond the end gives {got}"), same
    elif name == "eqfresh":
        if dup is not None or not ordered:
            return None, same
        fresh = ref_denote(case_text) if rt_is_int else set()
        want = "T" if cur == fresh else "F"
        return (None if got == want else f"== against a freshly parsed range is {got}, members {'unchanged' if want == 'T' else 'changed'}"), same
    if name == "len":
        if int(got) != len(cur):
            if dup is not None and int(got) > len(cur):
                return f"duplicate-after-ignore: append({dup}, ignore_errors=True) of a member: len gives {got}", None
            return f"len {got} != {len(cur)}", same
    elif name == "iter":
        if got.startswith("?"):
            return f"iteration gives non-integers {got[:60]}", same
        seen = got.split(",") if got else []
        if dup is not None and len(seen) > len(set(seen)) and sorted(set(seen)) == sorted(map(str, asc)):
            return f"duplicate-after-ignore: append({dup}, ignore_errors=True) of a member: iter gives {got[:60]}", None
        if ordered and got != wire.enc_nats(asc):
            return f"{label} view is {got[:80]} expected ascending {wire.enc_nats(asc)[:80]}", same
        if not ordered and sorted(seen) != sorted(map(str, asc)):
            return f"{label} view is {got[:80]}, members are {wire.enc_nats(asc)[:80]}", same
    elif name in ("list", "set"):
        t = f[1] if len(f) > 1 else "auto"
        if t in ("none", "inst", "bad"):
            return None, same      # the property does not say what an interface cast of an integer is
        if got.startswith("err"):
            return f"{op} raised {got}", same
        items = asc if (name == "set" or not rev) else asc[::-1]
        tag = {"auto": "i", "int": "i", "str": "s", "float": "f"}[t]
        exp = (tag if items else "e") + ":" + wire.enc_nats(items)
        if got[1:] != exp:
            return (f"{op} gives {got[:80]} expected {exp[:80]}" + (" (reverse=True)" if rev and name == "list" else "")), same
        if items and got[0] != ("L" if name == "list" else "S"):
            return f"{op} returned the wrong container kind {got[0]}", same
    elif name == "cstr":
        exp = ref_compress(cur)
        sgot = wire.dec_str(got) if got.startswith("s") else got
        if sgot != exp:
            return f"compressed string {sgot[:80]!r} expected canonical {exp[:80]!r}", same
    elif name == "rexp":
        if got != wire.enc_nats(asc):
            return f"re-expanding the compressed string gives {got[:80]}", same
    elif name == "has":
        if (got == "T") != (int(f[1]) in cur):
            return f"membership of {f[1]} is {got}", same
    elif name in ("app", "appx"):
        val = "i" + f[1] if name == "app" else f[1]
        sort, ign = (True, False) if name == "app" else (f[2][0] == "1", f[2][1] == "1")
        if val == "j":
            return None, same      # "abc": refused or skipped, the members stay
        n = int(val[1:])
        grown = (cur | {n}, ordered and (sort or n in cur), dup if n not in cur or not ign else (n if dup is None else dup))
        if val[0] == "s":
            return None, (same if got != "ok" else [state, grown])
        if n in cur:
            if got == "ok" and not ign:
                return f"append of duplicate {n} did not raise", same
            if got != "ok" and ign:
                return f"append({n}, ignore_errors=True) raised {got}", same
            return None, ([grown] if ign else same)
        if got != "ok":
            return f"append of new member {n} raised {got}", same
        return None, [grown]
    elif name in ("rem", "remx"):
        val = "i" + f[1] if name == "rem" else f[1]
        ign = name == "remx" and f[2] == "1"
        if val == "j":
            if got == "ok" and not ign:
                return "remove(None) did not raise", same
            return None, same
        n = int(val[1:])
        shrunk = (cur - {n}, ordered, None if dup == n else dup)
        if val[0] == "s":
            if got == "ok" and n not in cur and not ign:
                return f"remove('{n}') of an absent member did not raise", same
            return None, (same if got != "ok" else [state, shrunk])
        if n in cur:
            if got != "ok":
                return f"remove of member {n} raised", [shrunk]
            return None, [shrunk]
        if got == "ok" and not ign:
            return f"remove of absent {n} did not raise", same
        if got != "ok" and ign:
            return f"remove({n}, ignore_errors=True) of an absent member raised", same
    elif name == "ins":
        if got == "ok":
            return None, [(cur | {int(f[1])}, ordered, dup)]
    return None, same


def _oracle_x(case, ans):
    """What the property says about the option forms: an ordered view lists the members once each, ascending
    (descending when the range was built with reverse=True) in the cast that was asked for; append / remove act as set
    insert / delete whatever the flags (ignore_errors only silences the error, sort=False only gives up the order of
    iteration); accessors, refused calls and insert change nothing."""
    rt, rev = case["x"]["rt"], bool(case["x"]["rev"])
    want = ref_denote(case["text"])
    if rt != "int":
        if case["text"] != "" and not ans.startswith("err"):
            return [f"result_type {rt} accepted for a non-empty text"]
        if rt == "bad" and not ans.startswith("err"):
            return ["an invalid result_type was accepted"]
        if ans.startswith("err"):
            return []
        want = set()
    if want is None:
        return []
    if ans.startswith("err"):
        return [f"well-formed range text rejected with {ans}"]
    fields = ans.split("|")[1:]
    fails = []
    states = [(frozenset(want), True, None)]
    for op, got in zip(case["ops"], fields):
        nxt, msgs = [], []
        for st in states:
            msg, succ = _judge_x(st, op, got, rev, case["text"], rt == "int")
            if msg is None:
                nxt += [s for s in succ if s not in nxt]
            else:
                msgs.append((msg, succ))
        if nxt:
            states = nxt
            continue
        # no candidate state explains the answer
        msg, succ = ([m for m in msgs if m[1] is None] or msgs)[0]
        fails.append(msg)
        if succ is None:      # the known finding FC14a: the rest of this sequence is not judged
            return fails[:3]
        states = [s for _, ss in msgs for s in (ss or [])] or states
    return fails[:3]


def known_id(case, failure):
    # FC14a (append(member, ignore_errors=True) added the member a second time) is repaired (/repo aef5a7a): a
    # "duplicate-after-ignore" failure is an ordinary violation again
    return None


def oracle(case, ans):
    if "x" in case:
        return _oracle_x(case, ans)
    want = ref_denote(case["text"])
    if want is None:
        return []
    if ans.startswith("err"):
        return [f"well-formed range text rejected with {ans}"]
    fields = ans.split("|")[1:]
    fails = []
    cur = set(want)
    for op, got in zip(case["ops"], fields):
        name, _, arg = op.partition(":")
        if name == "len" and int(got) != len(cur):
            fails.append(f"len {got} != {len(cur)}")
        elif name in ("iter", "list", "set"):
            exp = wire.enc_nats(sorted(cur))
            if got != exp:
                fails.append(f"{name} view is {got[:80]} expected ascending {exp[:80]}")
        elif name == "cstr":
            exp = ref_compress(cur)
            s = wire.dec_str(got)
            if s != exp:
                fails.append(f"compressed string {s[:80]!r} expected canonical {exp[:80]!r}")
            elif ref_denote(s) != cur:
                fails.append("compressed string does not denote the same set")
        elif name == "rexp":
            if got != wire.enc_nats(sorted(cur)):
                fails.append(f"re-expanding the compressed string gives {got[:80]}")
        elif name == "has" and (got == "T") != (int(arg) in cur):
            fails.append(f"membership of {arg} is {got}")
        elif name == "app":
            if int(arg) in cur:
                if got == "ok":
                    fails.append(f"append of duplicate {arg} did not raise")
            else:
                if got != "ok":
                    fails.append(f"append of new member {arg} raised {got}")
                cur.add(int(arg))
        elif name == "rem":
            if int(arg) in cur:
                if got != "ok":
                    fails.append(f"remove of member {arg} raised")
                cur.discard(int(arg))
            elif got == "ok":
                fails.append(f"remove of absent {arg} did not raise")
    return fails[:3]
