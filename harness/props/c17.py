"""C17 — Cisco password helpers: type 7 decrypts to the original; type 5/8/9 have the Cisco format and verify."""
import base64
import contextlib
import functools
import hashlib
import hmac
import random
import re

import wire
from props.common import quiet_ccp

ID = "C17"
LEAN_MODULES = ["Ccp.Props.C17"]
RULE = ("passwords over printable ASCII (0x20..0x7e) minus {?, \"} and (mostly) minus the backslash, lengths biased to "
        "1, 2, 52, 53, 54, 106, 107, 126, 127, otherwise uniform in 1..127. ref7: every salt 0..52 x the biased lengths (quick) / "
        "x every length 1..127 (thorough) encoded by passlib cisco_type7.using(salt=k) and by an independent 6-line encoder "
        "(salts 53..99 by the latter only), then decoded by the library's decrypt_type_7. lib7: CiscoPassword.encrypt_type_7 "
        "with passlib's salt source replaced by random.Random(seed) so that each of its 16 salts is drawn repeatedly, plus one "
        "call with the untouched SystemRandom source per case. h5/h8/h9: encrypt_type_5/8/9 with random.seed(seed) "
        "(bounded number per run; the KDF answer sent to the model is computed by the harness with the parameters of the "
        "property statement). chk: accepted and rejected passwords (128/129/300 characters, '?', '\"', backslash, empty, "
        "non-ASCII). dec7: a malformed stream for the decoder (odd length, one missing digit, lower case, non-hex, signs, "
        "blanks, line feeds, non-numeric salt, two characters, empty) and the CiscoPassword(ep).decrypt_type_7() calling form, "
        "compared with the model only. dec8/dec9: decrypt_type_8 / decrypt_type_9 on well-formed $8$/$9$ hashes, type-7 strings, "
        "passwords and junk (they must never return a value; the exception class is compared with the model). "
        "non-trivial = a type-7 case whose key index wraps (salt + length > 53) or a type 5/8/9 hash; distinct by request line. "
        "Not generated: lone surrogates, non-ASCII decimal digits in a type-7 string. A NUL inside a type-5 password is generated "
        "(passlib raises ValueError, modelled). The oracle judges only inputs inside the property's quantifier (salts 0..52, "
        "passwords of length 1..127 over printable ASCII minus {?, \"}) plus the must-reject set; a stricter pwd_check "
        "(today: the backslash of the raw string r\"?\\\"\") is not reported.")
LEVEL_TEXT = ("Theorems (Lean 4, all inputs): the library's decrypt_type_7 walk over the table generated from its source inverts the "
              "reference type-7 encoder for every salt < 100 and every non-empty ASCII password (no length bound), hence for every "
              "password pwd_check accepts; the generated key table equals the well-known constant; pwd_check accepts exactly "
              "length <= 127 without a character of the generated set, which contains '?' and '\"'; the std->Cisco base64 map is a "
              "bijection of the 64 symbols; type 8/9 output is $k$ + 14 salt chars + $ + 43 Cisco-alphabet chars with the salt "
              "recoverable by splitting on '$'; the generated KDF parameters are sha256/20000/32 and 16384/1/1/32; "
              "decrypt_type_8 / decrypt_type_9 answer NotImplementedError for every argument (no plaintext is ever claimed for a one-way hash). "
              "PARTIAL: that the hash bytes are PBKDF2 / scrypt / MD5-crypt output is not proved (the KDF is an opaque parameter); "
              "every run recomputes each generated hash from its embedded salt with independent code and compares.")
LEVEL_NOTE = ("Trusted: Lean kernel; axioms propext/Classical.choice/Quot.sound only; the correspondence harness; passlib "
              "cisco_type7 is modelled completely and compared on every run; hashlib/scrypt/passlib md5_crypt are opaque in the "
              "model and only measured by recomputation. Proved about the model, measured against the code.")
EXHAUSTIVE = {"quick": False, "thorough": False}
ASSUMPTIONS = [
    "a CiscoPassword() built with the default ep='' (so `ep or self.ep` is ep)",
    "model int(s) / int(s, 16) on two-character strings = surrounding whitespace, optional sign, ASCII digits of the base "
    "(non-ASCII decimal digits, accepted by CPython, are not generated)",
    "type-7 round trip is claimed for ASCII passwords only: passlib encodes UTF-8 bytes and decrypt_type_7 decodes each byte "
    "as one character (the model reproduces this; outside the property's quantifier)",
    "the empty password is accepted by pwd_check and its type-7 encoding ('NN') makes decrypt_type_7 raise AttributeError "
    "(modelled and compared; outside the property's quantifier 'length 1..127')",
    "KDF outputs are supplied to the model by the harness (hashlib.pbkdf2_hmac / hashlib.scrypt / an MD5-crypt written here)",
]
TRUSTED = [
    "to make the library's salts reproducible the harness replaces passlib.utils.handlers.rng by random.Random(seed) and "
    "calls random.seed(seed) around each encrypt_type_5/7/8/9 call; one extra type-7 call per case uses the untouched source",
]

KEY = "dsfd;kfoA,.iyewrkldJKDHSUBsgvca69834ncxv9873254k;fg87"
STD64 = "ABCDEFGHIJKLMNOPQRSTUVWXYZabcdefghijklmnopqrstuvwxyz0123456789+/"
CISCO64 = "./0123456789ABCDEFGHIJKLMNOPQRSTUVWXYZabcdefghijklmnopqrstuvwxyz"
ALPHA = [chr(c) for c in range(0x20, 0x7F) if chr(c) not in '?"\\']
LENS = [1, 2, 52, 53, 54, 106, 107, 126, 127]
KINDS = ("chk", "dec7", "dec7o", "ref7", "lib7", "h5", "h8", "h9", "dec8", "dec9")


# ------------------------------------------------------------------ independent reference code (never calls the library)
def py_encode7(salt, pwd):
    return "%02d" % salt + "".join("%02X" % (b ^ ord(KEY[(salt + i) % 53])) for i, b in enumerate(pwd.encode()))


def py_decode7(ep):
    salt, raw = int(ep[:2]), bytes.fromhex(ep[2:])
    return "".join(chr(b ^ ord(KEY[(salt + i) % 53])) for i, b in enumerate(raw))


def cisco64(raw):
    return base64.b64encode(raw).decode().translate(str.maketrans(STD64, CISCO64)).rstrip("=")


@functools.lru_cache(maxsize=None)
def kdf8(pwd, salt):
    return hashlib.pbkdf2_hmac("sha256", pwd, salt, 20000, 32)


@functools.lru_cache(maxsize=None)
def kdf8_slow(pwd, salt):
    """PBKDF2-HMAC-SHA256, one 32-byte block, written out"""
    u = hmac.digest(pwd, salt + b"\x00\x00\x00\x01", "sha256")
    acc = int.from_bytes(u, "big")
    for _ in range(20000 - 1):
        u = hmac.digest(pwd, u, "sha256")
        acc ^= int.from_bytes(u, "big")
    return acc.to_bytes(32, "big")


@functools.lru_cache(maxsize=None)
def kdf9(pwd, salt):
    return hashlib.scrypt(pwd, salt=salt, n=16384, r=1, p=1, dklen=32)


@functools.lru_cache(maxsize=None)
def md5crypt(pw, salt):
    """MD5-crypt checksum (22 characters) from hashlib.md5"""
    md5 = hashlib.md5
    alt = md5(pw + salt + pw).digest()
    ctx = md5(pw + b"$1$" + salt)
    n = len(pw)
    while n > 0:
        ctx.update(alt[:min(16, n)])
        n -= 16
    i = len(pw)
    while i:
        ctx.update(b"\x00" if i & 1 else pw[:1])
        i >>= 1
    final = ctx.digest()
    for i in range(1000):
        c = md5()
        c.update(pw if i & 1 else final)
        if i % 3:
            c.update(salt)
        if i % 7:
            c.update(pw)
        c.update(final if i & 1 else pw)
        final = c.digest()
    out = []
    for a, b, c in ((0, 6, 12), (1, 7, 13), (2, 8, 14), (3, 9, 15), (4, 10, 5)):
        v = final[a] << 16 | final[b] << 8 | final[c]
        for _ in range(4):
            out.append(CISCO64[v & 0x3F])
            v >>= 6
    v = final[11]
    for _ in range(2):
        out.append(CISCO64[v & 0x3F])
        v >>= 6
    return "".join(out)


# ------------------------------------------------------------------ salt prediction (what the seeded sources will draw)
def predict_salt(kind, seed):
    r = random.Random(seed)
    if kind == "lib7":
        return r.randint(0, 15)
    if kind in ("h8", "h9"):
        return "".join(r.choice(CISCO64) for _ in range(14))
    if kind == "h5":
        from passlib.utils import getrandstr
        return getrandstr(r, CISCO64, 4)
    raise AssertionError(kind)


def mk(kind, pwd="", salt=0, seed=0, ep="", origin="gen"):
    c = {"kind": kind, "pwd": pwd, "salt": salt, "seed": seed, "ep": ep, "_origin": origin}
    if kind == "chk":
        c["req"] = wire.req("pwd", "chk", wire.enc_str(pwd))
    elif kind == "dec7":
        c["req"] = wire.req("pwd", "dec7", wire.enc_str(ep))
    elif kind in ("dec8", "dec9"):     # decrypt_type_8/9(ep): one-way hashes, nothing to decrypt
        c["req"] = wire.req("pwd", kind, wire.enc_str(ep))
    elif kind == "dec7o":       # CiscoPassword(pwd).decrypt_type_7(ep): `pwd` carries the constructor argument
        c["req"] = wire.req("pwd", "dec7o", wire.enc_str(pwd), wire.enc_str(ep))
    elif kind == "ref7":
        c["req"] = wire.req("pwd", "ref7", str(salt), wire.enc_str(pwd))
    elif kind == "lib7":
        c["salt"] = predict_salt(kind, seed)
        c["req"] = wire.req("pwd", "lib7", str(c["salt"]), wire.enc_str(pwd))
    elif kind in ("h8", "h9"):
        c["salt"] = predict_salt(kind, seed)
        raw = (kdf8 if kind == "h8" else kdf9)(pwd.encode(), c["salt"].encode())
        c["req"] = wire.req("pwd", kind, wire.enc_str(c["salt"]), wire.enc_str(pwd), wire.enc_nats(raw))
    elif kind == "h5":
        c["salt"] = predict_salt(kind, seed)
        chk = md5crypt(pwd.encode(), c["salt"].encode())
        c["req"] = wire.req("pwd", "h5", wire.enc_str(c["salt"]), wire.enc_str(pwd), wire.enc_str(chk))
    else:
        raise AssertionError(kind)
    return c


def from_corpus(c):
    return mk(c["kind"], c.get("pwd", ""), c.get("salt", 0), c.get("seed", 0), c.get("ep", ""), "corpus")


# ------------------------------------------------------------------ generators
def rand_len(rng):
    return rng.choice(LENS) if rng.random() < 0.6 else rng.randint(1, 127)


def rand_pwd(rng, n=None):
    n = rand_len(rng) if n is None else n
    return "".join(rng.choice(ALPHA) for _ in range(n))


def rejected_pwd(rng):
    r = rng.random()
    if r < 0.3:
        return rand_pwd(rng, rng.choice([128, 128, 129, 300]))
    p = list(rand_pwd(rng, rng.choice([1, 2, 5, 53, 126, 127])))
    bad = rng.choice(['?', '"', '\\']) if r < 0.9 else rng.choice(['?"', '\\?'])
    p[rng.randrange(len(p))] = bad[0]
    if len(bad) > 1:
        p.insert(rng.randrange(len(p) + 1), bad[1])
        p = p[:127] if rng.random() < 0.5 else p
    return "".join(p)


ODD = ["", "é", "passé", "€1", "\U0001F600", "a\x00b", "\x7f", "tab\there", "\n", "a\nb", "٣٤"]


def odd_pwd(rng):
    if rng.random() < 0.5:
        return rng.choice(ODD)
    p = list(rand_pwd(rng, rng.choice([1, 3, 40, 126, 127])))
    p[rng.randrange(len(p))] = rng.choice(["é", "Ж", "€", "\U0001F600", "\x00", "\x7f", "\t", "\n", "\x80", "\xff"])
    return "".join(p)


SALT_HEADS = ["xx", "-1", "+5", " 7", "7 ", "\t3", "99", "53", "52", "00", "1_", "_1", "0x", "--", "+-", "  ", "1\n", "\n1", "0b", "1e"]
JUNK = "0123456789ABCDEFabcdefgGxX+- _\t\n\r"


def malformed7(rng):
    r = rng.random()
    if r < 0.08:
        return rng.choice(["", "0", "07", "7", "xx", "\n", "\n\n", "070", "07\n", "07\n1", "0\n12", "07A", "0711\n", "07AB\nC", "07ABC\nxx"])
    ep = list(py_encode7(rng.randint(0, 99), rand_pwd(rng, rng.choice([1, 2, 3, 8, 53, 60]))))
    for _ in range(rng.choice([1, 1, 1, 2, 3])):
        op = rng.random()
        if op < 0.2 and ep:
            del ep[rng.randrange(len(ep))]
        elif op < 0.4:
            ep.insert(rng.randrange(len(ep) + 1), rng.choice(JUNK))
        elif op < 0.7 and ep:
            ep[rng.randrange(len(ep))] = rng.choice(JUNK)
        elif op < 0.8:
            ep[:2] = list(rng.choice(SALT_HEADS))
        elif op < 0.9:
            ep = list("".join(ep).lower())
        else:
            i = rng.randrange(2, len(ep) + 1)
            ep[i:i] = list(rng.choice(["-A", "+A", " A", "A ", "0x", "-0", "+0", "  ", "\nA", "G0"]))
    return "".join(ep)


def seeds_for(kind, rng, per_salt):
    """seeds whose predicted type-7 salt covers each of the 16 library salts `per_salt` times"""
    need = {k: per_salt for k in range(16)}
    while any(need.values()):
        s = rng.randrange(1 << 30)
        k = predict_salt(kind, s)
        if need[k]:
            need[k] -= 1
            yield s


def cases(rng, tier):
    q = tier != "thorough"
    # --- the reference encoder through the library's decoder: every salt
    for salt in range(53):
        lens = LENS + [rng.randint(1, 127) for _ in range(6)] if q else list(range(1, 128)) * 2 + LENS
        for n in lens:
            yield mk("ref7", rand_pwd(rng, n), salt=salt)
    for _ in range(60 if q else 2000):
        yield mk("ref7", rand_pwd(rng), salt=rng.randint(53, 99))
    for _ in range(40 if q else 1000):
        yield mk("ref7", odd_pwd(rng), salt=rng.randint(0, 52))
    # --- the library's encoder with each of its 16 salts
    for s in seeds_for("lib7", rng, 12 if q else 600):
        yield mk("lib7", rand_pwd(rng), seed=s)
    for _ in range(100 if q else 1500):
        yield mk("lib7", rejected_pwd(rng) if rng.random() < 0.6 else odd_pwd(rng), seed=rng.randrange(1 << 30))
    # --- pwd_check
    for _ in range(300 if q else 4000):
        yield mk("chk", rand_pwd(rng))
    for _ in range(300 if q else 4000):
        yield mk("chk", rejected_pwd(rng) if rng.random() < 0.7 else odd_pwd(rng))
    # --- decoder on malformed type-7 strings
    for _ in range(2000 if q else 60000):
        yield mk("dec7", ep=malformed7(rng))
    for _ in range(60 if q else 1500):
        good = py_encode7(rng.randint(0, 52), rand_pwd(rng, rng.choice([1, 2, 9, 60])))
        a, b = rng.choice([(good, ""), ("", good), (good, malformed7(rng)), (malformed7(rng), ""), ("", "")])
        yield mk("dec7o", pwd=a, ep=b)
    # --- decrypt_type_8 / decrypt_type_9: well-formed hashes, type-7 strings, passwords, junk
    for i in range(40 if q else 400):
        kind = "dec8" if i % 2 == 0 else "dec9"
        r = rng.random()
        if i < 4:
            ep = ["", "$8$", "$9$abc", "0822455D0A16"][i]
        elif r < 0.5:
            salt = "".join(rng.choice(CISCO64) for _ in range(14))
            ep = "$%s$%s$%s" % (rng.choice("89"), salt, cisco64(bytes(rng.randrange(256) for _ in range(32))))
        elif r < 0.7:
            ep = py_encode7(rng.randint(0, 52), rand_pwd(rng, rng.choice([1, 5, 20])))
        elif r < 0.85:
            ep = rand_pwd(rng, rng.choice([1, 8, 127]))
        else:
            ep = odd_pwd(rng) if rng.random() < 0.5 else rejected_pwd(rng)
        yield mk(kind, ep=ep)
    # --- hashes (bounded: each costs a KDF at generation, in the library and in the oracle)
    for kind, n in (("h5", 100 if q else 1500), ("h8", 60 if q else 800), ("h9", 60 if q else 800)):
        for i in range(n):
            r = rng.random() if i >= 6 else (0.9 if i < 4 else 0.99)     # a few rejected / odd ones in every run
            pwd = rand_pwd(rng) if r < 0.85 else (rejected_pwd(rng) if r < 0.93 else odd_pwd(rng))
            yield mk(kind, pwd, seed=rng.randrange(1 << 30))


def neighbours(case, rng):
    for _ in range(150):
        p = list(case["pwd"])
        r = rng.random()
        if r < 0.3 and p:
            del p[rng.randrange(len(p))]
        elif r < 0.6:
            p.insert(rng.randrange(len(p) + 1), rng.choice(ALPHA))
        k = case["kind"] if case["kind"] in ("ref7", "lib7", "chk") else "ref7"
        yield mk(k, "".join(p), salt=rng.randint(0, 52), seed=rng.randrange(1 << 30))
        if case["kind"] == "dec7":
            yield mk("dec7", ep=malformed7(rng))


def in_quantifier(pwd):
    """the property's input set: length 1..127 over printable ASCII minus {?, "}"""
    return 1 <= len(pwd) <= 127 and all(0x20 <= ord(c) <= 0x7E and c not in '?"' for c in pwd)


def must_reject(pwd):
    return len(pwd) > 127 or "?" in pwd or '"' in pwd


def nontrivial(case):
    k = case["kind"]
    if k in ("ref7", "lib7"):
        return in_quantifier(case["pwd"]) and "\\" not in case["pwd"] and int(case["salt"]) + len(case["pwd"]) > 53
    return k in ("h5", "h8", "h9") and in_quantifier(case["pwd"]) and "\\" not in case["pwd"]


def describe(case):
    d = {"kind": case["kind"]}
    if case["kind"] in ("dec7", "dec8", "dec9"):
        d["ep"] = case["ep"]
    elif case["kind"] == "dec7o":
        d["self_ep"], d["ep"] = case["pwd"], case["ep"]
    else:
        d["pwd"] = case["pwd"]
        if case["kind"] != "chk":
            d["salt"] = case["salt"]
        if case["kind"] not in ("chk", "ref7"):
            d["seed"] = case["seed"]
    return d


def buckets(case, ans):
    k = case["kind"]
    out = ["kind:" + k, "answer:" + (ans if ans.startswith("err") else "ok")]
    if k in ("dec8", "dec9"):
        out.append(k + "-arg:" + ("hash" if case["ep"].startswith("$") else "other"))
        return out
    if k in ("dec7", "dec7o"):
        out.append("dec7-len:" + ("odd" if len(case["ep"] or case["pwd"]) & 1 else "even"))
        return out
    n = len(case["pwd"])
    out.append("len:" + (str(n) if n in LENS or n in (0, 128) else "1-51" if n < 52 else "55-105" if n < 106 else "108-125" if n < 126 else ">128"))
    if k in ("ref7", "lib7"):
        s = int(case["salt"])
        out.append(f"{k}-salt:" + (str(s) if s < 53 else "53-99"))
    return out


# ------------------------------------------------------------------ implementation
@contextlib.contextmanager
def seeded(seed):
    import passlib.utils.handlers as uh
    old = uh.rng
    uh.rng = random.Random(seed)
    random.seed(seed)
    try:
        yield
    finally:
        uh.rng = old


def _call(fn, *a):
    try:
        return True, fn(*a)
    except Exception as e:  # noqa: BLE001  every exception class is an answer
        return False, "err:" + type(e).__name__


def _show(okv):
    ok, v = okv
    return wire.enc_str(v) if ok else v


def impl(case):
    quiet_ccp()
    from ciscoconfparse2.ciscoconfparse2 import CiscoPassword
    from passlib.hash import cisco_type7
    k = case["kind"]
    cp = CiscoPassword()
    if k == "chk":
        ok, v = _call(cp.pwd_check, case["pwd"])
        return "ok" if ok else v
    if k == "dec7":
        return _show(_call(cp.decrypt_type_7, case["ep"]))
    if k == "dec7o":
        return _show(_call(CiscoPassword(case["pwd"]).decrypt_type_7, case["ep"]))
    if k in ("dec8", "dec9"):
        return _show(_call(cp.decrypt_type_8 if k == "dec8" else cp.decrypt_type_9, case["ep"]))
    if k == "ref7":
        salt = int(case["salt"])
        enc = cisco_type7.using(salt=salt).hash(case["pwd"]) if salt <= 52 else py_encode7(salt, case["pwd"])
        return wire.enc_str(enc) + "|" + _show(_call(cp.decrypt_type_7, enc))
    if k == "lib7":
        with seeded(case["seed"]):
            ok, enc = _call(cp.encrypt_type_7, case["pwd"])
        if not ok:
            return enc
        dec = _call(cp.decrypt_type_7, enc)
        # once more with passlib's own (system) random source
        ok2, enc2 = _call(cp.encrypt_type_7, case["pwd"])
        rt = ok2 and re.fullmatch(r"(0\d|1[0-5])[0-9A-F]*", enc2) is not None and _call(cp.decrypt_type_7, enc2) == (True, case["pwd"])
        return wire.enc_str(enc) + "|" + _show(dec) + "|" + ("T" if rt else "F")
    if k in ("h5", "h8", "h9"):
        fn = {"h5": cp.encrypt_type_5, "h8": cp.encrypt_type_8, "h9": cp.encrypt_type_9}[k]
        with seeded(case["seed"]):
            return _show(_call(fn, case["pwd"]))
    raise AssertionError(k)


# ------------------------------------------------------------------ oracle (independent of the Lean model)
FMT = {
    "h5": re.compile(r"\$1\$([./0-9A-Za-z]{4})\$([./0-9A-Za-z]{22})"),
    "h8": re.compile(r"\$8\$([./0-9A-Za-z]{14})\$([./0-9A-Za-z]{43})"),
    "h9": re.compile(r"\$9\$([./0-9A-Za-z]{14})\$([./0-9A-Za-z]{43})"),
}


def oracle(case, ans):
    k, pwd = case["kind"], case["pwd"]
    fails = []
    if k in ("dec8", "dec9"):
        # type 8 / 9 are one-way: whatever comes back as a value would be a made-up plaintext
        # (which exception is raised is compared with the model only)
        if not ans.startswith("err:"):
            fails.append(f"decrypt_type_{k[3]} returned a value ({ans[:40]}) for a one-way hash")
        return fails
    if k in ("dec7", "dec7o"):
        return fails
    if k != "ref7" and must_reject(pwd):
        if ans != "err:InvalidPassword":
            fails.append(f"a password that must be rejected (length {len(pwd)}, '?' or '\"') was answered {ans[:60]}")
        return fails
    if not in_quantifier(pwd):
        return fails
    if k == "chk":
        return fails
    if ans.startswith("err:"):
        if ans == "err:InvalidPassword" and k != "ref7":
            return fails            # a stricter pwd_check (e.g. the backslash) is not against the statement
        if k == "ref7" and int(case["salt"]) > 52:
            return fails
        return [f"{k} raised {ans} for an accepted password"]
    if k == "ref7":
        if int(case["salt"]) > 52:
            return fails            # only 0..52 are "possible salts"; 53..99 are compared with the model only
        enc, dec = ans.split("|")
        if wire.dec_str(enc) != py_encode7(int(case["salt"]), pwd):
            fails.append("passlib's type-7 encoding differs from the independent encoder")
        if dec.startswith("err") or wire.dec_str(dec) != pwd:
            fails.append(f"decrypt_type_7 of a reference encoding with salt {case['salt']} is {dec[:80]}, not the plaintext")
    elif k == "lib7":
        enc, dec, rt = ans.split("|")
        e = wire.dec_str(enc)
        if not re.fullmatch(r"(0\d|1[0-5])([0-9A-F]{2})+", e):
            fails.append(f"encrypt_type_7 output {e[:40]!r} is not <2-digit salt 00..15><upper-case hex pairs>")
        elif py_decode7(e) != pwd:
            fails.append("encrypt_type_7 output does not decode to the password with the independent decoder")
        if dec.startswith("err") or wire.dec_str(dec) != pwd:
            fails.append(f"decrypt_type_7(encrypt_type_7(p)) is {dec[:80]}, not p")
        if rt != "T":
            fails.append("decrypt_type_7(encrypt_type_7(p)) != p with passlib's own random salt")
    else:
        out = wire.dec_str(ans)
        m = FMT[k].fullmatch(out)
        if not m:
            return [f"encrypt_type_{k[1]} output {out!r} does not have the Cisco format"]
        parts = out.split("$")
        if parts[:2] != ["", {"h5": "1", "h8": "8", "h9": "9"}[k]] or parts[2] != m.group(1) or len(parts) != 4:
            fails.append("salt is not recoverable by splitting on '$'")
        salt, h = m.group(1).encode(), m.group(2)
        if k == "h8":
            if cisco64(kdf8(pwd.encode(), salt)) != h:
                fails.append("type 8 hash is not PBKDF2-HMAC-SHA256(20000 rounds, 32 bytes) of the embedded salt in Cisco base64")
            elif case["seed"] % 4 == 0 and kdf8_slow(pwd.encode(), salt) != kdf8(pwd.encode(), salt):
                fails.append("hashlib.pbkdf2_hmac differs from the written-out PBKDF2")
        elif k == "h9":
            if cisco64(kdf9(pwd.encode(), salt)) != h:
                fails.append("type 9 hash is not scrypt(N=16384, r=1, p=1, 32 bytes) of the embedded salt in Cisco base64")
        else:
            from passlib.hash import md5_crypt
            if md5crypt(pwd.encode(), salt) != h:
                fails.append("type 5 hash is not MD5-crypt of the embedded salt")
            if not md5_crypt.verify(pwd, out):
                fails.append("type 5 hash does not verify with passlib md5_crypt")
    return fails[:3]
