"""Which lines / branches of the code a property is anchored in does its quick-tier correspondence run execute?

Not a check.  A generator blind spot (an anchored line no generated case executes) is where a bad change can hide, so
this report is used to decide which streams to add.  usage: covreport.py C07 [C08 ...]  (serial run, quick generator,
at most VERIF_COV_CASES cases, default 4000).  Writes notes/coverage/<id>.json and prints the uncovered anchored lines.
"""
import ast
import importlib
import json
import os
import random
import sys

HERE = os.path.dirname(os.path.abspath(__file__))
VERIF = os.path.dirname(HERE)
sys.path.insert(0, HERE)
REPO = os.environ.get("CCP2_REPO", "/repo")

import coverage  # noqa: E402
import fingerprint  # noqa: E402


def spans(fn):
    text = open(os.path.join(REPO, fn), encoding="utf-8").read()
    tree = ast.parse(text)
    out = {}
    for name, node, a, b in fingerprint._units(tree):
        out.setdefault(name, []).append((a, b))
    return out, text.split("\n")


def main():
    props = sys.argv[1:]
    limit = int(os.environ.get("VERIF_COV_CASES", "4000"))
    store = json.load(open(fingerprint.STORE))
    os.makedirs(os.path.join(VERIF, "notes", "coverage"), exist_ok=True)
    for prop in props:
        mod = importlib.import_module("props." + prop.lower())
        cov = coverage.Coverage(branch=True, include=[os.path.join(REPO, "ciscoconfparse2", "*")], data_file=None)
        cases = []
        cdir = os.path.join(HERE, "corpus", prop)
        if os.path.isdir(cdir):
            for fnm in sorted(os.listdir(cdir)):
                if fnm.endswith(".json"):
                    data = json.load(open(os.path.join(cdir, fnm)))
                    for c in (data if isinstance(data, list) else [data]):
                        cases.append(mod.from_corpus(c) if hasattr(mod, "from_corpus") else c)
        for c in mod.cases(random.Random(f"{prop}-0"), "quick"):
            cases.append(c)
        if len(cases) > limit:
            rng = random.Random(1)
            cases = rng.sample(cases, limit)
        cov.start()
        n_err = 0
        for c in cases:
            try:
                mod.impl(c)
            except BaseException:  # noqa: BLE001
                n_err += 1
        cov.stop()
        report = {"property": prop, "cases": len(cases), "impl_exceptions": n_err, "functions": {}}
        for fn, names in store["anchored"].get(prop, {}).items():
            path = os.path.join(REPO, fn)
            try:
                _, statements, excluded, missing, _ = cov.analysis2(path)
            except Exception as e:  # noqa: BLE001
                report["functions"][fn] = {"error": str(e)}
                continue
            an = cov._analyze(path)
            try:
                partial = {a for a, bs in an.missing_branch_arcs().items()}
            except Exception:  # noqa: BLE001
                partial = set()
            sp, lines = spans(fn)
            for name in names:
                if name.startswith("=") or ".=" in name:
                    continue
                for a, b in sp.get(name, []):
                    st = [x for x in statements if a <= x <= b]
                    ms = [x for x in missing if a <= x <= b]
                    pb = sorted(x for x in partial if a <= x <= b and x not in ms)
                    if not st:
                        continue
                    report["functions"][f"{fn.split('/')[-1]}:{name}:{a}"] = {
                        "statements": len(st), "missed": len(ms), "missed_lines": ms, "partial_branches": pb}
        with open(os.path.join(VERIF, "notes", "coverage", prop + ".json"), "w") as fh:
            json.dump(report, fh, indent=1)
        tot = sum(f.get("statements", 0) for f in report["functions"].values())
        mis = sum(f.get("missed", 0) for f in report["functions"].values())
        print(f"== {prop}: {len(cases)} cases, anchored statements {tot}, never executed {mis}")
        file_lines = {}
        for key, f in report["functions"].items():
            if f.get("missed") or f.get("partial_branches"):
                fnm = key.split(":")[0]
                if fnm not in file_lines:
                    file_lines[fnm] = open(os.path.join(REPO, "ciscoconfparse2", fnm), encoding="utf-8").read().split("\n")
                print(f"  {key}: missed {f['missed']}/{f['statements']}  partial branches at {f['partial_branches'][:12]}")
                for ln in f["missed_lines"][:14]:
                    print(f"      {ln}: {file_lines[fnm][ln - 1].strip()[:110]}")


if __name__ == "__main__":
    main()
