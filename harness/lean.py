"""Build, audit and drive the Lean side."""
import fcntl
import os
import re
import subprocess
import time

VERIF = os.path.dirname(os.path.dirname(os.path.abspath(__file__)))
LEAN_DIR = os.path.join(VERIF, "lean")
DRIVER = os.path.join(LEAN_DIR, ".lake", "build", "bin", "ccpdrv")
ALLOWED_AXIOMS = {"propext", "Classical.choice", "Quot.sound"}
FORBIDDEN = re.compile(
    r"\bsorry\b|\badmit\b|^\s*axiom\s|native_decide|bv_decide|implemented_by|\bunsafe\s|maxHeartbeats\s+0|@\[extern"
)


class BuildResult:
    def __init__(self):
        self.ok = True
        self.failed_targets = []
        self.log = ""
        self.wall_s = 0.0


def _lock():
    path = os.path.join(LEAN_DIR, ".build.lock")
    fh = open(path, "w")
    fcntl.flock(fh, fcntl.LOCK_EX)
    return fh


def build(targets):
    """`lake build <targets>` one target at a time so that a failure is attributed."""
    res = BuildResult()
    t0 = time.time()
    lock = _lock()
    try:
        for tgt in targets:
            p = subprocess.run(
                ["lake", "build", tgt], cwd=LEAN_DIR, capture_output=True, text=True
            )
            if p.returncode != 0:
                res.ok = False
                res.failed_targets.append(tgt)
                res.log += f"--- lake build {tgt} (exit {p.returncode})\n" + p.stdout[-6000:] + p.stderr[-2000:]
    finally:
        lock.close()
    res.wall_s = time.time() - t0
    return res


def strip_comments(src: str) -> str:
    """Remove `--` line comments and (nested) `/- -/` block comments."""
    out = []
    i, depth, n = 0, 0, len(src)
    while i < n:
        if src.startswith("/-", i):
            depth += 1
            i += 2
        elif depth and src.startswith("-/", i):
            depth -= 1
            i += 2
        elif depth:
            if src[i] == "\n":
                out.append("\n")
            i += 1
        elif src.startswith("--", i):
            while i < n and src[i] != "\n":
                i += 1
        else:
            out.append(src[i])
            i += 1
    return "".join(out)


def module_path(mod: str) -> str:
    return os.path.join(LEAN_DIR, *mod.split(".")) + ".lean"


def imports_closure(mod: str, seen=None):
    """All `Ccp.*` modules reachable from `mod` (source-level scan)."""
    seen = seen if seen is not None else set()
    if mod in seen or not mod.startswith("Ccp"):
        return seen
    path = module_path(mod)
    if not os.path.exists(path):
        return seen
    seen.add(mod)
    for m in re.findall(r"^\s*import\s+(\S+)", open(path).read(), flags=re.M):
        imports_closure(m, seen)
    return seen


def grep_forbidden(mods):
    hits = []
    for mod in sorted(mods):
        src = strip_comments(open(module_path(mod)).read())
        for ln, line in enumerate(src.split("\n"), 1):
            if FORBIDDEN.search(line):
                hits.append(f"{mod}:{ln}: {line.strip()}")
    return hits


def theorems_of(mod: str):
    """Fully qualified names of the theorems stated in a Props module."""
    src = strip_comments(open(module_path(mod)).read())
    names = []
    ns = []
    for line in src.split("\n"):
        m = re.match(r"\s*namespace\s+(\S+)", line)
        if m:
            ns.append(m.group(1))
            continue
        m = re.match(r"\s*end\s+(\S+)", line)
        if m and ns and ns[-1] == m.group(1):
            ns.pop()
            continue
        m = re.match(r"\s*(?:@\[[^\]]*\]\s*)?(?:private\s+|protected\s+)?theorem\s+(\S+)", line)
        if m:
            names.append(".".join(ns + [m.group(1)]))
    return names


def audit(mod: str):
    """`#print axioms` for every theorem of `mod`; returns (per-theorem axioms, problems)."""
    names = theorems_of(mod)
    src = f"import {mod}\n" + "".join(f"#print axioms {n}\n" for n in names)
    p = subprocess.run(
        ["lake", "env", "lean", "--stdin"], cwd=LEAN_DIR, input=src, capture_output=True, text=True
    )
    out = p.stdout + p.stderr
    per = {}
    problems = []
    # "'name' depends on axioms: [a, b]"  /  "'name' does not depend on any axioms"
    for m in re.finditer(r"'([^']+)' depends on axioms: \[([^\]]*)\]", out, flags=re.S):
        per[m.group(1)] = sorted(a.strip() for a in m.group(2).replace("\n", " ").split(",") if a.strip())
    for m in re.finditer(r"'([^']+)' does not depend on any axioms", out):
        per[m.group(1)] = []
    for n in names:
        if n not in per:
            problems.append(f"no axiom report for {n}")
        else:
            extra = set(per[n]) - ALLOWED_AXIOMS
            if extra:
                problems.append(f"{n} depends on {sorted(extra)}")
    if p.returncode != 0 and not problems:
        problems.append("audit run failed: " + out[-800:])
    return names, per, problems


def run_driver(lines):
    """Pipe request lines to the compiled driver; one answer line per request."""
    if not lines:
        return []
    data = "\n".join(lines) + "\n"
    p = subprocess.run([DRIVER], input=data.encode(), capture_output=True)
    if p.returncode != 0:
        raise RuntimeError("driver failed: " + p.stderr.decode()[-2000:])
    out = p.stdout.decode().split("\n")
    if out and out[-1] == "":
        out.pop()
    if len(out) != len(lines):
        raise RuntimeError(f"driver answered {len(out)} lines for {len(lines)} requests")
    return out


def leanchecker(mods):
    """Independent re-check of the compiled .olean files (thorough tier)."""
    t0 = time.time()
    p = subprocess.run(["lake", "env", "leanchecker"] + list(mods), cwd=LEAN_DIR, capture_output=True, text=True)
    return p.returncode == 0, (p.stdout + p.stderr)[-1500:], time.time() - t0
