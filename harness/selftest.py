"""Regression of the checks themselves: every stored seeded change must be reported, every stored harmless refactor
must pass.  Not a registered check (it edits nothing under /repo: each patch is applied to a scratch worktree of /repo
under /tmp and removed afterwards; the checks run in a scratch worktree of /verif so that evidence and generated tables
of /verif are left alone).

usage: selftest.py [--verif-wt DIR] [--only ID ...] [--kind seeded|harmless|edits|all] [--jobs N]
writes notes/selftest_result.json (one row per patch) and prints a summary.

kind `edits` (constant_edits/<id>/patch.diff + meta.json): a one-character edit of a table / constant / regex of /repo.
meta.json names the properties that must report it (`reported_by`: exit 1 with a VIOLATION line — a failing input, or
`no-failing-input-found` with the broken theorem in the replay) and properties that do not import the table and must
stay quiet (`quiet_for`: exit 0); one row per (edit, property).
"""
import argparse
import concurrent.futures
import json
import os
import subprocess
import sys
import time

HERE = os.path.dirname(os.path.abspath(__file__))
VERIF = os.path.dirname(HERE)


def sh(cmd, **kw):
    return subprocess.run(cmd, shell=True, capture_output=True, text=True, **kw)


def one(kind, sid, vwt, slot, prop=None, expect=None):
    d = os.path.join(VERIF, "constant_edits" if kind == "edits" else kind, sid)
    patch = os.path.join(d, "patch.diff")
    prop = prop or sid[:3]
    if kind == "seeded":
        try:
            prop = json.load(open(os.path.join(d, "meta.json"))).get("property", prop)
            # a change whose manifestation belongs to another property's clause is checked there
            prop = json.load(open(os.path.join(d, "meta.json"))).get("selftest_property", prop)
        except Exception:  # noqa: BLE001
            pass
    # unique per run: two selftest runs at the same time must not share (and remove!) each other's scratch trees — a check
    # whose tree vanished imported /repo instead (the editable install is last on sys.path) and ended with the
    # "imported from /repo, expected …" assertion of props.common
    wt = os.environ.get("SELFTEST_REPO_PREFIX", f"/tmp/selftest-repo-{os.getpid()}-") + str(slot)
    sh(f"git -C /repo worktree remove --force {wt}")
    r = sh(f"git -C /repo worktree add -q --detach {wt} HEAD && git -C {wt} apply {patch}")
    if r.returncode != 0:
        sh(f"git -C /repo worktree remove --force {wt}")
        return {"id": sid, "kind": kind, "property": prop, "result": "patch-does-not-apply", "detail": r.stderr[-300:]}
    t0 = time.time()
    p = sh(f"cd {vwt} && CCP2_REPO={wt} /venv/bin/python harness/check.py {prop}")
    wall = round(time.time() - t0, 1)
    lines = [l for l in p.stdout.split("\n") if l.startswith("VIOLATION") or l.startswith("HARNESS")]
    sh(f"git -C /repo worktree remove --force {wt}")
    vio = [l for l in lines if l.startswith("VIOLATION")]
    row = {"id": sid, "kind": kind, "property": prop, "exit": p.returncode, "wall_s": wall,
           "line": (lines[0][:200] if lines else "")}
    if kind == "edits":
        row["id"] = f"{sid}@{prop}"
        row["expect"] = expect
        if expect == "report":
            row["result"] = "caught" if (p.returncode == 1 and vio) else "MISSED"
            if vio and vio[0].rstrip().endswith("no-failing-input-found"):
                row["result"] = "caught-without-input"
        else:
            row["result"] = "quiet" if p.returncode == 0 and not lines else "FALSE-ALARM"
    elif kind == "seeded":
        row["result"] = "caught" if (p.returncode == 1 and vio) else "MISSED"
        if vio and vio[0].rstrip().endswith("no-failing-input-found"):
            row["result"] = "caught-without-input"
    else:
        row["result"] = "quiet" if p.returncode == 0 and not lines else (
            "alarm-without-input" if vio and vio[0].rstrip().endswith("no-failing-input-found") else "FALSE-ALARM")
    return row


def main():
    ap = argparse.ArgumentParser()
    ap.add_argument("--verif-wt", default="/tmp/vseed2")
    ap.add_argument("--only", nargs="*")
    ap.add_argument("--kind", default="all")
    ap.add_argument("--jobs", type=int, default=1)
    a = ap.parse_args()
    todo = []
    if a.kind in ("all", "edits"):
        base = os.path.join(VERIF, "constant_edits")
        for sid in sorted(os.listdir(base)) if os.path.isdir(base) else []:
            if a.only and sid not in a.only:
                continue
            try:
                meta = json.load(open(os.path.join(base, sid, "meta.json")))
            except Exception:  # noqa: BLE001
                continue
            for prop in meta.get("reported_by", []):
                todo.append(("edits", sid, prop, "report"))
            for prop in meta.get("quiet_for", []):
                todo.append(("edits", sid, prop, "quiet"))
    for kind in ("seeded", "harmless"):
        if a.kind not in ("all", kind):
            continue
        base = os.path.join(VERIF, kind)
        for sid in sorted(os.listdir(base)) if os.path.isdir(base) else []:
            if a.only and sid not in a.only:
                continue
            if os.path.exists(os.path.join(base, sid, "patch.diff")):
                todo.append((kind, sid))
    # one scratch worktree of /verif per job (a check rewrites generated Lean tables from the changed tree)
    wts = [a.verif_wt] if a.jobs == 1 else [f"{a.verif_wt}-{k}" for k in range(a.jobs)]
    for k, w in enumerate(wts):
        if not os.path.isdir(w):
            sh(f"git -C {VERIF} worktree add -q --detach {w} HEAD && cp -r {VERIF}/lean/.lake {w}/lean/.lake")
        sh(f"cd {w} && git checkout -q -f --detach $(git -C {VERIF} rev-parse HEAD) && /venv/bin/python harness/setup.py")
    # simple, safe scheduling: run each slot's list sequentially in its own thread
    rows = []

    def run_slot(k):
        out = []
        for n, item in enumerate(todo):
            if n % a.jobs == k:
                r = one(item[0], item[1], wts[k], k, *item[2:])
                print(json.dumps(r), flush=True)
                out.append(r)
        return out
    with concurrent.futures.ThreadPoolExecutor(a.jobs) as ex:
        for out in ex.map(run_slot, range(a.jobs)):
            rows += out
    rows.sort(key=lambda r: (r["kind"], r["id"]))
    res = {"verif_head": sh(f"git -C {VERIF} rev-parse HEAD").stdout.strip(), "rows": rows}
    with open(os.path.join(VERIF, "notes", "selftest_result.json"), "w") as fh:
        json.dump(res, fh, indent=1)
    bad = [r for r in rows if r["result"] in ("MISSED", "FALSE-ALARM", "patch-does-not-apply")]
    print(f"{len(rows)} patches; {sum(1 for r in rows if r['result'].startswith('caught'))} caught, "
          f"{sum(1 for r in rows if r['result'] == 'quiet')} quiet, "
          f"{sum(1 for r in rows if r['result'] == 'alarm-without-input')} harmless refactors reported without a failing input, "
          f"{len(bad)} bad: {[r['id'] for r in bad]}")
    sys.exit(1 if bad else 0)


if __name__ == "__main__":
    main()
