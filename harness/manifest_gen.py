"""Regenerate /verif/MANIFEST.json from the property modules that exist (claimed) and the
NOT_CLAIMED table below (not_applicable, each with a reason)."""
import importlib
import json
import os
import sys

HERE = os.path.dirname(os.path.abspath(__file__))
VERIF = os.path.dirname(HERE)
sys.path.insert(0, HERE)

ALL = [f"C{n:02d}" for n in range(1, 21)]
NOT_YET = "no check registered yet: the Lean model / correspondence for this property is still being built (see DESIGN.md section 5)"


def main():
    checks, na = [], []
    for pid in ALL:
        path = os.path.join(HERE, "props", pid.lower() + ".py")
        if not os.path.exists(path):
            na.append({"property_id": pid, "reason": NOT_YET})
            continue
        mod = importlib.import_module("props." + pid.lower())
        if getattr(mod, "NOT_CLAIMED", None):
            na.append({"property_id": pid, "reason": mod.NOT_CLAIMED})
            continue
        checks.append({
            "property_id": pid,
            "quick_cmd": f"/venv/bin/python harness/check.py {pid} --tier quick",
            "thorough_cmd": f"/venv/bin/python harness/check.py {pid} --tier thorough",
            "evidence_file": f"/verif/evidence/{pid}.json",
            "replay_cmd_template": f"/venv/bin/python harness/check.py {pid} --replay {{path}}",
            "engine": "lean4-proof+correspondence",
            "level_claimed": {
                "category": "proof",
                "text": mod.LEVEL_TEXT,
                "design_ref": f"DESIGN.md section 5, {pid}",
            },
            "level_note": mod.LEVEL_NOTE,
            "technique": getattr(mod, "TECHNIQUE", "Lean 4 theorems over a hand-written executable model, tied to /repo by a differential correspondence check and regenerated tables"),
        })
    manifest = {
        "version": 1,
        "setup_cmd": "cd /verif && /venv/bin/python harness/setup.py",
        "hooks": {
            "guard": "CCP2_VERIF",
            "enable": "no source hooks are needed: every observation goes through the public API of /repo, which the harness imports in-process (sys.path[0] = /repo); CCP2_VERIF=1 is exported by harness/check.py but nothing in /repo reads it",
            "baseline_off_cmd": "cd /repo && /venv/bin/python -m pytest -ra -q -p no:cacheprovider --timeout=900 --continue-on-collection-errors",
            "source_commits": [],
            "add_only": True,
        },
        "engines": [{
            "name": "lean4-proof+correspondence",
            "path": "/verif/harness/check.py",
            "serves_properties": [c["property_id"] for c in checks],
            "kind_free_text": "Lean 4.33 library lean/Ccp (models, specs, property theorems; axioms audited on every run) + native model driver ccpdrv + Python differential harness that runs /repo's code and the model on the same generated inputs and an independent property oracle used only to search for failing inputs",
        }],
        "checks": checks,
        "not_applicable": na,
        "notes": "See DESIGN.md. Known findings: known_findings.json. `fix:` commits in /repo are listed there as kind=fixed.",
    }
    with open(os.path.join(VERIF, "MANIFEST.json"), "w") as fh:
        json.dump(manifest, fh, indent=1)
    print(len(checks), "claimed;", len(na), "not claimed")


if __name__ == "__main__":
    main()
