"""Line protocol shared with lean/Ccp/Wire.lean (see DESIGN.md appendix A)."""


def enc_str(s: str) -> str:
    return "s" + ".".join(str(ord(c)) for c in s)


def dec_str(w: str) -> str:
    assert w.startswith("s"), w
    if w == "s":
        return ""
    return "".join(chr(int(x)) for x in w[1:].split("."))


def enc_strs(items) -> str:
    return " ".join(enc_str(s) for s in items)


def dec_strs(w: str):
    if w == "":
        return []
    return [dec_str(x) for x in w.split(" ")]


def enc_nats(items) -> str:
    return ",".join(str(int(i)) for i in items)


def req(*fields) -> str:
    for f in fields:
        assert "\t" not in f and "\n" not in f, repr(f)
    return "\t".join(fields)


def wire_safe(s: str) -> bool:
    """Lean `Char` cannot hold a surrogate code point."""
    return all(not (0xD800 <= ord(c) <= 0xDFFF) for c in s)
