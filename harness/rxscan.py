"""Regex / separator constants of /repo's source for the hand-written scanners of the Lean models.

Used by harness/translate.py (`tables`).  AST only: nothing of /repo is imported or executed.

Every model that scans for a FIXED regular expression of the source (a token matcher written by hand for
that one pattern) is tied to the pattern's text here: the pattern is read from the source, written into
lean/Ccp/Gen/Tables.lean, and the theorem `Ccp.RxCxx.regexes_as_modelled` states that it equals the literal
the scanner was written for.  An edit of the pattern in /repo therefore breaks a proof obligation of exactly
the properties whose model scans for it.

What is extracted
-----------------
* a *string constant expression*: a `str` literal, implicit / `+` concatenation, an f-string, `"…".format(…)`,
  `"…" % (…)`, `re.escape(…)`, or a name bound (once, or always to the same value) to such an expression in the
  enclosing function, class or module;
* a *compiled pattern*: `re.compile(<string constant expression>[, flags])`, possibly through a name; the flags
  are emitted with the pattern (canonical long names joined by `|`);
* the *scan list of a function*: every regex call (`re.search/match/fullmatch/split/sub/subn/findall/finditer/
  compile`, `<compiled constant>.<same>`, and the ciscoconfparse2 helpers `re_match`, `re_search`,
  `re_match_typed`, `re_match_iter_typed`, `re_list_iter_typed`, `re_search_children`, … = every method whose name
  starts with `re_`), every `str.split / rsplit / partition / rpartition / startswith / endswith / replace / join`
  with literal arguments, and every comparison / membership test against a `str` literal or a list / tuple / set
  of `str` literals, in source order, as triples `(callee, text, detail)`.

A pattern compiled with `re.VERBOSE` is emitted in its *canonical verbose form* (`strip_verbose`: white space
and `#` comments outside character classes removed, exactly what `re`'s parser skips), so that re-indenting it
or editing a comment inside it changes nothing, while any change of the pattern proper does.

Anything that cannot be found or is not such a constant is raised as an exception: `translate.emit` turns it
into a translator PROBLEM (a broken obligation), never a silent skip.
"""
import ast
import re as _re

RE_FUNCS = {"search", "match", "fullmatch", "split", "sub", "subn", "findall", "finditer", "compile"}
STR_FUNCS = {"split", "rsplit", "partition", "rpartition", "startswith", "endswith", "replace", "join",
             "strip", "lstrip", "rstrip", "splitlines", "find", "index", "count"}
FLAG_NAMES = {
    "I": "IGNORECASE", "IGNORECASE": "IGNORECASE", "X": "VERBOSE", "VERBOSE": "VERBOSE",
    "M": "MULTILINE", "MULTILINE": "MULTILINE", "S": "DOTALL", "DOTALL": "DOTALL",
    "A": "ASCII", "ASCII": "ASCII", "L": "LOCALE", "LOCALE": "LOCALE", "U": "UNICODE", "UNICODE": "UNICODE",
    "NOFLAG": None,
}
DYNAMIC = "<dynamic>"


class NotConstant(Exception):
    pass


def strip_verbose(p):
    """canonical form of a pattern that is compiled with re.VERBOSE: what sre_parse skips is removed
    (white space and `#…end of line` outside a character class, unless escaped)"""
    out = []
    i, n, in_cls = 0, len(p), False
    while i < n:
        c = p[i]
        if c == "\\" and i + 1 < n:
            out.append(p[i:i + 2])
            i += 2
            continue
        if in_cls:
            out.append(c)
            if c == "]":
                in_cls = False
            i += 1
            continue
        if c == "[":
            in_cls = True
            out.append(c)
            i += 1
            # a `]` (after an optional `^`) directly behind `[` is a literal member
            if i < n and p[i] == "^":
                out.append("^")
                i += 1
            if i < n and p[i] == "]":
                out.append("]")
                i += 1
            continue
        if c in " \t\n\r\f\v":
            i += 1
            continue
        if c == "#":
            while i < n and p[i] != "\n":
                i += 1
            continue
        out.append(c)
        i += 1
    return "".join(out)


def _own_nodes(func):
    """all nodes of a function body in source order (nested functions included)"""
    nodes = [n for n in ast.walk(func) if hasattr(n, "lineno")]
    nodes.sort(key=lambda n: (n.lineno, n.col_offset, -(getattr(n, "end_lineno", n.lineno) or 0),
                              -(getattr(n, "end_col_offset", 0) or 0)))
    return nodes


class Scope:
    """name lookup: the function's own assignments and parameter defaults are NOT constants unless every binding of
    the name in that function is a string constant expression with one and the same value; then the class body;
    then the module's top level (also inside top-level if / try)"""

    def __init__(self, module, cls=None, func=None, loader=None):
        self.module, self.cls, self.func, self.loader = module, cls, func, loader

    @staticmethod
    def _bindings(nodes, name):
        out = []
        for n in nodes:
            if isinstance(n, ast.Assign):
                for t in n.targets:
                    if isinstance(t, ast.Name) and t.id == name:
                        out.append(n.value)
                    elif isinstance(t, (ast.Tuple, ast.List)) and any(isinstance(e, ast.Name) and e.id == name for e in t.elts):
                        out.append(None)
            elif isinstance(n, ast.AnnAssign) and isinstance(n.target, ast.Name) and n.target.id == name:
                out.append(n.value)
            elif isinstance(n, ast.AugAssign) and isinstance(n.target, ast.Name) and n.target.id == name:
                out.append(None)
            elif isinstance(n, (ast.For, ast.comprehension)) and any(
                    isinstance(e, ast.Name) and e.id == name for e in ast.walk(n.target)):
                out.append(None)
            elif isinstance(n, ast.NamedExpr) and n.target.id == name:
                out.append(n.value)
            elif isinstance(n, (ast.With,)):
                for it in n.items:
                    if it.optional_vars is not None and any(
                            isinstance(e, ast.Name) and e.id == name for e in ast.walk(it.optional_vars)):
                        out.append(None)
        return out

    @staticmethod
    def _toplevel(node):
        for ch in getattr(node, "body", []):
            if isinstance(ch, (ast.FunctionDef, ast.AsyncFunctionDef, ast.ClassDef)):
                continue
            yield ch
            if isinstance(ch, (ast.If, ast.Try, ast.With)):
                for part in ("body", "orelse", "finalbody"):
                    holder = ast.Module(body=getattr(ch, part, []) or [], type_ignores=[])
                    yield from Scope._toplevel(holder)
                for h in getattr(ch, "handlers", []) or []:
                    yield from Scope._toplevel(h)

    def lookup(self, name):
        """(value nodes bound to `name` in the innermost scope that binds it (None = a non-constant binding),
        the scope in which these nodes are to be evaluated, a word saying where)"""
        if self.func is not None:
            params = [a.arg for a in self.func.args.posonlyargs + self.func.args.args + self.func.args.kwonlyargs]
            if self.func.args.vararg:
                params.append(self.func.args.vararg.arg)
            if self.func.args.kwarg:
                params.append(self.func.args.kwarg.arg)
            if name in params:
                return [None], self, "parameter"
            b = self._bindings(list(ast.walk(self.func)), name)
            if b:
                return b, self, "function"
        if self.cls is not None:
            b = self._bindings(list(self._toplevel(self.cls)), name)
            if b:
                return b, Scope(self.module, self.cls, None, self.loader), "class"
        top = list(self._toplevel(self.module))
        b = self._bindings(top, name)
        if b:
            return b, Scope(self.module, None, None, self.loader), "module"
        # `from ciscoconfparse2.<mod> import <name> [as <alias>]`: the constant of the other source file
        for n in top:
            if isinstance(n, ast.ImportFrom) and n.module and n.module.split(".")[0] == "ciscoconfparse2" and self.loader:
                for a in n.names:
                    if (a.asname or a.name) == name and len(n.module.split(".")) == 2:
                        other = Scope(self.loader(n.module.split(".")[1] + ".py"), None, None, self.loader)
                        vals, sc, _ = other.lookup(a.name)
                        return vals, sc, "module " + n.module
        return [], self, "unbound"



def _self_attr_bindings(cls, attr):
    """value nodes of every `self.<attr> = …` / `cls.<attr> = …` in the methods of a class"""
    out = []
    for n in ast.walk(cls):
        if isinstance(n, ast.Assign):
            for t in n.targets:
                if isinstance(t, ast.Attribute) and t.attr == attr and isinstance(t.value, ast.Name) and t.value.id in ("self", "cls"):
                    out.append((n.value, n))
        elif isinstance(n, (ast.AugAssign, ast.AnnAssign)) and isinstance(n.target, ast.Attribute) and n.target.attr == attr \
                and isinstance(n.target.value, ast.Name) and n.target.value.id in ("self", "cls"):
            out.append((getattr(n, "value", None) if isinstance(n, ast.AnnAssign) else None, n))
    return out


def deref(node, scope):
    """a Name or a `self.X` / `cls.X` attribute → (value nodes, scope to evaluate them in, where); else None"""
    if isinstance(node, ast.Name):
        return scope.lookup(node.id)
    if isinstance(node, ast.Attribute) and isinstance(node.value, ast.Name) and node.value.id in ("self", "cls") \
            and scope.cls is not None:
        cls_scope = Scope(scope.module, scope.cls, None, scope.loader)
        vals, sc, where = cls_scope.lookup(node.attr)
        if where == "class":
            return vals, sc, where
        b = _self_attr_bindings(scope.cls, node.attr)
        if b:
            # the assignment is evaluated inside the method that makes it
            funcs = {id(f): f for f in ast.walk(scope.cls) if isinstance(f, (ast.FunctionDef, ast.AsyncFunctionDef))}
            owner = None
            for f in funcs.values():
                if any(stmt is f_n for (_, stmt) in b for f_n in ast.walk(f)):
                    owner = f
                    break
            return [v for v, _ in b], Scope(scope.module, scope.cls, owner, scope.loader), "instance attribute"
        return [], scope, "unbound"
    return None


def _name_of(node):
    return node.id if isinstance(node, ast.Name) else ast.unparse(node)


def str_const(node, scope, depth=0):
    """value of a string constant expression (see the module docstring); NotConstant otherwise"""
    if depth > 40:
        raise NotConstant("constant expression nested too deeply (a cycle?)")
    if isinstance(node, ast.Constant):
        if isinstance(node.value, str):
            return node.value
        raise NotConstant(f"a {type(node.value).__name__} literal where a str is expected")
    d = deref(node, scope)
    if d is not None:
        vals, inner, where = d
        if not vals:
            raise NotConstant(f"`{_name_of(node)}` is not bound to a constant in the function, its class or the module")
        if any(v is None for v in vals):
            raise NotConstant(f"`{_name_of(node)}` ({where}) is not a constant")
        got = {str_const(v, inner, depth + 1) for v in vals}
        if len(got) != 1:
            raise NotConstant(f"`{_name_of(node)}` ({where}) is bound to {len(got)} different constants")
        return got.pop()
    if isinstance(node, ast.BinOp) and isinstance(node.op, ast.Add):
        return str_const(node.left, scope, depth + 1) + str_const(node.right, scope, depth + 1)
    if isinstance(node, ast.BinOp) and isinstance(node.op, ast.Mod):
        fmt = str_const(node.left, scope, depth + 1)
        if isinstance(node.right, ast.Tuple):
            args = tuple(str_const(e, scope, depth + 1) for e in node.right.elts)
        else:
            args = (str_const(node.right, scope, depth + 1),)
        return fmt % args
    if isinstance(node, ast.JoinedStr):
        out = []
        for v in node.values:
            if isinstance(v, ast.Constant):
                out.append(str(v.value))
            elif isinstance(v, ast.FormattedValue) and v.conversion == -1 and v.format_spec is None:
                out.append(str_const(v.value, scope, depth + 1))
            else:
                raise NotConstant("f-string with a conversion or a format spec")
        return "".join(out)
    if isinstance(node, ast.Call) and isinstance(node.func, ast.Attribute) and node.func.attr == "format":
        fmt = str_const(node.func.value, scope, depth + 1)
        args = [str_const(a, scope, depth + 1) for a in node.args]
        kw = {k.arg: str_const(k.value, scope, depth + 1) for k in node.keywords}
        if None in kw:
            raise NotConstant("`**` in a .format() call")
        return fmt.format(*args, **kw)
    if isinstance(node, ast.Call) and ast.unparse(node.func) == "re.escape" and len(node.args) == 1:
        return _re.escape(str_const(node.args[0], scope, depth + 1))
    if isinstance(node, ast.Call) and isinstance(node.func, ast.Attribute) and node.func.attr == "join" and len(node.args) == 1 \
            and isinstance(node.args[0], (ast.List, ast.Tuple)):
        sep = str_const(node.func.value, scope, depth + 1)
        return sep.join(str_const(e, scope, depth + 1) for e in node.args[0].elts)
    raise NotConstant("not a string constant expression: " + ast.unparse(node)[:70])


def flags_const(node):
    """`re.VERBOSE | re.I` → "IGNORECASE|VERBOSE"; 0 / None → "" """
    if node is None:
        return ""
    names = set()

    def go(n):
        if isinstance(n, ast.BinOp) and isinstance(n.op, ast.BitOr):
            go(n.left)
            go(n.right)
        elif isinstance(n, ast.Attribute) and isinstance(n.value, ast.Name) and n.value.id == "re" and n.attr in FLAG_NAMES:
            if FLAG_NAMES[n.attr]:
                names.add(FLAG_NAMES[n.attr])
        elif isinstance(n, ast.Attribute) and isinstance(n.value, ast.Attribute) and ast.unparse(n.value) == "re.RegexFlag" \
                and n.attr in FLAG_NAMES:
            if FLAG_NAMES[n.attr]:
                names.add(FLAG_NAMES[n.attr])
        elif isinstance(n, ast.Constant) and n.value in (0, None):
            pass
        else:
            raise NotConstant("regex flags are not a constant: " + ast.unparse(n)[:60])
    go(node)
    return "|".join(sorted(names))


def _compile_call(node):
    return isinstance(node, ast.Call) and ast.unparse(node.func) == "re.compile"


def _flags_arg(call, pos):
    for k in call.keywords:
        if k.arg == "flags":
            return k.value
    return call.args[pos] if len(call.args) > pos else None


def pattern_const(node, scope, depth=0):
    """(pattern text, flags) of a string constant expression or of `re.compile(…)` of one, possibly through names /
    instance attributes; a VERBOSE pattern is returned in canonical verbose form"""
    d = deref(node, scope)
    if d is not None:
        vals, inner, where = d
        if vals and all(v is not None and _compile_call(v) for v in vals):
            got = {pattern_const(v, inner, depth + 1) for v in vals}
            if len(got) != 1:
                raise NotConstant(f"`{_name_of(node)}` is bound to {len(got)} different compiled patterns")
            return got.pop()
        if vals and all(v is not None and isinstance(v, (ast.Name, ast.Attribute)) for v in vals) and depth < 20:
            got = {pattern_const(v, inner, depth + 1) for v in vals}
            if len(got) == 1:
                return got.pop()
    if _compile_call(node):
        if not node.args and not any(k.arg == "pattern" for k in node.keywords):
            raise NotConstant("re.compile() without a pattern")
        parg = node.args[0] if node.args else [k.value for k in node.keywords if k.arg == "pattern"][0]
        pat = str_const(parg, scope, depth + 1)
        flags = flags_const(_flags_arg(node, 1))
        if "VERBOSE" in flags.split("|"):
            pat = strip_verbose(pat)
        return pat, flags
    return str_const(node, scope, depth + 1), ""


def is_compiled_name(node, scope, depth=0):
    d = deref(node, scope)
    if d is None:
        return False
    vals, inner, _ = d
    if not vals or any(v is None for v in vals):
        return False
    if all(_compile_call(v) for v in vals):
        return True
    if depth < 20 and all(isinstance(v, (ast.Name, ast.Attribute)) for v in vals):
        return all(is_compiled_name(v, inner, depth + 1) for v in vals)
    return False


def template_const(node, scope):
    """`"^(?:%s)$" % x`, `"…{}…".format(x)`, f"…{x}…", `"{" + x + "}"` with NON-constant `x`: the constant frame with the
    holes shown as `%s` / `{}` / `{}` / `<dynamic>` → (text, kind); None when the expression has no such shape"""
    try:
        if isinstance(node, ast.BinOp) and isinstance(node.op, ast.Mod):
            return str_const(node.left, scope), "%-template"
        if isinstance(node, ast.Call) and isinstance(node.func, ast.Attribute) and node.func.attr == "format":
            return str_const(node.func.value, scope), "format-template"
        if isinstance(node, ast.JoinedStr):
            out = []
            for v in node.values:
                if isinstance(v, ast.Constant):
                    out.append(str(v.value).replace("{", "{{").replace("}", "}}"))
                else:
                    try:
                        out.append(str_const(v.value, scope).replace("{", "{{").replace("}", "}}"))
                    except NotConstant:
                        out.append("{}")
            return "".join(out), "f-template"
        if isinstance(node, ast.BinOp) and isinstance(node.op, ast.Add):
            parts = []
            for side in (node.left, node.right):
                try:
                    parts.append(str_const(side, scope))
                except NotConstant:
                    t = template_const(side, scope)
                    parts.append(t[0] if t and t[1] == "+-template" else DYNAMIC)
            if any(p != DYNAMIC for p in parts):
                return "".join(parts), "+-template"
    except NotConstant:
        return None
    return None


def _literal_strs(node):
    """a str literal, or a list / tuple / set of str literals → printable canonical text; else None"""
    if isinstance(node, ast.Constant) and isinstance(node.value, str):
        return node.value
    if isinstance(node, (ast.List, ast.Tuple, ast.Set)) and node.elts and all(
            isinstance(e, ast.Constant) and isinstance(e.value, str) for e in node.elts):
        opener, closer = {"List": "[]", "Tuple": "()", "Set": "{}"}[type(node).__name__]
        return opener + ",".join(repr(e.value) for e in node.elts) + closer
    return None


def _slice_text(node):
    """`x[0:10]` → "[0:10]", `x.split()[0]` → "[0]", `line[0:21].lower()` → "[0:21].lower()" (only the subscript and
    argument-less methods behind it, never a variable name)"""
    tail = ""
    while isinstance(node, ast.Call) and isinstance(node.func, ast.Attribute) and not node.args and not node.keywords:
        tail = "." + node.func.attr + "()" + tail
        node = node.func.value
    if isinstance(node, ast.Subscript):
        sl = node.slice
        if isinstance(sl, ast.Slice):
            ok = all(p is None or (isinstance(p, ast.Constant) or (isinstance(p, ast.UnaryOp) and isinstance(p.operand, ast.Constant)))
                     for p in (sl.lower, sl.upper, sl.step))
            if ok:
                return "[" + ast.unparse(sl) + "]" + tail
        elif isinstance(sl, ast.Constant) or (isinstance(sl, ast.UnaryOp) and isinstance(sl.operand, ast.Constant)):
            return "[" + ast.unparse(sl) + "]" + tail
    return ""


_CMP = {ast.Eq: "==", ast.NotEq: "!=", ast.In: "in", ast.NotIn: "not in", ast.Lt: "<", ast.LtE: "<=", ast.Gt: ">", ast.GtE: ">="}


def scan_function(func, scope, kinds=("re", "str", "in", "cmp"), distinct=True, ref_compiled=True):
    """the scan list of a function: [(callee, text, detail)] in source order (see the module docstring)"""
    out = []
    for n in _own_nodes(func):
        if isinstance(n, ast.Call) and isinstance(n.func, ast.Attribute):
            attr = n.func.attr
            recv = n.func.value
            if "re" in kinds:
                is_re_mod = isinstance(recv, ast.Name) and recv.id == "re" and attr in RE_FUNCS
                is_compiled = attr in RE_FUNCS and is_compiled_name(recv, scope)
                is_helper = attr.startswith("re_")
                if is_re_mod or is_helper:
                    parg = n.args[0] if n.args else None
                    if parg is None:
                        for k in n.keywords:
                            if k.arg in ("pattern", "regex", "regexspec", "linespec", "regex_str"):
                                parg = k.value
                    callee = ("re." + attr) if is_re_mod else ("." + attr)
                    fl = ""
                    if is_re_mod:
                        pos = {"compile": 1, "search": 2, "match": 2, "fullmatch": 2, "findall": 2, "finditer": 2,
                               "split": 3, "sub": 4, "subn": 4}[attr]
                        try:
                            fl = flags_const(_flags_arg(n, pos))
                        except NotConstant:
                            fl = DYNAMIC
                    if parg is None:
                        out.append((callee, DYNAMIC, fl))
                        continue
                    try:
                        pat, fl0 = pattern_const(parg, scope)
                    except NotConstant:
                        t = template_const(parg, scope)
                        out.append((callee, t[0], (t[1] + " " + fl).strip()) if t else (callee, DYNAMIC, fl))
                        continue
                    if "VERBOSE" in fl.split("|"):
                        pat = strip_verbose(pat)
                    detail = fl or fl0
                    if is_re_mod and attr in ("sub", "subn") and len(n.args) >= 2:
                        # the replacement text belongs to the scanner as much as the pattern
                        try:
                            detail = (detail + " repl=" + str_const(n.args[1], scope)).strip()
                        except NotConstant:
                            detail = (detail + " repl=" + DYNAMIC).strip()
                    out.append((callee, pat, detail))
                    continue
                if is_compiled:
                    where = deref(recv, scope)[2]
                    rname = "<local pattern>" if where == "function" else _name_of(recv).replace("self.", "").replace("cls.", "")
                    try:
                        pat, fl = pattern_const(recv, scope)
                    except NotConstant:
                        pat, fl = DYNAMIC, ""
                    if ref_compiled and where != "function" and isinstance(recv, ast.Name):
                        pat = f"<{recv.id}>"      # the text is emitted with the constant itself
                    out.append((rname + "." + attr, pat, fl))
                    continue
            if "str" in kinds and attr in STR_FUNCS and not (isinstance(recv, ast.Name) and recv.id == "re"):
                lits = [_literal_strs(a) for a in n.args]
                if attr == "join":
                    if isinstance(recv, ast.Constant) and isinstance(recv.value, str):
                        out.append(("str.join", recv.value, ""))
                    continue
                if attr in ("split", "rsplit", "strip", "lstrip", "rstrip", "splitlines") and not n.args and not n.keywords:
                    if attr in ("split", "rsplit", "splitlines"):
                        out.append((f"str.{attr}()", "", ""))
                    continue
                if n.args and all(x is not None for x in lits):
                    out.append((f"str.{attr}", ",".join(repr(x) for x in lits) if len(lits) > 1 else lits[0], ""))
                continue
        if ("cmp" in kinds or "in" in kinds) and isinstance(n, ast.Compare) and len(n.ops) == 1:
            op = _CMP.get(type(n.ops[0]))
            left, right = n.left, n.comparators[0]
            ll, rl = _literal_strs(left), _literal_strs(right)
            if op and (ll is not None) != (rl is not None):
                lit, other = (ll, right) if ll is not None else (rl, left)
                side = "lit " + op if ll is not None else op
                kind = "in" if side in ("lit in", "lit not in") else "cmp"
                if kind in kinds and lit != "":
                    out.append((side, lit, _slice_text(other)))
    if distinct:
        seen, uniq = set(), []
        for t in out:
            if t not in seen:
                seen.add(t)
                uniq.append(t)
        out = uniq
    return out


def lean_triples(items, lean_str):
    if not items:
        return "[]"
    return "[" + ",\n   ".join(f"({lean_str(a)}, {lean_str(b)}, {lean_str(c)})" for a, b, c in items) + "]"


def find_class(tree, name):
    found = [n for n in tree.body if isinstance(n, ast.ClassDef) and n.name == name]
    if len(found) != 1:
        raise KeyError(f"expected exactly one top-level class {name}, found {len(found)}")
    return found[0]


def find_method(holder, name):
    """the definition of `name` that is in force in a class body / module (the last one; property setters and
    deleters are not the accessor)"""
    found = []
    for n in holder.body:
        if isinstance(n, (ast.FunctionDef, ast.AsyncFunctionDef)) and n.name == name:
            decos = [ast.unparse(d) for d in n.decorator_list]
            if any(d.endswith(".setter") or d.endswith(".deleter") for d in decos):
                continue
            found.append(n)
    if not found:
        raise KeyError(f"function {name} not found in {getattr(holder, 'name', 'module')}")
    return found[-1]


# ----------------------------------------------------------------------------------------------------------------
# special shapes
# ----------------------------------------------------------------------------------------------------------------

def argparse_str_defaults(func, scope):
    """`<parser>.add_argument("-w", "--word_delimiter", default=r"\\s+", …)` → [(longest option string, default)] for
    every add_argument call of the function whose `default=` is a string constant expression, in source order"""
    out = []
    for n in _own_nodes(func):
        if isinstance(n, ast.Call) and isinstance(n.func, ast.Attribute) and n.func.attr == "add_argument":
            names = [a.value for a in n.args if isinstance(a, ast.Constant) and isinstance(a.value, str)]
            if not names:
                continue
            dflt = [k.value for k in n.keywords if k.arg == "default"]
            if not dflt:
                continue
            try:
                out.append((max(names, key=len), str_const(dflt[0], scope)))
            except NotConstant:
                continue
    return out


def getattr_str_defaults(func, scope):
    """`getattr(args, 'word_delimiter', r"\\s+")` → [(attribute name, default)] for string defaults, in source order"""
    out = []
    for n in _own_nodes(func):
        if isinstance(n, ast.Call) and isinstance(n.func, ast.Name) and n.func.id == "getattr" and len(n.args) == 3 \
                and isinstance(n.args[1], ast.Constant) and isinstance(n.args[1].value, str):
            try:
                out.append((n.args[1].value, str_const(n.args[2], scope)))
            except NotConstant:
                continue
    return out


def call_shape(func, callee, scope):
    """the calls `callee(…)` inside a function: positional arguments and keywords as text — a string constant
    expression by its value (quoted), anything else by the NAME of what is passed when that is an imported module
    level name (`printables`), else `<dynamic>`; → [(argument slot, text)] per call"""
    calls = []
    for n in _own_nodes(func):
        if isinstance(n, ast.Call) and ast.unparse(n.func).split(".")[-1] == callee:
            slots = []

            def show(v):
                try:
                    return repr(str_const(v, scope))
                except NotConstant:
                    pass
                t = template_const(v, scope)
                if t is not None:
                    return "template " + repr(t[0])
                if isinstance(v, ast.Name):
                    vals, _, where = scope.lookup(v.id)
                    if where == "unbound":
                        return "name " + v.id           # an imported / builtin name
                return DYNAMIC
            for i, a in enumerate(n.args):
                slots.append((str(i), show(a)))
            for k in n.keywords:
                slots.append((k.arg or "**", show(k.value)))
            calls.append(slots)
    return calls


def lean_pairs(items, lean_str):
    if not items:
        return "[]"
    return "[" + ",\n   ".join(f"({lean_str(a)}, {lean_str(b)})" for a, b in items) + "]"


# ----------------------------------------------------------------------------------------------------------------
# what is emitted (one block per property; see lean/Ccp/Props/RxCxx.lean for the theorems)
# ----------------------------------------------------------------------------------------------------------------

ALL = ("re", "str", "in", "cmp")
RS = ("re", "str")
RSI = ("re", "str", "in")

# (lean name, source file, class or None, python constant)        compiled pattern or plain str: text (+ flags)
CONSTS = [
    # C11
    ("rxIpv6RgxCls", "ccp_util.py", None, "_IPV6_RGX_CLS"),
    ("rxIpv4AddrWithMask", "ccp_util.py", None, "_RGX_IPV4ADDR_WITH_MASK"),
    ("rxIpv6Addr", "ccp_util.py", None, "_RGX_IPV6ADDR"),
    # C19
    ("rxIosIpRoute", "models_cisco.py", None, "_RE_IP_ROUTE"),
    # C20
    ("rxAsaNetObject", "models_asa.py", None, "_RE_NETOBJECT"),
    ("rxAsaNameObject", "models_asa.py", None, "_RE_NAMEOBJECT"),
    ("rxAsaReNames", "ciscoconfparse2.py", "ConfigList", "self._RE_NAMES"),
    ("rxAsaReObjNet", "ciscoconfparse2.py", "ConfigList", "self._RE_OBJNET"),
    ("rxAsaReObjAcl", "ciscoconfparse2.py", "ConfigList", "self._RE_OBJACL"),
]

# (lean name, source file, class or None, function, kinds)          scan list of a function
SCANS = [
    # C11
    ("rxScanIPv4ObjInit", "ccp_util.py", "IPv4Obj", "__init__", RS),
    ("rxScanIPv6ObjInit", "ccp_util.py", "IPv6Obj", "__init__", RS),
    # C15 (and, through Ccp.Model.Intf, C19)
    ("rxScanIntfParseSingle", "ccp_util.py", "CiscoIOSInterface", "parse_single_interface", RSI),
    ("rxScanIntfParseShort", "ccp_util.py", "CiscoIOSInterface", "parse_intf_short", RSI),
    ("rxScanIntfParseLong", "ccp_util.py", "CiscoIOSInterface", "parse_intf_long", RSI),
    ("rxScanRangeInit", "ccp_util.py", "CiscoRange", "__init__", RSI),
    ("rxScanRangeParseInterfaces", "ccp_util.py", "CiscoRange", "parse_cisco_interfaces", RSI),
    # C14 (and, through Ccp.Model.Range, C19)
    ("rxScanRangeParseIntegers", "ccp_util.py", "CiscoRange", "parse_integers", RSI),
    # C20
    ("rxScanAsaNames", "ciscoconfparse2.py", "ConfigList", "asa_object_group_names", ALL),
    ("rxScanAsaObjNet", "ciscoconfparse2.py", "ConfigList", "asa_object_group_network", ALL),
    ("rxScanAsaAcl", "ciscoconfparse2.py", "ConfigList", "asa_access_list", ALL),
    ("rxScanAsaGroupInit", "models_asa.py", "ASAObjGroupNetwork", "__init__", ALL),
    ("rxScanAsaGroupIsObjectFor", "models_asa.py", "ASAObjGroupNetwork", "is_object_for", ALL),
    ("rxScanAsaGroupNetworkStrings", "models_asa.py", "ASAObjGroupNetwork", "network_strings", ALL),
    ("rxScanAsaNameInit", "models_asa.py", "ASAName", "__init__", ALL),
    ("rxScanAsaNameIsObjectFor", "models_asa.py", "ASAName", "is_object_for", ALL),
    ("rxScanL4ObjectInit", "ccp_util.py", "L4Object", "__init__", ALL),
    # C18
    ("rxScanCliIpgrep", "cli_script.py", "CliApplication", "ipgrep_command", RSI),
    ("rxScanCliIpLineMatches", "cli_script.py", "CliApplication", "find_ip46_line_matches", RSI),
    ("rxScanCliMacgrep", "cli_script.py", "CliApplication", "macgrep_command", RSI),
    ("rxScanCliMacLineMatches", "cli_script.py", "CliApplication", "find_maceui_line_matches", RSI),
    ("rxScanCliMacSearchAllFormats", "cli_script.py", "MACEUISearch", "search_all_formats", RSI),
    # C04
    ("rxScanSpaceTolerant", "ciscoconfparse2.py", None, "build_space_tolerant_regex", RS),
    ("rxScanEscapeLinespec", "ciscoconfparse2.py", None, "escape_linespec", RS),
    ("rxScanFindLineObj", "ciscoconfparse2.py", "CiscoConfParse", "_find_line_OBJ", RS),
    # C08
    ("rxScanBraceUnpack", "ciscoconfparse2.py", "BraceParse", "unpack_nested_list_to_config_objs", ALL),
]

# C19: the accessors of models_cisco.py that Ccp.Model.IosModels models → one table, (accessor, scan list)
IOS_ACCESSORS = [
    ("IOSCfgLine", ["is_intf", "is_in_portchannel", "portchannel_number", "is_portchannel_intf"]),
    ("BaseIOSIntfLine", ["name", "port_type", "interface_number", "subinterface_number", "description", "ipv4_addr",
                         "ipv4_netmask", "ipv4_addr_object", "ip_secondary_addresses", "ip_secondary_networks", "vrf",
                         "manual_mtu", "manual_ip_mtu", "is_shutdown", "is_switchport", "has_manual_switch_access",
                         "has_manual_switch_trunk", "access_vlan", "native_vlan", "trunk_vlans_allowed",
                         "cisco_interface_object"]),
    ("IOSCfgLine", ["is_object_for_interface"]),
    ("IOSRouteLine", ["is_object_for", "__init__"]),
]


def ios_lean_name(cls, accessor):
    return "rxIos_" + cls + "_" + accessor.strip("_")


def emit_all(src, emit, lean_str):
    """called by translate.tables(): `src.tree(fn)` gives the AST of a source file, `emit(name, thunk)` records a block"""
    loader = src.tree

    def holder_of(fn, cls):
        tree = src.tree(fn)
        return tree, (find_class(tree, cls) if cls else None)

    def t_const(lean, fn, cls, pyname):
        def go():
            tree, c = holder_of(fn, cls)
            node = ast.parse(pyname, mode="eval").body
            pat, flags = pattern_const(node, Scope(tree, c, None, loader))
            where = f"{fn}: {cls + '.' if cls else ''}{pyname}"
            d = deref(node, Scope(tree, c, None, loader))
            compiled = bool(d and d[0] and all(v is not None and _compile_call(v) for v in d[0]))
            text = (f"/-- `{where}`" + (" — pattern text (canonical verbose form when the flags contain VERBOSE) and flags"
                                       if compiled else "") + " -/\n"
                    f"def {lean} : String := {lean_str(pat)}\n")
            if compiled:
                text += f"def {lean}Flags : String := {lean_str(flags)}\n"
            return text, {"pattern": pat, "flags": flags} if compiled else pat
        return go

    for lean, fn, cls, pyname in CONSTS:
        emit(lean, t_const(lean, fn, cls, pyname))

    def scan_of(fn, cls, func, kinds):
        tree, c = holder_of(fn, cls)
        f = find_method(c if c is not None else tree, func)
        return scan_function(f, Scope(tree, c, f, loader), kinds)

    def t_scan(lean, fn, cls, func, kinds):
        def go():
            items = scan_of(fn, cls, func, kinds)
            if not items:
                raise KeyError(f"{cls + '.' if cls else ''}{func} in {fn} contains none of the scanned constructs any more")
            text = (f"/-- scan list of `{fn}: {cls + '.' if cls else ''}{func}` (kinds {'/'.join(kinds)}; distinct, in order of\n"
                    f"first appearance): (callee, text, flags or detail) -/\n"
                    f"def {lean} : List (String × String × String) :=\n  {lean_triples(items, lean_str)}\n")
            return text, len(items)
        return go

    for lean, fn, cls, func, kinds in SCANS:
        emit(lean, t_scan(lean, fn, cls, func, kinds))

    def t_ios(lean, cls, a):
        def go():
            items = scan_of("models_cisco.py", cls, a, ALL)
            if not items:
                raise KeyError(f"{cls}.{a} contains none of the scanned constructs any more")
            return (f"/-- C19: scan list (all kinds) of `models_cisco.py: {cls}.{a}` -/\n"
                    f"def {lean} : List (String × String × String) :=\n  {lean_triples(items, lean_str)}\n"), len(items)
        return go
    for cls, accs in IOS_ACCESSORS:
        for a in accs:
            lean = ios_lean_name(cls, a)
            emit(lean, t_ios(lean, cls, a))

    def t_cli_defaults():
        tree, ap = holder_of("cli_script.py", "ArgParser")
        rows = []
        for f in ap.body:
            if isinstance(f, ast.FunctionDef) and f.name.startswith("build_command_args_"):
                for opt, d in argparse_str_defaults(f, Scope(tree, ap, f, loader)):
                    rows.append((f.name[len("build_command_args_"):] + " " + opt, d))
        if not rows:
            raise KeyError("no add_argument(..., default=<str>) found in ArgParser.build_command_args_*")
        _, app = holder_of("cli_script.py", "CliApplication")
        init = find_method(app, "__init__")
        g = getattr_str_defaults(init, Scope(tree, app, init, loader))
        if not g:
            raise KeyError("no getattr(args, <name>, <str>) found in CliApplication.__init__")
        return ("/-- C18: string defaults of the argparse options (`<sub-command> <option>`, default) of\n"
                "`ArgParser.build_command_args_*`, and of the `getattr(args, name, default)` fall-backs of `CliApplication.__init__` -/\n"
                f"def rxCliArgDefaults : List (String × String) :=\n  {lean_pairs(rows, lean_str)}\n"
                f"def rxCliGetattrDefaults : List (String × String) :=\n  {lean_pairs(g, lean_str)}\n"), {"options": len(rows), "getattr": len(g)}
    emit("rxCliDefaults", t_cli_defaults)

    def t_escaped_space():
        tree = src.tree("ciscoconfparse2.py")
        f = find_method(tree, "build_space_tolerant_regex")
        sc = Scope(tree, None, f, loader)
        vals, _, _ = sc.lookup("escaped_space")
        if len(vals) != 1 or vals[0] is None:
            raise KeyError("build_space_tolerant_regex: `escaped_space` is not assigned exactly once")
        v = vals[0]
        # `(backslash + backslash + "s+").translate(encoding)`: str.translate with a str table leaves ASCII text alone
        # only when the table is shorter than the code points; the receiver is what the model / oracle hard-wires
        via = ""
        if isinstance(v, ast.Call) and isinstance(v.func, ast.Attribute) and v.func.attr == "translate":
            via = "translate"
            v = v.func.value
        text = str_const(v, sc)
        repl = [ast.unparse(n.args[1]) for n in _own_nodes(f)
                if isinstance(n, ast.Call) and ast.unparse(n.func) == "re.sub" and len(n.args) >= 2]
        if not repl or any(r != "escaped_space" for r in repl):
            raise KeyError(f"build_space_tolerant_regex: re.sub replacement is no longer `escaped_space`: {repl}")
        return ("/-- C04: the replacement text of `build_space_tolerant_regex` (`escaped_space`, before its `.translate(encoding)`)\n"
                "and whether it still passes through `str.translate` -/\n"
                f"def rxSpaceTolerantReplacement : String := {lean_str(text)}\n"
                f"def rxSpaceTolerantVia : String := {lean_str(via)}\n"), [text, via]
    emit("rxSpaceTolerantReplacement", t_escaped_space)

    def t_brace():
        tree, c = holder_of("ciscoconfparse2.py", "BraceParse")
        f = find_method(c, "parse_braces_to_nested_list")
        sc = Scope(tree, c, f, loader)
        rows = []
        for callee in ("Word", "White", "Combine", "OneOrMore", "nested_expr", "parse_string"):
            calls = call_shape(f, callee, sc)
            if len(calls) != 1:
                raise KeyError(f"parse_braces_to_nested_list: expected exactly one call of {callee}, found {len(calls)}")
            for slot, text in calls[0]:
                rows.append((f"{callee} {slot}", text))
        # where the imported names come from
        imports = []
        for n in tree.body:
            if isinstance(n, ast.ImportFrom) and n.module and n.module.split(".")[0] == "pyparsing":
                for a in n.names:
                    imports.append(f"{n.module}.{a.name}" + (f" as {a.asname}" if a.asname else ""))
        need = {"Word", "White", "printables", "OneOrMore", "Combine", "nested_expr"}
        have = {i.split(".")[-1].split(" as ")[-1] for i in imports}
        if not need <= have:
            raise KeyError(f"pyparsing names no longer imported by name: {sorted(need - have)}")
        import importlib
        pp = importlib.import_module("pyparsing")
        regexes = []

        def walk(e, depth=0):
            if depth > 12:
                return
            if isinstance(e, pp.Regex):
                regexes.append(e.pattern)
            for sub in list(getattr(e, "exprs", []) or []) + ([e.expr] if getattr(e, "expr", None) is not None else []):
                walk(sub, depth + 1)
        walk(pp.quoted_string)
        if not regexes:
            raise KeyError("no Regex found inside pyparsing.quoted_string")
        white = "".join(sorted(pp.ParserElement.DEFAULT_WHITE_CHARS))
        import inspect
        sig = inspect.signature(pp.nested_expr)
        ig = sig.parameters.get("ignore_expr")
        ig_default = "quoted_string" if (ig is not None and ig.default is not inspect.Parameter.empty
                                         and str(ig.default) == str(pp.quoted_string)) else repr(ig.default if ig else None)
        ps = inspect.signature(pp.ParserElement.parse_string)
        pa = ps.parameters.get("parse_all")
        return ("/-- C08: the arguments of the pyparsing calls of `BraceParse.parse_braces_to_nested_list` (source, AST):\n"
                "(`<callee> <positional index or keyword>`, value) -/\n"
                f"def rxBraceCalls : List (String × String) :=\n  {lean_pairs(rows, lean_str)}\n"
                f"/-- the pyparsing names the source imports -/\n"
                f"def rxBraceImports : List String := [{', '.join(lean_str(i) for i in sorted(imports))}]\n"
                f"/-- constants of the INSTALLED third-party package `pyparsing` (version {pp.__version__}; read by importing it, it\n"
                "is not part of /repo): `printables`, `ParserElement.DEFAULT_WHITE_CHARS` (sorted), the `Regex` patterns inside\n"
                "`quoted_string`, the default of `nested_expr(ignore_expr=…)`, the default of `parse_string(parse_all=…)` -/\n"
                f"def ppPrintables : String := {lean_str(pp.printables)}\n"
                f"def ppDefaultWhiteChars : String := {lean_str(white)}\n"
                f"def ppQuotedStringRegexes : List String := [{', '.join(lean_str(r) for r in regexes)}]\n"
                f"def ppNestedExprIgnoreDefault : String := {lean_str(ig_default)}\n"
                f"def ppParseAllDefault : String := {lean_str(repr(pa.default) if pa is not None else 'absent')}\n"), \
            {"pyparsing": pp.__version__, "calls": len(rows)}
    emit("rxBrace", t_brace)
