"""Regex / separator constants of /repo's source for the hand-written scanners of the Lean models.

Used by harness/translate.py (`tables`).  AST only: nothing of /repo is imported or executed (the `pp*` block alone
imports the installed third-party package pyparsing, like the `mac*` block of translate.py imports macaddress).

Every model that scans for a FIXED regular expression of the source (a token matcher written by hand for that one
pattern) is tied to the pattern's text here: the pattern is read from the source, written into
lean/Ccp/Gen/Tables.lean, and the theorem `Ccp.RxCxx.regexes_as_modelled` states that it equals the literal the
scanner was written for.  An edit of the pattern in /repo therefore breaks a proof obligation of exactly the
properties whose model scans for it.

What is extracted
-----------------
* a *string constant expression*: a `str` literal, implicit / `+` concatenation, an f-string, `"…".format(…)`,
  `"…" % (…)`, `re.escape(…)`, `"sep".join([…])`, or a name / `self.X` bound (once, or always to the same value) to such
  an expression in the enclosing function, its class, the module, or another module of the package it is imported from;
* a *compiled pattern*: `re.compile(<string constant expression>[, flags])`, possibly through names / instance
  attributes; the flags go with the pattern (canonical long names joined by `|`);
* the *scan set of an entry point* (`scan_closure`): for the function and every helper of the same source file it
  reaches (`self.X`, `cls.X`, `Class.X`, module level functions; transitively) —
    - (kind `re`) every regex call: `re.search/match/fullmatch/split/sub/subn/findall/finditer/compile`, the same
      methods of a compiled pattern (reported as the `re.` function with the pattern's text and flags), and the
      ciscoconfparse2 helpers whose name starts with `re_` (`re_match`, `re_match_typed`, `re_match_iter_typed`, …); for
      `re.sub` the replacement text too; a pattern that is not a constant is `<dynamic>` (its flags are still recorded),
      a constant frame around a non-constant part is a `…-template`.  The pattern is reported in CANONICAL FORM
      (`normalise_pattern`, `strip_verbose`): compiled with `re.VERBOSE` → canonical verbose form and no VERBOSE flag;
      group names removed; redundant escapes removed; one item per value when a helper receives the pattern (or a part
      of it) as an argument from its call sites (`call_site_bindings`) or a local name in it ranges over a constant
      collection (`if kw in ("add", "remove"):`, `for kw in (...)`: `_context_values`); a search that cannot fail (`.*`)
      is left out;
    - (kind `sep`) the separator arguments of `str.split / rsplit / partition / rpartition / replace / strip / lstrip /
      rstrip` (literals or named constants), argument-less `split()` / `splitlines()`, `"sep".join(…)`;
  as a sorted duplicate-free list of triples `(what, text, flags or detail)` — these are the OBLIGATIONS
  (`regexes_as_modelled`).  Next to it, as an INFORMATIONAL definition `<name>Info` no theorem is about —
    - (kind `test`) `str.startswith / endswith / find / index / count` with literal arguments;
    - (kind `in`) `"lit" in <expr>`;  (kind `cmp`) comparisons of an expression with a `str` literal or a list / tuple /
      set of `str` literals, with the constant subscript of the other side (`[0:10]`, `[0:21].lower()`) as detail:
  these are control flow around the scanners, not scanner text; a refactor that reads regex groups into locals, hoists a
  `.split()` or merges branches changes them although no regex changed (harmless/C15, C19, C20), so they are recorded
  but not tied.

What deliberately does NOT change a scan set (harmless rewrites must not break an obligation): line breaks, comments,
docstrings, renaming a local variable, a constant or a regex group, binding a pattern to a name first, hoisting it into a
compiled module constant (or the reverse), passing it to a helper as an argument, moving a test into a helper method of
the same file (or out of one), re-ordering or repeating tests, escaping a colon that needs no escape, re-indenting a `re.VERBOSE`
pattern, editing a comment inside it, or compiling its canonical form without the flag.

When /repo changes a modelled regex on purpose (a `fix:` commit): adapt the scanner in lean/Ccp/Model/*.lean first, let
the correspondence confirm it, and only then update the literal in lean/Ccp/Props/RxCxx.lean (the literals there are
maintained by hand — they are "what the scanner was written for", never regenerated).

Anything that cannot be found is raised as an exception: `translate.emit` turns it into a translator PROBLEM (a broken
obligation), never a silent skip.
"""
import ast
import re as _re

RE_FUNCS = {"search", "match", "fullmatch", "split", "sub", "subn", "findall", "finditer", "compile"}
STR_FUNCS = {"split", "rsplit", "partition", "rpartition", "startswith", "endswith", "replace", "join",
             "strip", "lstrip", "rstrip", "splitlines", "find", "index", "count"}
FLAG_NAMES = {
    "I": "IGNORECASE", "IGNORECASE": "IGNORECASE", "X": "VERBOSE", "VERBOSE": "VERBOSE",
    "M": "MULTILINE", "MULTILINE": "MULTILINE", "S": "DOTALL", "DOTALL": "DOTALL",
    "A": "ASCII", "ASCII": "ASCII", "L": "LOCALE", "LOCALE": "LOCALE", "U": "UNICODE", "UNICODE": "UNICODE",
    "NOFLAG": None,
}
DYNAMIC = "<dynamic>"


class NotConstant(Exception):
    pass


def strip_verbose(p):
    """canonical form of a pattern that is compiled with re.VERBOSE: what sre_parse skips is removed
    (white space and `#…end of line` outside a character class, unless escaped)"""
    out = []
    i, n, in_cls = 0, len(p), False
    while i < n:
        c = p[i]
        if c == "\\" and i + 1 < n:
            out.append(p[i:i + 2])
            i += 2
            continue
        if in_cls:
            out.append(c)
            if c == "]":
                in_cls = False
            i += 1
            continue
        if c == "[":
            in_cls = True
            out.append(c)
            i += 1
            # a `]` (after an optional `^`) directly behind `[` is a literal member
            if i < n and p[i] == "^":
                out.append("^")
                i += 1
            if i < n and p[i] == "]":
                out.append("]")
                i += 1
            continue
        if c in " \t\n\r\f\v":
            i += 1
            continue
        if c == "#":
            while i < n and p[i] != "\n":
                i += 1
            continue
        out.append(c)
        i += 1
    return "".join(out)


def _own_nodes(func):
    """all nodes of a function body in source order (nested functions included)"""
    nodes = [n for n in ast.walk(func) if hasattr(n, "lineno")]
    nodes.sort(key=lambda n: (n.lineno, n.col_offset, -(getattr(n, "end_lineno", n.lineno) or 0),
                              -(getattr(n, "end_col_offset", 0) or 0)))
    return nodes


class Scope:
    """name lookup: the function's own assignments and parameter defaults are NOT constants unless every binding of
    the name in that function is a string constant expression with one and the same value; then the class body;
    then the module's top level (also inside top-level if / try)"""

    def __init__(self, module, cls=None, func=None, loader=None, fixed=None):
        self.module, self.cls, self.func, self.loader = module, cls, func, loader
        # names of the function whose value is known from the context the function is scanned in: a parameter that a
        # call site binds to a constant, a name inside `if name in ("a", "b"):` / `for name in ("a", "b"):`
        self.fixed = dict(fixed or {})

    def with_fixed(self, more):
        return Scope(self.module, self.cls, self.func, self.loader, dict(self.fixed, **more))

    @staticmethod
    def _bindings(nodes, name):
        out = []
        for n in nodes:
            if isinstance(n, ast.Assign):
                for t in n.targets:
                    if isinstance(t, ast.Name) and t.id == name:
                        out.append(n.value)
                    elif isinstance(t, (ast.Tuple, ast.List)) and any(isinstance(e, ast.Name) and e.id == name for e in t.elts):
                        out.append(None)
            elif isinstance(n, ast.AnnAssign) and isinstance(n.target, ast.Name) and n.target.id == name:
                out.append(n.value)
            elif isinstance(n, ast.AugAssign) and isinstance(n.target, ast.Name) and n.target.id == name:
                out.append(None)
            elif isinstance(n, (ast.For, ast.comprehension)) and any(
                    isinstance(e, ast.Name) and e.id == name for e in ast.walk(n.target)):
                out.append(None)
            elif isinstance(n, ast.NamedExpr) and n.target.id == name:
                out.append(n.value)
            elif isinstance(n, (ast.With,)):
                for it in n.items:
                    if it.optional_vars is not None and any(
                            isinstance(e, ast.Name) and e.id == name for e in ast.walk(it.optional_vars)):
                        out.append(None)
        return out

    @staticmethod
    def _toplevel(node):
        for ch in getattr(node, "body", []):
            if isinstance(ch, (ast.FunctionDef, ast.AsyncFunctionDef, ast.ClassDef)):
                continue
            yield ch
            if isinstance(ch, (ast.If, ast.Try, ast.With)):
                for part in ("body", "orelse", "finalbody"):
                    holder = ast.Module(body=getattr(ch, part, []) or [], type_ignores=[])
                    yield from Scope._toplevel(holder)
                for h in getattr(ch, "handlers", []) or []:
                    yield from Scope._toplevel(h)

    def lookup(self, name):
        """(value nodes bound to `name` in the innermost scope that binds it (None = a non-constant binding),
        the scope in which these nodes are to be evaluated, a word saying where)"""
        if self.func is not None:
            params = [a.arg for a in self.func.args.posonlyargs + self.func.args.args + self.func.args.kwonlyargs]
            if self.func.args.vararg:
                params.append(self.func.args.vararg.arg)
            if self.func.args.kwarg:
                params.append(self.func.args.kwarg.arg)
            if name in params:
                return [None], self, "parameter"
            b = self._bindings(list(ast.walk(self.func)), name)
            if b:
                return b, self, "function"
        if self.cls is not None:
            b = self._bindings(list(self._toplevel(self.cls)), name)
            if b:
                return b, Scope(self.module, self.cls, None, self.loader), "class"
        top = list(self._toplevel(self.module))
        b = self._bindings(top, name)
        if b:
            return b, Scope(self.module, None, None, self.loader), "module"
        # `from ciscoconfparse2.<mod> import <name> [as <alias>]`: the constant of the other source file
        for n in top:
            if isinstance(n, ast.ImportFrom) and n.module and n.module.split(".")[0] == "ciscoconfparse2" and self.loader:
                for a in n.names:
                    if (a.asname or a.name) == name and len(n.module.split(".")) == 2:
                        other = Scope(self.loader(n.module.split(".")[1] + ".py"), None, None, self.loader)
                        vals, sc, _ = other.lookup(a.name)
                        return vals, sc, "module " + n.module
        return [], self, "unbound"



def _self_attr_bindings(cls, attr):
    """value nodes of every `self.<attr> = …` / `cls.<attr> = …` in the methods of a class"""
    out = []
    for n in ast.walk(cls):
        if isinstance(n, ast.Assign):
            for t in n.targets:
                if isinstance(t, ast.Attribute) and t.attr == attr and isinstance(t.value, ast.Name) and t.value.id in ("self", "cls"):
                    out.append((n.value, n))
        elif isinstance(n, (ast.AugAssign, ast.AnnAssign)) and isinstance(n.target, ast.Attribute) and n.target.attr == attr \
                and isinstance(n.target.value, ast.Name) and n.target.value.id in ("self", "cls"):
            out.append((getattr(n, "value", None) if isinstance(n, ast.AnnAssign) else None, n))
    return out


def deref(node, scope):
    """a Name or a `self.X` / `cls.X` attribute → (value nodes, scope to evaluate them in, where); else None"""
    if isinstance(node, ast.Name):
        return scope.lookup(node.id)
    if isinstance(node, ast.Attribute) and isinstance(node.value, ast.Name) and node.value.id in ("self", "cls") \
            and scope.cls is not None:
        cls_scope = Scope(scope.module, scope.cls, None, scope.loader)
        vals, sc, where = cls_scope.lookup(node.attr)
        if where == "class":
            return vals, sc, where
        b = _self_attr_bindings(scope.cls, node.attr)
        if b:
            # the assignment is evaluated inside the method that makes it
            funcs = {id(f): f for f in ast.walk(scope.cls) if isinstance(f, (ast.FunctionDef, ast.AsyncFunctionDef))}
            owner = None
            for f in funcs.values():
                if any(stmt is f_n for (_, stmt) in b for f_n in ast.walk(f)):
                    owner = f
                    break
            return [v for v, _ in b], Scope(scope.module, scope.cls, owner, scope.loader), "instance attribute"
        return [], scope, "unbound"
    return None


def _name_of(node):
    return node.id if isinstance(node, ast.Name) else ast.unparse(node)


def str_const(node, scope, depth=0):
    """value of a string constant expression (see the module docstring); NotConstant otherwise.
    What the rules below do not cover is handed to the general constant-expression evaluator (harness/constexpr.py:
    `"|".join(KEYWORDS)` over a tuple bound to a name, `string.digits`, a conditional expression, a subscript …), so
    that a pattern whose definition was re-spelled is still found; its value must be a `str`."""
    try:
        return _str_const_basic(node, scope, depth)
    except NotConstant as first:
        if depth > 40:
            raise
        import constexpr
        try:
            v = constexpr.ceval(node, scope, dict(scope.fixed))
        except NotConstant:
            raise first
        except RecursionError:
            raise first
        if not isinstance(v, str):
            raise first
        return v


def _str_const_basic(node, scope, depth=0):
    if isinstance(node, ast.Name) and node.id in scope.fixed:
        v = scope.fixed[node.id]
        if isinstance(v, str):
            return v
        raise NotConstant(f"`{node.id}` is not a str here")
    if depth > 40:
        raise NotConstant("constant expression nested too deeply (a cycle?)")
    if isinstance(node, ast.Constant):
        if isinstance(node.value, str):
            return node.value
        raise NotConstant(f"a {type(node.value).__name__} literal where a str is expected")
    d = deref(node, scope)
    if d is not None:
        vals, inner, where = d
        if not vals:
            raise NotConstant(f"`{_name_of(node)}` is not bound to a constant in the function, its class or the module")
        if any(v is None for v in vals):
            raise NotConstant(f"`{_name_of(node)}` ({where}) is not a constant")
        got = {str_const(v, inner, depth + 1) for v in vals}
        if len(got) != 1:
            raise NotConstant(f"`{_name_of(node)}` ({where}) is bound to {len(got)} different constants")
        return got.pop()
    if isinstance(node, ast.BinOp) and isinstance(node.op, ast.Add):
        return str_const(node.left, scope, depth + 1) + str_const(node.right, scope, depth + 1)
    if isinstance(node, ast.BinOp) and isinstance(node.op, ast.Mod):
        fmt = str_const(node.left, scope, depth + 1)
        if isinstance(node.right, ast.Tuple):
            args = tuple(str_const(e, scope, depth + 1) for e in node.right.elts)
        else:
            args = (str_const(node.right, scope, depth + 1),)
        return fmt % args
    if isinstance(node, ast.JoinedStr):
        out = []
        for v in node.values:
            if isinstance(v, ast.Constant):
                out.append(str(v.value))
            elif isinstance(v, ast.FormattedValue) and v.conversion == -1 and v.format_spec is None:
                out.append(str_const(v.value, scope, depth + 1))
            else:
                raise NotConstant("f-string with a conversion or a format spec")
        return "".join(out)
    if isinstance(node, ast.Call) and isinstance(node.func, ast.Attribute) and node.func.attr == "format":
        fmt = str_const(node.func.value, scope, depth + 1)
        args = [str_const(a, scope, depth + 1) for a in node.args]
        kw = {k.arg: str_const(k.value, scope, depth + 1) for k in node.keywords}
        if None in kw:
            raise NotConstant("`**` in a .format() call")
        return fmt.format(*args, **kw)
    if isinstance(node, ast.Call) and ast.unparse(node.func) == "re.escape" and len(node.args) == 1:
        return _re.escape(str_const(node.args[0], scope, depth + 1))
    if isinstance(node, ast.Call) and isinstance(node.func, ast.Attribute) and node.func.attr == "join" and len(node.args) == 1 \
            and isinstance(node.args[0], (ast.List, ast.Tuple)):
        sep = str_const(node.func.value, scope, depth + 1)
        return sep.join(str_const(e, scope, depth + 1) for e in node.args[0].elts)
    raise NotConstant("not a string constant expression: " + ast.unparse(node)[:70])


def flags_const(node):
    """`re.VERBOSE | re.I` → "IGNORECASE|VERBOSE"; 0 / None → "" """
    if node is None:
        return ""
    names = set()

    def go(n):
        if isinstance(n, ast.BinOp) and isinstance(n.op, ast.BitOr):
            go(n.left)
            go(n.right)
        elif isinstance(n, ast.Attribute) and isinstance(n.value, ast.Name) and n.value.id == "re" and n.attr in FLAG_NAMES:
            if FLAG_NAMES[n.attr]:
                names.add(FLAG_NAMES[n.attr])
        elif isinstance(n, ast.Attribute) and isinstance(n.value, ast.Attribute) and ast.unparse(n.value) == "re.RegexFlag" \
                and n.attr in FLAG_NAMES:
            if FLAG_NAMES[n.attr]:
                names.add(FLAG_NAMES[n.attr])
        elif isinstance(n, ast.Constant) and n.value in (0, None):
            pass
        else:
            raise NotConstant("regex flags are not a constant: " + ast.unparse(n)[:60])
    go(node)
    return "|".join(sorted(names))


def _compile_call(node):
    return isinstance(node, ast.Call) and ast.unparse(node.func) == "re.compile"


def _flags_arg(call, pos):
    for k in call.keywords:
        if k.arg == "flags":
            return k.value
    return call.args[pos] if len(call.args) > pos else None


def pattern_const(node, scope, depth=0):
    """(pattern text, flags) of a string constant expression or of `re.compile(…)` of one, possibly through names /
    instance attributes; a VERBOSE pattern is returned in canonical verbose form"""
    d = deref(node, scope)
    if d is not None:
        vals, inner, where = d
        if vals and all(v is not None and _compile_call(v) for v in vals):
            got = {pattern_const(v, inner, depth + 1) for v in vals}
            if len(got) != 1:
                raise NotConstant(f"`{_name_of(node)}` is bound to {len(got)} different compiled patterns")
            return got.pop()
        if vals and all(v is not None and isinstance(v, (ast.Name, ast.Attribute)) for v in vals) and depth < 20:
            got = {pattern_const(v, inner, depth + 1) for v in vals}
            if len(got) == 1:
                return got.pop()
    if _compile_call(node):
        if not node.args and not any(k.arg == "pattern" for k in node.keywords):
            raise NotConstant("re.compile() without a pattern")
        parg = node.args[0] if node.args else [k.value for k in node.keywords if k.arg == "pattern"][0]
        pat = str_const(parg, scope, depth + 1)
        flags = flags_const(_flags_arg(node, 1))
        if "VERBOSE" in flags.split("|"):
            pat = strip_verbose(pat)
        return pat, flags
    return str_const(node, scope, depth + 1), ""


def is_compiled_name(node, scope, depth=0):
    d = deref(node, scope)
    if d is None:
        return False
    vals, inner, _ = d
    if not vals or any(v is None for v in vals):
        return False
    if all(_compile_call(v) for v in vals):
        return True
    if depth < 20 and all(isinstance(v, (ast.Name, ast.Attribute)) for v in vals):
        return all(is_compiled_name(v, inner, depth + 1) for v in vals)
    return False


def template_const(node, scope):
    """`"^(?:%s)$" % x`, `"…{}…".format(x)`, f"…{x}…", `"{" + x + "}"` with NON-constant `x`: the constant frame with the
    holes shown as `%s` / `{}` / `{}` / `<dynamic>` → (text, kind); None when the expression has no such shape"""
    try:
        if isinstance(node, ast.BinOp) and isinstance(node.op, ast.Mod):
            return str_const(node.left, scope), "%-template"
        if isinstance(node, ast.Call) and isinstance(node.func, ast.Attribute) and node.func.attr == "format":
            return str_const(node.func.value, scope), "format-template"
        if isinstance(node, ast.JoinedStr):
            out = []
            for v in node.values:
                if isinstance(v, ast.Constant):
                    out.append(str(v.value).replace("{", "{{").replace("}", "}}"))
                else:
                    try:
                        out.append(str_const(v.value, scope).replace("{", "{{").replace("}", "}}"))
                    except NotConstant:
                        out.append("{}")
            return "".join(out), "f-template"
        if isinstance(node, ast.BinOp) and isinstance(node.op, ast.Add):
            parts = []
            for side in (node.left, node.right):
                try:
                    parts.append(str_const(side, scope))
                except NotConstant:
                    t = template_const(side, scope)
                    parts.append(t[0] if t and t[1] == "+-template" else DYNAMIC)
            if any(p != DYNAMIC for p in parts):
                return "".join(parts), "+-template"
    except NotConstant:
        return None
    return None


def _literal_strs(node):
    """a str literal, or a list / tuple / set of str literals → printable canonical text; else None"""
    if isinstance(node, ast.Constant) and isinstance(node.value, str):
        return node.value
    if isinstance(node, (ast.List, ast.Tuple, ast.Set)) and node.elts and all(
            isinstance(e, ast.Constant) and isinstance(e.value, str) for e in node.elts):
        opener, closer = {"List": "[]", "Tuple": "()", "Set": "{}"}[type(node).__name__]
        return opener + ",".join(repr(e.value) for e in node.elts) + closer
    return None


def _slice_text(node, scope=None, depth=0):
    """`x[0:10]` → "[0:10]", `x.split()[0]` → "[0]", `line[0:21].lower()` → "[0:21].lower()" (only the subscript and
    argument-less methods behind it, never a variable name).  `m.group("name")` reads the field `m.groupdict()["name"]`
    reads and is shown like it; a local name that is bound to one expression (apart from `= None` initialisations)
    stands for that expression, so binding a field to a local first changes nothing."""
    tail = ""
    while isinstance(node, ast.Call) and isinstance(node.func, ast.Attribute) and not node.args and not node.keywords:
        tail = "." + node.func.attr + "()" + tail
        node = node.func.value
    if isinstance(node, ast.Subscript):
        sl = node.slice
        if isinstance(sl, ast.Slice):
            ok = all(p is None or (isinstance(p, ast.Constant) or (isinstance(p, ast.UnaryOp) and isinstance(p.operand, ast.Constant)))
                     for p in (sl.lower, sl.upper, sl.step))
            if ok:
                return "[" + ast.unparse(sl) + "]" + tail
        elif isinstance(sl, ast.Constant) or (isinstance(sl, ast.UnaryOp) and isinstance(sl.operand, ast.Constant)):
            return "[" + ast.unparse(sl) + "]" + tail
    if isinstance(node, ast.Call) and isinstance(node.func, ast.Attribute) and node.func.attr == "group" and len(node.args) == 1 \
            and not node.keywords and isinstance(node.args[0], ast.Constant) and isinstance(node.args[0].value, str):
        return "[" + ast.unparse(node.args[0]) + "]" + tail
    if isinstance(node, ast.Name) and scope is not None and scope.func is not None and depth < 5:
        vals, _, where = scope.lookup(node.id)
        if where == "function":
            vals = [v for v in vals if not (isinstance(v, ast.Constant) and v.value is None)]
            if vals and all(v is not None for v in vals) and len({ast.dump(v) for v in vals}) == 1:
                inner = _slice_text(vals[0], scope, depth + 1)
                if inner:
                    return inner + tail
    return ""


_CMP = {ast.Eq: "==", ast.NotEq: "!=", ast.In: "in", ast.NotIn: "not in", ast.Lt: "<", ast.LtE: "<=", ast.Gt: ">", ast.GtE: ">="}


def _repl_text(node, scope, depth=0):
    """replacement argument of re.sub: a string constant expression, or one passed through `str.translate(…)` (shown
    with the suffix ` via str.translate`: the table is not evaluated), possibly through a local name; else <dynamic>"""
    try:
        return str_const(node, scope)
    except NotConstant:
        pass
    if isinstance(node, ast.Call) and isinstance(node.func, ast.Attribute) and node.func.attr == "translate":
        try:
            return str_const(node.func.value, scope) + " via str.translate"
        except NotConstant:
            return DYNAMIC
    d = deref(node, scope)
    if d is not None and depth < 10:
        vals, inner, _ = d
        if vals and all(v is not None for v in vals):
            got = {_repl_text(v, inner, depth + 1) for v in vals}
            if len(got) == 1:
                return got.pop()
    return DYNAMIC


NEVER_SPECIAL_OUTSIDE = set("!\"#%&',-/:;<=>@_`~")
NEVER_SPECIAL_IN_CLASS = set("!\"#%&',/:;<=>@_`~.$*+?{}()|")


def normalise_pattern(p):
    """canonical text of a (non-verbose) pattern: what the regex engine does not distinguish is written one way —
    * a named group `(?P<name>…)` is written `(…)`, a named back-reference `(?P=name)` / conditional `(?(name)…)` by the
      group's number (the *names* are the code's business: a renamed group with its `.group("…")` calls renamed alike is
      the same scanner);
    * `\\c` for a character that is never special (`\\:` `\\/` `\\,` `\\-` outside a class, `\\.` `\\:` … inside one) is
      written `c`.
    Everything else is kept as it is (no regex is rewritten into an equivalent one of another shape)."""
    out = []
    names = {}
    ngroups = 0
    i, n, in_cls = 0, len(p), False
    while i < n:
        c = p[i]
        if c == "\\" and i + 1 < n:
            d = p[i + 1]
            if (in_cls and d in NEVER_SPECIAL_IN_CLASS) or (not in_cls and d in NEVER_SPECIAL_OUTSIDE):
                out.append(d)
            else:
                out.append(c + d)
            i += 2
            continue
        if in_cls:
            out.append(c)
            if c == "]":
                in_cls = False
            i += 1
            continue
        if c == "[":
            in_cls = True
            out.append(c)
            i += 1
            if i < n and p[i] == "^":
                out.append("^")
                i += 1
            if i < n and p[i] == "]":
                out.append("]")
                i += 1
            continue
        if c == "(":
            if p.startswith("(?P<", i):
                j = p.find(">", i)
                if j > 0:
                    ngroups += 1
                    names[p[i + 4:j]] = ngroups
                    out.append("(")
                    i = j + 1
                    continue
            if p.startswith("(?P=", i):
                j = p.find(")", i)
                if j > 0 and p[i + 4:j] in names:
                    out.append("\\%d" % names[p[i + 4:j]])
                    i = j + 1
                    continue
            if p.startswith("(?(", i):
                j = p.find(")", i)
                if j > 0 and p[i + 3:j] in names:
                    out.append("(?(%d)" % names[p[i + 3:j]])
                    i = j + 1
                    continue
            if not p.startswith("(?", i):
                ngroups += 1
        out.append(c)
        i += 1
    return "".join(out)


SEP_FUNCS = {"split", "rsplit", "partition", "rpartition", "replace", "join", "strip", "lstrip", "rstrip", "splitlines"}
ALWAYS_TRUE = {".*"}
MAX_EXPANSION = 32


def _str_collection(node, scope):
    """a constant list / tuple / set / frozenset of str (or one str: `name == "x"`) → sorted values; else None"""
    try:
        import constexpr
        v = constexpr.ceval(node, scope, dict(scope.fixed))
    except (NotConstant, RecursionError):
        return None
    if isinstance(v, str):
        return None
    if isinstance(v, (list, tuple, set, frozenset)) and v and all(isinstance(x, str) for x in v) and len(v) <= MAX_EXPANSION:
        return sorted(set(v))
    return None


def _context_values(name, node, parents, scope):
    """the finite set of str values the local `name` can have at `node`, known from the enclosing control flow:
    the body of `if name in <constant collection>:` / `if name == "lit":`, the body of `for name in <constant
    collection>:`, a comprehension over one; else None"""
    child, up = node, parents.get(id(node))
    while up is not None and not isinstance(up, (ast.FunctionDef, ast.AsyncFunctionDef, ast.Lambda)):
        if isinstance(up, ast.If) and any(child is st for st in up.body):
            tests = up.test.values if (isinstance(up.test, ast.BoolOp) and isinstance(up.test.op, ast.And)) else [up.test]
            for t in tests:
                if isinstance(t, ast.Compare) and len(t.ops) == 1 and isinstance(t.left, ast.Name) and t.left.id == name:
                    if isinstance(t.ops[0], ast.In):
                        vals = _str_collection(t.comparators[0], scope)
                        if vals:
                            return vals
                    elif isinstance(t.ops[0], ast.Eq):
                        try:
                            return [str_const(t.comparators[0], scope)]
                        except NotConstant:
                            pass
        if isinstance(up, (ast.For, ast.AsyncFor)) and isinstance(up.target, ast.Name) and up.target.id == name \
                and any(child is st for st in up.body):
            vals = _str_collection(up.iter, scope)
            if vals:
                return vals
        if isinstance(up, (ast.ListComp, ast.SetComp, ast.GeneratorExp, ast.DictComp)):
            for g in up.generators:
                if isinstance(g.target, ast.Name) and g.target.id == name:
                    vals = _str_collection(g.iter, scope)
                    if vals:
                        return vals
        child, up = up, parents.get(id(up))
    return None


def _expansions(expr, at, parents, scope):
    """the environments (name → str) under which a pattern expression that is not constant becomes constant: every
    local name of the expression whose possible values are known from the control flow around `at` ranges over them
    (see `_context_values`); [] when some name has no such set or there are too many combinations"""
    names = []
    for x in ast.walk(expr):
        if isinstance(x, ast.Name) and isinstance(x.ctx, ast.Load) and x.id not in names and x.id not in scope.fixed:
            vals, _, where = scope.lookup(x.id)
            if where in ("function", "parameter"):
                names.append(x.id)
    sets = []
    for nm in names:
        vals = _context_values(nm, at, parents, scope)
        if vals:
            sets.append((nm, vals))
    if not sets:
        return []
    import itertools
    total = 1
    for _, v in sets:
        total *= len(v)
    if total > MAX_EXPANSION:
        return []
    return [dict(zip([nm for nm, _ in sets], combo)) for combo in itertools.product(*[v for _, v in sets])]


def scan_function(func, scope, kinds=("re", "str", "in", "cmp"), distinct=True, normalise=True):
    """the scan list of a function: [(callee, text, detail)] in source order (see the module docstring).
    kinds: `re` regex-engine calls; `sep` separator arguments of str.split / join / replace / strip …; `test` literal
    arguments of str.startswith / endswith / find …; `in` `"lit" in x`; `cmp` comparisons with literals (`str` = `sep` +
    `test`).  With `normalise` a pattern is reported in canonical form: canonical verbose form WITHOUT the VERBOSE flag
    when it is compiled with re.VERBOSE, group names and redundant escapes removed (`normalise_pattern`), one item per
    value when a local name of the pattern is known to range over a constant collection, and a pattern that cannot fail
    (`.*`) is not reported."""
    if "str" in kinds:
        kinds = tuple(kinds) + ("sep", "test")
    parents = {}
    for x in ast.walk(func):
        for ch in ast.iter_child_nodes(x):
            parents[id(ch)] = x

    def canon(pat, flags):
        if not normalise:
            return pat, flags
        fl = [f for f in flags.split("|") if f]
        if "VERBOSE" in fl:
            fl.remove("VERBOSE")              # strip_verbose() was applied: the text no longer needs the flag
        return normalise_pattern(pat), "|".join(fl)

    out = []

    def add(callee, pat, detail):
        if normalise and pat in ALWAYS_TRUE and callee.startswith(("re.", ".re_")):
            return
        out.append((callee, pat, detail))

    for n in _own_nodes(func):
        if isinstance(n, ast.Call) and isinstance(n.func, ast.Attribute):
            attr = n.func.attr
            recv = n.func.value
            if "re" in kinds:
                is_re_mod = isinstance(recv, ast.Name) and recv.id == "re" and attr in RE_FUNCS
                is_compiled = attr in RE_FUNCS and is_compiled_name(recv, scope)
                is_helper = attr.startswith("re_")
                if is_re_mod or is_helper:
                    parg = n.args[0] if n.args else None
                    if parg is None:
                        for k in n.keywords:
                            if k.arg in ("pattern", "regex", "regexspec", "linespec", "regex_str"):
                                parg = k.value
                    callee = ("re." + attr) if is_re_mod else ("." + attr)
                    fl = ""
                    if is_re_mod:
                        pos = {"compile": 1, "search": 2, "match": 2, "fullmatch": 2, "findall": 2, "finditer": 2,
                               "split": 3, "sub": 4, "subn": 4}[attr]
                        try:
                            fl = flags_const(_flags_arg(n, pos))
                        except NotConstant:
                            fl = DYNAMIC
                    if parg is None:
                        add(callee, DYNAMIC, fl)
                        continue
                    scopes = [scope]
                    try:
                        pattern_const(parg, scope)
                    except NotConstant:
                        envs = _expansions(parg, n, parents, scope) if normalise else []
                        try:
                            for e in envs:
                                pattern_const(parg, scope.with_fixed(e))
                            scopes = [scope.with_fixed(e) for e in envs]
                        except NotConstant:
                            scopes = []
                        if not scopes:
                            t = template_const(parg, scope)
                            if t:
                                tp, _ = canon(t[0], "")
                                add(callee, tp, (t[1] + " " + canon("", fl)[1]).strip())
                            else:
                                add(callee, DYNAMIC, canon("", fl)[1] if fl != DYNAMIC else fl)
                            continue
                    for sc in scopes:
                        pat, fl0 = pattern_const(parg, sc)
                        if "VERBOSE" in fl.split("|"):
                            pat = strip_verbose(pat)
                        pat, detail = canon(pat, fl or fl0) if fl != DYNAMIC else (canon(pat, "")[0], fl)
                        if is_re_mod and attr in ("sub", "subn") and len(n.args) >= 2:
                            # the replacement text belongs to the scanner as much as the pattern
                            detail = (detail + " repl=" + _repl_text(n.args[1], sc)).strip()
                        add(callee, pat, detail)
                    continue
                if is_compiled:
                    # `<compiled pattern>.search(x)` is reported exactly like `re.search(<its text>, x, <its flags>)`, so
                    # hoisting a pattern into a compiled constant (or the reverse), or renaming the constant, changes nothing
                    try:
                        pat, fl = pattern_const(recv, scope)
                        pat, fl = canon(pat, fl)
                    except NotConstant:
                        pat, fl = DYNAMIC, ""
                    add("re." + attr, pat, fl)
                    continue
            want = "sep" if attr in SEP_FUNCS else "test"
            if want in kinds and attr in STR_FUNCS and not (isinstance(recv, ast.Name) and recv.id == "re"):
                lits = [_literal_strs(a) for a in n.args]
                if want == "sep":
                    # a separator hoisted into a named constant is still that separator
                    for i, a in enumerate(n.args):
                        if lits[i] is None and not isinstance(a, ast.Starred):
                            try:
                                lits[i] = str_const(a, scope)
                            except NotConstant:
                                pass
                if attr == "join":
                    try:
                        out.append(("str.join", str_const(recv, scope), ""))
                    except NotConstant:
                        pass
                    continue
                if attr in ("split", "rsplit", "strip", "lstrip", "rstrip", "splitlines") and not n.args and not n.keywords:
                    if attr in ("split", "rsplit", "splitlines"):
                        out.append((f"str.{attr}()", "", ""))
                    continue
                if n.args and all(x is not None for x in lits):
                    out.append((f"str.{attr}", ",".join(repr(x) for x in lits) if len(lits) > 1 else lits[0], ""))
                continue
        if ("cmp" in kinds or "in" in kinds) and isinstance(n, ast.Compare) and len(n.ops) == 1:
            op = _CMP.get(type(n.ops[0]))
            left, right = n.left, n.comparators[0]
            ll, rl = _literal_strs(left), _literal_strs(right)
            if op and (ll is not None) != (rl is not None):
                lit, other = (ll, right) if ll is not None else (rl, left)
                # the polarity of a test is control flow, not scanner text: `!=` is reported as `==`, `not in` as `in`
                op = {"!=": "==", "not in": "in"}.get(op, op)
                side = "lit " + op if ll is not None else op
                kind = "in" if side == "lit in" else "cmp"
                if kind in kinds and lit != "":
                    out.append((side, lit, _slice_text(other, scope)))
    if distinct:
        seen, uniq = set(), []
        for t in out:
            if t not in seen:
                seen.add(t)
                uniq.append(t)
        out = uniq
    return out


def find_class(tree, name):
    found = [n for n in tree.body if isinstance(n, ast.ClassDef) and n.name == name]
    if len(found) != 1:
        raise KeyError(f"expected exactly one top-level class {name}, found {len(found)}")
    return found[0]


def find_method(holder, name):
    """the definition of `name` that is in force in a class body / module (the last one; property setters and
    deleters are not the accessor)"""
    found = []
    for n in holder.body:
        if isinstance(n, (ast.FunctionDef, ast.AsyncFunctionDef)) and n.name == name:
            decos = [ast.unparse(d) for d in n.decorator_list]
            if any(d.endswith(".setter") or d.endswith(".deleter") for d in decos):
                continue
            found.append(n)
    if not found:
        raise KeyError(f"function {name} not found in {getattr(holder, 'name', 'module')}")
    return found[-1]


def class_bases_in_file(tree, cls):
    """the class and, transitively, those of its base classes that are defined at the top level of the same file"""
    out, todo = [], [cls]
    while todo:
        c = todo.pop(0)
        if c in out:
            continue
        out.append(c)
        for b in c.bases:
            if isinstance(b, ast.Name):
                todo += [n for n in tree.body if isinstance(n, ast.ClassDef) and n.name == b.id]
    return out


def resolve_method(tree, cls, name):
    """(defining class, function) of `cls.name`, looked up in the class and then in its same-file bases"""
    for h in class_bases_in_file(tree, cls):
        try:
            return h, find_method(h, name)
        except KeyError:
            continue
    raise KeyError(f"function {name} not found in {cls.name} or its base classes of the same file")


def helpers_of(tree, self_cls, func):
    """the functions of the SAME source file that `func` refers to: `self.X` / `cls.X` (a method call or a property
    read; X looked up in `self_cls` — the class the entry point was asked for — and its same-file bases),
    `ClassName.X` for a class of the file, and calls of module level functions of the file
    → [(defining class or None, function node)]"""
    out = []
    classes = {n.name: n for n in tree.body if isinstance(n, ast.ClassDef)}
    funcs = {n.name: n for n in tree.body if isinstance(n, (ast.FunctionDef, ast.AsyncFunctionDef))}
    for n in _own_nodes(func):
        if isinstance(n, ast.Attribute) and isinstance(n.value, ast.Name):
            holder = None
            if n.value.id in ("self", "cls") and self_cls is not None:
                holder = self_cls
            elif n.value.id in classes:
                holder = classes[n.value.id]
            if holder is not None:
                try:
                    out.append(resolve_method(tree, holder, n.attr))
                except KeyError:
                    pass
        elif isinstance(n, ast.Call) and isinstance(n.func, ast.Name) and n.func.id in funcs:
            out.append((None, funcs[n.func.id]))
    return out


def reach(tree, cls, func_name, stop=()):
    """the entry point `cls.func_name` (or the module level function) and every same-file helper it reaches
    (`helpers_of`, transitively, never entering a function named in `stop`) → [(defining class or None, function)]"""
    if cls is not None:
        start = resolve_method(tree, cls, func_name)
    else:
        start = (None, find_method(tree, func_name))
    seen, order = set(), []

    def visit(c, f):
        key = (c.name if c is not None else None, f.name, f.lineno)
        if key in seen:
            return
        seen.add(key)
        order.append((c, f))
        for c2, f2 in helpers_of(tree, cls if c is not None else None, f):
            if f2.name not in stop:
                visit(c2, f2)
    visit(*start)
    return order


OBLIGATION_KINDS = ("re", "sep")
INFO_KINDS = ("test", "in", "cmp")
MAX_CALL_SITES = 16


def _params_of(cls, f):
    """the parameters a call binds, in order (without `self` / `cls` of a method that is not a staticmethod)"""
    names = [a.arg for a in f.args.posonlyargs + f.args.args]
    decos = [ast.unparse(d) for d in f.decorator_list]
    if cls is not None and "staticmethod" not in decos and names:
        names = names[1:]
    return names, [a.arg for a in f.args.kwonlyargs]


def call_site_bindings(tree, fs, loader):
    """{id(function): [ {parameter: str constant} … ]} — for every reached helper, the constant string arguments its call
    sites inside the reached functions pass (one environment per distinct combination).  A helper that is also called
    with a non-constant argument, read without being called, or the entry point itself gets the empty environment too,
    so its body is scanned with that parameter unknown as well."""
    classes = {n.name: n for n in tree.body if isinstance(n, ast.ClassDef)}
    by_name = {}
    for c, f in fs:
        by_name.setdefault(f.name, []).append((c, f))
    out = {id(f): [] for _, f in fs}
    if fs:
        out[id(fs[0][1])].append({})
    for c, f in fs:
        sc = Scope(tree, c, f, loader)
        called = set()
        for n in ast.walk(f):
            if not isinstance(n, ast.Call):
                continue
            target = None
            if isinstance(n.func, ast.Attribute) and isinstance(n.func.value, ast.Name) \
                    and (n.func.value.id in ("self", "cls") or n.func.value.id in classes):
                target = n.func.attr
            elif isinstance(n.func, ast.Name):
                target = n.func.id
            if target not in by_name:
                continue
            called.add(id(n.func))
            for c2, f2 in by_name[target]:
                pos, kwonly = _params_of(c2, f2)
                env, complete = {}, True
                for nm, a in zip(pos, n.args):
                    if isinstance(a, ast.Starred):
                        complete = False
                        break
                    try:
                        env[nm] = str_const(a, sc)
                    except NotConstant:
                        pass
                for k in n.keywords:
                    if k.arg is None:
                        complete = False
                    elif k.arg in pos or k.arg in kwonly:
                        try:
                            env[k.arg] = str_const(k.value, sc)
                        except NotConstant:
                            pass
                if not complete:
                    env = {}
                if env not in out[id(f2)]:
                    out[id(f2)].append(env)
        # a reference that is not a call (a property read, a callback): the parameters are unknown
        for n in ast.walk(f):
            if isinstance(n, ast.Attribute) and id(n) not in called and isinstance(n.value, ast.Name) \
                    and (n.value.id in ("self", "cls") or n.value.id in classes) and n.attr in by_name:
                for _, f2 in by_name[n.attr]:
                    if {} not in out[id(f2)]:
                        out[id(f2)].append({})
    for k, envs in out.items():
        if not envs or len(envs) > MAX_CALL_SITES:
            out[k] = [{}]
    return out


def scan_closure(tree, cls, func_name, kinds, loader, stop=(), normalise=True):
    """the scan SET of an entry point: the scan lists of the function and of every same-file helper it reaches, as a
    sorted duplicate-free list.  A helper is scanned once per combination of constant string arguments its call sites
    pass (`call_site_bindings`), so a pattern handed to a helper as an argument is the pattern.  Moving a regex between
    the function and a helper (or a base class of the file), passing it as an argument, re-ordering the tests, repeating
    one, hoisting a pattern into a compiled constant or renaming a constant, a group or a local variable changes nothing;
    changing the text of a pattern, its flags, a replacement or a separator does.
    → (obligation items: kinds `re` / `sep`, informational items: kinds `test` / `in` / `cmp`, names of the functions reached)"""
    if "str" in kinds:
        kinds = tuple(kinds) + ("sep", "test")
    items, info = set(), set()
    fs = reach(tree, cls, func_name, stop)
    envs = call_site_bindings(tree, fs, loader)
    ob_kinds = tuple(k for k in kinds if k in OBLIGATION_KINDS)
    in_kinds = tuple(k for k in kinds if k in INFO_KINDS)
    for c, f in fs:
        for env in envs[id(f)]:
            items.update(scan_function(f, Scope(tree, c, f, loader, env), ob_kinds, distinct=False, normalise=normalise))
        if in_kinds:
            info.update(scan_function(f, Scope(tree, c, f, loader), in_kinds, distinct=False, normalise=normalise))
    return sorted(items), sorted(info), sorted(f.name if c is None else f"{c.name}.{f.name}" for c, f in fs)


def lean_triples(items, lean_str):
    if not items:
        return "[]"
    return "[" + ",\n   ".join(f"({lean_str(a)}, {lean_str(b)}, {lean_str(c)})" for a, b, c in items) + "]"


def lean_pairs(items, lean_str):
    if not items:
        return "[]"
    return "[" + ",\n   ".join(f"({lean_str(a)}, {lean_str(b)})" for a, b in items) + "]"


# ----------------------------------------------------------------------------------------------------------------
# special shapes
# ----------------------------------------------------------------------------------------------------------------

def argparse_str_defaults(func, scope):
    r"""`<parser>.add_argument("-w", "--word_delimiter", default=r"\s+", …)` → [(longest option string, default)] for
    every add_argument call of the function whose `default=` is a string constant expression"""
    out = []
    for n in _own_nodes(func):
        if isinstance(n, ast.Call) and isinstance(n.func, ast.Attribute) and n.func.attr == "add_argument":
            names = [a.value for a in n.args if isinstance(a, ast.Constant) and isinstance(a.value, str)]
            if not names:
                continue
            dflt = [k.value for k in n.keywords if k.arg == "default"]
            if not dflt:
                continue
            try:
                out.append((max(names, key=len), str_const(dflt[0], scope)))
            except NotConstant:
                continue
    return out


def getattr_str_defaults(func, scope):
    r"""`getattr(args, 'word_delimiter', r"\s+")` → [(attribute name, default)] for string defaults"""
    out = []
    for n in _own_nodes(func):
        if isinstance(n, ast.Call) and isinstance(n.func, ast.Name) and n.func.id == "getattr" and len(n.args) == 3 \
                and isinstance(n.args[1], ast.Constant) and isinstance(n.args[1].value, str):
            try:
                out.append((n.args[1].value, str_const(n.args[2], scope)))
            except NotConstant:
                continue
    return out


def call_shape(func, callee, scope):
    """the calls `callee(…)` inside a function: positional arguments and keywords as text — a string constant
    expression by its value (quoted), a string built around a non-constant part as `template '…'`, an imported name
    passed as is as `name X`, anything else `<dynamic>` → one [(argument slot, text)] per call"""
    calls = []
    for n in _own_nodes(func):
        if isinstance(n, ast.Call) and ast.unparse(n.func).split(".")[-1] == callee:
            slots = []

            def show(v):
                try:
                    return repr(str_const(v, scope))
                except NotConstant:
                    pass
                t = template_const(v, scope)
                if t is not None:
                    return "template " + repr(t[0])
                if isinstance(v, ast.Name):
                    _, _, where = scope.lookup(v.id)
                    if where == "unbound":
                        return "name " + v.id           # an imported / builtin name
                return DYNAMIC
            for i, a in enumerate(n.args):
                slots.append((str(i), show(a)))
            for k in n.keywords:
                slots.append((k.arg or "**", show(k.value)))
            calls.append(slots)
    return calls


# ----------------------------------------------------------------------------------------------------------------
# what is emitted (one block per property; the theorems are lean/Ccp/Props/RxCxx.lean : regexes_as_modelled)
# ----------------------------------------------------------------------------------------------------------------

ALL = ("re", "str", "in", "cmp")
RS = ("re", "str")
RSI = ("re", "str", "in")

# (lean name, source file, class or None, entry function, kinds, functions never entered, properties whose
#  `regexes_as_modelled` states it — shown in front of a translator PROBLEM so that it can be attributed)
ENTRIES = [
    # C11
    ("rxIPv4ObjInit", "ccp_util.py", "IPv4Obj", "__init__", RS, (), "C11"),
    ("rxIPv6ObjInit", "ccp_util.py", "IPv6Obj", "__init__", RS, (), "C11"),
    # C15 (and, through Ccp.Model.Intf, C19)
    ("rxIntfParse", "ccp_util.py", "CiscoIOSInterface", "parse_single_interface", RSI, (), "C15,C19"),
    ("rxRangeInterfaces", "ccp_util.py", "CiscoRange", "__init__", RSI, ("parse_integers", "parse_floats"), "C15"),
    # C14 (and, through Ccp.Model.Range, C19)
    ("rxRangeIntegers", "ccp_util.py", "CiscoRange", "__init__", RSI, ("parse_cisco_interfaces", "parse_strings", "parse_floats"), "C14,C19"),
    # C20
    ("rxAsaNames", "ciscoconfparse2.py", "ConfigList", "asa_object_group_names", ALL, (), "C20"),
    ("rxAsaObjNet", "ciscoconfparse2.py", "ConfigList", "asa_object_group_network", ALL, (), "C20"),
    ("rxAsaAcl", "ciscoconfparse2.py", "ConfigList", "asa_access_list", ALL, (), "C20"),
    ("rxAsaGroupInit", "models_asa.py", "ASAObjGroupNetwork", "__init__", ALL, (), "C20"),
    ("rxAsaGroupIsObjectFor", "models_asa.py", "ASAObjGroupNetwork", "is_object_for", ALL, (), "C20"),
    ("rxAsaGroupNetworkStrings", "models_asa.py", "ASAObjGroupNetwork", "network_strings", ALL, (), "C20"),
    ("rxAsaNameInit", "models_asa.py", "ASAName", "__init__", ALL, (), "C20"),
    ("rxAsaNameIsObjectFor", "models_asa.py", "ASAName", "is_object_for", ALL, (), "C20"),
    ("rxL4ObjectInit", "ccp_util.py", "L4Object", "__init__", ALL, (), "C20"),
    # C18
    ("rxCliIpgrep", "cli_script.py", "CliApplication", "ipgrep_command", RSI, (), "C18"),
    ("rxCliMacgrep", "cli_script.py", "CliApplication", "macgrep_command", RSI, (), "C18"),
    ("rxCliMacSearch", "cli_script.py", "MACEUISearch", "search_all_formats", RSI, (), "C18"),
    # C04
    ("rxSpaceTolerant", "ciscoconfparse2.py", None, "build_space_tolerant_regex", RS, (), "C04"),
    ("rxEscapeLinespec", "ciscoconfparse2.py", None, "escape_linespec", RS, (), "C04"),
    ("rxFindLineObj", "ciscoconfparse2.py", "CiscoConfParse", "_find_line_OBJ", RS, (), "C04"),
    # C08
    ("rxBraceUnpack", "ciscoconfparse2.py", "BraceParse", "unpack_nested_list_to_config_objs", ALL, (), "C08"),
]

# C19: the accessors of models_cisco.py that Ccp.Model.IosModels models, looked up from the concrete classes
IOS_ACCESSORS = [
    ("IOSIntfLine", ["is_object_for", "is_intf", "is_in_portchannel", "portchannel_number", "is_portchannel_intf",
                     "name", "cisco_interface_object", "port_type", "interface_number", "subinterface_number",
                     "description", "ipv4_addr", "ipv4_netmask", "ipv4_addr_object", "ip_secondary_addresses",
                     "ip_secondary_networks", "vrf", "manual_mtu", "manual_ip_mtu", "is_shutdown", "is_switchport",
                     "has_manual_switch_access", "has_manual_switch_trunk", "access_vlan", "native_vlan",
                     "trunk_vlans_allowed"]),
    ("IOSRouteLine", ["is_object_for", "__init__"]),
]


# patterns reached from a modelled entry point that no model scans for (the generator never produces a line they could
# match): not tied, so that an edit of them is not reported against a model that does not depend on them.
# (entry class, entry function) → prefixes of the pattern texts that are left out of the scan set
NOT_MODELLED = {
    ("IOSRouteLine", "__init__"): ("^ipv6\\s+route",),       # _RE_IPV6_ROUTE: Ccp.Model.IosModels covers `ip route` only
}


def ios_lean_name(cls, accessor):
    return "rxIos_" + cls + "_" + accessor.strip("_")


def emit_all(src, emit, lean_str):
    """called by translate.tables(): `src.tree(fn)` gives the AST of a source file, `emit(name, thunk)` records a block
    (an exception raised by the thunk becomes a translator PROBLEM; the block name starts with the ids of the properties
    whose `regexes_as_modelled` needs the block)"""
    loader = src.tree

    def closure(fn, cls, func, kinds, stop):
        tree = src.tree(fn)
        c = find_class(tree, cls) if cls else None
        return scan_closure(tree, c, func, kinds, loader, stop)

    def t_scan(lean, fn, cls, func, kinds, stop, label):
        def go():
            items, info, reached = closure(fn, cls, func, kinds, stop)
            left_out = NOT_MODELLED.get((cls, func), ())
            n0 = len(items)
            items = [t for t in items if not any(t[1].startswith(p) for p in left_out)]
            if left_out and len(items) == n0:
                raise KeyError(f"{cls}.{func}: nothing starts with {left_out} any more (NOT_MODELLED is stale)")
            if not items and not info:
                raise KeyError(f"{cls + '.' if cls else ''}{func} in {fn} contains none of the scanned constructs any more")
            via = [r for r in reached if r != (f"{cls}.{func}" if cls else func)]
            ob = [k for k in ("re", "sep") if k in kinds or (k == "sep" and "str" in kinds)]
            text = (f"/-- {label}scan set of `{fn}: {cls + '.' if cls else ''}{func}`"
                    + (f" (never entering {', '.join(stop)})" if stop else "")
                    + f"; kinds {'/'.join(ob)} (regex-engine calls with the pattern in canonical form, separator arguments);\n"
                    "sorted: (what, text, flags or detail)"
                    + (f"; helpers reached now: {', '.join(via)}" if via else "")
                    + (f"; left out (not modelled): pattern texts starting with {', '.join(left_out)}" if left_out else "") + " -/\n"
                    f"def {lean} : List (String × String × String) :=\n  {lean_triples(items, lean_str)}\n"
                    f"/-- INFORMATIONAL, no theorem is about it: the literal tests of the same functions (`\"lit\" in …`, comparisons with\n"
                    f"string literals, str.startswith / endswith / find …) with the constant subscript of the other side -/\n"
                    f"def {lean}Info : List (String × String × String) :=\n  {lean_triples(info, lean_str)}\n")
            return text, {"obligation": len(items), "informational": len(info)}
        return go

    triples = "List (String × String × String)"
    for lean, fn, cls, func, kinds, stop, props in ENTRIES:
        emit(f"[{props}] {lean}", t_scan(lean, fn, cls, func, kinds, stop, ""), serves=tuple(props.split(",")),
             defs_=[(lean, triples)])
    for cls, accs in IOS_ACCESSORS:
        for a in accs:
            lean = ios_lean_name(cls, a)
            emit(f"[C19] {lean}", t_scan(lean, "models_cisco.py", cls, a, ALL, (), "C19: "), serves=("C19",),
                 defs_=[(lean, triples)])

    def t_cli_defaults():
        tree = src.tree("cli_script.py")
        ap = find_class(tree, "ArgParser")
        rows = []
        for f in ap.body:
            if isinstance(f, ast.FunctionDef) and f.name.startswith("build_command_args_"):
                for opt, d in argparse_str_defaults(f, Scope(tree, ap, f, loader)):
                    rows.append((f.name[len("build_command_args_"):] + " " + opt, d))
        if not rows:
            raise KeyError("no add_argument(..., default=<str>) found in ArgParser.build_command_args_*")
        app = find_class(tree, "CliApplication")
        g = []
        for c, f in reach(tree, app, "__init__", stop=("parent_command", "child_command", "branch_command", "diff_command",
                                                       "ipgrep_command", "macgrep_command")):
            g += getattr_str_defaults(f, Scope(tree, c, f, loader))
        if not g:
            raise KeyError("no getattr(args, <name>, <str>) found in CliApplication.__init__")
        return ("/-- C18: string defaults of the argparse options (`<sub-command> <option>`, default) of\n"
                "`ArgParser.build_command_args_*`, and of the `getattr(args, name, default)` fall-backs of `CliApplication.__init__`\n"
                "(both sorted) -/\n"
                f"def rxCliArgDefaults : List (String × String) :=\n  {lean_pairs(sorted(set(rows)), lean_str)}\n"
                f"def rxCliGetattrDefaults : List (String × String) :=\n  {lean_pairs(sorted(set(g)), lean_str)}\n"), \
            {"options": len(rows), "getattr": len(g)}
    emit("[C18] rxCliDefaults", t_cli_defaults, serves=("C18",),
         defs_=[("rxCliArgDefaults", "List (String × String)"), ("rxCliGetattrDefaults", "List (String × String)")])

    def t_brace():
        tree = src.tree("ciscoconfparse2.py")
        c = find_class(tree, "BraceParse")
        fs = reach(tree, c, "__init__")
        rows = []
        for callee in ("Word", "White", "Combine", "OneOrMore", "nested_expr", "parse_string"):
            calls = []
            for dc, f in fs:
                calls += call_shape(f, callee, Scope(tree, dc, f, loader))
            if len(calls) != 1:
                raise KeyError(f"BraceParse.__init__ and its helpers: expected exactly one call of {callee}, found {len(calls)}")
            for slot, text in calls[0]:
                rows.append((f"{callee} {slot}", text))
        # the names must still be the pyparsing ones
        imported = set()
        for n in tree.body:
            if isinstance(n, ast.ImportFrom) and n.module and n.module.split(".")[0] == "pyparsing":
                for a in n.names:
                    if a.asname not in (None, a.name):
                        raise KeyError(f"pyparsing.{a.name} is imported under another name ({a.asname})")
                    imported.add(a.name)
        need = {"Word", "White", "printables", "OneOrMore", "Combine", "nested_expr"}
        if not need <= imported:
            raise KeyError(f"pyparsing names no longer imported by name: {sorted(need - imported)}")
        import importlib
        import inspect
        pp = importlib.import_module("pyparsing")
        regexes = []

        def walk(e, depth=0):
            if depth > 12:
                return
            if isinstance(e, pp.Regex):
                regexes.append(e.pattern)
            for sub in list(getattr(e, "exprs", []) or []) + ([e.expr] if getattr(e, "expr", None) is not None else []):
                walk(sub, depth + 1)
        walk(pp.quoted_string)
        if not regexes:
            raise KeyError("no Regex found inside pyparsing.quoted_string")
        white = "".join(sorted(pp.ParserElement.DEFAULT_WHITE_CHARS))
        ig = inspect.signature(pp.nested_expr).parameters.get("ignore_expr")
        ig_default = "quoted_string" if (ig is not None and ig.default is not inspect.Parameter.empty
                                         and str(ig.default) == str(pp.quoted_string)) else repr(ig.default if ig else None)
        pa = inspect.signature(pp.ParserElement.parse_string).parameters.get("parse_all")
        return ("/-- C08: the arguments of the pyparsing calls reached from `BraceParse.__init__` (source, AST):\n"
                "(`<callee> <positional index or keyword>`, value) -/\n"
                f"def rxBraceCalls : List (String × String) :=\n  {lean_pairs(rows, lean_str)}\n"
                f"/-- constants of the INSTALLED third-party package `pyparsing` (version {pp.__version__}; read by importing it, it\n"
                "is not part of /repo): `printables`, `ParserElement.DEFAULT_WHITE_CHARS` (sorted), the `Regex` patterns inside\n"
                "`quoted_string`, the default of `nested_expr(ignore_expr=…)`, the default of `parse_string(parse_all=…)` -/\n"
                f"def ppPrintables : String := {lean_str(pp.printables)}\n"
                f"def ppDefaultWhiteChars : String := {lean_str(white)}\n"
                f"def ppQuotedStringRegexes : List String := [{', '.join(lean_str(r) for r in regexes)}]\n"
                f"def ppNestedExprIgnoreDefault : String := {lean_str(ig_default)}\n"
                f"def ppParseAllDefault : String := {lean_str(repr(pa.default) if pa is not None else 'absent')}\n"), \
            {"pyparsing": pp.__version__, "calls": len(rows)}
    emit("[C08] rxBrace", t_brace, serves=("C08",),
         defs_=[("rxBraceCalls", "List (String × String)"), ("ppPrintables", "String"), ("ppDefaultWhiteChars", "String"),
                ("ppQuotedStringRegexes", "List String"), ("ppNestedExprIgnoreDefault", "String"),
                ("ppParseAllDefault", "String")])
