"""Check skeleton shared by all properties (DESIGN.md section 2.2).

exit 0  property held on everything explored (KNOWN-FINDING lines allowed)
exit 1  VIOLATION line printed
exit 2  the harness itself failed (timeout, crash, driver protocol error)
"""
import collections
import hashlib
import importlib
import json
import multiprocessing
import os
import random
import sys
import time
import traceback

HERE = os.path.dirname(os.path.abspath(__file__))
VERIF = os.path.dirname(HERE)
sys.path.insert(0, HERE)

import fingerprint  # noqa: E402
import lean  # noqa: E402
import translate  # noqa: E402

REPO = os.environ.get("CCP2_REPO", "/repo")
GUARD = "CCP2_VERIF"


def load_known(prop):
    path = os.path.join(VERIF, "known_findings.json")
    if not os.path.exists(path):
        return {}
    data = json.load(open(path))
    return {f["id"]: f for f in data.get("findings", []) if f.get("property") == prop}


class CaseTimeout(BaseException):
    """raised by the per-case CPU timer inside the implementation run (BaseException: `except Exception` in the code under
    test must not swallow it)"""


CASE_CPU_LIMIT = float(os.environ.get("VERIF_CASE_CPU", "30"))
# shared between the forked workers: once a few cases have timed out, the rest of the run is skipped (each further hang
# would cost CASE_CPU_LIMIT seconds and the failing inputs are already in hand)
_TIMEOUTS = multiprocessing.Value("i", 0)
MAX_TIMEOUTS = 4


def _on_case_timer(signum, frame):
    raise CaseTimeout()


def _impl_one(args):
    modname, case = args
    mod = importlib.import_module(modname)
    req = None
    import signal
    if _TIMEOUTS.value >= MAX_TIMEOUTS:
        return "skipped-after-timeouts", [], None
    # A case normally takes milliseconds.  An implementation that no longer returns on some input (an edit that loops
    # for ever) must be reported with that input, not end the whole check with a harness timeout: bound the CPU time of
    # one case (ITIMER_PROF counts CPU time of this process only, so a loaded machine does not trip it).
    old = signal.signal(signal.SIGPROF, _on_case_timer)
    # fires again every second of CPU after the limit: code under test that swallows BaseException (ConfigList.__getattribute__
    # does) cannot hold on to the case for long
    signal.setitimer(signal.ITIMER_PROF, CASE_CPU_LIMIT, 1.0)
    try:
        return _impl_one_inner(mod, case, req)
    except CaseTimeout:
        with _TIMEOUTS.get_lock():
            _TIMEOUTS.value += 1
        return "timeout", [f"implementation did not return within {CASE_CPU_LIMIT:g} s of CPU time on this input"], None
    finally:
        signal.setitimer(signal.ITIMER_PROF, 0)
        signal.signal(signal.SIGPROF, old)


def _impl_one_inner(mod, case, req):
    try:
        ans = mod.impl(case)
        if isinstance(ans, tuple):
            # the request for the model depends on what the implementation run observed
            # (oracle rows computed with `re` on the texts of that moment)
            ans, req = ans
            case["req"] = req
    except CaseTimeout:
        raise
    except BaseException as e:  # the module maps expected exceptions itself
        tb = traceback.extract_tb(e.__traceback__)
        inner = tb[-1].filename if tb else ""
        if inner.startswith(os.path.realpath(REPO)) or inner.startswith(REPO) or "site-packages" in inner:
            # the exception was raised inside the implementation (or a library it calls) on an input the property
            # module did not expect to fail: that is an outcome of the code under test, not a harness fault
            ans = "unexpected-exc:" + type(e).__name__
            return ans, [f"implementation raised unexpected {type(e).__name__}: {str(e)[:160]} (at {inner.split('/')[-1]}:{tb[-1].lineno})"], req
        ans = "harness-exc:" + type(e).__name__ + ":" + str(e)[:200] + traceback.format_exc()[-800:]
    try:
        fails = mod.oracle(case, ans)
    except CaseTimeout:
        raise
    except BaseException as e:
        fails = ["oracle-exc:" + type(e).__name__ + ":" + str(e)[:200] + traceback.format_exc()[-600:]]
    return ans, fails, req


def _mix_child(args):
    """One process, many cases back to back in a shuffled order and then in the reverse order: state that leaks from one
    call into the next (a module-level cache with too coarse a key, a shared default argument, a class attribute used as
    scratch space) shows as a property failure of a case that passed when it ran on its own.  Returns the first failure
    as (position in the order, phase, failure text, answer) or None.  Only the independent oracle judges."""
    modname, cases, order, known_ids, budget = args
    mod = importlib.import_module(modname)
    t0 = time.process_time()
    for phase, seq in (("shuffled", order), ("reversed", list(reversed(order)))):
        for pos, i in enumerate(seq):
            if time.process_time() - t0 > budget:
                return None
            c = dict(cases[i])
            a, fails, _ = _impl_one((modname, c))
            if a == "skipped-after-timeouts":
                return None
            for f in fails:
                kid = mod.known_id(c, f) if hasattr(mod, "known_id") else None
                if kid and kid in known_ids:
                    continue
                if str(f).startswith("oracle-exc:") or str(a).startswith("harness-exc:"):
                    continue
                return (pos, phase, f, a)
    return None


def _search_child(args):
    modname, prop, seed, seeds, known = args
    mod = importlib.import_module(modname)
    rng = random.Random(f"{prop}-{seed}-search")
    pool = []
    if hasattr(mod, "neighbours"):
        for c in seeds:
            for n in mod.neighbours(c, rng):
                pool.append(n)
                if len(pool) > 4000:
                    break
    extra = getattr(mod, "SEARCH_EXTRA", 2000)
    gen = mod.cases(random.Random(f"{prop}-{seed}-extra"), "search")
    for c in gen:
        pool.append(c)
        if len(pool) > 4000 + extra:
            break
    for c in pool:
        a, fails, _ = _impl_one((modname, c))
        if a == "skipped-after-timeouts":
            break
        for f in fails:
            kid = mod.known_id(c, f) if hasattr(mod, "known_id") else None
            if kid and kid in known and known[kid].get("kind") == "known":
                continue
            return c, a, f
    return None


def _mix_child_seq(args):
    """run the given cases in order in this (fresh) process; True iff the LAST one fails its oracle"""
    modname, seq, known_ids = args
    mod = importlib.import_module(modname)
    last = None
    for c in seq:
        c = dict(c)
        a, fails, _ = _impl_one((modname, c))
        last = [f for f in fails
                if not ((mod.known_id(c, f) if hasattr(mod, "known_id") else None) in known_ids)
                and not str(f).startswith("oracle-exc:")]
    return bool(last)


class Check:
    def __init__(self, modname, tier, seed, replay=None):
        self.modname = modname
        self.mod = importlib.import_module(modname)
        self.prop = self.mod.ID
        self.tier = tier
        self.seed = seed
        self.replay = replay
        self.t0 = time.time()
        self.notes = []
        self.violations = []   # (kind, replay_path, suffix)
        self.known_hits = collections.Counter()

    # ------------------------------------------------------------------ lean
    def lean_side(self):
        mod = self.mod
        info = {"obligations": 0, "discharged": 0, "theorems": {}, "problems": [], "build_failed": []}
        tr = translate.regenerate(REPO)
        info["translator"] = tr
        # a translator problem is a broken obligation of the properties its extractor serves (declared by the extractor,
        # or read off the Lean sources: a property whose modules refer to one of the extractor's definitions) — not of
        # every property.  The definitions of a failed extractor are emitted as marked place-holders, so the modules of the
        # other properties (and the driver) still build; a build failure of this property's own modules is reported below.
        mine, others = translate.problems_for(tr, self.prop)
        for p in mine:
            info["problems"].append("translator: " + p)
        info["translator_problems_elsewhere"] = others
        if others:
            self.notes.append(f"{len(others)} translator problem(s) that concern other properties only: "
                              + "; ".join(o[:160] for o in others[:5]))
        targets = list(getattr(mod, "LEAN_MODULES", [])) + ["ccpdrv"]
        b = lean.build(targets)
        info["build_wall_s"] = round(b.wall_s, 2)
        info["build_failed"] = b.failed_targets
        info["build_log"] = b.log[-4000:]
        self.driver_ok = "ccpdrv" not in b.failed_targets and os.path.exists(lean.DRIVER)
        names_all = []
        for lm in getattr(mod, "LEAN_MODULES", []):
            names = lean.theorems_of(lm)
            names_all += names
            if lm in b.failed_targets:
                info["problems"].append(f"{lm} does not build")
                for n in names:
                    info["theorems"][n] = "NOT-CHECKED"
                continue
            names, per, problems = lean.audit(lm)
            info["problems"] += problems
            for n in names:
                info["theorems"][n] = per.get(n, "NOT-CHECKED")
        closure = set()
        for lm in getattr(mod, "LEAN_MODULES", []):
            lean.imports_closure(lm, closure)
        lean.imports_closure("Ccp.Drv.All", closure)
        hits = lean.grep_forbidden(closure)
        for h in hits:
            info["problems"].append("forbidden construct: " + h)
        info["obligations"] = len(names_all)
        info["discharged"] = sum(
            1 for n in names_all
            if isinstance(info["theorems"].get(n), list)
            and set(info["theorems"][n]) <= lean.ALLOWED_AXIOMS
        ) if not hits else 0
        info["sources_scanned"] = sorted(closure)
        if self.tier == "thorough" and not b.failed_targets:
            ok, log, wall = lean.leanchecker(getattr(mod, "LEAN_MODULES", []))
            info["leanchecker"] = {"ok": ok, "wall_s": round(wall, 1)}
            if not ok:
                info["problems"].append("leanchecker rejected the compiled proofs: " + log[-400:])
        self.lean_info = info
        return info

    # --------------------------------------------------------------- cases
    def gather_cases(self):
        mod = self.mod
        cases = []
        if self.replay:
            data = json.load(open(self.replay))
            cs = data.get("cases") or [data["case"]]
            for c in cs:
                c["_origin"] = "replay"
            return cs
        cdir = os.path.join(HERE, "corpus", self.prop)
        if os.path.isdir(cdir):
            for fn in sorted(os.listdir(cdir)):
                if fn.endswith(".json"):
                    data = json.load(open(os.path.join(cdir, fn)))
                    for c in (data if isinstance(data, list) else [data]):
                        c = mod.from_corpus(c) if hasattr(mod, "from_corpus") else c
                        c["_origin"] = "corpus:" + fn
                        cases.append(c)
        rng = random.Random(f"{self.prop}-{self.seed}")
        gen_tier = self.tier
        # The code this property's model mirrors has been edited since the models were written (source fingerprints,
        # harness/fingerprint.py).  That is not a violation and not a broken obligation; it only means the
        # correspondence deserves a larger budget: an edited anchored function -> the thorough generator,
        # any other edit in the anchor files -> two more quick seeds.
        self.escalation = {"changed": {"anchored": [], "other": []}, "level": 0}
        if self.tier == "quick" and os.environ.get("VERIF_NO_ESCALATE") != "1":
            try:
                ch = fingerprint.changed(REPO, self.prop)
            except Exception as e:  # noqa: BLE001  (an unparsable source file is reported by the other steps)
                ch = {"anchored": [f"fingerprint failed: {type(e).__name__}"], "other": []}
            self.escalation["changed"] = {"anchored": ch["anchored"][:20], "other": ch["other"][:20]}
            if ch["anchored"]:
                gen_tier = "thorough"
                self.escalation["level"] = 2
            elif ch["other"]:
                self.escalation["level"] = 1
        cap = getattr(mod, "ESCALATE_MAX_CASES", None) if gen_tier != self.tier else None
        if cap:
            # a bounded escalated run = the COMPLETE quick stream (every stream of the generator is represented) followed by
            # the thorough stream up to the bound (the thorough tier proper is not bounded)
            for c in mod.cases(rng, self.tier):
                c.setdefault("_origin", "gen")
                cases.append(c)
            rng = random.Random(f"{self.prop}-{self.seed}-esc")
        for c in mod.cases(rng, gen_tier):
            c.setdefault("_origin", "gen")
            cases.append(c)
            if cap and len(cases) >= cap:
                break
        if self.escalation["level"] == 1:
            seen = {c.get("req") for c in cases if c.get("req") is not None}
            for k in (1, 2):
                for c in mod.cases(random.Random(f"{self.prop}-{self.seed}-esc{k}"), self.tier):
                    if c.get("req") is not None and c["req"] in seen:
                        continue
                    seen.add(c.get("req"))
                    c.setdefault("_origin", f"gen-esc{k}")
                    cases.append(c)
        return cases

    def run_impl(self, cases):
        args = [(self.modname, c) for c in cases]
        workers = int(os.environ.get("VERIF_WORKERS", "0")) or min(16, os.cpu_count() or 1)
        if len(cases) < 3000 or getattr(self.mod, "SERIAL", False):
            workers = 1
        # always in forked children (one child, in order, for small runs): this process never executes the code under
        # test itself, so the children of the mixing pass start from a clean interpreter state
        with multiprocessing.get_context("fork").Pool(workers) as pool:
            if workers == 1:
                return pool.map(_impl_one, args, chunksize=max(1, len(args)))
            # contiguous chunks: cases a generator emits back to back run in the same process, in order
            return pool.map(_impl_one, args, chunksize=max(2, len(args) // (workers * 8)))

    # --------------------------------------------------------------- report
    def write_replay(self, tag, payload):
        os.makedirs(os.path.join(VERIF, "replays"), exist_ok=True)
        h = hashlib.sha1(json.dumps(payload, sort_keys=True, default=str).encode()).hexdigest()[:8]
        path = os.path.join(VERIF, "replays", f"{self.prop}-{self.tier}-{self.seed}-{tag}-{h}.json")
        with open(path, "w") as fh:
            json.dump(payload, fh, indent=1, default=str)
        return path

    def run(self):
        mod = self.mod
        known = load_known(self.prop)
        info = self.lean_side()
        proofs_ok = (
            info["obligations"] > 0
            and info["discharged"] == info["obligations"]
            and not info["problems"]
            and not info["build_failed"]
        )
        cases = self.gather_cases()
        results3 = self.run_impl(cases)
        skipped = sum(1 for r in results3 if r[0] == "skipped-after-timeouts")
        if skipped:
            self.notes.append(f"{skipped} cases not run after {MAX_TIMEOUTS} cases hit the per-case CPU limit")
            keep = [i for i, r in enumerate(results3) if r[0] != "skipped-after-timeouts"]
            cases = [cases[i] for i in keep]
            results3 = [results3[i] for i in keep]
        for c, r in zip(cases, results3):
            if r[2] is not None:
                c["req"] = r[2]
        results = [(r[0], r[1]) for r in results3]
        harness_err = [(c, a) for c, (a, f) in zip(cases, results) if a.startswith("harness-exc:")
                       or any(str(x).startswith("oracle-exc:") for x in f)]
        if harness_err:
            c, a = harness_err[0]
            print("HARNESS-ERROR", a, [f for f in results[cases.index(c)][1]][:2], json.dumps(mod.describe(c))[:400])
            self.write_evidence(cases, results, [], info, proofs_ok, status="harness-error")
            return 2
        # model side
        disagreements = []
        model_answers = [None] * len(cases)
        if self.driver_ok:
            idx = [i for i, c in enumerate(cases) if c.get("req") is not None]
            try:
                outs = lean.run_driver([cases[i]["req"] for i in idx])
            except Exception as e:
                print("HARNESS-ERROR driver:", e)
                self.write_evidence(cases, results, [], info, proofs_ok, status="driver-error")
                return 2
            for i, o in zip(idx, outs):
                model_answers[i] = o
                exp = results[i][0]
                if hasattr(mod, "compare"):
                    same = mod.compare(cases[i], exp, o)
                else:
                    same = exp == o
                if not same:
                    disagreements.append(i)
        # oracle failures
        unknown_fail = []
        for i, (c, (a, fails)) in enumerate(zip(cases, results)):
            for f in fails:
                kid = mod.known_id(c, f) if hasattr(mod, "known_id") else None
                if kid and kid in known and known[kid].get("kind") == "known":
                    self.known_hits[kid] += 1
                else:
                    unknown_fail.append((i, f))
        if not unknown_fail and not self.replay and len(cases) >= 2 and os.environ.get("VERIF_NO_MIX") != "1":
            leak = self.mixing_pass(cases, results, known)
            if leak:
                unknown_fail.append(leak)
        exit_code = 0
        if unknown_fail and unknown_fail[0][0] == "mix":
            _, f, payload_cases, ans = unknown_fail[0]
            payload = {
                "property": self.prop, "kind": "property-fails-on-implementation", "failure": f,
                "cases": payload_cases, "described": [mod.describe(c) for c in payload_cases[-3:]],
                "impl_answer": ans, "found_by": "mixing pass: the cases of `cases` run back to back in ONE process, in this order; "
                "the last one fails although it passes when run alone", "seed": self.seed, "tier": self.tier,
                "replay_cmd": f"/venv/bin/python harness/check.py {self.prop} --replay <this file>",
            }
            path = self.write_replay("fail", payload)
            print(f"VIOLATION property={self.prop} replay={path}")
            exit_code = 1
        elif unknown_fail:
            # smallest failing case first
            unknown_fail.sort(key=lambda t: len(cases[t[0]].get("req") or json.dumps(mod.describe(cases[t[0]]))))
            i, f = unknown_fail[0]
            payload = {
                "property": self.prop, "kind": "property-fails-on-implementation", "failure": f,
                "case": cases[i], "described": mod.describe(cases[i]),
                "impl_answer": results[i][0], "model_answer": model_answers[i],
                "other_failures": len(unknown_fail) - 1, "seed": self.seed, "tier": self.tier,
                "replay_cmd": f"/venv/bin/python harness/check.py {self.prop} --replay <this file>",
            }
            path = self.write_replay("fail", payload)
            print(f"VIOLATION property={self.prop} replay={path}")
            exit_code = 1
        elif disagreements or not proofs_ok or not self.driver_ok:
            # a proof obligation or the correspondence is broken: look harder for a failing input
            found = self.concentrated_search([cases[i] for i in disagreements[:10]], known)
            if found:
                c, a, f = found
                payload = {
                    "property": self.prop, "kind": "property-fails-on-implementation", "failure": f,
                    "case": c, "described": mod.describe(c), "impl_answer": a,
                    "found_by": "concentrated search after a broken obligation/correspondence",
                    "seed": self.seed, "tier": self.tier,
                }
                path = self.write_replay("fail", payload)
                print(f"VIOLATION property={self.prop} replay={path}")
            else:
                broken = []
                if not proofs_ok:
                    broken += ["proof-obligation: " + p for p in (info["problems"] or ["obligations not all discharged"])]
                if not self.driver_ok:
                    broken.append("model driver does not build; correspondence could not run")
                payload = {
                    "property": self.prop, "kind": "obligation-or-correspondence-broken",
                    "broken": broken,
                    "build_failed": info["build_failed"], "build_log": info.get("build_log", ""),
                    "first_disagreements": [
                        {"described": mod.describe(cases[i]), "case": cases[i],
                         "impl_answer": results[i][0], "model_answer": model_answers[i]}
                        for i in disagreements[:5]
                    ],
                    "n_disagreements": len(disagreements),
                    "seed": self.seed, "tier": self.tier,
                    "note": "no input was found on which the property itself fails",
                }
                path = self.write_replay("broken", payload)
                print(f"VIOLATION property={self.prop} replay={path} no-failing-input-found")
            exit_code = 1
        for kid, n in sorted(self.known_hits.items()):
            print(f"KNOWN-FINDING: property={self.prop} {kid} {known[kid]['what']} (seen on {n} cases)")
        self.write_evidence(cases, results, disagreements, info, proofs_ok,
                            status="ok" if exit_code == 0 else "violation")
        return exit_code

    def mixing_pass(self, cases, results, known):
        """see _mix_child; only cases that passed on their own take part.  The child is forked from this (clean) process."""
        ok = [i for i, (a, fails) in enumerate(results) if not fails]
        if len(ok) < 2:
            return None
        rng = random.Random(f"{self.prop}-{self.seed}-mix")
        k = int(os.environ.get("VERIF_MIX_CASES", "1200"))
        sample = rng.sample(ok, min(k, len(ok)))
        known_ids = {kid for kid, f in known.items() if f.get("kind") == "known"}
        budget = float(os.environ.get("VERIF_MIX_CPU", "8"))
        ctx = multiprocessing.get_context("fork")
        t0 = time.time()
        with ctx.Pool(1) as pool:
            r = pool.apply(_mix_child, ((self.modname, cases, sample, known_ids, budget),))
        self.mix_info = {"cases": len(sample), "wall_s": round(time.time() - t0, 1), "failure": bool(r)}
        if not r:
            return None
        pos, phase, f, a = r
        seq = sample if phase == "shuffled" else list(reversed(sample))
        prefix = ([] if phase == "shuffled" else list(sample)) + seq[:pos + 1]
        # shrink: the shortest suffix of the history that still fails in a fresh process
        best = prefix
        n = 1
        while n < len(prefix):
            n = min(len(prefix), n * 2)
            cand = prefix[-n:]
            with ctx.Pool(1) as pool:
                rr = pool.apply(_mix_child_seq, ((self.modname, [cases[i] for i in cand], known_ids),))
            if rr:
                best = cand
                break
        # then try single predecessors
        if len(best) > 2:
            last = best[-1]
            for j in reversed(best[:-1]):
                with ctx.Pool(1) as pool:
                    rr = pool.apply(_mix_child_seq, ((self.modname, [cases[j], cases[last]], known_ids),))
                if rr:
                    best = [j, last]
                    break
        return ("mix", f + f"  [order dependence: fails only after {len(best) - 1} earlier call(s) in the same process]",
                [dict(cases[i]) for i in best], a)

    def concentrated_search(self, seeds, known):
        """failing-input search after a broken obligation / correspondence, in a forked child under a wall-clock bound
        (the code under test may hang on a neighbour of a disagreeing input)"""
        ctx = multiprocessing.get_context("fork")
        budget = float(os.environ.get("VERIF_SEARCH_WALL", "150"))
        pool = ctx.Pool(1)
        try:
            r = pool.apply_async(_search_child, ((self.modname, self.prop, self.seed, seeds, known),))
            try:
                return r.get(timeout=budget)
            except multiprocessing.TimeoutError:
                self.notes.append(f"failing-input search stopped after {budget:g} s of wall time")
                return None
        finally:
            pool.terminate()

    def write_evidence(self, cases, results, disagreements, info, proofs_ok, status):
        mod = self.mod
        nontriv = {}
        dist = collections.Counter()
        for c, (a, f) in zip(cases, results):
            for k in (mod.buckets(c, a) if hasattr(mod, "buckets") else []):
                dist[k] += 1
            if mod.nontrivial(c):
                key = c.get("req") or json.dumps(mod.describe(c), sort_keys=True)
                nontriv.setdefault(key, c)
        samples = [mod.describe(c) for c in list(nontriv.values())[:3]] or [mod.describe(c) for c in cases[:2]]
        ev = {
            "property_id": self.prop,
            "tier": self.tier if self.tier in ("quick", "thorough") else "quick",
            "seed": int(self.seed),
            "level": "proof",
            "coverage": {
                "obligations": info["obligations"],
                "discharged": info["discharged"],
                "checker_cmd": "cd lean && lake build " + " ".join(getattr(mod, "LEAN_MODULES", []))
                               + " && lake env lean --stdin  # #print axioms for every theorem of the Props module",
                "trusted_base": [
                    "Lean 4.33.0 kernel",
                    "axioms allowed: propext, Classical.choice, Quot.sound (audited per theorem this run)",
                    "correspondence harness (generators, canonicalisation, line protocol, diff)",
                    "table translator harness/translate.py (AST path: constexpr.py, rxscan.py; dynamic path: probe.py runs the "
                    "package of the tree under test on fixed probe inputs at translate time)",
                ] + list(getattr(mod, "TRUSTED", [])),
                "theorems": info["theorems"],
                "proof_problems": info["problems"],
                "evaluations": len(cases),
                "distinct_nontrivial": len(nontriv),
                "rule": mod.RULE,
                "samples": samples,
                "traces_validated_against_impl": sum(1 for c in cases if c.get("req") is not None) if self.driver_ok else 0,
                "correspondence_disagreements": len(disagreements),
                "oracle_failures_known": dict(self.known_hits),
                "distribution": dict(sorted(dist.items())),
                "exhaustive": bool(getattr(mod, "EXHAUSTIVE", {}).get(self.tier, False)),
                "translator": info.get("translator", {}).get("summary", {}),
                "source_fingerprint": getattr(self, "escalation", None),
                "notes": list(self.notes),
                "mixing_pass": getattr(self, "mix_info", None),
                "leanchecker": info.get("leanchecker"),
                "status": status,
            },
            "assumptions": list(getattr(mod, "ASSUMPTIONS", [])),
            "wall_s": round(time.time() - self.t0, 2),
            "violations": 0 if status == "ok" else 1,
        }
        os.makedirs(os.path.join(VERIF, "evidence"), exist_ok=True)
        with open(os.path.join(VERIF, "evidence", f"{self.prop}.json"), "w") as fh:
            json.dump(ev, fh, indent=1, default=str)
