"""MANIFEST.setup_cmd: build the whole Lean side offline from files on disk."""
import os
import subprocess
import sys

HERE = os.path.dirname(os.path.abspath(__file__))
sys.path.insert(0, HERE)
import translate  # noqa: E402

r = translate.regenerate(os.environ.get("CCP2_REPO", "/repo"))
print("translator:", r["changed"], r["problems"])
lean_dir = os.path.join(os.path.dirname(HERE), "lean")
p = subprocess.run(["lake", "build"], cwd=lean_dir)
sys.exit(p.returncode)
