"""Source fingerprints: which anchored functions of /repo differ from the tree the models were written against.

The hand-written models are tied to the code by the correspondence run.  A fingerprint mismatch is NOT a broken
obligation and never a violation by itself (a harmless rewrite changes it too); it only tells the check that the code a
model mirrors has been edited, so that the correspondence and the failing-input search are run with a larger budget
on exactly the properties whose anchored code changed.

  fingerprint.py --record      rewrite harness/fingerprints.json from /repo (done by hand after a `fix:` commit)
  fingerprint.changed(repo, prop) -> {"anchored": [...names...], "other": [...names...]}

A function's fingerprint is the sha1 of `ast.dump` of its body without docstrings (so comments, blank lines,
docstrings and line numbers do not count).  Module-level and class-level assignments are fingerprinted by target name.
"""
import ast
import hashlib
import json
import os
import re
import subprocess
import sys
import warnings

warnings.simplefilter("ignore", SyntaxWarning)

HERE = os.path.dirname(os.path.abspath(__file__))
VERIF = os.path.dirname(HERE)
STORE = os.path.join(HERE, "fingerprints.json")
PKG = "ciscoconfparse2"
# the commit the anchors' line numbers in properties.jsonl refer to
ANCHOR_COMMIT_FILE = "/root/.vp/repo_root_sha"


def _strip_doc(node):
    body = getattr(node, "body", None)
    if isinstance(body, list) and body and isinstance(body[0], ast.Expr) and isinstance(getattr(body[0], "value", None), ast.Constant) \
            and isinstance(body[0].value.value, str):
        node.body = body[1:] or [ast.Pass()]


def _units(tree):
    """yield (qualified name, node, first line, last line) for functions and for module/class level assignments"""
    def walk(node, prefix):
        for ch in getattr(node, "body", []):
            if isinstance(ch, (ast.FunctionDef, ast.AsyncFunctionDef)):
                yield prefix + ch.name, ch
                # nested functions belong to their parent
            elif isinstance(ch, ast.ClassDef):
                yield from walk(ch, prefix + ch.name + ".")
            elif isinstance(ch, (ast.Assign, ast.AnnAssign, ast.AugAssign)):
                targets = ch.targets if isinstance(ch, ast.Assign) else [ch.target]
                names = [t.id for t in targets if isinstance(t, ast.Name)]
                if names:
                    yield prefix + "=" + ",".join(names), ch
            elif isinstance(ch, (ast.If, ast.Try, ast.With)):
                yield from walk(ch, prefix)
    for name, node in walk(tree, ""):
        yield name, node, node.lineno, getattr(node, "end_lineno", node.lineno)


def file_fingerprints(text):
    tree = ast.parse(text)
    out = {}
    for name, node, a, b in _units(tree):
        for sub in ast.walk(node):
            _strip_doc(sub)
        h = hashlib.sha1(ast.dump(node, annotate_fields=False, include_attributes=False).encode()).hexdigest()[:16]
        # a property and its setter share a name: keep all of them
        out[name] = (out[name] + "+" + h) if name in out else h
    return out


def file_spans(text):
    tree = ast.parse(text)
    return [(name, a, b) for name, node, a, b in _units(tree)]


def anchored_names(repo):
    """per property: {file: [unit names overlapping the anchors' line ranges at the anchor commit]}"""
    try:
        sha = open(ANCHOR_COMMIT_FILE).read().strip()
    except OSError:
        sha = None
    props = [json.loads(line) for line in open(os.path.join(VERIF, "properties.jsonl")) if line.strip()]
    cache = {}

    def spans(fn):
        if fn not in cache:
            text = None
            if sha:
                p = subprocess.run(["git", "-C", repo, "show", f"{sha}:{fn}"], capture_output=True, text=True)
                if p.returncode == 0:
                    text = p.stdout
            if text is None:
                text = open(os.path.join(repo, fn), encoding="utf-8").read()
            cache[fn] = file_spans(text)
        return cache[fn]
    out = {}
    for p in props:
        per = {}
        a = p.get("anchors", {})
        for item in list(a.get("state", [])) + list(a.get("mechanism", [])):
            for part in str(item.get("where", "")).split(";"):
                part = part.strip()
                m = re.match(r"(\S+\.py):(.*)$", part)
                if not m:
                    continue
                fn = m.group(1)
                for rng in m.group(2).split(","):
                    rng = rng.strip()
                    mm = re.match(r"(\d+)(?:-(\d+))?$", rng)
                    if not mm:
                        continue
                    lo = int(mm.group(1))
                    hi = int(mm.group(2) or lo)
                    for name, s, e in spans(fn):
                        if s <= hi and lo <= e:
                            per.setdefault(fn, [])
                            if name not in per[fn]:
                                per[fn].append(name)
        for fn in a.get("files", []):
            per.setdefault(fn, [])
        out[p["id"]] = per
    return out


def snapshot(repo):
    files = {}
    d = os.path.join(repo, PKG)
    for fn in sorted(os.listdir(d)):
        if fn.endswith(".py"):
            try:
                files[f"{PKG}/{fn}"] = file_fingerprints(open(os.path.join(d, fn), encoding="utf-8").read())
            except SyntaxError as e:  # the check will fail elsewhere; report everything as changed
                files[f"{PKG}/{fn}"] = {"<syntax-error>": str(e)}
    return files


def record(repo="/repo"):
    head = subprocess.run(["git", "-C", repo, "rev-parse", "HEAD"], capture_output=True, text=True).stdout.strip()
    data = {"repo_head": head, "anchored": anchored_names(repo), "files": snapshot(repo)}
    with open(STORE, "w") as fh:
        json.dump(data, fh, indent=0, sort_keys=True)
    return data


def changed(repo, prop):
    """names whose fingerprint differs from the recorded tree, split in anchored-by-this-property and other units of
    the property's anchor files.  Missing store -> nothing (no escalation)."""
    if not os.path.exists(STORE):
        return {"anchored": [], "other": [], "store": "missing"}
    data = json.load(open(STORE))
    now = snapshot(repo)
    per = data["anchored"].get(prop, {})
    anchored, other = [], []
    for fn, names in per.items():
        old = data["files"].get(fn, {})
        new = now.get(fn, {})
        for name in sorted(set(old) | set(new)):
            if old.get(name) != new.get(name):
                (anchored if name in names else other).append(f"{fn.split('/')[-1]}:{name}")
    return {"anchored": anchored, "other": other, "store": data.get("repo_head", "")[:8]}


if __name__ == "__main__":
    if "--record" in sys.argv:
        d = record(os.environ.get("CCP2_REPO", "/repo"))
        print("recorded", d["repo_head"][:8], {k: sum(len(v) for v in per.values()) for k, per in d["anchored"].items()})
    else:
        repo = os.environ.get("CCP2_REPO", "/repo")
        for n in range(1, 21):
            print(f"C{n:02d}", changed(repo, f"C{n:02d}"))
