#!/venv/bin/python
"""check.py <property> [--tier quick|thorough] [--replay FILE]

Seed: env VERIF_SEED (default 0).  Tier: --tier or env VERIF_TIER.
"""
import argparse
import os
import sys

HERE = os.path.dirname(os.path.abspath(__file__))
sys.path.insert(0, HERE)
os.environ.setdefault("CCP2_VERIF", "1")


def main():
    ap = argparse.ArgumentParser()
    ap.add_argument("prop")
    ap.add_argument("--tier", default=os.environ.get("VERIF_TIER") or "quick")
    ap.add_argument("--replay")
    args = ap.parse_args()
    try:
        seed = int(os.environ.get("VERIF_SEED", "0") or 0)
    except ValueError:
        seed = 0
    import framework
    import signal

    def _timeout(signum, frame):
        print("HARNESS-ERROR timeout (exit 2)")
        os._exit(2)
    signal.signal(signal.SIGALRM, _timeout)
    signal.alarm(int(os.environ.get("VERIF_TIMEOUT", "1500" if args.tier != "thorough" else "5400")))
    try:
        chk = framework.Check("props." + args.prop.lower(), args.tier, seed, args.replay)
        rc = chk.run()
    except SystemExit:
        raise
    except BaseException:
        import traceback
        traceback.print_exc()
        print("HARNESS-ERROR (exit 2)")
        rc = 2
    sys.exit(rc)


if __name__ == "__main__":
    main()
