"""Dynamic path of the table translator (harness/translate.py): OBSERVE the constants the code of the tree under test
actually uses, by running it on a few probe inputs with the relevant library entry points wrapped.

Run as a subprocess:   python probe.py <repo> <result.json>

Unlike the AST path this EXECUTES code of /repo (its import and a handful of calls on fixed inputs, in a scratch
directory); nothing is written outside that directory and the result file.  A value observed here is what the code
uses, however its definition is spelled: the translator takes it when the AST path cannot find a constant any more (a
behaviour-preserving rewrite moved or re-spelled it) and compares it with the AST reading when both exist.

What is recorded (each section independently; a failing section carries `error` and the translator then has no dynamic
value for the definitions that depend on it):

* `re`      every call of `re.compile/search/match/fullmatch/split/sub/subn/findall/finditer` made FROM a source file
            of the package (pattern text, flags, the subject string when there is one, calling function, phase:
            `import`, `banner`, `load`, `save`, ...);
* `open`    every `open()` / `io.open()` of a probe file: mode, newline, encoding, which of them were passed;
* `attrs`   module attributes (numeric limits, port tables, syntax tuples), defaults of parameters, what the syntax
            helper functions return for every valid syntax, the indentation a junos parse really produces;
* `pwd`     `CiscoPassword`: alphabets (as attributes, and the translation table they are used through), the key stream of
            `decrypt_type_7` on `"<salt>" + "00"*n` (n zero bytes decrypt to the key stream itself), the accepted lengths
            and rejected characters of `pwd_check` (black box), the arguments `hashlib.pbkdf2_hmac` / `scrypt.hash` /
            `hashlib.scrypt` are called with by `encrypt_type_8/9`, the salt length of the md5-crypt result;
* `macro`   the parent vector of a four line config whose first line is `macro name PROBE` with one character
            replaced, for every position (black box: which characters the macro test looks at);
* `io`      a probe file loaded through `CiscoConfParse(path)` and configs written with `save_as()`: the bytes written.
"""
import builtins
import inspect
import io
import json
import os
import sys
import tempfile
import traceback
import warnings

OUT = {"sections": {}, "re": [], "open": []}
PHASE = ["import"]
PKG = [None]
FLAG_ORDER = ["ASCII", "DEBUG", "DOTALL", "IGNORECASE", "LOCALE", "MULTILINE", "VERBOSE"]


def _caller(depth=2):
    f = sys._getframe(depth)
    return f.f_code.co_filename, getattr(f.f_code, "co_qualname", f.f_code.co_name)


def _in_pkg(filename):
    return PKG[0] is not None and os.path.realpath(filename).startswith(PKG[0])


def _pkg_on_stack(limit=12):
    """is a source file of the package among the callers (e.g. package -> pathlib -> io.open)?"""
    f = sys._getframe(2)
    for _ in range(limit):
        if f is None:
            return False
        if _in_pkg(f.f_code.co_filename):
            return True
        f = f.f_back
    return False


def _flag_names(re_mod, flags):
    names = []
    for nm in FLAG_ORDER:
        if int(flags) & int(getattr(re_mod, nm)):
            names.append(nm)
    return "|".join(names)


def install_re():
    import re
    pos_flags = {"compile": 1, "search": 2, "match": 2, "fullmatch": 2, "findall": 2, "finditer": 2, "split": 3,
                 "sub": 4, "subn": 4}
    subj_pos = {"search": 1, "match": 1, "fullmatch": 1, "findall": 1, "finditer": 1, "split": 1, "sub": 2, "subn": 2}

    def wrap(name, fn):
        def wrapper(*a, **kw):
            try:
                fname, qual = _caller()
                if _in_pkg(fname):
                    pat = a[0] if a else kw.get("pattern")
                    flags = kw.get("flags", a[pos_flags[name]] if len(a) > pos_flags[name] else 0)
                    if isinstance(pat, re.Pattern):
                        text, fl, isbytes = pat.pattern, pat.flags, isinstance(pat.pattern, bytes)
                    else:
                        text, fl, isbytes = pat, flags, isinstance(pat, bytes)
                    subject = None
                    if name in subj_pos:
                        subject = a[subj_pos[name]] if len(a) > subj_pos[name] else kw.get("string")
                    if isinstance(text, str) and not isbytes:
                        rec = {"phase": PHASE[0], "fn": name, "pattern": text, "flags": _flag_names(re, fl or 0),
                               "caller": qual, "file": os.path.basename(fname)}
                        if isinstance(subject, str):
                            rec["subject"] = subject[:400]
                            rec["subject_len"] = len(subject)
                        if name in ("sub", "subn") and len(a) > 1 and isinstance(a[1], str):
                            rec["repl"] = a[1]
                        OUT["re"].append(rec)
            except Exception:  # noqa: BLE001  (recording must never change what the code does)
                pass
            return fn(*a, **kw)
        wrapper.__name__ = name
        wrapper.__wrapped__ = fn
        return wrapper
    for name in pos_flags:
        setattr(re, name, wrap(name, getattr(re, name)))


def install_open():
    real = builtins.open
    params = ["file", "mode", "buffering", "encoding", "errors", "newline", "closefd", "opener"]

    def wrapper(*a, **kw):
        try:
            got = dict(zip(params, a))
            got.update(kw)
            path = got.get("file")
            if isinstance(path, (str, os.PathLike)) and os.path.basename(os.fspath(path)).startswith("ccp2probe-"):
                fname, qual = _caller()
                in_pkg = _in_pkg(fname) or _pkg_on_stack()
                OUT["open"].append({
                    "phase": PHASE[0], "name": os.path.basename(os.fspath(path)), "mode": got.get("mode", "r"),
                    "newline": got.get("newline"), "encoding": got.get("encoding"),
                    "passed": sorted(k for k in got if k != "file"), "caller": qual, "in_pkg": in_pkg})
        except Exception:  # noqa: BLE001
            pass
        return real(*a, **kw)
    wrapper.__wrapped__ = real
    builtins.open = wrapper
    io.open = wrapper


KDF = []


def install_kdf():
    import hashlib
    real_pb = hashlib.pbkdf2_hmac

    def pbkdf2_hmac(*a, **kw):
        try:
            got = dict(zip(["hash_name", "password", "salt", "iterations", "dklen"], a))
            got.update(kw)
            KDF.append({"kdf": "pbkdf2_hmac", "hash_name": got.get("hash_name"), "salt_len": len(got.get("salt", b"")),
                        "iterations": got.get("iterations"), "dklen": got.get("dklen"),
                        "password": bytes(got.get("password", b"")).decode("latin-1")})
        except Exception:  # noqa: BLE001
            pass
        return real_pb(*a, **kw)
    hashlib.pbkdf2_hmac = pbkdf2_hmac
    if hasattr(hashlib, "scrypt"):
        real_hs = hashlib.scrypt

        def hl_scrypt(*a, **kw):
            try:
                KDF.append({"kdf": "scrypt", "N": kw.get("n"), "r": kw.get("r"), "p": kw.get("p"),
                            "buflen": kw.get("dklen", 64), "salt_len": len(kw.get("salt", b"")), "via": "hashlib.scrypt"})
            except Exception:  # noqa: BLE001
                pass
            return real_hs(*a, **kw)
        hashlib.scrypt = hl_scrypt
    try:
        import scrypt
    except Exception:  # noqa: BLE001
        return
    inner = getattr(scrypt, "scrypt", scrypt)
    real_sh = inner.hash
    sig = inspect.signature(real_sh)

    def sc_hash(*a, **kw):
        try:
            b = sig.bind(*a, **kw)
            b.apply_defaults()
            g = b.arguments
            KDF.append({"kdf": "scrypt", "N": g.get("N"), "r": g.get("r"), "p": g.get("p"), "buflen": g.get("buflen"),
                        "salt_len": len(g.get("salt", b"")), "via": "scrypt.hash"})
        except Exception:  # noqa: BLE001
            pass
        return real_sh(*a, **kw)
    inner.hash = sc_hash
    if getattr(scrypt, "hash", None) is real_sh:
        scrypt.hash = sc_hash


def section(name):
    def deco(fn):
        PHASE[0] = name
        try:
            OUT["sections"][name] = {"ok": True, "data": fn()}
        except BaseException as e:  # noqa: BLE001  (also SystemExit of the code under test)
            OUT["sections"][name] = {"ok": False, "error": f"{type(e).__name__}: {str(e)[:200]}",
                                     "where": traceback.format_exc()[-600:]}
        PHASE[0] = "idle"
        return fn
    return deco


def jsonable(v):
    if isinstance(v, (str, int, float, bool)) or v is None:
        return v
    if isinstance(v, bytes):
        return {"__bytes__": v.decode("latin-1")}
    if isinstance(v, dict):
        return {"__dict__": [[jsonable(k), jsonable(x)] for k, x in v.items()]}
    if isinstance(v, (set, frozenset)):
        return {"__set__": sorted((jsonable(x) for x in v), key=repr)}
    if isinstance(v, (list, tuple)):
        return [jsonable(x) for x in v]
    return {"__repr__": repr(v)[:200]}


def main(repo, out_path):
    warnings.filterwarnings("ignore")
    sys.path.insert(0, repo)
    PKG[0] = os.path.realpath(os.path.join(repo, "ciscoconfparse2")) + os.sep
    install_re()
    install_open()
    install_kdf()
    try:
        import ciscoconfparse2
        from loguru import logger
        logger.remove()
        here = os.path.realpath(os.path.dirname(ciscoconfparse2.__file__)) + os.sep
        if here != PKG[0]:
            raise ImportError(f"ciscoconfparse2 imported from {here}, expected {PKG[0]}")
        import ciscoconfparse2.ccp_util as ccp_util
        import ciscoconfparse2.ciscoconfparse2 as main_mod
        import ciscoconfparse2.protocol_values as protocol_values
    except BaseException as e:  # noqa: BLE001
        OUT["import_error"] = f"{type(e).__name__}: {str(e)[:300]}"
        with open(out_path, "w") as fh:
            json.dump(OUT, fh)
        return
    PHASE[0] = "idle"
    CiscoConfParse = main_mod.CiscoConfParse
    work = tempfile.mkdtemp(prefix="ccp2probe-dir-")

    def parents(lines, syntax="ios"):
        p = CiscoConfParse(list(lines), syntax=syntax)
        return [o.parent.linenum for o in p.objs], [o.text for o in p.objs]

    @section("attrs")
    def _attrs():
        d = {}
        for nm in ("IPV4_MAXINT", "IPV6_MAXINT", "IPV4_MAX_PREFIXLEN", "IPV6_MAX_PREFIXLEN", "IPV6_MAXSTR_LEN"):
            if hasattr(ccp_util, nm):
                d["ccp_util." + nm] = jsonable(getattr(ccp_util, nm))
        for nm in ("ASA_TCP_PORTS", "ASA_UDP_PORTS"):
            if hasattr(protocol_values, nm):
                d["protocol_values." + nm] = jsonable(dict(getattr(protocol_values, nm)))
        for nm in ("ALL_VALID_SYNTAX", "ALL_BRACE_SYNTAX"):
            if hasattr(main_mod, nm):
                v = getattr(main_mod, nm)
                d["main." + nm] = jsonable(list(v) if isinstance(v, (list, tuple)) else v)
        return d

    @section("syntax")
    def _syntax():
        d = {"delims": {}, "indent": {}}
        valid = list(main_mod.ALL_VALID_SYNTAX)
        for s in valid:
            d["delims"][s] = list(main_mod.get_syntax_comment_delimiters(syntax=s))
        p = CiscoConfParse(["hostname x"])
        for s in valid:
            d["indent"][s] = int(p.get_auto_indent_from_syntax(syntax=s))
        return d

    @section("brace")
    def _brace():
        d = {}
        bp = getattr(main_mod, "BraceParse", None)
        if bp is not None and isinstance(getattr(bp, "stop_width", None), int):
            d["BraceParse.stop_width"] = bp.stop_width
        elif bp is not None:
            try:
                import attrs
                dv = getattr(attrs.fields(bp), "stop_width").default
                if isinstance(dv, int):
                    d["BraceParse.stop_width"] = dv
            except Exception:  # noqa: BLE001
                pass
        fn = getattr(main_mod, "convert_junos_to_ios", None)
        if fn is not None:
            try:
                prm = inspect.signature(fn).parameters.get("stop_width")
                if prm is not None and prm.default is not inspect.Parameter.empty:
                    d["convert_junos_to_ios.stop_width"] = prm.default
            except (TypeError, ValueError):
                pass
        p = CiscoConfParse(["aa {", "bb {", "cc;", "}", "}"], syntax="junos")
        d["junos_texts"] = [o.text for o in p.objs]
        return d

    @section("pwd")
    def _pwd():
        d = {}
        cls = main_mod.CiscoPassword
        cp = cls()
        for nm in ("std_b64chars", "cisco_b64chars"):
            v = getattr(cls, nm, None)
            if isinstance(v, str):
                d[nm] = v
        strs, tables = {}, {}
        for nm in dir(cls):
            if nm.startswith("__"):
                continue
            v = getattr(cls, nm, None)
            if isinstance(v, str) and len(v) == 64 and len(set(v)) == 64:
                strs[nm] = v
            if isinstance(v, dict) and len(v) >= 32 and all(isinstance(k, int) for k in v):
                tables[nm] = [[k, x] for k, x in sorted(v.items()) if isinstance(x, int)]
        d["alphabet_candidates"] = strs
        d["translate_tables"] = tables
        streams = {}
        for salt in (0, 1, 7, 25, 52, 53, 60, 99):
            try:
                out = cp.decrypt_type_7("%02d" % salt + "00" * 170)
                streams[str(salt)] = [ord(c) for c in out]
            except BaseException as e:  # noqa: BLE001
                streams[str(salt)] = "error:" + type(e).__name__
        d["type7_streams"] = streams
        d["type7_zero_bytes"] = 170
        acc = []
        for n in range(0, 400):
            try:
                cp.pwd_check("a" * n)
                acc.append(n)
            except BaseException as e:  # noqa: BLE001
                if type(e).__name__ != "InvalidPassword":
                    acc.append("error:%d:%s" % (n, type(e).__name__))
        d["accepted_lengths"] = acc
        rej, other = [], []
        for c in range(0x10000):
            try:
                cp.pwd_check(chr(c))
            except BaseException as e:  # noqa: BLE001
                (rej if type(e).__name__ == "InvalidPassword" else other).append(c)
        d["rejected_chars"] = rej
        d["other_error_chars"] = other[:20]
        d["len1_accepted"] = 1 in acc
        del KDF[:]
        res = {}
        for t in ("8", "9", "5"):
            try:
                res[t] = getattr(cp, "encrypt_type_" + t)("Probe-pw")
            except BaseException as e:  # noqa: BLE001
                res[t] = "error:" + type(e).__name__
        d["hashes"] = res
        d["kdf_calls"] = list(KDF)
        return d

    @section("banner")
    def _banner():
        cfg = ["hostname probe", "banner motd ^C", " hello", "^C", "set banner login %", "x", "%",
               "aaa authentication fail-message ^", " failed", "^", "macro name foo", " cmd", "@", "interface Gi0/1",
               " ip address 1.1.1.1 255.255.255.0", "end"]
        ps, _ = parents(cfg, "ios")
        return {"config": cfg, "parents": ps}

    @section("macro")
    def _macro():
        probe = "macro name PROBE"
        rows = {}

        def row(first):
            ps, _ = parents([first, " c1", "@", "tail"], "ios")
            return ps
        rows["base"] = row(probe)
        rows["plain"] = row("hostname PROBE")
        rows["shifted"] = row(" " + probe)
        per = []
        for k in range(len(probe)):
            ch = "#" if probe[k] != "#" else "%"
            per.append(row(probe[:k] + ch + probe[k + 1:]))
        rows["replaced"] = per
        rows["truncated"] = [row(probe[:k]) for k in range(len(probe) + 1)]
        rows["other_syntax"] = {}
        for s in ("nxos", "asa", "iosxr"):
            try:
                ps, _ = parents([probe, " c1", "@", "tail"], s)
                rows["other_syntax"][s] = ps
            except BaseException as e:  # noqa: BLE001
                rows["other_syntax"][s] = "error:" + type(e).__name__
        return {"probe": probe, "rows": rows}

    @section("load")
    def _load():
        text = "hostname A\ninterface B\n shutdown\n!\nend\n"
        path = os.path.join(work, "ccp2probe-in.conf")
        with open(path, "wb") as fh:
            fh.write(text.encode())
        p = CiscoConfParse(path)
        d = {"text": text, "lines": [o.text for o in p.objs]}
        for nm in ("read_config_file",):
            fn = getattr(CiscoConfParse, nm, None)
            if fn is not None:
                try:
                    prm = inspect.signature(fn).parameters.get("linesplit_rgx")
                    if prm is not None and isinstance(prm.default, str):
                        d["read_config_file.linesplit_rgx"] = prm.default
                except (TypeError, ValueError):
                    pass
        return d

    @section("save")
    def _save():
        d = {}
        for tag, lines in (("plain", ["aa", "bb"]), ("lf", ["aa", "bb\n"]), ("cr", ["aa", "bb\r"]), ("sp", ["aa", "bb "]),
                           ("one", ["aa"]), ("lflf", ["aa", "bb\n\n"]), ("only_lf", ["\n"])):
            path = os.path.join(work, "ccp2probe-out-%s.conf" % tag)
            p = CiscoConfParse(list(lines))
            p.save_as(path)
            with open(path, "rb") as fh:
                d[tag] = {"lines": [o.text for o in p.objs], "bytes": fh.read().decode("latin-1")}
        d["linesep"] = os.linesep
        return d

    import shutil
    shutil.rmtree(work, ignore_errors=True)
    OUT["python"] = sys.version.split()[0]
    with open(out_path, "w") as fh:
        json.dump(OUT, fh)


if __name__ == "__main__":
    main(sys.argv[1], sys.argv[2])
