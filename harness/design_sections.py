"""Rewrite sections 12-14 of DESIGN.md from /tmp/sec12.md-style notes kept in notes/design_notes.json,
the Props files, evidence, known_findings.json and seeded/*/meta.json."""
import glob
import json
import os
import re
import subprocess
import sys

HERE = os.path.dirname(os.path.abspath(__file__))
VERIF = os.path.dirname(HERE)


def status_blocks():
    out = subprocess.run([sys.executable, os.path.join(HERE, "design_status.py")], capture_output=True, text=True, cwd=VERIF).stdout
    blocks = {}
    for b in out.split("### ")[1:]:
        blocks[b[:3]] = b[3:].strip()
    return blocks


def sec12():
    notes = json.load(open(os.path.join(VERIF, "notes", "design_notes.json")))
    blocks = status_blocks()
    out = ["## 12. As built: status per property\n",
           "All checks: `/venv/bin/python harness/check.py Cxx [--tier thorough]`. Level claimed: proof (theorems about the model, "
           "kernel-checked, axioms audited on every run) + correspondence (model vs. `/repo` on generated inputs, on every run) + "
           "independent Python oracle (failing-input search only). Counts are from the last run on the unchanged tree; theorem lists "
           "are extracted from `lean/Ccp/Props/Cxx.lean` by `harness/design_status.py`.\n"]
    for n in range(1, 21):
        pid = f"C{n:02d}"
        out.append(f"### {pid}\n")
        out.append(notes["properties"].get(pid, "") + "\n")
        if pid in blocks and not blocks[pid].startswith("— not built"):
            out.append(blocks[pid] + "\n")
    return "\n".join(out)


def sec13():
    out = ["## 13. Seeded changes and which checks catch them\n",
           "Each change was written by a fresh sub-agent that saw only the property text and a scratch worktree of `/repo` (nothing from "
           "`/verif`), passes the 512 baseline tests, and comes with a demonstration that fails with the change and passes without it. "
           "I re-ran demonstration and suite myself, then ran the property's quick check against the changed tree. Stored under "
           "`seeded/<id>/` (patch.diff, demo.py, meta.json, the replay the check produced).\n",
           "| id | change (summary) | needs to manifest | check result |", "|---|---|---|---|"]
    for d in sorted(glob.glob(os.path.join(VERIF, "seeded", "*", "meta.json"))):
        m = json.load(open(d))
        sid = os.path.basename(os.path.dirname(d))
        c = m.get("confirmed_by_coordinator", {})
        res = c.get("checks", "")
        res = re.sub(r"VIOLATION property=\S+ replay=\S+", "", res)
        hist = c.get("history", "")
        cell = res.replace(";", " ").strip() + ((" — " + hist) if hist else "")
        out.append(f"| {sid} | {str(m.get('summary',''))[:260].replace('|','/')} | {str(m.get('needs_to_manifest',''))[:260].replace('|','/')} | {cell.replace('|','/')} |")
    out.append("")
    # harmless refactors
    res = {}
    rp = os.path.join(VERIF, "notes", "selftest_result.json")
    head = ""
    if os.path.exists(rp):
        data = json.load(open(rp))
        head = data.get("verif_head", "")[:8]
        res = {(r["kind"], r["id"]): r for r in data.get("rows", [])}
    out += ["### Harmless refactors (false-alarm regression)\n",
            "Twenty behaviour-preserving refactors of the anchored code, one per property, written by independent agents "
            "(`harmless/<Cxx>/patch.diff`, `description.txt`; each keeps the 512 baseline tests and was differentially tested "
            "against `/repo` by its author on thousands of inputs). `harness/selftest.py` re-runs every stored seeded change and "
            f"every harmless refactor against the checks; last full run at /verif commit `{head}` "
            "(`notes/selftest_result.json`). *quiet* = exit 0; *alarm-without-input* = a proof obligation tied to the source text "
            "(regenerated table, regex scan set) no longer checks and no failing input exists — reported as the brief prescribes, "
            "`VIOLATION … no-failing-input-found`, naming the theorem.\n",
            "| property | refactor (summary) | result |", "|---|---|---|"]
    for d in sorted(glob.glob(os.path.join(VERIF, "harmless", "*", "description.txt"))):
        pid = os.path.basename(os.path.dirname(d))
        desc = " ".join(open(d).read().split())[:240].replace("|", "/")
        r = res.get(("harmless", pid), {})
        out.append(f"| {pid} | {desc} | {r.get('result', 'not run')} |")
    out.append("")
    return "\n".join(out)


def main():
    p = os.path.join(VERIF, "DESIGN.md")
    s = open(p).read()
    sec14 = open(os.path.join(VERIF, "notes", "design_sec14.md")).read()
    new_tail = sec12() + "\n---------------------------------------------------------------------------\n\n" + sec13() + \
        "\n---------------------------------------------------------------------------\n\n" + sec14 + "\n"
    a = s.index("## Appendix A")
    if "## 12. As built" in s:
        start = s.index("## 12. As built")
        s = s[:start] + new_tail + "---------------------------------------------------------------------------\n\n" + s[a:]
    else:
        s = s[:a] + new_tail + "---------------------------------------------------------------------------\n\n" + s[a:]
    open(p, "w").write(s)
    print("DESIGN.md sections 12-14 rewritten")


if __name__ == "__main__":
    main()
