"""Print the per-property status table of DESIGN.md section 12 from what is on disk:
theorem names of each Props module, evidence of the last run, known findings."""
import importlib
import json
import os
import sys

HERE = os.path.dirname(os.path.abspath(__file__))
VERIF = os.path.dirname(HERE)
sys.path.insert(0, HERE)
import lean  # noqa: E402


def main():
    kf = json.load(open(os.path.join(VERIF, "known_findings.json")))["findings"]
    for n in range(1, 21):
        pid = f"C{n:02d}"
        path = os.path.join(HERE, "props", pid.lower() + ".py")
        if not os.path.exists(path):
            print(f"### {pid} — not built\n")
            continue
        mod = importlib.import_module("props." + pid.lower())
        names = []
        for lm in mod.LEAN_MODULES:
            names += lean.theorems_of(lm)
        short = [x.split(".")[-1] for x in names]
        ev = {}
        evp = os.path.join(VERIF, "evidence", pid + ".json")
        if os.path.exists(evp):
            ev = json.load(open(evp))
        c = ev.get("coverage", {})
        print(f"### {pid}")
        print(f"* theorems ({len(short)}; {sum(1 for x in short if x.endswith('_partial'))} partial): " + ", ".join(f"`{x}`" for x in short))
        print(f"* last {ev.get('tier')} run: {c.get('evaluations')} cases, {c.get('distinct_nontrivial')} distinct non-trivial, "
              f"{c.get('correspondence_disagreements')} correspondence disagreements, {ev.get('wall_s')} s")
        mine = [f for f in kf if f.get("property") == pid]
        if mine:
            print("* findings: " + "; ".join(f"{f['id']} ({f['kind']}{' ' + f['commit'] if f.get('commit') else ''})" for f in mine))
        print()


if __name__ == "__main__":
    main()
