import Ccp.Model.Intf
/-!
Further entry points of `CiscoIOSInterface` and of `CiscoRange` on interface members
(ccp_util.py), on top of `Ccp.Model.Intf`:

* `repr()`, `.name`, `==` against a value that is not an interface, the `number` setter
  (the getter recomputes) and the `prefix` setter;
* the three ways to rebuild an object from its components: `CiscoIOSInterface(interface_dict=o.as_dict())`,
  `CiscoIOSInterface(o)`, `o.from_dict(o.as_dict())`;
* `check_interface_dict` and the constructor on a dictionary with missing / extra / unknown keys;
* `parse_single_interface` called directly (the dictionary before `update_internal_state`);
* the type guards of the helpers (`parse_intf_short(None)`, …) as a table;
* `CiscoRange(text, result_type=None | CiscoIOSInterface | str, reverse=…)` and
  `as_list(result_type=…)` / `as_set(result_type=…)` for every rung of the ladder.
-/
namespace Ccp.IntfX
open Ccp.Py Ccp.Intf

inductive XErr
  | base (e : Err)
  | keyError
  | listItemMissingAttribute
deriving Repr, DecidableEq

/-! ### single objects -/

/-- `repr(o)` -/
def reprOf (i : Intf) : Except Err Str :=
  match render i with
  | .ok s => .ok ("<CiscoIOSInterface ".toList ++ s ++ ['>'])
  | .error e => .error e

/-- `as_dict()` read as the argument of `update_internal_state` -/
def toRaw (i : Intf) : Raw :=
  { pfx := i.pfx, sep := i.sep, slot := i.slot, card := i.card, port := some i.port,
    sub := i.sub, chan := i.chan, cls := i.cls }

/-- `CiscoIOSInterface(interface_dict=o.as_dict())` and `CiscoIOSInterface(o)`:
`update_internal_state` on the dictionary (twice; it is idempotent) -/
def fromDictCtor (i : Intf) : Except Err Intf := updateInternalState (toRaw i)

/-- `o.from_dict(d)`: a fresh `Ethernet1` whose eight attributes are assigned one by one (the
`digit_separator` setter ignores `None` while the fresh object has no slot; the `prefix` setter
strips). With slot `None` a card survives here, unlike in `update_internal_state`. -/
def fromDictMethod (i : Intf) : Intf := { i with pfx := strip i.pfx }

/-- `o.prefix = p` -/
def setPrefix (i : Intf) (p : Str) : Intf := { i with pfx := strip p }

/-- the keys `check_interface_dict` accepts -/
def dictKeys : List String :=
  ["prefix", "slot", "card", "port", "digit_separator", "subinterface", "channel", "interface_class"]

/-- `check_interface_dict(d)` for a dictionary with the (distinct) keys `ks` -/
def checkDict (ks : List String) : Except XErr Unit :=
  if ks.length ≠ 8 then .error (.base .valueError)
  else if ks.all (fun k => dictKeys.contains k) then .ok ()
  else .error .keyError

/-- `CiscoIOSInterface(interface_dict=d)` where `d` has the keys `ks`, with the values of
`i.as_dict()` under the known ones: `update_internal_state` reads the keys first (`KeyError` if
one is missing; `card` is only read when there is a slot), then `check_interface_dict` counts
them. -/
def ctorDict (i : Intf) (ks : List String) : Except XErr Intf :=
  if (dictKeys.filter (fun k => i.slot.isSome || k != "card")).all (fun k => ks.contains k) then
    match fromDictCtor i with
    | .error e => .error (.base e)
    | .ok j =>
      match checkDict ks with
      | .ok () => .ok j
      | .error e => .error e
  else .error .keyError

/-- calls whose argument has the wrong type: what each guard raises -/
inductive Guard
  | psiInt | shortNone | shortStr | longNone | longStr | checkInt | prefixInt
  | ctorInt | ctorDictInt | ctorNothing
deriving Repr, DecidableEq

def guardErr : Guard → Err
  | .psiInt => .invalidCiscoInterface     -- parse_single_interface(5)
  | .shortNone => .valueError             -- parse_intf_short(None)
  | .shortStr => .valueError              -- parse_intf_short("x")
  | .longNone => .valueError              -- parse_intf_long(None)
  | .longStr => .valueError               -- parse_intf_long("x")
  | .checkInt => .valueError              -- check_interface_dict(5)
  | .prefixInt => .valueError             -- o.prefix = 5
  | .ctorInt => .invalidCiscoInterface    -- CiscoIOSInterface(5)
  | .ctorDictInt => .invalidCiscoInterface -- CiscoIOSInterface(interface_dict=5)
  | .ctorNothing => .invalidCiscoInterface -- CiscoIOSInterface()

/-! ### ranges -/

/-- `result_type=` of `as_list` / `as_set` -/
inductive Ty | auto | none | inst | str | int | float | bad
deriving Repr, DecidableEq

structure RSt where
  data : List Intf
  rev : Bool
deriving Repr, DecidableEq

/-- `CiscoRange(text, result_type=None | CiscoIOSInterface | str, reverse=rev)`: the three
result types all expand with `CiscoIOSInterface` members; `reverse` is only remembered. -/
def construct (rev : Bool) (text : Str) : Except Err RSt :=
  match parseRange text with
  | .ok d => .ok ⟨d, rev⟩
  | .error e => .error e

/-- a returned container: list or set; members as objects or as their names -/
structure View where
  isList : Bool
  asNames : Bool
  items : List Intf
deriving Repr, DecidableEq

/-- `sorted(set(self.data), reverse=self.reverse)` -/
def ordered (s : RSt) : Except Err (List Intf) :=
  match sortedMembers s.data with
  | .ok l => .ok (if s.rev then l.reverse else l)
  | .error e => .error e

/-- `as_list(result_type=t)`: every exception but `AttributeError` leaves as `ValueError` -/
def asListT (s : RSt) (t : Ty) : Except XErr View :=
  match ordered s with
  | .error _ => .error (.base .valueError)
  | .ok r =>
    match t with
    | .auto => if s.data = [] then .ok ⟨false, false, []⟩ else .ok ⟨true, false, r⟩
    | .none => .ok ⟨true, false, r⟩
    | .str => .ok ⟨true, true, r⟩
    | .inst => if r = [] then .ok ⟨true, false, []⟩ else .error (.base .valueError)
    | .int => if r = [] then .ok ⟨true, false, []⟩ else .error (.base .valueError)
    | .float => if r = [] then .ok ⟨true, false, []⟩ else .error (.base .valueError)
    | .bad => .error (.base .valueError)

/-- `as_set(result_type=t)`: nothing is caught here -/
def asSetT (s : RSt) (t : Ty) : Except XErr View :=
  match t with
  | .auto =>
    if s.data = [] then .ok ⟨true, false, []⟩ else
    match ordered s with
    | .error _ => .error (.base .valueError)      -- raised by the inner `as_list()`
    | .ok _ => .ok ⟨false, false, s.data⟩
  | .none => .ok ⟨false, false, s.data⟩
  | .str => .ok ⟨false, true, s.data⟩
  | .inst => if s.data = [] then .ok ⟨false, false, []⟩ else .error (.base .typeError)
  | .int => if s.data = [] then .ok ⟨false, false, []⟩ else .error (.base .typeError)
  | .float => if s.data = [] then .ok ⟨false, false, []⟩ else .error (.base .typeError)
  | .bad => .error (.base .valueError)

/-! ### further readers of a range: `str()`, `repr()`, `obj[k]`, `==` against a freshly parsed
range, `obj.data`.  Functions of the state alone: no new state is returned. -/

inductive RRead
  | str | repr | idx (k : Nat) | eqFresh | data
deriving Repr, DecidableEq

inductive RAns
  | text (s : Str) | bool (b : Bool) | member (i : Intf) | members (l : List Intf)
deriving Repr, DecidableEq

/-- `"[" + ", ".join(str(ii) for ii in self.data) + "]"` -/
def strOfR (d : List Intf) : Except Err Str :=
  match d.mapM render with
  | .ok ns => .ok ('[' :: join ", ".toList ns ++ [']'])
  | .error e => .error e

def memberType : Str := "<class 'ciscoconfparse2.ccp_util.CiscoIOSInterface'>".toList

/-- `repr(obj)`; `rtName` is how the constructor's `result_type` prints (only shown when empty) -/
def reprOfR (rtName : Str) (d : List Intf) : Except Err Str :=
  if d = [] then .ok ("<CiscoRange [] result_type: ".toList ++ rtName ++ ['>'])
  else match strOfR d with
    | .ok s => .ok ("<CiscoRange ".toList ++ s ++ " members: ".toList ++ memberType ++ ['>'])
    | .error e => .error e

/-- `self.data == other.data` : lists compare member by member with `__eq__` -/
def listEq : List Intf → List Intf → Bool
  | [], [] => true
  | a :: as, b :: bs => eq a b && listEq as bs
  | _, _ => false

def readR (rtName : Str) (fresh : List Intf) (s : RSt) : RRead → Except Err RAns
  | .str => (strOfR s.data).map .text
  | .repr => (reprOfR rtName s.data).map .text
  | .idx k => (match s.data[k]? with
      | some m => .ok (.member m)
      | none => .error .indexError)
  | .eqFresh => .ok (.bool (listEq s.data fresh))
  | .data => .ok (.members s.data)

end Ccp.IntfX
