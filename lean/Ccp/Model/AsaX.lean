import Ccp.Model.Asa
/-!
Further entry points behind property C20, on top of `Ccp.Model.Asa`:

* `L4Object.__eq__` (protocol and port list), `!=` (Python's default: the negation), `repr()`
  (the source reads the attribute `compressed_str`, which `CiscoRange` does not have: it
  raises `AttributeError` for every object), a `port_spec` that is not a string, `==` against a
  value that is not an `L4Object`;
* `ASAObjGroupNetwork.__eq__` / `__ne__` / `__hash__` (`hash((linenum, text))` of the header
  line), `hash_children` (`hash(tuple(network_strings))`), `network_count`;
* the three `asa_*` tables of `ConfigList` under a syntax other than `asa` (the property raises
  `RequirementFailure`, which `ConfigList.__getattribute__` turns into the `AttributeError` of the
  fallback lookup on the `CiscoConfParse` object).

Assumption: no collision of Python's `hash` between different tuples in one run.
-/
namespace Ccp.AsaX
open Ccp.Py Ccp.Asa

inductive XErr
  | base (e : Err)
  | attributeError
deriving Repr, DecidableEq

/-! ### L4Object -/

structure L4 where
  proto : Str
  ports : List Nat
deriving Repr, DecidableEq

def mkL4 (protocol syn portSpec : Str) : Except Err L4 :=
  (l4 protocol syn portSpec).map (fun l => ⟨protocol, l⟩)

/-- `a == b` -/
def l4Eq (a b : L4) : Bool := a.proto == b.proto && a.ports == b.ports

/-- `repr(a)` : `crobj.compressed_str` does not exist -/
def l4Repr (_ : L4) : Except XErr Str := .error .attributeError

/-- `L4Object(p, s, "asa").port_list` for every `(p, s)` of a list, built one after the other in
one process: each answer is the answer of that construction alone (the class keeps no state) -/
def pseq (l : List (Str × Str)) : List (Except Err (List Nat)) :=
  l.map (fun ps => l4 ps.1 "asa".toList ps.2)

inductive Guard | specNone | specInt | specList | eqInt
deriving Repr, DecidableEq

def guardErr : Guard → XErr
  | .specNone => .base .valueError     -- L4Object(port_spec=None)
  | .specInt => .base .valueError      -- L4Object(port_spec=80)
  | .specList => .base .valueError     -- L4Object(port_spec=["eq", "80"])
  | .eqInt => .attributeError          -- L4Object(...) == 5

/-! ### the `asa_*` tables under another syntax -/

def tableAccess (syn : Str) : Except XErr Unit :=
  if syn = "asa".toList then .ok () else .error .attributeError

/-! ### group objects -/

/-- a constructed `ASAObjGroupNetwork`: line number, text of the header line, what
`network_strings` gives -/
structure GObj where
  linenum : Nat
  text : Str
  strings : Except Err (List Str)

def gobjs (lines : List Str) : List GObj :=
  (groupObjs 0 lines).map (fun t => ⟨t.1, lines.getD t.1 [], networkStrings lines t.2.2⟩)

/-- `a == b`, `hash(a) == hash(b)` : `get_unique_identifier()` is `hash((linenum, text))` -/
def objEq (a b : GObj) : Bool := a.linenum == b.linenum && a.text == b.text

/-- `a != b` -/
def objNe (a b : GObj) : Bool := !(objEq a b)

/-- `network_count` -/
def networkCount (a : GObj) : Except Err Nat := a.strings.map List.length

/-- `a.hash_children == b.hash_children` (raises what `network_strings` raises, `a` first) -/
def hcEq (a b : GObj) : Except Err Bool :=
  match a.strings, b.strings with
  | .ok x, .ok y => .ok (x == y)
  | .error e, _ => .error e
  | _, .error e => .error e

end Ccp.AsaX
