import Ccp.Model.Tree
/-!
Model of the STORED family links of `ConfigList.bootstrap` (ciscoconfparse2.py): besides
one parent index per line (`BaseCfgLine.parent`) the state holds, for every line, the
child list the implementation actually stores (`BaseCfgLine._children`, as line numbers)
and every operation the code performs on those lists is mirrored step by step:

* a freshly built object is its own parent and has no children (`newLine`);
* `_add_child_to_parent` appends to the parent's list (`addChild`);
* `_reparent_child` removes the line from its former parent's list, sets the parent,
  appends the line to the new parent's list unless it is already there, and sorts that
  list by line number (`reparent`);
* the four passes of `bootstrap` (indentation links, banner walk, macro walk, the
  `ignore_blank_lines` rebuild) run over that state.

The recognisers and scanners (`info`, `maintain`, `build`, `newMax`, `isBannerStart`,
`bannerDelim`, `countChar`, `isMacroStart`, `keptTexts`, `sortKeep`) are those of
`Ccp.Model.Tree`; only the control flow of the passes is repeated, because it now threads
the richer state.  `Ccp.Proofs.TreeStored` proves that the parent array coincides with the
one of `Ccp.Tree.parse` and every stored child list with the derived `Ccp.Tree.children`.
-/
namespace Ccp.TreeStored
open Ccp.Py Ccp.Tree

/-- a parsed config with stored child lists: `children[i]` = `data[i]._children` as line numbers -/
structure S extends T where
  children : List (List Nat)
deriving Repr, DecidableEq

/-- `data[p]._children` -/
def S.stored (s : S) (p : Nat) : List Nat := s.children.getD p []

/-- `cfgobj_from_text(...)` for line `i`: a new object is its own parent and has no children -/
def newLine (s : S) (i : Nat) : S :=
  { s with parents := s.parents ++ [i], children := s.children ++ [[]] }

/-- `_list[idx - 1].indent`; `revPre` = the objects built so far, newest first (the list is
never empty when a parent candidate exists) -/
def aboveIndent : List (Nat × Info) → Nat
  | (_, prev) :: _ => prev.indent
  | [] => 0

/-- `_add_child_to_parent(_list, idx, indent, parentobj, childobj)` -/
def addChild (revPre : List (Nat × Info)) (s : S) (i : Nat) (l : Info) (cand : Option Nat) : S :=
  match cand with
  | none => s                                             -- `if parentobj is None: return`
  | some p =>
    if l.isCmt && aboveIndent revPre > l.indent then s                -- the legacy comment exception
    else if parentOf s.toT i == i then                    -- `elif childobj.parent is childobj`
      { s with children := s.children.modify p (fun c => c ++ [i])   -- `parentobj.children.append(childobj)`
               parents := s.parents.set i p }                       -- `childobj.parent = parentobj`
    else s

/-- `_reparent_child(parent, child)` as it is now (after the F02 fix) -/
def reparent (s : S) (p c : Nat) : S :=
  let former := parentOf s.toT c
  -- `if former is not child and former is not parent: former.children[:] = [ii for ii in former.children if ii is not child]`
  let ch1 := if former != c && former != p then s.children.modify former (fun l => l.filter (fun j => j != c))
             else s.children
  -- `if not any(ii is child for ii in parent.children): parent.children.append(child); parent.children.sort(key=linenum)`
  let ch2 := if (ch1.getD p []).contains c then ch1
             else ch1.modify p (fun l => sortKeep (l ++ [c]))
  { s with parents := s.parents.set c p, children := ch2 }

def setKeep (s : S) (i : Nat) : S := { s with keep := s.keep.set i true }

/-! ## pass 1 -/

/-- one iteration of the bootstrap loop over the stored state -/
def step (st : St) (s : S) (i : Nat) (l : Info) : St × S :=
  let r := build st.revPre (maintain st.cache st.mx l) l
  ({ cache := r.1, mx := newMax st.mx l, revPre := (i, l) :: st.revPre },
   addChild st.revPre (newLine s i) i l r.2)

def linkLoop : St → S → Nat → List Info → S
  | _, s, _, [] => s
  | st, s, i, l :: ls => let r := step st s i l; linkLoop r.1 r.2 (i + 1) ls

/-- the state after the `for idx, txt in enumerate(text_list)` loop -/
def linkByIndent (cfg : Cfg) (ls : List Str) : S :=
  linkLoop St.init { texts := ls, parents := [], keep := ls.map (fun _ => false), children := [] }
    0 (ls.map (info cfg))

/-! ## pass 2: banners -/

def bannerWalk (delim : Char) (p : Nat) : Nat → List Str → S → S
  | _, [], s => s
  | idx, txt :: rest, s =>
    if (strip txt).contains delim then reparent s p idx
    else bannerWalk delim p (idx + 1) rest (setKeep (reparent s p idx) idx)

def markBanner (s : S) (p : Nat) (txt : Str) : S :=
  let s := setKeep s p
  match bannerDelim txt with
  | none => s
  | some d =>
    if countChar d txt ≥ 2 then s
    else bannerWalk d p (p + 1) (s.texts.drop (p + 1)) s

def markBannersFrom : Nat → List Str → S → S
  | _, [], s => s
  | i, txt :: rest, s =>
    markBannersFrom (i + 1) rest (if isBannerStart txt then markBanner s i txt else s)

def markBanners (s : S) : S := markBannersFrom 0 s.texts s

/-! ## pass 3: IOS macros -/

def macroWalk (p : Nat) : Nat → List Str → S → S
  | _, [], s => s
  | idx, txt :: rest, s =>
    let s := reparent (setKeep s idx) p idx
    if rstrip txt == ['@'] then s else macroWalk p (idx + 1) rest s

def markMacrosFrom : Nat → List Str → S → S
  | _, [], s => s
  | i, txt :: rest, s =>
    markMacrosFrom (i + 1) rest
      (if isMacroStart txt then macroWalk i (i + 1) (s.texts.drop (i + 1)) (setKeep s i) else s)

def markMacros (cfg : Cfg) (s : S) : S := if cfg.ios then markMacrosFrom 0 s.texts s else s

/-! ## pass 4 and the whole bootstrap -/

/-- passes 1–3 -/
def link (cfg : Cfg) (ls : List Str) : S := markMacros cfg (markBanners (linkByIndent cfg ls))

/-- `ConfigList.bootstrap(text_list)`: with `ignore_blank_lines` it starts over (fresh
objects, hence fresh child lists) on the kept lines whenever the filter dropped one -/
def bootstrapFuel (cfg : Cfg) : Nat → List Str → S
  | 0, ls => link cfg ls
  | fuel + 1, ls =>
    let s := link cfg ls
    if cfg.ignoreBlank then
      let kept := keptTexts s.toT
      if kept.length != ls.length then bootstrapFuel cfg fuel kept else s
    else s

def bootstrap (cfg : Cfg) (ls : List Str) : S := bootstrapFuel cfg ls.length ls

/-- `CiscoConfParse(ls, …)`: `ConfigList.__init__` bootstraps, `commit()` bootstraps again
from the resulting texts (every bootstrap builds new objects) -/
def parse (cfg : Cfg) (ls : List Str) : S := bootstrap cfg (bootstrap cfg ls).texts

end Ccp.TreeStored
