import Ccp.Py.Basic
import Ccp.Gen.Tables
/-!
Model of the ASA pieces behind property C20.

* `L4Object(protocol, port_spec, syntax)` (ccp_util.py): the `if "neq " in … elif "eq " in …`
  ladder over the stripped `port_spec`, service names resolved through the generated tables
  `Gen.asaTcpPorts` / `Gen.asaUdpPorts`.  Mirrors the code after the repairs F26 (`neq` tested
  first) and F27 (`range` bounds).
* `ConfigList.asa_object_group_names`, `.asa_object_group_network`, `.asa_access_list`
  (ciscoconfparse2.py): dictionaries filled in config order, so the last definition of a key wins.
* `ASAObjGroupNetwork.network_strings` (models_asa.py): host / network+mask (with the
  `255.255.255.255` rewrite) / alias resolution / `group-object` recursion.

The regular expressions of the source are re-implemented as token matchers (`\s` = `isSpace`,
`\S+` = maximal run of non-blank characters, `\d` = ASCII digit); agreement with `re` is measured by
the correspondence run, not proved.

Fragment covered at the text level (the generator stays inside it): group headers start in column
0 and are written `object-group network <name>`; no blank or comment line sits inside a group
body; `name` lines are accepted by the `ASAName` factory regex.
-/
namespace Ccp.Asa
open Ccp.Py

inductive Err | valueError | notImplemented | requirementFailure | indexError | recursionError
deriving Repr, DecidableEq

/-! ### regex pieces -/

/-- `\s+` : at least one blank, then all of them -/
def ws1 : Str → Option Str
  | c :: cs => if isSpace c then some ((c :: cs).dropWhile isSpace) else none
  | [] => none

/-- `(\S+)` : the maximal non-blank run, non-empty -/
def tok (s : Str) : Option (Str × Str) :=
  match s.span (fun c => !isSpace c) with
  | ([], _) => none
  | (t, rest) => some (t, rest)

/-- a literal -/
def lit : Str → Str → Option Str
  | [], s => some s
  | p :: ps, c :: cs => if p = c then lit ps cs else none
  | _ :: _, [] => none

/-- `\d+` (ASCII digits only; Python's `\d` also accepts other Unicode decimal digits) -/
def digits1 (s : Str) : Option (Str × Str) :=
  match s.span isDigit with
  | ([], _) => none
  | (d, rest) => some (d, rest)

/-- `\d+\.\d+\.\d+\.\d+` (greedy; no backtracking can change the outcome) -/
def dottedQuad (s : Str) : Option (Str × Str) := do
  let (a, s) ← digits1 s
  let s ← lit ['.'] s
  let (b, s) ← digits1 s
  let s ← lit ['.'] s
  let (c, s) ← digits1 s
  let s ← lit ['.'] s
  let (d, s) ← digits1 s
  some (a ++ '.' :: b ++ '.' :: c ++ '.' :: d, s)

/-- `pat in s` -/
def hasSub (pat : Str) : Str → Bool
  | [] => pat.isEmpty
  | c :: cs => pat.isPrefixOf (c :: cs) || hasSub pat cs

/-- `re.split(r"\s+", s)` of a stripped string = its blank-separated words -/
def words : Str → List Str
  | [] => []
  | c :: cs =>
    if isSpace c then words cs
    else match cs with
      | [] => [[c]]
      | d :: _ =>
        if isSpace d then [c] :: words cs
        else match words cs with
          | w :: ws => (c :: w) :: ws
          | [] => [[c]]          -- unreachable: `cs` starts with a non-blank

/-! ### L4Object -/

/-- a validated port specification -/
inductive PortOp
  | eq (n : Nat) | range (a b : Nat) | lt (n : Nat) | gt (n : Nat) | neq (n : Nat)
deriving Repr, DecidableEq

/-- `ports.get(tok, tok)` followed by `int(…)` -/
def portValue (tbl : List (String × Nat)) (t : Str) : Except Err Int :=
  match tbl.find? (fun p => p.1.toList = t) with
  | some p => .ok (Int.ofNat p.2)
  | none =>
    match pyInt t with
    | some i => .ok i
    | none => .error .valueError

def inPorts (lo hi : Int) (v : Int) : Bool := lo ≤ v && v ≤ hi

/-- the `if "neq " in … elif "eq " in …` ladder of `L4Object.__init__` up to the assignment of
`port_list`; `spec` is the stripped `port_spec`, `tbl` the service-name table of the protocol -/
def ladder (tbl : List (String × Nat)) (spec : Str) : Except Err PortOp :=
  let ws := words spec
  let last := ws.getLast?.getD []
  if hasSub "neq ".toList spec then do
    let v ← portValue tbl last
    if inPorts 1 65535 v then .ok (.neq v.toNat) else .error .requirementFailure
  else if hasSub "eq ".toList spec then do
    let v ← portValue tbl last
    if inPorts 1 65535 v then .ok (.eq v.toNat) else .error .requirementFailure
  else if spec ≠ [] ∧ spec.all (fun c => !isSpace c) then do
    -- re.search(r"^\S+$", spec)
    let v ← portValue tbl spec
    if inPorts 1 65535 v then .ok (.eq v.toNat) else .error .requirementFailure
  else if hasSub "range ".toList spec then
    match ws with
    | _ :: a :: rest => do
      let lo ← portValue tbl a
      match rest with
      | b :: _ => do
        let hi ← portValue tbl b
        if lo > hi then .error .requirementFailure
        else if 1 ≤ lo ∧ hi ≤ 65535 then .ok (.range lo.toNat hi.toNat)
        else .error .requirementFailure
      | [] => .error .indexError
    | _ => .error .indexError
  else if hasSub "lt ".toList spec then do
    let v ← portValue tbl last
    if inPorts 2 65535 v then .ok (.lt v.toNat) else .error .requirementFailure
  else if hasSub "gt ".toList spec then do
    let v ← portValue tbl last
    if inPorts 1 65534 v then .ok (.gt v.toNat) else .error .requirementFailure
  else
    -- the source has one more `elif "neq " in …` here; it repeats the first test and is dead
    .error .notImplemented

/-- protocol / syntax selection in front of the ladder -/
def parseSpec (protocol syn : Str) (portSpec : Str) : Except Err PortOp :=
  if syn ≠ "asa".toList then .error .notImplemented
  else if protocol = "tcp".toList then ladder Gen.asaTcpPorts (strip portSpec)
  else if protocol = "udp".toList then ladder Gen.asaUdpPorts (strip portSpec)
  else .error .notImplemented

/-- the value assigned to `port_list` -/
def portList : PortOp → List Nat
  | .eq n => [n]
  | .range a b => List.range' a (b + 1 - a)
  | .lt n => List.range' 1 (n - 1)
  | .gt n => List.range' (n + 1) (65535 - n)
  | .neq n => (List.range' 1 65535).filter (· != n)

/-- `L4Object(protocol, port_spec, syntax).port_list` -/
def l4 (protocol syn portSpec : Str) : Except Err (List Nat) :=
  (parseSpec protocol syn portSpec).map portList

/-! ### dictionaries filled in config order -/

/-- `d[k]` after `for (k, v) in defs: d[k] = v` : the last definition wins -/
def dictGet {α : Type} (defs : List (Str × α)) (k : Str) : Option α :=
  defs.foldl (fun acc p => if p.1 = k then some p.2 else acc) none

/-- `list(d.items())` after the same loop: keys in order of first insertion, last value -/
def dictItems {α : Type} (defs : List (Str × α)) : List (Str × α) :=
  ((defs.map (·.1)).eraseDups).filterMap (fun k => (dictGet defs k).map (fun v => (k, v)))

/-- `tmp = d.get(k, []); tmp.append(v); d[k] = tmp` -/
def multiGet {α : Type} (defs : List (Str × α)) (k : Str) : List α :=
  (defs.filter (·.1 = k)).map (·.2)

def multiItems {α : Type} (defs : List (Str × α)) : List (Str × List α) :=
  ((defs.map (·.1)).eraseDups).map (fun k => (k, multiGet defs k))

/-! ### the table regexes -/

/-- `^\s*name\s+(\d+\.\d+\.\d+\.\d+)\s+(\S+)` ↦ (name, addr) -/
def reNames (line : Str) : Option (Str × Str) := do
  let s ← lit "name".toList (line.dropWhile isSpace)
  let s ← ws1 s
  let (addr, s) ← dottedQuad s
  let s ← ws1 s
  let (name, _) ← tok s
  some (name, addr)

/-- `^\s*object-group\s+network\s+(\S+)` -/
def reObjNet (line : Str) : Option Str := do
  let s ← lit "object-group".toList (line.dropWhile isSpace)
  let s ← ws1 s
  let s ← lit "network".toList s
  let s ← ws1 s
  let (name, _) ← tok s
  some name

/-- `^\s*access-list\s+(\S+)` -/
def reObjAcl (line : Str) : Option Str := do
  let s ← lit "access-list".toList (line.dropWhile isSpace)
  let s ← ws1 s
  let (name, _) ← tok s
  some name

/-- `ASAObjGroupNetwork.name`: `re_match_typed(r"^object-group\s+network\s+(\S+)", default="")` -/
def groupName (line : Str) : Str :=
  match (do
    let s ← lit "object-group".toList line
    let s ← ws1 s
    let s ← lit "network".toList s
    let s ← ws1 s
    let (name, _) ← tok s
    some name : Option Str) with
  | some n => n
  | none => []

/-! ### members of a network object-group -/

inductive Member
  | host (h : Str)            -- network-object host H
  | net (n m : Str)           -- network-object N M
  | grp (g : Str)             -- group-object G
  | descr                     -- a line that contains "description "
  | bad                       -- anything else: NotImplementedError
deriving Repr, DecidableEq

/-- `_RE_NETOBJECT.search(text)` followed by the `elif "description " in obj.text` test -/
def parseMember (text : Str) : Member :=
  let body := text.dropWhile isSpace
  let alt1 : Option Member := do
    let s ← lit "network-object".toList body
    let s ← ws1 s
    let s ← lit "host".toList s
    let s ← ws1 s
    let (h, _) ← tok s
    some (.host h)
  let alt2 : Option Member := do
    let s ← lit "network-object".toList body
    let s ← ws1 s
    let (n, s) ← tok s
    let s ← ws1 s
    let (m, _) ← dottedQuad s
    some (.net n m)
  let alt3 : Option Member := do
    let s ← lit "group-object".toList body
    let s ← ws1 s
    let (g, _) ← tok s
    some (.grp g)
  match alt1 with
  | some m => m
  | none =>
    match alt2 with
    | some m => m
    | none =>
      match alt3 with
      | some m => m
      | none => if hasSub "description ".toList text then .descr else .bad

structure Group where
  name : Str
  members : List Member
deriving Repr, DecidableEq

def mask32 : Str := "255.255.255.255".toList

/-- `names.get(x, x)` -/
def resolve (names : List (Str × Str)) (x : Str) : Str := (dictGet names x).getD x

/-- the loop body of `network_strings` for everything but a `group-object` -/
def plainMember (names : List (Str × Str)) : Member → Option (Except Err (List Str))
  | .host h => some (.ok [resolve names h])
  | .net n m =>
    if m = mask32 then some (.ok [resolve names n])       -- net_obj["host"] = net_obj["network"]
    else some (.ok [resolve names n ++ '/' :: m])
  | .descr => some (.ok [])
  | .bad => some (.error .notImplemented)
  | .grp _ => none

/-- the `for obj in self.children` loop; `recur` expands a referenced group -/
def expandList (names : List (Str × Str)) (tbl : List (Str × Group))
    (recur : Group → Except Err (List Str)) (self : Str) : List Member → Except Err (List Str)
  | [] => .ok []
  | m :: ms => do
    let here ← (match plainMember names m with
      | some r => r
      | none =>
        match m with
        | .grp g =>
          if g = self then .error .valueError           -- "Cannot recurse through group-object"
          else match dictGet tbl g with
            | none => .error .valueError                -- "Cannot find group-object"
            | some g' => recur g'
        | _ => .ok [])
    let rest ← expandList names tbl recur self ms
    .ok (here ++ rest)

/-- `group.network_strings`; running out of `fuel` is Python's `RecursionError` (only a
reference cycle can do that when `fuel` exceeds the number of groups) -/
def expand (names : List (Str × Str)) (tbl : List (Str × Group)) : Nat → Group → Except Err (List Str)
  | 0, g => expandList names tbl (fun _ => .error .recursionError) g.name g.members
  | fuel + 1, g => expandList names tbl (expand names tbl fuel) g.name g.members

/-! ### from config lines to tables -/

/-- direct children of a header with indent `h` among the lines that follow it: the block ends at
the first line indented `≤ h`; inside it a line is a direct child iff no earlier line of the block
is indented less than it (`lim` = smallest indent seen so far) -/
def childrenAux (h : Nat) : Option Nat → List Str → List Str
  | _, [] => []
  | lim, l :: ls =>
    let i := indent l
    if i ≤ h then [] else
    match lim with
    | none => l :: childrenAux h (some i) ls
    | some m => if i ≤ m then l :: childrenAux h (some i) ls else childrenAux h (some m) ls

def childrenOf (header : Str) (following : List Str) : List Str :=
  childrenAux (indent header) none following

def groupOf (header : Str) (following : List Str) : Group :=
  { name := groupName header, members := (childrenOf header following).map parseMember }

/-- every `object-group network` line with its line number and the group object built there -/
def groupObjs : Nat → List Str → List (Nat × Str × Group)
  | _, [] => []
  | i, l :: ls =>
    match reObjNet l with
    | some key => (i, key, groupOf l ls) :: groupObjs (i + 1) ls
    | none => groupObjs (i + 1) ls

def nameDefs (lines : List Str) : List (Str × Str) := lines.filterMap reNames

def groupDefs (lines : List Str) : List (Str × Nat × Group) :=
  (groupObjs 0 lines).map (fun t => (t.2.1, t.1, t.2.2))

def groupTable (lines : List Str) : List (Str × Group) :=
  (groupDefs lines).map (fun t => (t.1, t.2.2))

def aclDefs : Nat → List Str → List (Str × Nat)
  | _, [] => []
  | i, l :: ls =>
    match reObjAcl l with
    | some key => (key, i) :: aclDefs (i + 1) ls
    | none => aclDefs (i + 1) ls

/-- `obj.network_strings` for the group object `g` of a parsed config -/
def networkStrings (lines : List Str) (g : Group) : Except Err (List Str) :=
  let tbl := groupTable lines
  expand (nameDefs lines) tbl (tbl.length + 1) g

end Ccp.Asa
