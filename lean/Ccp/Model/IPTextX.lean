import Ccp.Model.IPText
/-!
# The rest of the C11 anchors: factories, argument types, the remaining value properties

`Ccp.Model.IPText` models `IPv4Obj(text | int | object)` / `IPv6Obj(…)` and the derived values the
property lists.  This file adds, as the code is:

* `_get_ipv4` / `_get_ipv6` / `ip_factory` / `check_valid_ipaddress` (ccp_util.py) on top of the same
  constructors and the same stdlib layer (`IPv4Network(val, strict=False)` is tried first);
* the argument guards of these functions and of the two constructors (types, `mode`);
* the value properties that the first model left out (`ipv4` / `ipv6` / `_ip`, `masklen`, `masklength`,
  `prefixlength`, `packed`, `network_offset`, `max_int`, `inverse_netmask`, `version`, `as_int`,
  `is_ipv4_mapped`, and the IPv6 members that always raise).
-/
namespace Ccp.IPTextX
open Ccp.Py Ccp.IPText

/-! ## the factories -/

/-- the `val` argument: a `str` or an `int` (other types are refused by the guards) -/
inductive Val
  | str (s : Str)
  | int (n : Int)
  deriving Repr, DecidableEq

/-- what a factory returns -/
inductive Ret
  /-- an `IPv4Obj` -/
  | obj4 (o : Obj)
  /-- an `IPv6Obj` -/
  | obj6 (o : Obj)
  /-- `stdlib=True`, host route: `obj.ip`, an `IPv4Address` / `IPv6Address` -/
  | addr4 (n : Nat)
  | addr6 (n : Nat)
  /-- `stdlib=True`, anything else: `obj.network`, an `IPv4Network` / `IPv6Network` (host bits gone) -/
  | net4 (n : Nat × Nat)
  | net6 (n : Nat × Nat)
  deriving Repr, DecidableEq

/-- `IPv4Network(val, strict=False)`: the stdlib is asked first, only whether it raises matters -/
def stdNet4 : Val → Except Err Unit
  | .str s => (stdV4Net false s).map (fun _ => ())
  | .int n => if 0 ≤ n ∧ n ≤ (Gen.ipv4MaxInt : Int) then .ok () else .error .addressValueError

def stdNet6 : Val → Except Err Unit
  | .str s => (stdV6Net false s).map (fun _ => ())
  | .int n => if 0 ≤ n ∧ n ≤ (Gen.ipv6MaxInt : Int) then .ok () else .error .addressValueError

def ctor4 : Val → Except Err Obj
  | .str s => V4.fromStr s
  | .int n => V4.fromInt n

def ctor6 : Val → Except Err Obj
  | .str s => V6.fromStr s
  | .int n => V6.fromInt n

/-- every exception inside the `try` of `_get_ipv4` / `_get_ipv6` becomes `AddressValueError` -/
def wrapAVE {α : Type} : Except Err α → Except Err α
  | .ok a => .ok a
  | .error _ => .error .addressValueError

/-- `_get_ipv4(val, stdlib=…)` (guards passed) -/
def getIpv4 (val : Val) (stdlib : Bool) : Except Err Ret :=
  wrapAVE (do
    stdNet4 val
    let o ← ctor4 val
    if !stdlib then pure (.obj4 o)
    else if o.len = Gen.ipv4MaxPrefixlen then pure (.addr4 o.ip)
    else do
      let n ← V4.network o
      pure (.net4 n))

/-- `_get_ipv6(val, stdlib=…)` (guards passed) -/
def getIpv6 (val : Val) (stdlib : Bool) : Except Err Ret :=
  wrapAVE (do
    stdNet6 val
    let o ← ctor6 val
    if !stdlib then pure (.obj6 o)
    else if o.len = Gen.ipv6MaxPrefixlen then pure (.addr6 o.ip)
    else do
      let n ← V6.network o
      pure (.net6 n))

def modeAuto : Str := "auto_detect".toList
def modeV4 : Str := "ipv4".toList
def modeV6 : Str := "ipv6".toList

/-- `ip_factory(val, stdlib, mode)` (type guards passed; `mode` is any text) -/
def ipFactory (val : Val) (stdlib : Bool) (mode : Str) : Except Err Ret :=
  if mode = modeAuto then
    match val with
    | .str s => if s.contains ':' then getIpv6 val stdlib else getIpv4 val stdlib
    | .int _ => .error .notImplementedError
  else if mode = modeV4 then wrapAVE (getIpv4 val stdlib)
  else if mode = modeV6 then wrapAVE (getIpv6 val stdlib)
  else .error .requirementFailure

/-- `check_valid_ipaddress(text)`: the text is stripped and handed to `IPv4Obj` (family 4 if it accepts); otherwise
to `IPv6Obj` (family 6 if it accepts); otherwise `ValueError`.  (Before the repair `fix: check_valid_ipaddress() tries
IPv6 when the text is not an IPv4 address` the failure of the `IPv4Obj` attempt was re-raised as `ValueError` at once,
so the `IPv6Obj` attempt below it in the source was never reached and the family was always 4: finding FC11a.) -/
def checkValid (s : Str) : Except Err (Str × Nat) :=
  match V4.fromStr (strip s) with
  | .ok _ => .ok (strip s, 4)
  | .error _ =>
    match V6.fromStr (strip s) with
    | .ok _ => .ok (strip s, 6)
    | .error _ => .error .valueError

/-! ## argument guards -/

/-- `_get_ipv4` / `_get_ipv6`: `val` is `str|int`, `strict` and `stdlib` are `bool`, `debug` is `int` — checked
in this order, each failing with a bare `ValueError` -/
def guardGet (valOk strictOk stdlibOk debugOk : Bool) : Option Err :=
  if !valOk then some .valueError
  else if !strictOk then some .valueError
  else if !stdlibOk then some .valueError
  else if !debugOk then some .valueError
  else none

/-- `ip_factory`: `val`, then `mode` (`RequirementFailure`), then `stdlib`, then `debug` -/
def guardFactory (valOk : Bool) (mode : Str) (stdlibOk debugOk : Bool) : Option Err :=
  if !valOk then some .valueError
  else if ¬ (mode = modeAuto ∨ mode = modeV4 ∨ mode = modeV6) then some .requirementFailure
  else if !stdlibOk then some .valueError
  else if !debugOk then some .valueError
  else none

/-- `check_valid_ipaddress`: `input_addr` must be a `str` (an `int`, `None`, `bytes` → bare `ValueError`) -/
def guardCheck (isStr : Bool) : Option Err := if !isStr then some .valueError else none

/-- the constructor argument by type -/
inductive ArgType
  /-- no argument / `None`: the empty object -/
  | none
  /-- a `float`, `bytes`, `list`, `tuple`, or an object of the other family -/
  | foreign
  /-- `debug` is not an `int` (checked before the argument is looked at) -/
  | badDebug
  deriving Repr, DecidableEq

/-- `IPv4Obj(arg)` / `IPv6Obj(arg)` for such an argument: `some none` = the empty object is built -/
def ctorByType : ArgType → Except Err Unit
  | .none => .ok ()
  | .foreign => .error .addressValueError
  | .badDebug => .error .valueError

/-! ## the remaining value properties -/

/-- `n.to_bytes(16, 'big')` -/
def toBytes16 (n : Nat) : List Nat := (List.range 16).map (fun i => n / 256 ^ (15 - i) % 256)

/-- IPv4 `network_offset`: `as_decimal - as_decimal_network`, `RequirementFailure` when it exceeds `numhosts` -/
def networkOffset4 (o : Obj) : Except Err Int := do
  let a ← V4.asDecimal o
  let n ← V4.asDecimalNetwork o
  let h ← V4.numhosts o
  let off : Int := (a : Int) - (n : Int)
  if off > (h : Int) then .error .requirementFailure else .ok off

def networkOffset6 (o : Obj) : Except Err Int := do
  let a ← V6.asDecimal o
  let n ← V6.asDecimalNetwork o
  let h ← V6.numhosts o
  let off : Int := (a : Int) - (n : Int)
  if off > (h : Int) then .error .requirementFailure else .ok off

/-- `IPv6Obj.is_ipv4_mapped`: `self.ip in IPv6Network("::ffff:0:0/96")` -/
def isIpv4Mapped (o : Obj) : Bool := o.ip / 2 ^ 32 == 0xffff

/-- the extra values of an `IPv4Obj`:
`int(ipv4)`, `_ip`, `masklen`, `masklength`, `prefixlength`, `packed`, `network_offset`, `max_int`,
`int(inverse_netmask)`, `version`, `as_int` -/
structure Extra where
  ip : Nat
  ipInt : Nat
  masklen : Nat
  masklength : Nat
  prefixlength : Nat
  packed : List Nat
  networkOffset : Except Err Int
  maxInt : Nat
  inverseNetmask : Nat
  version : Nat
  asInt : Except Err Nat

def extra4 (o : Obj) : Extra where
  ip := o.ip
  ipInt := o.ip
  masklen := o.len
  masklength := o.len
  prefixlength := o.len
  packed := toBytes4 o.ip
  networkOffset := networkOffset4 o
  maxInt := Gen.ipv4MaxInt
  inverseNetmask := V4.hostmask o
  version := 4
  asInt := V4.asDecimal o

def extra6 (o : Obj) : Extra where
  ip := o.ip
  ipInt := o.ip
  masklen := o.len
  masklength := o.len
  prefixlength := o.len
  packed := toBytes16 o.ip
  networkOffset := networkOffset6 o
  maxInt := Gen.ipv6MaxInt
  inverseNetmask := V6.hostmask o
  version := 6
  asInt := V6.asDecimal o

/-- IPv6 members that raise whatever the object: `broadcast`, `as_decimal_broadcast`
(`NotImplementedError`), `teredo`, `sixtofour` (`AttributeError`: an `IPv6Network` has no such attribute) -/
inductive AlwaysRaises | notImplemented | attributeError
  deriving Repr, DecidableEq

def v6AlwaysRaise : List AlwaysRaises := [.notImplemented, .notImplemented, .attributeError, .attributeError]

end Ccp.IPTextX
