import Ccp.Model.Tree
import Ccp.Model.Edit
/-!
Model of the typed value extraction helpers (`groupdict=None` path):

* `BaseCfgLine.re_match`, `re_match_typed`, `re_match_iter_typed`,
  `re_list_iter_typed` / `re_list_iter_typed_groupdict_none` (ccp_abc.py)
* `CiscoConfParse.re_match_iter_typed` (ciscoconfparse2.py; root lines only)

The regular expression is data of the caller: the model is parametric in the
oracle `g : Str → GroupRes`, the outcome of `re.search(regex, text)` for the
requested group index.  `IPv4Obj(x)` is an external parser from this property's
point of view (it is C11's subject) and is the second parameter `ip`.  `str`, `int`
are modelled; a `float` result is represented by the source text handed to
`float()` (never by a floating point number) together with a recogniser of the
texts `float()` accepts.

Outside the property's quantifier (the property speaks of "the requested capture
group"), but modelled as the code is now so that the behaviour is on record:

* the `groupdict=` path of `re_match_iter_typed` / `re_list_iter_typed`
  (`get_regex_typed_dict`), including its two defects (section "groupdict");
* the `search_safe` guard at the top of every `BaseCfgLine` helper, on the states of
  `Ccp.Edit` (section "stale configs"); `CiscoConfParse.re_match_iter_typed` has no guard.

Not modelled: `OverflowError` of `float(int)` for huge ints.
-/
namespace Ccp.Typed
open Ccp.Py Ccp.Tree

/-- outcome of `mm = re.search(regex, text)` followed by `mm.group(group)`:
`noMatch` (`mm is None`), `noGroup` (the pattern has no such group: `IndexError`),
`unset` (the group did not participate: `None`), `val s`. -/
inductive GroupRes
  | noMatch | noGroup | unset | val (s : Str)
deriving Repr, DecidableEq

inductive Err
  | typeError | valueError | indexError
  /-- the `search_safe` guard -/
  | notImplemented
  /-- `re_list_iter_typed_groupdict_dict` reads `retval` before assigning it -/
  | nameError
  /-- an exception class raised by the external `IPv4Obj` parser -/
  | ext (cls : Str)
deriving Repr, DecidableEq

/-- `result_type` -/
inductive Ty | str | int | float | ip
deriving Repr, DecidableEq

/-- what is handed to `result_type(...)`: a group (`None` or `str`) or the caller's default -/
inductive Arg
  | none | str (s : Str) | int (n : Int)
deriving Repr, DecidableEq

/-- a returned Python value -/
inductive Val
  | none | str (s : Str) | int (n : Int)
  /-- `float(src)`: the source text, stripped -/
  | float (src : Str)
  /-- an `IPv4Obj`, by its `repr` -/
  | ip (repr : Str)
deriving Repr, DecidableEq

def Val.ofArg : Arg → Val
  | .none => .none
  | .str s => .str s
  | .int n => .int n

/-- `mm is not None` -/
def matched : GroupRes → Bool
  | .noMatch => false
  | _ => true

/-! ### conversions -/

/-- `str(x)` -/
def pyStr : Arg → Str
  | .none => "None".toList
  | .str s => s
  | .int n => intToDec n

/-- rest after `digit (_? digit)*`, the continuation loop -/
def eatMore : Str → Str
  | '_' :: c :: cs => if isDigit c then eatMore cs else '_' :: c :: cs
  | c :: cs => if isDigit c then eatMore cs else c :: cs
  | [] => []

/-- rest after a digit part `digit (_? digit)*`; `none` when the text does not start with a digit -/
def eatDigits : Str → Option Str
  | c :: cs => if isDigit c then some (eatMore cs) else none
  | [] => none

/-- optional exponent, then the end of the text -/
def afterFrac : Str → Bool
  | [] => true
  | e :: r =>
    if e = 'e' || e = 'E' then
      let r := match r with
        | '+' :: r' => r'
        | '-' :: r' => r'
        | _ => r
      eatDigits r == some []
    else false

def lower (s : Str) : Str := s.map Char.toLower

/-- unsigned float literal: `inf | infinity | nan | digits [. [digits]] [exp] | . digits [exp]` -/
def floatBody (s : Str) : Bool :=
  if lower s = "inf".toList || lower s = "infinity".toList || lower s = "nan".toList then true else
  match eatDigits s with
  | some ('.' :: r) =>
    (match eatDigits r with
     | some r' => afterFrac r'
     | none => afterFrac r)
  | some r => afterFrac r
  | none =>
    match s with
    | '.' :: r =>
      (match eatDigits r with
       | some r' => afterFrac r'
       | none => false)
    | _ => false

/-- does `float(s)` accept the text (ASCII digits only; the generators emit no others) -/
def isFloatLit (s : Str) : Bool :=
  match strip s with
  | '+' :: r => floatBody r
  | '-' :: r => floatBody r
  | r => floatBody r

/-- `result_type(x)` -/
def conv (ip : Arg → Except Err Str) : Ty → Arg → Except Err Val
  | .str, a => .ok (.str (pyStr a))
  | .int, .none => .error .typeError
  | .int, .str s =>
    (match pyInt s with
     | some n => .ok (.int n)
     | none => .error .valueError)
  | .int, .int n => .ok (.int n)
  | .float, .none => .error .typeError
  | .float, .str s => if isFloatLit s then .ok (.float (strip s)) else .error .valueError
  | .float, .int n => .ok (.float (intToDec n))
  | .ip, a =>
    (match ip a with
     | .ok r => .ok (.ip r)
     | .error e => .error e)

/-- `result_type(mm.group(group))` for a match object `mm` (the `noMatch` row is never
consulted: every caller tests `matched` first) -/
def convGroup (ip : Arg → Except Err Str) (ty : Ty) : GroupRes → Except Err Val
  | .val s => conv ip ty (.str s)
  | .unset => conv ip ty .none
  | .noGroup => .error .indexError
  | .noMatch => .error .indexError

/-! ### the helpers -/

structure Ctx where
  /-- the regex oracle for the request's `(regex, group)` -/
  g : Str → GroupRes
  /-- `IPv4Obj(x)`: `repr` of the object or the exception class -/
  ip : Arg → Except Err Str
  t : T

def text (t : T) (j : Nat) : Str := t.texts.getD j []

/-- group result of line `j` -/
def Ctx.at (c : Ctx) (j : Nat) : GroupRes := c.g (text c.t j)

/-- `return default if untyped_default else result_type(default)` -/
def typedDefault (c : Ctx) (ty : Ty) (default : Arg) (untyped : Bool) : Except Err Val :=
  if untyped then .ok (Val.ofArg default) else conv c.ip ty default

/-- `obj.re_match(regex, group, default)` -/
def reMatch (c : Ctx) (i : Nat) (default : Arg) : Except Err Val :=
  match c.at i with
  | .noMatch => .ok (Val.ofArg default)
  | .noGroup => .error .indexError
  | .unset => .ok .none
  | .val s => .ok (.str s)

/-- `obj.re_match_typed(regex, group, result_type, default, untyped_default)` -/
def reMatchTyped (c : Ctx) (i : Nat) (ty : Ty) (default : Arg) (untyped : Bool) : Except Err Val :=
  match c.at i with
  | .val s => conv c.ip ty (.str s)
  | .noGroup => .error .indexError
  | .unset => typedDefault c ty default untyped
  | .noMatch => typedDefault c ty default untyped

/-- `for cobj in …: mm = re.search(regex, cobj.text); if mm: return result_type(mm.group(group))`;
`none` = the loop fell through -/
def firstLoop (c : Ctx) (ty : Ty) : List Nat → Option (Except Err Val)
  | [] => none
  | j :: js => if matched (c.at j) then some (convGroup c.ip ty (c.at j)) else firstLoop c ty js

/-- `obj.re_match_iter_typed(regex, group, result_type, default, untyped_default, recurse=…)` -/
def reMatchIterTyped (c : Ctx) (i : Nat) (ty : Ty) (default : Arg) (untyped recurse : Bool) :
    Except Err Val :=
  if matched (c.at i) then convGroup c.ip ty (c.at i) else
  if recurse = false then
    match firstLoop c ty (children c.t i) with
    | some r => r
    | none => typedDefault c ty default untyped
  else
    match firstLoop c ty (allChildren c.t i) with
    | some r => r
    | none => typedDefault c ty default untyped

/-- `for cobj in …: if mm: retval.append(result_type(mm.group(group)))`, stopping at the first raise -/
def listLoop (c : Ctx) (ty : Ty) : List Nat → Except Err (List Val)
  | [] => .ok []
  | j :: js =>
    if matched (c.at j) then
      match convGroup c.ip ty (c.at j) with
      | .error e => .error e
      | .ok v =>
        match listLoop c ty js with
        | .error e => .error e
        | .ok vs => .ok (v :: vs)
    else listLoop c ty js

/-- `obj.re_list_iter_typed(regex, group, result_type, recurse=…)` -/
def reListIterTyped (c : Ctx) (i : Nat) (ty : Ty) (recurse : Bool) : Except Err (List Val) :=
  listLoop c ty (i :: (if recurse = false then children c.t i else allChildren c.t i))

/-- the loop of `CiscoConfParse.re_match_iter_typed`: `if cobj.parent is not cobj: continue` -/
def rootLoop (c : Ctx) (ty : Ty) : List Nat → Option (Except Err Val)
  | [] => none
  | j :: js =>
    if parentOf c.t j != j then rootLoop c ty js
    else if matched (c.at j) then some (convGroup c.ip ty (c.at j))
    else rootLoop c ty js

/-- `parse.re_match_iter_typed(regex, group, result_type, default, untyped_default)` -/
def rootIterTyped (c : Ctx) (ty : Ty) (default : Arg) (untyped : Bool) : Except Err Val :=
  match rootLoop c ty (List.range c.t.size) with
  | some r => r
  | none => typedDefault c ty default untyped

/-! ### groupdict (outside the property's quantifier; the code as it is now) -/

/-- `mapM` in `Except`, written out (the first failing conversion aborts) -/
def mapE {α β ε : Type} (f : α → Except ε β) : List α → Except ε (List β)
  | [] => .ok []
  | a :: as =>
    match f a with
    | .error e => .error e
    | .ok b =>
      match mapE f as with
      | .error e => .error e
      | .ok bs => .ok (b :: bs)

/-- the context of a `groupdict=` request: `keys` are the result types of `type_dict`
(`None` = leave as is), in dict order; `gd text` is `None` when `re.search` fails, else one
row per key: `noGroup` (the pattern has no group of that name), `unset`, `val s` -/
structure DCtx where
  gd : Str → Option (List GroupRes)
  ip : Arg → Except Err Str
  keys : List (Option Ty)
  t : T

def DCtx.at (c : DCtx) (j : Nat) : Option (List GroupRes) := c.gd (text c.t j)

/-- one entry of `get_regex_typed_dict` for a match object:
`v = groupdict().get(key, default); if _type is not None and v != default: v = _type(v)` -/
def dictEntry (ip : Arg → Except Err Str) (default : Arg) (ty : Option Ty) : GroupRes → Except Err Val
  | .val s =>
    (match ty with
     | none => .ok (.str s)
     | some ty => if Arg.str s = default then .ok (.str s) else conv ip ty (.str s))
  | .unset =>
    (match ty with
     | none => .ok .none
     | some ty => if Arg.none = default then .ok .none else conv ip ty .none)
  | .noGroup => .ok (Val.ofArg default)
  | .noMatch => .ok (Val.ofArg default)

/-- `get_regex_typed_dict(regex=mm, type_dict=groupdict, default=default)`: the values in key order -/
def typedDict (c : DCtx) (default : Arg) : Option (List GroupRes) → Except Err (List Val)
  | none => .ok (c.keys.map (fun _ => Val.ofArg default))
  | some rows => mapE (fun kr => dictEntry c.ip default kr.1 kr.2) (c.keys.zip rows)

/-- first line of the list that matches -/
def firstSome (c : DCtx) : List Nat → Option (List GroupRes)
  | [] => none
  | j :: js => match c.at j with
    | some rows => some rows
    | none => firstSome c js

/-- `obj.re_match_iter_typed(regex, groupdict={…}, default=…, recurse=…)` as written:
with `recurse=False` the loop body returns unconditionally, i.e. at the first child -/
def reMatchIterDict (c : DCtx) (i : Nat) (default : Arg) (recurse : Bool) : Except Err (List Val) :=
  match c.at i with
  | some rows => typedDict c default (some rows)
  | none =>
    if recurse = false then
      match children c.t i with
      | k :: _ => typedDict c default (c.at k)
      | [] => typedDict c default none
    else typedDict c default (firstSome c (allChildren c.t i))

/-- the first `get_regex_typed_dict` call of `re_list_iter_typed_groupdict_dict` (its default is
`None`): the line itself when it matches, else the first child (any) / first matching descendant -/
def listDictFirst (c : DCtx) (i : Nat) (recurse : Bool) : Option (Option (List GroupRes)) :=
  match c.at i with
  | some rows => some (some rows)
  | none =>
    if recurse = false then
      match children c.t i with
      | k :: _ => some (c.at k)
      | [] => none
    else (firstSome c (allChildren c.t i)).map some

/-- `obj.re_list_iter_typed(regex, groupdict={…}, recurse=…)` as written: `retval` is never
initialised, so the first `retval.append` / the final `return retval` raises `NameError` —
unless the conversion before the first `append` raises first -/
def reListIterDict (c : DCtx) (i : Nat) (recurse : Bool) : Except Err (List (List Val)) :=
  match listDictFirst c i recurse with
  | none => .error .nameError
  | some mm =>
    match typedDict c .none mm with
    | .error e => .error e
    | .ok _ => .error .nameError

/-- what the caller passed as `groupdict=`: `None` (the default), a `dict`, anything else -/
inductive GdKind | none | dict | other
deriving Repr, DecidableEq

/-- the `if groupdict is None: … elif isinstance(groupdict, dict) is True: … else: raise ValueError`
ladder of `re_match_iter_typed` and `re_list_iter_typed`: `plain` is the answer of the group-index
path, `dict` that of the `get_regex_typed_dict` path -/
def gdDispatch {α : Type} (k : GdKind) (plain dict : Except Err α) : Except Err α :=
  match k with
  | .none => plain
  | .dict => dict
  | .other => .error .valueError

/-! ### stale configs (outside the property's quantifier) -/

/-- `if self.confobj is not None and self.confobj.search_safe is False: raise NotImplementedError`,
the first statement of `re_match`, `re_match_typed`, `re_match_iter_typed`, `re_list_iter_typed` of a line
object, and `if self.config_objs.search_safe is False: raise NotImplementedError` of
`CiscoConfParse.re_match_iter_typed` -/
def guarded {α : Type} (stale : Bool) (r : Except Err α) : Except Err α :=
  if stale then .error .notImplemented else r

/-- an object helper called on the committed object `h` of an edit state that is committed or
stale (every state reachable by `ConfigList.insert` and `commit`): guarded by `S.stale`, answered
from the links of the last commit -/
def onState (s : Edit.S) (g : Str → GroupRes) (ip : Arg → Except Err Str) : Ctx :=
  { g := g, ip := ip, t := s.tree }

def stMatch (s : Edit.S) (g : Str → GroupRes) (ip : Arg → Except Err Str) (h : Nat) (d : Arg) : Except Err Val :=
  guarded s.stale (reMatch (onState s g ip) h d)
def stMatchTyped (s : Edit.S) (g : Str → GroupRes) (ip : Arg → Except Err Str) (h : Nat) (ty : Ty) (d : Arg) (u : Bool) : Except Err Val :=
  guarded s.stale (reMatchTyped (onState s g ip) h ty d u)
def stIterTyped (s : Edit.S) (g : Str → GroupRes) (ip : Arg → Except Err Str) (h : Nat) (ty : Ty) (d : Arg) (u r : Bool) : Except Err Val :=
  guarded s.stale (reMatchIterTyped (onState s g ip) h ty d u r)
def stListTyped (s : Edit.S) (g : Str → GroupRes) (ip : Arg → Except Err Str) (h : Nat) (ty : Ty) (r : Bool) : Except Err (List Val) :=
  guarded s.stale (reListIterTyped (onState s g ip) h ty r)

/-- `cobj.parent is cobj` for an element of the current list: an object of the last commit keeps
its committed parent, an object created since is its own parent -/
def itemIsRoot (t : T) (it : Edit.Item) : Bool :=
  match it.id with
  | some h => parentOf t h == h
  | none => true

/-- the loop of `CiscoConfParse.re_match_iter_typed` over the *current* list -/
def rootLoopItems (g : Str → GroupRes) (ip : Arg → Except Err Str) (t : T) (ty : Ty) :
    List Edit.Item → Option (Except Err Val)
  | [] => none
  | it :: r =>
    if itemIsRoot t it && matched (g it.text) then some (convGroup ip ty (g it.text))
    else rootLoopItems g ip t ty r

/-- the body of `CiscoConfParse.re_match_iter_typed` below its guard: the loop over the current list, then the default -/
def rootOnItems (s : Edit.S) (g : Str → GroupRes) (ip : Arg → Except Err Str) (ty : Ty) (d : Arg)
    (u : Bool) : Except Err Val :=
  match rootLoopItems g ip s.tree ty s.items with
  | some r => r
  | none => typedDefault (onState s g ip) ty d u

/-- `CiscoConfParse.re_match_iter_typed` on an edit state: the `search_safe` guard, then the loop.  (Before the repair
`fix: CiscoConfParse.re_match_iter_typed() refuses to search an uncommitted config` the method had no guard and
answered `rootOnItems` on a stale state too, uncommitted lines included: finding FC07a.) -/
def stRootIterTyped (s : Edit.S) (g : Str → GroupRes) (ip : Arg → Except Err Str) (ty : Ty) (d : Arg)
    (u : Bool) : Except Err Val :=
  guarded s.stale (rootOnItems s g ip ty d u)

/-! ### the documented orders (specification side) -/

/-- the line itself, then its direct children or all its descendants -/
def order (t : T) (i : Nat) (recurse : Bool) : List Nat :=
  i :: (if recurse then allChildren t i else children t i)

/-- the root lines in config order -/
def roots (t : T) : List Nat := (List.range t.size).filter (fun j => parentOf t j == j)

end Ccp.Typed
