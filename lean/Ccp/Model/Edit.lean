import Ccp.Model.Tree
/-!
State machine for the editing API (C06 / C07): `ConfigList.insert/append/pop`,
list-level `insert_before/insert_after` (regex), object-level
`insert_before/insert_after`, `delete`, `append_to_family`, `replace_text`, `re_sub`,
`commit`, with `auto_commit` on or off and the `search_safe` checkpoint.

A state holds the current list (`items`: each element's text and, if it is an object of
the last commit, that object's committed line number — the model's notion of object
identity), the tree of the last commit and two flags: `stale` (`current_checkpoint ≠
commit_checkpoint`; only `ConfigList.insert` moves the current checkpoint) and `dirty`
(some uncommitted change).  An object handle is a committed line number.  Operations
that find their object by identity (object-level inserts, `replace_text`, `re_sub`) work
on dirty states as well; `delete` and `append_to_family` index by the object's stored
line number and are only modelled on non-dirty states.
Regular expressions are oracle data: a list-level insert carries the row of matching
lines, `re_sub` carries the substituted text.
-/
namespace Ccp.Edit
open Ccp.Py Ccp.Tree

inductive Err
  | indexError | valueError | invalidParameters | notImplemented | doesNotExist | dirtyHandle
deriving Repr, DecidableEq

structure Item where
  text : Str
  /-- committed line number of this object; `none` for an object created since the last commit -/
  id : Option Nat
deriving Repr, DecidableEq

structure S where
  cfg : Cfg
  auto : Bool
  /-- `CiscoConfParse.auto_indent_width` -/
  width : Nat
  items : List Item
  tree : T
  stale : Bool
  dirty : Bool
deriving Repr

def S.texts (s : S) : List Str := s.items.map Item.text

def fresh (txt : Str) : Item := { text := txt, id := none }

/-- the objects of a freshly committed tree, in order -/
def committedItems (t : T) : List Item := t.texts.zipIdx.map (fun p => { text := p.1, id := some p.2 })

/-- current position of the committed object `h`, if it is still in the list -/
def posOf (items : List Item) (h : Nat) : Option Nat := items.findIdx? (fun it => it.id == some h)

def setText (items : List Item) (p : Nat) (txt : Str) : List Item :=
  items.modify p (fun it => { it with text := txt })

inductive Op
  | insert (k : Int) (txt : Str)
  | append (txt : Str)
  | pop (k : Int)
  /-- list-level `insert_before(regex, txt)`: `row[i]` = does the regex match line `i`;
  `emptyRx` = the regex string is empty -/
  | listInsBefore (emptyRx : Bool) (row : List Bool) (txt : Str)
  | listInsAfter (emptyRx : Bool) (row : List Bool) (txt : Str)
  | objInsBefore (i : Nat) (txt : Str)
  | objInsAfter (i : Nat) (txt : Str)
  | delete (i : Nat)
  | appendToFamily (i : Nat) (txt : Str) (indent : Int) (autoIndent : Bool)
  | replaceText (i : Nat) (before after : Str)
  /-- `re_sub`: `newText` is `re.sub(regex, repl, text_i)` computed by the caller -/
  | reSub (i : Nat) (newText : Str)
  | commit
  /-- any search API: answers iff `search_safe` -/
  | probe
deriving Repr

/-! ### list primitives with Python's index conventions -/

/-- `list.insert(k, x)` -/
def pyInsert (l : List α) (k : Int) (x : α) : List α :=
  let n : Int := l.length
  let k' : Int := if k < 0 then (if k + n < 0 then 0 else k + n) else (if k > n then n else k)
  l.take k'.toNat ++ x :: l.drop k'.toNat

/-- `list.pop(k)` -/
def pyPop (l : List α) (k : Int) : Option (List α) :=
  let n : Int := l.length
  let k' : Int := if k < 0 then k + n else k
  if k' < 0 ∨ k' ≥ n then none else some (l.eraseIdx k'.toNat)

/-- insert `x` before (`after = false`) or after every position whose row entry is true -/
def insertAtMatches (after : Bool) (x : α) : List α → List Bool → List α
  | [], _ => []
  | a :: as, [] => a :: as
  | a :: as, b :: bs =>
    if b then (if after then a :: x :: insertAtMatches after x as bs else x :: a :: insertAtMatches after x as bs)
    else a :: insertAtMatches after x as bs

/-- `str.replace(before, after)` for a non-empty `before` (fuel = length of the text) -/
def pyReplaceFuel (before after : Str) : Nat → Str → Str
  | 0, s => s
  | _, [] => []
  | fuel + 1, c :: cs =>
    if before.isPrefixOf (c :: cs) then after ++ pyReplaceFuel before after fuel ((c :: cs).drop before.length)
    else c :: pyReplaceFuel before after fuel cs

def pyReplace (before after s : Str) : Str :=
  if before.isEmpty then s else pyReplaceFuel before after (s.length + 1) s

/-! ### commit -/

/-- `ConfigList.commit()`: one bootstrap of the current texts -/
def commit (s : S) : S :=
  let t := bootstrap s.cfg s.texts
  { s with tree := t, items := committedItems t, stale := false, dirty := false }

def autoCommit (s : S) : S := if s.auto then commit s else s

def init (cfg : Cfg) (auto : Bool) (width : Nat) (ls : List Str) : S :=
  let t := parse cfg ls
  { cfg := cfg, auto := auto, width := width, items := committedItems t, tree := t, stale := false, dirty := false }

/-! ### append_to_family -/

/-- `classify_family_indent` of a text relative to line `self`; `none` = NotImplementedError -/
def cfi (width selfIndent : Nat) (txt : Str) : Option Int :=
  let iw := indent txt
  if width = 0 then none else
  if iw % width != 0 then none else
  if selfIndent = iw then some 0
  else some (Int.tdiv ((iw : Int) - (selfIndent : Int)) (width : Int))

/-- is `i` related to `j` through `j.lineage` (`self in obj.lineage`) -/
def inLineage (t : T) (self obj : Nat) : Bool := (lineage t obj).contains self

/-- `last_parent_linenums[0]` of branch A: the last line, among those whose lineage
contains `self`, at `self`'s own indent; `none` if classification raises on the way -/
def lastParentLinenum0 (t : T) (width self : Nat) : Option Nat :=
  let si := indentOf t self
  let rec go : List Nat → Option Nat → Option (Option Nat)
    | [], acc => some acc
    | j :: js, acc =>
      if inLineage t self j then
        match cfi width si (t.texts.getD j []) with
        | none => none
        | some k => go js (if k = 0 then some j else acc)
      else go js acc
  (go (List.range t.size) none).bind id

/-- `last_family_linenum` -/
def lastFamilyLinenum (t : T) (width self : Nat) : Option Nat :=
  let si := indentOf t self
  match cfi width si (t.texts.getD self []) with
  | none => none
  | some this =>
    let rec go : List Nat → Option Nat → Option (Option Nat)
      | [], acc => some acc
      | j :: js, acc =>
        match cfi width si (t.texts.getD j []) with
        | none => none
        | some k => go js (if k = this then some j else acc)
    match go (List.range t.size) none with
    | none => none
    | some none => some self
    | some (some ls) => some (familyEndpoint t ls)

/-- the index at which `append_to_family` inserts, or the error it raises -/
def appendIndex (t : T) (width self : Nat) (s : Str) : Except Err Nat :=
  let si := indentOf t self
  let kids := children t self
  if kids.isEmpty then
    -- branch A: no children
    match lastParentLinenum0 t width self, cfi width si (t.texts.getD self []), cfi width si s with
    | some lp, some this, some nfi =>
      if this = nfi then
        (if !(siblings t self).isEmpty then .ok (((siblings t self).getLast?).getD self + 1)
         else match lastFamilyLinenum t width self with
           | some l => .ok (l + 1)
           | none => .error .notImplemented)
      else if this + 1 = nfi then .ok (lp + 1)
      else .error .notImplemented
    | _, _, _ => .error .notImplemented
  else
    -- branch C: has children
    match cfi width si (t.texts.getD (kids.getLast?.getD self) []), cfi width si s with
    | some _, some ifi =>
      if ifi = 0 then .ok (self + kids.length)
      else match cfi width si (t.texts.getD self []) with
        | none => .error .notImplemented
        | some selfc =>
          if ifi > selfc then
            (if ifi > 1 then .error .notImplemented else .ok (familyEndpoint t self + 1))
          else .error .notImplemented
    | _, _ => .error .notImplemented

/-- the text that is inserted: explicit indent, auto indent, or as given -/
def familyText (parentIndent width : Nat) (txt : Str) (ind : Int) (autoIndent : Bool) : Str :=
  if ind > 0 then List.replicate ind.toNat ' ' ++ lstrip txt
  else if autoIndent then List.replicate (parentIndent + width) ' ' ++ lstrip txt
  else txt

/-! ### one step -/

def isBlank (txt : Str) : Bool := (strip txt).isEmpty

def descendantsAndSelf (t : T) (i : Nat) : List Nat := i :: allChildren t i

def eraseAll (l : List α) (idxs : List Nat) : List α :=
  (l.zipIdx).filterMap (fun p => if idxs.contains p.2 then none else some p.1)

def step (s : S) (op : Op) : S × Except Err Unit :=
  match op with
  | .insert k txt =>
    (autoCommit { s with items := pyInsert s.items k (fresh txt), stale := true, dirty := true }, .ok ())
  | .append txt =>
    (autoCommit { s with items := s.items ++ [fresh txt], dirty := true }, .ok ())
  | .pop k =>
    match pyPop s.items k with
    | none => (s, .error .indexError)
    | some l => (autoCommit { s with items := l, dirty := true }, .ok ())
  | .listInsBefore emptyRx row txt =>
    if isBlank txt && s.cfg.ignoreBlank then (s, .error .invalidParameters)
    else if emptyRx then (s, .error .valueError)
    else (autoCommit { s with items := insertAtMatches false (fresh txt) s.items row, dirty := true }, .ok ())
  | .listInsAfter emptyRx row txt =>
    if isBlank txt && s.cfg.ignoreBlank then (s, .error .invalidParameters)
    else if emptyRx then (s, .error .valueError)
    else (autoCommit { s with items := insertAtMatches true (fresh txt) s.items row, dirty := true }, .ok ())
  | .objInsBefore h txt =>
    match posOf s.items h with
    | none => (s, .error .dirtyHandle)
    | some p =>
      if isBlank txt && s.cfg.ignoreBlank then (s, .error .invalidParameters)
      else (autoCommit { s with items := s.items.take p ++ fresh txt :: s.items.drop p, dirty := true }, .ok ())
  | .objInsAfter h txt =>
    match posOf s.items h with
    | none => (s, .error .dirtyHandle)
    | some p =>
      if isBlank txt && s.cfg.ignoreBlank then (s, .error .invalidParameters)
      else (autoCommit { s with items := s.items.take (p + 1) ++ fresh txt :: s.items.drop (p + 1), dirty := true }, .ok ())
  | .delete i =>
    if s.dirty || i ≥ s.items.length then (s, .error .dirtyHandle)
    else (autoCommit { s with items := eraseAll s.items (descendantsAndSelf s.tree i), dirty := true }, .ok ())
  | .appendToFamily i txt ind autoIndent =>
    if s.dirty || i ≥ s.items.length then (s, .error .dirtyHandle)
    else if autoIndent && ind > 0 then (s, .error .notImplemented)
    else
      let txt' := familyText (indentOf s.tree i) s.width txt ind autoIndent
      match appendIndex s.tree s.width i txt' with
      | .error e => (s, .error e)
      | .ok idx =>
        (autoCommit { s with items := pyInsert s.items idx (fresh txt'), stale := true, dirty := true }, .ok ())
  | .replaceText h before after =>
    match posOf s.items h with
    | none => (s, .error .dirtyHandle)
    | some p =>
      let new := pyReplace before after ((s.texts).getD p [])
      (autoCommit { s with items := setText s.items p new, dirty := true }, .ok ())
  | .reSub h newText =>
    match posOf s.items h with
    | none => (s, .error .dirtyHandle)
    | some p =>
      if s.stale then (s, .error .notImplemented)
      else if newText = (s.texts).getD p [] then (s, .ok ())
      else (autoCommit { s with items := setText s.items p newText, dirty := true }, .ok ())
  | .commit => (commit s, .ok ())
  | .probe => (s, if s.stale then .error .notImplemented else .ok ())

def run (s : S) : List Op → S
  | [] => s
  | op :: ops => run (step s op).1 ops

end Ccp.Edit
