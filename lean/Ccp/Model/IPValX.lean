import Ccp.Model.IPVal
/-!
# `IPv4Obj` / `IPv6Obj` at the edges of the value model — C12, C13

`Ccp.Model.IPVal` covers two non-empty objects of one family.  This file adds what the code does with
the other operands the same functions accept or reject:

* the *empty* object (`IPv4Obj()` / `IPv6Obj()`: `empty = True`, `ip_object = network_object = None`),
* an object of the other family,
* an operand that is no address object at all (a `str`),
* `collapse_addresses` on stdlib networks, on non-sequences, on items of other types, on mixed families.

The code is modelled as it is: which exception class escapes depends on where the `try` blocks sit.
-/
namespace Ccp.IPValX
open Ccp.Py Ccp.IPVal

/-- an operand of `in`, `==`, `<`, … -/
inductive Arg
  /-- a non-empty `IPv4Obj` -/
  | obj4 (x : Obj)
  /-- a non-empty `IPv6Obj` -/
  | obj6 (x : Obj)
  /-- `IPv4Obj()` -/
  | empty4
  /-- `IPv6Obj()` -/
  | empty6
  /-- a `str` (no `empty`, `network_object`, `as_decimal` … attribute) -/
  | other
  deriving DecidableEq, Repr

/-- exception classes that escape from the operators -/
inductive XErr
  | valueError
  | attributeError
  | typeError
  | assertionError
  | notImplemented
  deriving DecidableEq, Repr

/-! ### `val in self` -/

/-- `IPv4Obj.__contains__(self, val)`.
The two `empty` tests come first and are outside the `try`: a `val` without `.empty` raises
`AttributeError` (the first test short-circuits only when `self` is not empty, the second then reads
`val.empty`).  Inside the `try` every exception becomes `ValueError`: an `IPv6Obj` operand gets as far
as `val.as_decimal_broadcast`, which raises `NotImplementedError`, unless the prefix-length shortcuts or
the first conjunct (`and` short-circuits) decide before. -/
def contains4X (self : Option Obj) (val : Arg) : Except XErr Bool :=
  match self, val with
  | _, .other => .error .attributeError
  | none, .empty4 => .ok true
  | none, .empty6 => .ok true
  | none, _ => .ok false
  | some _, .empty4 => .ok false
  | some _, .empty6 => .ok false
  | some s, .obj4 v => .ok (contains4 v4 s v)
  | some s, .obj6 v =>
    if s.len = 0 then .ok true
    else if s.len > v.len then .ok false
    else if s.net ≤ v.net then .error .valueError
    else .ok false

/-- `IPv6Obj.__contains__(self, val)`: everything is inside one `try … except BaseException → ValueError`.
An empty `self` fails at `self.network_object.prefixlen`; a `/0` container answers `True` before `val`
is looked at; otherwise `val.network_object.prefixlen` fails for an empty object or a `str`, and an
`IPv4Obj` operand has no `as_decimal_network_maxint` (both comparisons are evaluated, no short-circuit). -/
def contains6X (self : Option Obj) (val : Arg) : Except XErr Bool :=
  match self with
  | none => .error .valueError
  | some s =>
    if s.len = 0 then .ok true
    else match val with
      | .obj6 v => .ok (contains6 v6 s v)
      | .obj4 v => if s.len > v.len then .ok false else .error .valueError
      | _ => .error .valueError

/-- `val in self` for any two operands; `none` when `self` is not an address object (not asked) -/
def containsX (self val : Arg) : Option (Except XErr Bool) :=
  match self with
  | .obj4 s => some (contains4X (some s) val)
  | .empty4 => some (contains4X none val)
  | .obj6 s => some (contains6X (some s) val)
  | .empty6 => some (contains6X none val)
  | .other => none

/-! ### `collapse_addresses(network_list)` -/

/-- one item of the argument -/
inductive Item
  /-- an `IPv4Obj` / `IPv6Obj` (`fam` = 4 / 6): mapped to `obj.network` -/
  | obj (fam : Nat) (x : Obj)
  /-- an `IPv4Network` / `IPv6Network`: passed through -/
  | net (fam : Nat) (n : Net)
  /-- an empty object: `arg.network` reads `None.compressed` -/
  | empty
  /-- anything else (`int`, `str`, `None`, an `IPv4Address`) -/
  | bad
  deriving DecidableEq, Repr

/-- `ip_net(arg)` of the list comprehension, with the family of the result -/
def ipNet : Item → Except XErr (Nat × Net)
  | .obj fam x => .ok (fam, network x)
  | .net fam n => .ok (fam, n)
  | .empty => .error .attributeError
  | .bad => .error .valueError

/-- `[ip_net(ii) for ii in network_list]`: the first item that raises decides -/
def ipNets : List Item → Except XErr (List (Nat × Net))
  | [] => .ok []
  | i :: is => do
    let n ← ipNet i
    let ns ← ipNets is
    .ok (n :: ns)

/-- the version check of `ipaddress.collapse_addresses`: every network is compared with the one before it -/
def sameVersion : List (Nat × Net) → Bool
  | a :: b :: rest => a.1 == b.1 && sameVersion (b :: rest)
  | _ => true

def famOfNat (n : Nat) : Fam := if n = 4 then v4 else v6

/-- `list(collapse_addresses(arg))`; `isSeq` = `isinstance(arg, Sequence)` (a `set`, a `dict`, an iterator are not) -/
def collapseX (isSeq : Bool) (items : List Item) : Except XErr (List Net) :=
  if !isSeq then .error .valueError else
  match ipNets items with
  | .error e => .error e
  | .ok ns =>
    if !sameVersion ns then .error .typeError
    else match ns with
      | [] => .ok []
      | (fam, _) :: _ => .ok (collapseNets (famOfNat fam) (ns.map (·.2)))

end Ccp.IPValX
