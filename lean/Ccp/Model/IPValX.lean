import Ccp.Model.IPVal
/-!
# `IPv4Obj` / `IPv6Obj` at the edges of the value model — C12, C13

`Ccp.Model.IPVal` covers two non-empty objects of one family.  This file adds what the code does with
the other operands the same functions accept or reject:

* the *empty* object (`IPv4Obj()` / `IPv6Obj()`: `empty = True`, `ip_object = network_object = None`),
* an object of the other family,
* an operand that is no address object at all (a `str`),
* `collapse_addresses` on stdlib networks, on non-sequences, on items of other types, on mixed families.

The code is modelled as it is: which exception class escapes depends on where the `try` blocks sit.
-/
namespace Ccp.IPValX
open Ccp.Py Ccp.IPVal

/-- an operand of `in`, `==`, `<`, … -/
inductive Arg
  /-- a non-empty `IPv4Obj` -/
  | obj4 (x : Obj)
  /-- a non-empty `IPv6Obj` -/
  | obj6 (x : Obj)
  /-- `IPv4Obj()` -/
  | empty4
  /-- `IPv6Obj()` -/
  | empty6
  /-- a `str` (no `empty`, `network_object`, `as_decimal` … attribute) -/
  | other
  deriving DecidableEq, Repr

/-- exception classes that escape from the operators -/
inductive XErr
  | valueError
  | attributeError
  | typeError
  | assertionError
  | notImplemented
  deriving DecidableEq, Repr

/-! ### `val in self` -/

/-- `IPv4Obj.__contains__(self, val)`.
The two `empty` tests come first and are outside the `try`: a `val` without `.empty` raises
`AttributeError` (the first test short-circuits only when `self` is not empty, the second then reads
`val.empty`).  Inside the `try` every exception becomes `ValueError`: an `IPv6Obj` operand gets as far
as `val.as_decimal_broadcast`, which raises `NotImplementedError`, unless the prefix-length shortcuts or
the first conjunct (`and` short-circuits) decide before. -/
def contains4X (self : Option Obj) (val : Arg) : Except XErr Bool :=
  match self, val with
  | _, .other => .error .attributeError
  | none, .empty4 => .ok true
  | none, .empty6 => .ok true
  | none, _ => .ok false
  | some _, .empty4 => .ok false
  | some _, .empty6 => .ok false
  | some s, .obj4 v => .ok (contains4 v4 s v)
  | some s, .obj6 v =>
    if s.len = 0 then .ok true
    else if s.len > v.len then .ok false
    else if s.net ≤ v.net then .error .valueError
    else .ok false

/-- `IPv6Obj.__contains__(self, val)`: everything is inside one `try … except BaseException → ValueError`.
An empty `self` fails at `self.network_object.prefixlen`; a `/0` container answers `True` before `val`
is looked at; otherwise `val.network_object.prefixlen` fails for an empty object or a `str`, and an
`IPv4Obj` operand has no `as_decimal_network_maxint` (both comparisons are evaluated, no short-circuit). -/
def contains6X (self : Option Obj) (val : Arg) : Except XErr Bool :=
  match self with
  | none => .error .valueError
  | some s =>
    if s.len = 0 then .ok true
    else match val with
      | .obj6 v => .ok (contains6 v6 s v)
      | .obj4 v => if s.len > v.len then .ok false else .error .valueError
      | _ => .error .valueError

/-- `val in self` for any two operands; `none` when `self` is not an address object (not asked) -/
def containsX (self val : Arg) : Option (Except XErr Bool) :=
  match self with
  | .obj4 s => some (contains4X (some s) val)
  | .empty4 => some (contains4X none val)
  | .obj6 s => some (contains6X (some s) val)
  | .empty6 => some (contains6X none val)
  | .other => none

/-! ### `collapse_addresses(network_list)` -/

/-- one item of the argument -/
inductive Item
  /-- an `IPv4Obj` / `IPv6Obj` (`fam` = 4 / 6): mapped to `obj.network` -/
  | obj (fam : Nat) (x : Obj)
  /-- an `IPv4Network` / `IPv6Network`: passed through -/
  | net (fam : Nat) (n : Net)
  /-- an empty object: `arg.network` reads `None.compressed` -/
  | empty
  /-- anything else (`int`, `str`, `None`, an `IPv4Address`) -/
  | bad
  deriving DecidableEq, Repr

/-- `ip_net(arg)` of the list comprehension, with the family of the result -/
def ipNet : Item → Except XErr (Nat × Net)
  | .obj fam x => .ok (fam, network x)
  | .net fam n => .ok (fam, n)
  | .empty => .error .attributeError
  | .bad => .error .valueError

/-- `[ip_net(ii) for ii in network_list]`: the first item that raises decides -/
def ipNets : List Item → Except XErr (List (Nat × Net))
  | [] => .ok []
  | i :: is => do
    let n ← ipNet i
    let ns ← ipNets is
    .ok (n :: ns)

/-- the version check of `ipaddress.collapse_addresses`: every network is compared with the one before it -/
def sameVersion : List (Nat × Net) → Bool
  | a :: b :: rest => a.1 == b.1 && sameVersion (b :: rest)
  | _ => true

def famOfNat (n : Nat) : Fam := if n = 4 then v4 else v6

/-- `list(collapse_addresses(arg))`; `isSeq` = `isinstance(arg, Sequence)` (a `set`, a `dict`, an iterator are not) -/
def collapseX (isSeq : Bool) (items : List Item) : Except XErr (List Net) :=
  if !isSeq then .error .valueError else
  match ipNets items with
  | .error e => .error e
  | .ok ns =>
    if !sameVersion ns then .error .typeError
    else match ns with
      | [] => .ok []
      | (fam, _) :: _ => .ok (collapseNets (famOfNat fam) (ns.map (·.2)))

/-! ### `<`, `>`, `==`, `!=`, `hash()`, `int()` and the length getters on any operands (C13) -/

/-- the non-empty object behind an operand -/
def objOf : Arg → Option Obj
  | .obj4 x => some x
  | .obj6 x => some x
  | _ => none

/-- `IPv4Obj.__lt__` / `IPv6Obj.__lt__` (`self` an address object, empty or not): every attribute
of both operands is read inside `try … except BaseException → ValueError`; an empty object or a `str`
has no usable `as_decimal` / `prefixlen`.  Two non-empty objects are compared numerically — also
across families. -/
def ltX (self val : Arg) : Option (Except XErr Bool) :=
  if self = .other then none else
  match objOf self, objOf val with
  | some s, some v => some (.ok (lt s v))
  | _, _ => some (.error .valueError)

/-- `__gt__`: the same guards -/
def gtX (self val : Arg) : Option (Except XErr Bool) :=
  if self = .other then none else
  match objOf self, objOf val with
  | some s, some v => some (.ok (gt s v))
  | _, _ => some (.error .valueError)

/-- `IPv4Obj.__eq__`.  With an `IPv4Obj` operand and one side empty: `self.empty == val.empty`.  An empty
`self` against anything else reads `self.as_decimal` (`int('None')` → `ValueError`, not swallowed by
`getattr(…, None)`) and the handler re-raises `AttributeError`.  A non-empty `self` answers `False` for
operands without `as_decimal` (`str`, `IPv6Obj()`), and compares address and length numerically with a
non-empty object of either family. -/
def eq4X (self : Option Obj) (val : Arg) : Except XErr Bool :=
  match self, val with
  | none, .empty4 => .ok true
  | none, .obj4 _ => .ok false
  | none, _ => .error .attributeError
  | some _, .empty4 => .ok false
  | some s, .obj4 v => .ok (eq s v)
  | some s, .obj6 v => .ok (eq s v)
  | some _, .empty6 => .ok false
  | some _, .other => .ok false

/-- `IPv6Obj.__eq__`.  An empty `self` reads `val.empty` outside the `try` (`AttributeError` for a `str`).
A non-empty `self` reads `val.as_decimal` inside `try … except BaseException → ValueError`: `IPv4Obj()`
raises `ValueError` there, `IPv6Obj()` raises `AttributeError`, which `getattr(…, None)` swallows → `False`. -/
def eq6X (self : Option Obj) (val : Arg) : Except XErr Bool :=
  match self, val with
  | none, .empty4 => .ok true
  | none, .empty6 => .ok true
  | none, .obj4 _ => .ok false
  | none, .obj6 _ => .ok false
  | none, .other => .error .attributeError
  | some _, .empty4 => .error .valueError
  | some _, .empty6 => .ok false
  | some s, .obj4 v => .ok (eq s v)
  | some s, .obj6 v => .ok (eq s v)
  | some _, .other => .ok false

def notE (r : Except XErr Bool) : Except XErr Bool :=
  match r with
  | .ok b => .ok (!b)
  | .error e => .error e

/-- `==` -/
def eqX (self val : Arg) : Option (Except XErr Bool) :=
  match self with
  | .obj4 s => some (eq4X (some s) val)
  | .empty4 => some (eq4X none val)
  | .obj6 s => some (eq6X (some s) val)
  | .empty6 => some (eq6X none val)
  | .other => none

/-- `!=`: `IPv4Obj.__ne__` is `not self.__eq__(val)` for an `IPv4Obj` operand and `True` for anything
else; `IPv6Obj.__ne__` is `not self.__eq__(val)` always (and raises what `__eq__` raises). -/
def neX (self val : Arg) : Option (Except XErr Bool) :=
  match self with
  | .obj4 _ | .empty4 =>
    (match val with
     | .obj4 _ | .empty4 => (eqX self val).map notE
     | _ => some (.ok true))
  | .obj6 _ | .empty6 => (eqX self val).map notE
  | .other => none

/-- does `hash(x)` return?  `IPv4Obj()` hashes as `None`; `IPv6Obj.__hash__` reads `self.prefixlen` -/
def hashX : Arg → Option (Except XErr Unit)
  | .obj4 _ => some (.ok ())
  | .obj6 _ => some (.ok ())
  | .empty4 => some (.ok ())
  | .empty6 => some (.error .attributeError)
  | .other => none

/-- `int(x)` / `x.__index__()`: `as_decimal`; `IPv4Obj()` raises `ValueError` (`int('None')`), `IPv6Obj()`
answers `False` (`getattr(self, "as_decimal", None)` swallows the `AttributeError`) -/
def intX : Arg → Option (Except XErr Nat)
  | .obj4 x => some (.ok x.ip)
  | .obj6 x => some (.ok x.ip)
  | .empty4 => some (.error .valueError)
  | .empty6 => some (.ok 0)
  | .other => none

/-- the four names of the prefix length -/
inductive LenName
  | prefixlen | masklen | masklength | prefixlength
  deriving DecidableEq, Repr

/-- the getter `x.<name>`; `none` is Python's `None` (`IPv4Obj().prefixlen`; `masklength` and
`prefixlength` return `self.prefixlen`, `masklen` reads `network_object` itself) -/
def getLenX (name : LenName) : Arg → Option (Except XErr (Option Nat))
  | .obj4 x => some (.ok (some x.len))
  | .obj6 x => some (.ok (some x.len))
  | .empty4 => some (if name = .masklen then .error .attributeError else .ok none)
  | .empty6 => some (.error .attributeError)
  | .other => none

/-- `x + 1` / `x - 1` on an empty object: `IPv4Obj()` fails in `as_decimal` (`ValueError`), `IPv6Obj()`
in `self.prefixlen` (`AttributeError`) -/
def arithEmpty : Arg → Option XErr
  | .empty4 => some .valueError
  | .empty6 => some .attributeError
  | _ => none

/-! ### the other spellings of the setters and the other argument types (C13) -/

/-- what a step of an operation sequence can raise -/
inductive SErr
  | base (e : IPVal.Err)
  | attributeError
  | valueError
  deriving DecidableEq, Repr

def liftE {α : Type} : Except IPVal.Err α → Except SErr α
  | .ok a => .ok a
  | .error e => .error (.base e)

/-- `x.<name> = arg` for an `int`: `masklen`, `masklength`, `prefixlength` have the same setter body as
`prefixlen` — except that `IPv6Obj.prefixlength` is a property without a setter (`AttributeError`) -/
def setLenBy (fam : Nat) (name : LenName) (x : Obj) (arg : Int) : Except SErr Obj :=
  if name = .prefixlength ∧ fam = 6 then .error .attributeError
  else liftE (setLen (famOfNat fam) x arg)

/-- `x.<name> = "<text>"`: the setter formats `f"{ip_object}/{arg}"`, so a string of ASCII digits is the
integer it spells (leading zeros allowed); any other text over digits, signs and blanks is no prefix
length and no netmask → `NetmaskValueError` (dotted netmasks are C11's business, not generated here) -/
def setLenStr (fam : Nat) (name : LenName) (x : Obj) (arg : Str) : Except SErr Obj :=
  if name = .prefixlength ∧ fam = 6 then .error .attributeError
  else if arg.all isDigit then
    match ofDigits arg with
    | some n => liftE (setLen (famOfNat fam) x n)
    | none => .error (.base .netmaskValueError)
  else .error (.base .netmaskValueError)

/-- `x.network_offset = "<text>"`: `arg = int(arg)` first (`ValueError` when it is no integer literal) -/
def setOffsetStr (fam : Nat) (x : Obj) (arg : Str) : Except SErr Obj :=
  match pyInt arg with
  | some k => liftE (setOffset (famOfNat fam) x k)
  | none => .error .valueError

/-- `x.network_offset = 1.5` (neither `int` nor `str`) -/
def setOffsetOther : Except SErr Obj := .error (.base .notImplemented)

/-- `x + "1"`, `x - 1.0`: `if not isinstance(val, int): raise ValueError` -/
def arithNonInt : Except SErr Obj := .error .valueError

end Ccp.IPValX
