import Ccp.Py.Basic
import Ccp.Gen.Tables
import Ccp.Model.Tree
/-!
Model of the input side of `CiscoConfParse.__init__` (ciscoconfparse2.py):
`read_config` (dispatch on the type of `config`), `read_config_file`
(`open(..., newline=None)` + `re.split(r"\r*\n", text)`), the type guard of
`handle_ccp_brace_syntax`, `check_ccp_input_good`, and of `save_as`.

Encodings are outside the model: a file is its *decoded* text (`Text`), the file
system is a parameter `fs : Path → Option Text` (`none` = nothing exists at that
path; directories and unreadable files are not modelled).  The newline handling of
text-mode `open()` is modelled as two pure functions: `universalNewlines`
(reading with `newline=None`) and `writeNewlines linesep` (writing with
`newline=None`: every `"\n"` becomes `os.linesep`).
-/
namespace Ccp.Py

/-- one of the 10 code points at which `str.splitlines()` breaks -/
def isBreak (c : Char) : Bool := Gen.linebreaks.contains c.toNat

/-- put a character in front of the first word (a first word is started when there is none) -/
def pushHead (c : Char) : List Str → List Str
  | [] => [[c]]
  | w :: ws => (c :: w) :: ws

/-- `str.splitlines()`: breaks at the 10 boundaries, `"\r\n"` is one break, no trailing
empty element -/
def splitlines : Str → List Str
  | [] => []
  | c :: cs =>
    if c = '\r' && cs.head? = some '\n' then splitlines cs      -- the `\n` that follows makes the break
    else if isBreak c then [] :: splitlines cs
    else pushHead c (splitlines cs)

end Ccp.Py

namespace Ccp.Input
open Ccp.Py

abbrev Text := Str
abbrev Path := Str

/-- text-mode `open(newline=None).read()`: `"\r\n"` and a lone `"\r"` become `"\n"` -/
def universalNewlines : Text → Text
  | [] => []
  | c :: cs =>
    if c = '\r' then
      if cs.head? = some '\n' then universalNewlines cs else '\n' :: universalNewlines cs
    else c :: universalNewlines cs

/-- text-mode `open(mode="w", newline=None).write(t)`: every `"\n"` becomes `os.linesep` -/
def writeNewlines (linesep : Str) : Text → Text
  | [] => []
  | c :: cs => if c = '\n' then linesep ++ writeNewlines linesep cs else c :: writeNewlines linesep cs

/-- a run of `\r` followed by `\n` starts here: `\r*\n` matches at this position -/
def sepAhead (cs : Str) : Bool := (cs.dropWhile (· == '\r')).head? == some '\n'

/-- `re.split(r"\r*\n", text)`: always at least one element, a trailing empty element is kept -/
def splitRegexCRLF : Text → List Str
  | [] => [[]]
  | c :: cs =>
    if c = '\n' then [] :: splitRegexCRLF cs
    else if c = '\r' && sepAhead cs then splitRegexCRLF cs     -- part of the separator that ends at the next `\n`
    else pushHead c (splitRegexCRLF cs)    -- (the result of the recursive call is never empty)

inductive Err
  | fileNotFound        -- FileNotFoundError
  | invalidParameters   -- ciscoconfparse2.errors.InvalidParameters
deriving Repr, DecidableEq

/-- the `config` argument of the constructor -/
inductive Input
  | none                       -- `None`
  | list (ls : List Str)
  | tuple (ls : List Str)
  | str (s : Str)
  | path (p : Path)            -- a `pathlib.Path`, given by its `str()`
deriving Repr, DecidableEq

/-- what `read_config` hands on -/
inductive Read
  | lines (ls : List Str)
  | rawStr (s : Str)           -- the `str` itself (a `str` is a `Sequence`); only reached for `""`
deriving Repr, DecidableEq

/-- the lines read from a file's decoded text -/
def fileLines (raw : Text) : List Str := splitRegexCRLF (universalNewlines raw)

/-- `read_config_file(filepath)` -/
def readConfigFile (fs : Path → Option Text) (p : Path) : Except Err (List Str) :=
  match fs p with
  | Option.none => .error .fileNotFound
  | some raw => .ok (fileLines raw)

/-- `read_config` on a `str`: the number of lines `splitlines` finds decides -/
def readStr (fs : Path → Option Text) (s : Str) : Except Err Read :=
  let n := (splitlines s).length
  if n = 1 then (readConfigFile fs s).map .lines
  else if n > 1 then .ok (.lines (splitlines s))
  else .ok (.rawStr s)

/-- `read_config(config)`.  A `pathlib.Path` is first converted with `str()` (repo commit 373e51f,
finding F91), so `.path p` carries the text `str(path)` (never empty: `str(Path(""))` is `"."`)
and is read exactly like that string. -/
def readConfig (fs : Path → Option Text) : Input → Except Err Read
  | .none => .ok (.lines [])
  | .list ls => .ok (.lines ls)
  | .tuple ls => .ok (.lines ls)
  | .path p => readStr fs p
  | .str s => readStr fs s

/-- `handle_ccp_brace_syntax` for the indentation syntaxes: only its type guard
(`isinstance(tmp_lines, (list, tuple))`) matters; `check_ccp_input_good` accepts every sequence -/
def handleBrace : Read → Except Err (List Str)
  | .lines ls => .ok ls
  | .rawStr _ => .error .invalidParameters

/-- the line list `__init__` hands to `ConfigList` -/
def initLines (fs : Path → Option Text) (i : Input) : Except Err (List Str) :=
  readConfig fs i >>= handleBrace

/-- `CiscoConfParse(config, …)` -/
def load (cfg : Tree.Cfg) (fs : Path → Option Text) (i : Input) : Except Err Tree.T :=
  (initLines fs i).map (Tree.parse cfg)

/-- `get_text()` -/
def getText (t : Tree.T) : List Str := t.texts

/-- the text `save_as` hands to `write()` -/
def saveText (ls : List Str) : Text :=
  let t := join ['\n'] ls
  if t.getLast? = some '\n' then t else t ++ ['\n']

/-- decoded content of the file written by `save_as` -/
def saveAs (linesep : Str) (ls : List Str) : Text := writeNewlines linesep (saveText ls)

def fsWrite (fs : Path → Option Text) (p : Path) (t : Text) : Path → Option Text :=
  fun q => if q = p then some t else fs q

/-- the texts of the object built from a line list -/
def texts (cfg : Tree.Cfg) (ls : List Str) : List Str := getText (Tree.parse cfg ls)

/-- one load + save cycle on the level of file contents:
`CiscoConfParse(path_of raw).save_as(other)` -/
def cycle (cfg : Tree.Cfg) (linesep : Str) (raw : Text) : Text :=
  saveAs linesep (texts cfg (fileLines raw))

def iter {α : Type} (f : α → α) : Nat → α → α
  | 0, a => a
  | n + 1, a => iter f n (f a)

end Ccp.Input
