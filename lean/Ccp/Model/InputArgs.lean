import Ccp.Model.Input
/-!
The rejection side of `CiscoConfParse.__init__` / `read_config` / `read_config_file` / `save_as`
(ciscoconfparse2.py), added to `Ccp.Model.Input` without changing it:

* arguments that are neither `None`, a `list` / `tuple` of `str`, a `str` nor a `pathlib.Path`:
  collections with items of other types, other `collections.abc.Sequence` classes (`deque`, `UserList`,
  `bytes`, `range`), sized non-sequences (`set`, `dict`), objects whose iteration raises, objects
  without `len()`;
* what sits at a path may also be a directory or a file whose bytes the chosen codec rejects;
* `save_as` to a target that cannot be opened for writing, or with text the codec cannot encode;
* `read_config_file` called on a finished object.

`loadArg` on the five old input forms over a file system of plain files *is* `Ccp.Input.load`
(`Ccp.C09.loadArg_conservative`).
-/
namespace Ccp.Input
open Ccp.Py

/-- Python exception classes of the extended model -/
inductive Exc
  | fileNotFoundError | invalidParameters | typeError | valueError | osError | unicodeDecodeError
  | requirementFailure | isADirectoryError | unicodeEncodeError
deriving Repr, DecidableEq

def Exc.ofErr : Err → Exc
  | .fileNotFound => .fileNotFoundError
  | .invalidParameters => .invalidParameters

/-- what `os.path.exists` / `os.path.isfile` / `open().read()` find at a path -/
inductive Node
  | absent                 -- nothing there
  | dir                    -- exists, `isfile` is false: `open()` raises IsADirectoryError, re-raised as OSError
  | file (t : Text)        -- a regular file with this decoded text
  | undecodable            -- a regular file whose bytes the codec rejects (UnicodeDecodeError, re-raised as it is)
  | unreadable             -- a regular file whose `open()` / `read()` raises OSError (no permission, I/O error)
deriving Repr, DecidableEq

/-- an old-style file system seen as nodes -/
def nodesOf (fs : Path → Option Text) : Path → Node :=
  fun p => match fs p with | Option.none => .absent | some t => .file t

/-- `read_config_file(filepath)` during construction -/
def readConfigFileN (fs : Path → Node) (p : Path) : Except Exc (List Str) :=
  match fs p with
  | .absent => .error .fileNotFoundError        -- `not os.path.exists(filepath)`
  | .dir => .error .osError                     -- the probing `open()` in the `isfile is False` branch
  | .undecodable => .error .unicodeDecodeError  -- `fh.read()`; the `except BaseException` clause re-raises it
  | .unreadable => .error .osError              -- `except OSError` of the reading block raises a new OSError
  | .file raw => .ok (fileLines raw)

/-- `read_config` on a `str` -/
def readStrN (fs : Path → Node) (s : Str) : Except Exc Read :=
  let n := (splitlines s).length
  if n = 1 then (readConfigFileN fs s).map .lines
  else if n > 1 then .ok (.lines (splitlines s))
  else .ok (.rawStr s)

/-- one element of a collection handed to the constructor -/
inductive Item
  | str (s : Str)          -- a `str`
  | cfgLine                -- a `BaseCfgLine` instance (passes `read_config`, refused by `ConfigList.bootstrap`)
  | other                  -- anything else: int, None, bytes, list …
deriving Repr, DecidableEq

/-- `isinstance(ii, (str, BaseCfgLine))` -/
def Item.accepted : Item → Bool
  | .other => false
  | _ => true

def Item.str? : Item → Option Str
  | .str s => some s
  | _ => Option.none

/-- the class of a sized argument -/
inductive Kind
  | list | tuple
  | seq                    -- another `collections.abc.Sequence`: deque, UserList, bytes, bytearray, range, ConfigList
  | sized                  -- has `len()`, is iterable, not a Sequence: set, frozenset, dict
deriving Repr, DecidableEq

/-- the `config` argument of the constructor, any Python object -/
inductive Arg
  | input (i : Input)                    -- the five forms of `Ccp.Input.Input`
  | coll (k : Kind) (items : List Item)  -- an iterable collection (its `len()` is the number of items)
  | noIter (len : Nat)                   -- has `len()`, iteration raises TypeError / AttributeError, not a Sequence
  | unsized                              -- `len(config)` raises TypeError: int, float, generator, object()
deriving Repr, DecidableEq

/-- the element check of `read_config`: `None` (not looked at) for an empty argument -/
def elementsHaveLen : Arg → Option Bool
  | .coll _ [] => Option.none
  | .coll _ items => some (items.all Item.accepted)
  | .noIter 0 => Option.none
  | .noIter _ => some false              -- `except AttributeError` / `except TypeError`
  | _ => Option.none

/-- what `read_config` hands on for a collection: the object itself -/
def readColl (a : Arg) : Except Exc (Kind × List Item) :=
  if elementsHaveLen a = some false then .error .invalidParameters
  else match a with
    | .coll .sized _ => .error .valueError         -- "Cannot read config from <class 'set'>"
    | .coll k items => .ok (k, items)               -- `isinstance(config, Sequence)`
    | _ => .error .valueError                       -- a sized non-sequence of length 0

/-- the rest of `__init__` for a collection: the type guard of `handle_ccp_brace_syntax`
(`isinstance(tmp_lines, (list, tuple))`), then `ConfigList.bootstrap`, which raises ValueError at
the first item that is not a `str` -/
def initColl : Kind × List Item → Except Exc (List Str)
  | (.list, items) | (.tuple, items) =>
    match items.mapM Item.str? with
    | some ls => .ok ls
    | Option.none => .error .valueError
  | _ => .error .invalidParameters

/-- the line list `__init__` hands to `ConfigList`, for any argument -/
def initLinesArg (fs : Path → Node) : Arg → Except Exc (List Str)
  | .unsized => .error .typeError
  | .input .none => .ok []
  | .input (.list ls) => .ok ls
  | .input (.tuple ls) => .ok ls
  | .input (.path p) => (readStrN fs p) >>= fun r => (handleBrace r).mapError Exc.ofErr
  | .input (.str s) => (readStrN fs s) >>= fun r => (handleBrace r).mapError Exc.ofErr
  | a => readColl a >>= initColl

/-- `CiscoConfParse(config, …)` for any argument -/
def loadArg (cfg : Tree.Cfg) (fs : Path → Node) (a : Arg) : Except Exc Tree.T :=
  (initLinesArg fs a).map (Tree.parse cfg)

/-! ### `save_as` with its failure modes -/

inductive Codec | utf8 | latin1
deriving Repr, DecidableEq

/-- can the codec encode the text?  (a Lean `Char` is never a surrogate, so UTF-8 always can) -/
def encodable : Codec → Text → Bool
  | .utf8, _ => true
  | .latin1, t => t.all (fun c => c.toNat < 256)

/-- where `save_as(filepath)` is asked to write -/
inductive Target
  | writable               -- a file can be created / truncated there
  | directory              -- the path is an existing directory: IsADirectoryError
  | noParent               -- the directory of the path does not exist: FileNotFoundError
deriving Repr, DecidableEq

/-- `save_as(filepath)`: the text that ends up in the file, or the exception that `except BaseException`
logs and re-raises.  `open()` fails before anything is encoded. -/
def saveAsTo (codec : Codec) (target : Target) (linesep : Str) (ls : List Str) : Except Exc Text :=
  match target with
  | .directory => .error .isADirectoryError
  | .noParent => .error .fileNotFoundError
  | .writable => if encodable codec (saveText ls) then .ok (saveAs linesep ls) else .error .unicodeEncodeError

/-- `read_config_file(…)` on an object whose constructor has returned (`finished_config_parse` is True) -/
def rereadFinished (_p : Path) : Except Exc (List Str) := .error .requirementFailure

end Ccp.Input
