import Ccp.Py.Basic
import Ccp.Gen.Tables
import Ccp.Model.Tree
/-!
Model of `convert_junos_to_ios()` / `BraceParse` (ciscoconfparse2.py), i.e. of what
`CiscoConfParse(..., syntax='junos')` does to its input lines before the ordinary
indentation bootstrap.  Mirrors the code after the repair F12 (strip before the
semicolon test).

`pyparsing` is modelled, not verified.  What is reproduced here (pyparsing 3.1.1):

* `parse_string` calls `str.expandtabs()` first (8-column stops, column reset on `\n` and `\r`);
* the grammar is `G = Group(Suppress("{") + ZeroOrMore(quoted_string | G | content) + Suppress("}"))`
  with `content = Combine(OneOrMore(Word(printables − "{}") | White(' ')))`;
  every alternative first skips the default white characters blank, `\n`, `\r`, `\t`;
* `quoted_string` is `Regex('"(?:[^"\n\r\\]|(?:"")|(?:\\(?:[^x]|x[0-9a-fA-F]+)))*') + '"'`
  (and the same with `'`); pyparsing does not backtrack into the `Regex`, so the greedy
  scan below decides alone where the body ends;
* `parse_string` is called without `parse_all`: text after the brace that closes the
  outermost group is ignored;
* any failure anywhere surfaces as one `ParseException`.
-/
namespace Ccp.Brace
open Ccp.Py

inductive Err | valueError | parseException
deriving Repr, DecidableEq

/-! ### `str.expandtabs(8)` -/

/-- `expandtabs` continued at column `col` -/
def expandTabsFrom : Nat → Str → Str
  | _, [] => []
  | col, c :: cs =>
    if c = '\t' then List.replicate (8 - col % 8) ' ' ++ expandTabsFrom (col + (8 - col % 8)) cs
    else if c = '\n' ∨ c = '\r' then c :: expandTabsFrom 0 cs
    else c :: expandTabsFrom (col + 1) cs

/-! ### character classes -/

/-- `pyparsing.printables`: the 94 visible ASCII characters -/
def isPrintable (c : Char) : Bool := 33 ≤ c.toNat && c.toNat ≤ 126

/-- one character of `content`: `Word(printables, exclude_chars="{}")` or `White(' ')` -/
def isRunChar (c : Char) : Bool := (isPrintable c && c != '{' && c != '}') || c == ' '

/-- `ParserElement.DEFAULT_WHITE_CHARS` -/
def isSkip (c : Char) : Bool := c == ' ' || c == '\n' || c == '\r' || c == '\t'

def isHex (c : Char) : Bool :=
  (48 ≤ c.toNat && c.toNat ≤ 57) || (65 ≤ c.toNat && c.toNat ≤ 70) || (97 ≤ c.toNat && c.toNat ≤ 102)

/-! ### `quoted_string` -/

/-- The scan of the `Regex` body after the opening quote `q`, followed by the literal
closing quote.  Returns the characters up to and including the closing quote and the rest
of the input; `none` when the greedy body is not followed by `q`.
(`\x` needs one hex digit; further hex digits are ordinary body characters, which is what
`x[0-9a-fA-F]+` followed by more iterations amounts to.) -/
def quotedBody (q : Char) : Str → Option (Str × Str)
  | [] => none
  | c :: cs =>
    if c = q then
      match cs with
      | c2 :: cs2 =>
        if c2 = q then (quotedBody q cs2).map (fun br => (c :: c2 :: br.1, br.2))
        else some ([c], cs)
      | [] => some ([c], [])
    else if c = '\n' ∨ c = '\r' then none
    else if c = '\\' then
      match cs with
      | [] => none
      | c2 :: cs2 =>
        if c2 = 'x' then
          match cs2 with
          | h :: cs3 =>
            if isHex h then (quotedBody q cs3).map (fun br => (c :: c2 :: h :: br.1, br.2))
            else none
          | [] => none
        else (quotedBody q cs2).map (fun br => (c :: c2 :: br.1, br.2))
    else (quotedBody q cs).map (fun br => (c :: br.1, br.2))

/-! ### one step of `ZeroOrMore(quoted_string | G | content)` followed by `"}"` -/

inductive Lex
  | bad                       -- no alternative matches and no closing brace: ParseException
  | close (rest : Str)        -- the closing brace of the current group
  | opn (rest : Str)          -- a nested group starts
  | text (tok : Str) (rest : Str)
deriving Repr, DecidableEq

/-- at the first non-white character -/
def lexHead : Str → Lex
  | [] => .bad
  | c :: cs =>
    match (if c = '"' ∨ c = '\'' then quotedBody c cs else none) with
    | some br => .text (c :: br.1) br.2
    | none =>
      if c = '{' then .opn cs
      else if c = '}' then .close cs
      else if isRunChar c then .text ((c :: cs).takeWhile isRunChar) ((c :: cs).dropWhile isRunChar)
      else .bad

def nextTok (s : Str) : Lex := lexHead (s.dropWhile isSkip)

/-- the nested list that `parse_string(...).as_list()` returns -/
inductive Item
  | tok (s : Str)
  | grp (items : List Item)
deriving Repr

/-- The items of one group up to and including its closing brace; returns them with the
remaining input.  Every call consumes at least one character, so `fuel > s.length` is
never exhausted (`Ccp.Brace.parseItems_fuel` in `Proofs/Brace.lean`). -/
def parseItems : Nat → Str → Except Err (List Item × Str)
  | 0, _ => .error .parseException
  | fuel + 1, s =>
    match nextTok s with
    | .bad => .error .parseException
    | .close r => .ok ([], r)
    | .text t r =>
      match parseItems fuel r with
      | .ok (items, r') => .ok (.tok t :: items, r')
      | .error e => .error e
    | .opn r =>
      match parseItems fuel r with
      | .ok (g, r1) =>
        match parseItems fuel r1 with
        | .ok (items, r2) => .ok (.grp g :: items, r2)
        | .error e => .error e
      | .error e => .error e

/-! ### `unpack_nested_list_to_config_objs` -/

/-- `elem.strip()`, drop one trailing `;`, `.strip()` again.  (`elem[-1]` cannot raise:
a token starts with a visible character.) -/
def cleanTok (t : Str) : Str :=
  let e := strip t
  let e := if e.getLast? = some ';' then e.dropLast else e
  strip e

mutual
/-- `depth` = number of enclosing groups below the outermost one -/
def unpackItem (stop depth : Nat) : Item → List Str
  | .tok t => [List.replicate (depth * stop) ' ' ++ cleanTok t]
  | .grp items => unpackList stop (depth + 1) items
def unpackList (stop depth : Nat) : List Item → List Str
  | [] => []
  | x :: xs => unpackItem stop depth x ++ unpackList stop depth xs
end

/-- `BraceParse(config_txt, stop_width=stop).get_junoscfgline_list()` as texts -/
def braceText (stop : Nat) (txt : Str) : Except Err (List Str) :=
  match txt with
  | '{' :: _ => .error .valueError
  | '}' :: _ => .error .valueError
  | _ =>
    -- ("{" + txt + "}").expandtabs(); the opening brace occupies column 0
    let s := expandTabsFrom 1 (txt ++ ['}'])
    match parseItems (s.length + 1) s with
    | .ok (items, _) => .ok (unpackList stop 0 items)
    | .error e => .error e

/-- `convert_junos_to_ios(lines, stop_width=stop)` -/
def convertJunosToIos (stop : Nat) (lines : List Str) : Except Err (List Str) :=
  if lines = [] then .error .valueError else braceText stop (join ['\n'] lines)

/-- what `CiscoConfParse(lines, syntax='junos')` hands to the bootstrap -/
def junosToIos (lines : List Str) : Except Err (List Str) :=
  convertJunosToIos Gen.junosStopWidth lines

end Ccp.Brace

/-! ### the indentation-parent rule, stated locally

"The parent of a line is the nearest preceding line with strictly smaller indentation; a
line without such a predecessor is a root."  (The shared tree model of C02 is connected to
this by the coordinator.) -/
namespace Ccp.Brace
open Ccp.Py

/-- index of the last element of the list that is `< x` -/
def lastSmaller (x : Nat) : List Nat → Option Nat
  | [] => none
  | d :: ds =>
    match lastSmaller x ds with
    | some j => some (j + 1)
    | none => if d < x then some 0 else none

/-- `pre` = indentations of the lines already seen -/
def parentsFrom (pre : List Nat) : List Nat → List (Option Nat)
  | [] => []
  | d :: ds => lastSmaller d pre :: parentsFrom (pre ++ [d]) ds

def indentParents (lines : List Str) : List (Option Nat) := parentsFrom [] (lines.map indent)

/-! ### the whole brace-syntax parse, on the shared tree model -/

/-- the options `CiscoConfParse(lines, syntax='junos')` bootstraps with
(`get_syntax_comment_delimiters('junos')`, `ignore_blank_lines=False`) -/
def junosCfg : Tree.Cfg := { ios := false, delims := ['#'], ignoreBlank := false }

/-- `CiscoConfParse(lines, syntax='junos')`: convert, then `ConfigList.bootstrap` on the
converted lines.  For a brace syntax the bootstrap is pass 1 only (`if syntax not in
ALL_BRACE_SYNTAX:` guards the banner and macro passes); `commit()` re-bootstraps from the
same texts and gets the same tree. -/
def junosParse (lines : List Str) : Except Err Tree.T :=
  match junosToIos lines with
  | .ok out => .ok { texts := out, parents := Tree.linkByIndent junosCfg out, keep := out.map (fun _ => false) }
  | .error e => .error e

end Ccp.Brace
