import Ccp.Py.Basic
import Ccp.Gen.Tables
/-!
Model of `CiscoPassword` (ciscoconfparse2.py): `pwd_check`, `encrypt_type_7`
(passlib `cisco_type7`), `decrypt_type_7`, `encrypt_type_5/8/9`.

* Type 7 is modelled completely.  The *encoder* is the reference algorithm
  (salt as two decimal digits, then upper-case hex of `byte xor key[(salt+i) mod 53]`)
  over the well-known key string written out here (`xlatRef`); the *decoder* is
  the library's own walk over the table generated from its source (`Gen.xlatImpl`,
  `Gen.xlatModulus`).
* Types 5/8/9: the key derivation (MD5-crypt, PBKDF2-HMAC-SHA256, scrypt) is an
  opaque function parameter; what is modelled is the call (generated numerals),
  the base64 → Cisco alphabet translation, the dropped padding and the `$k$salt$hash`
  layout.  The random salt is a parameter too.
-/
namespace Ccp.Pwd
open Ccp.Py

inductive Err | invalidPassword | attributeError | valueError | overflowError | indexError
deriving Repr, DecidableEq

abbrev Bytes := List Nat

/-! ### pwd_check -/

/-- `char in invalid_chars` -/
def isInvalidChar (c : Char) : Bool := Gen.pwdInvalidChars.contains c.toNat

/-- `pwd_check`: raises `InvalidPassword` for more than 127 characters or for a character of
`invalid_chars` (the raw string `r"?\""`, which holds `?`, a backslash and `"`).  The code has no lower
length bound today (`pwdMinLen` is generated as 0); the test is kept so that the model follows the
source if one is added. -/
def pwdCheck (p : Str) : Except Err Unit :=
  if p.length > Gen.pwdMaxLen || p.length < Gen.pwdMinLen then .error .invalidPassword
  else if p.any isInvalidChar then .error .invalidPassword
  else .ok ()

/-! ### `str.encode()` (UTF-8) -/

def utf8 (c : Char) : Bytes :=
  let n := c.toNat
  if n < 0x80 then [n]
  else if n < 0x800 then [0xC0 + n / 64, 0x80 + n % 64]
  else if n < 0x10000 then [0xE0 + n / 4096, 0x80 + n / 64 % 64, 0x80 + n % 64]
  else [0xF0 + n / 262144, 0x80 + n / 4096 % 64, 0x80 + n / 64 % 64, 0x80 + n % 64]

def encodeUtf8 (s : Str) : Bytes := s.flatMap utf8

/-! ### type 7, reference encoder (what passlib's `cisco_type7` computes) -/

/-- the well-known type-7 key, written out independently of the library's table -/
def xlatRef : List Nat :=
  "dsfd;kfoA,.iyewrkldJKDHSUBsgvca69834ncxv9873254k;fg87".toList.map Char.toNat

/-- `ord(key[i % len(key)])` -/
def keyRef (i : Nat) : Nat := xlatRef.getD (i % xlatRef.length) 0

def hexDigitU (n : Nat) : Char :=
  if n < 10 then Char.ofNat (48 + n) else Char.ofNat (55 + n)

/-- `"%02X" % b` for a byte -/
def hex2 (b : Nat) : Str := [hexDigitU (b / 16 % 16), hexDigitU (b % 16)]

/-- `"%02d" % n` -/
def dec2 (n : Nat) : Str :=
  if n < 100 then [Nat.digitChar (n / 10), Nat.digitChar (n % 10)] else toDec n

/-- `hexlify(xor(data, key shifted by salt)).upper()` -/
def xorBody : Nat → Bytes → Str
  | _, [] => []
  | s, b :: bs => hex2 (b ^^^ keyRef s) ++ xorBody (s + 1) bs

/-- reference type-7 encoding of a byte string with a given salt (offset into the key) -/
def encrypt7 (salt : Nat) (p : Bytes) : Str := dec2 salt ++ xorBody salt p

/-- `CiscoPassword.encrypt_type_7(pwd)`; `salt` is what passlib's `randint(0, 15)` returned -/
def encryptType7 (salt : Nat) (pwd : Str) : Except Err Str :=
  match pwdCheck pwd with
  | .error e => .error e
  | .ok () => .ok (encrypt7 salt (encodeUtf8 pwd))

/-! ### type 7, the library's decoder -/

/-- `.` of a Python regex without DOTALL -/
def notNl (c : Char) : Bool := c != '\n'

/-- `re.compile("^(..)(.+)").search(ep)`: groups 1 and 2, `none` when there is no match -/
def splitHead : Str → Option (Str × Str)
  | a :: b :: rest =>
    if notNl a && notNl b then
      let e := rest.takeWhile notNl
      if e.isEmpty then none else some ([a, b], e)
    else none
  | _ => none

def digitValB (base : Nat) (c : Char) : Option Nat :=
  let n := c.toNat
  let v := if 48 ≤ n && n ≤ 57 then n - 48
           else if 97 ≤ n && n ≤ 122 then n - 87
           else if 65 ≤ n && n ≤ 90 then n - 55
           else 99
  if v < base then some v else none

def ofDigitsB (base : Nat) : List Char → Nat → Option Nat
  | [], acc => some acc
  | c :: cs, acc =>
    match digitValB base c with
    | some v => ofDigitsB base cs (acc * base + v)
    | none => none

/-- Python `int(s, base)` on the inputs that reach it here (two-character strings): surrounding
whitespace, an optional sign, digits of the base.  A two-character string is too short for a
`0x` prefix with a digit or for a digit-separating underscore, so for ASCII this is exact. -/
def pyIntB (base : Nat) (s : Str) : Option Int :=
  let digits (ds : Str) : Option Nat := if ds.isEmpty then none else ofDigitsB base ds 0
  match strip s with
  | '-' :: ds => (digits ds).map (fun n => - (Int.ofNat n))
  | '+' :: ds => (digits ds).map Int.ofNat
  | ds => (digits ds).map Int.ofNat

/-- the `for ii in range(0, len(e), 2)` loop.  `e` is group 2 of `(.+)` and therefore free of
newlines, so `re.search(".{ii}(..)", e)` is the pair at offset `ii` (no match, i.e. `None.group` →
`AttributeError`, when a single character is left); the loop walks the pairs left to right and
the first failing pair raises.  `s` is the running key index (an `int`, possibly negative). -/
def decPairs : Int → Str → Except Err Str
  | _, [] => .ok []
  | _, [_] => .error .attributeError
  | s, a :: b :: rest =>
    match pyIntB 16 [a, b] with
    | none => .error .valueError                                   -- int(.., 16)
    | some m =>
      match Gen.xlatImpl[(s % (Gen.xlatModulus : Int)).toNat]? with
      | none => .error .indexError                                 -- xlat[int(s % 53)]
      | some k =>
        if m < 0 then .error .overflowError                        -- "%c" % negative
        else
          match decPairs (s + 1) rest with
          | .ok r => .ok (Char.ofNat (m.toNat ^^^ k) :: r)
          | .error err => .error err

/-- `decrypt_type_7` after `ep = ep or self.ep` -/
def decrypt7 (ep : Str) : Except Err Str :=
  if ep.length % 2 = 1 then .ok []                                 -- `if not (len(ep) & 1)`
  else
    match splitHead ep with
    | none => .error .attributeError                               -- `None.group`
    | some (g1, e) =>
      match pyInt g1 with
      | none => .ok []                                             -- ValueError → (0, "") → no iteration
      | some s => decPairs s e

/-- `CiscoPassword(selfEp).decrypt_type_7(ep)`: `ep or self.ep` -/
def decryptType7 (selfEp ep : Str) : Except Err Str := decrypt7 (if ep.isEmpty then selfEp else ep)

/-! ### base64 and the Cisco alphabet -/

/-- RFC 4648 alphabet used by `base64.b64encode` (Python standard library, not in /repo) -/
def b64Rfc : List Nat :=
  "ABCDEFGHIJKLMNOPQRSTUVWXYZabcdefghijklmnopqrstuvwxyz0123456789+/".toList.map Char.toNat

/-- the alphabet Cisco IOS uses in type 8/9 (and crypt(3) in `$1$`) hashes, written out independently -/
def ciscoRef : List Nat :=
  "./0123456789ABCDEFGHIJKLMNOPQRSTUVWXYZabcdefghijklmnopqrstuvwxyz".toList.map Char.toNat

def b64Char (i : Nat) : Char := Char.ofNat (b64Rfc.getD (i % 64) 0)

/-- `base64.b64encode(raw).decode()` -/
def b64Encode : Bytes → Str
  | [] => []
  | [a] => [b64Char (a / 4), b64Char (a % 4 * 16), '=', '=']
  | [a, b] => [b64Char (a / 4), b64Char (a % 4 * 16 + b / 16), b64Char (b % 16 * 4), '=']
  | a :: b :: c :: rest =>
    b64Char (a / 4) :: b64Char (a % 4 * 16 + b / 16) :: b64Char (b % 16 * 4 + c / 64) :: b64Char (c % 64)
      :: b64Encode rest

/-- `str.maketrans(std_b64chars, cisco_b64chars)` applied to one character: a dict built from
the zipped pairs (a later pair wins), characters without an entry are kept -/
def translate (c : Char) : Char :=
  (Gen.stdB64.zip Gen.ciscoB64).foldl (fun acc p => if p.1 = c.toNat then Char.ofNat p.2 else acc) c

/-- `base64.b64encode(_hash).decode().translate(b64table)[:-1]` -/
def ciscoHash (raw : Bytes) : Str := ((b64Encode raw).map translate).dropLast

/-- `f"${k}${salt}${hash}"` -/
def fmt (k salt hash : Str) : Str := '$' :: k ++ '$' :: salt ++ '$' :: hash

/-! ### types 8, 9, 5 -/

/-- `hashlib.pbkdf2_hmac(name, password, salt, rounds, dklen)` -/
abbrev Pbkdf2 := String → Bytes → Bytes → Nat → Nat → Bytes
/-- `scrypt.hash(password, salt, N, r, p, buflen)` -/
abbrev Scrypt := Bytes → Bytes → Nat → Nat → Nat → Nat → Bytes
/-- passlib `md5_crypt` checksum of (password bytes, salt string) -/
abbrev Md5Crypt := Bytes → Str → Str

/-- `encrypt_type_8(pwd)`; `salt` is the string drawn by the fourteen `random.choice` calls -/
def encryptType8 (kdf : Pbkdf2) (salt pwd : Str) : Except Err Str :=
  match pwdCheck pwd with
  | .error e => .error e
  | .ok () =>
    .ok (fmt ['8'] salt (ciscoHash
      (kdf Gen.type8Algo (encodeUtf8 pwd) (encodeUtf8 salt) Gen.type8Rounds Gen.type8Dklen)))

/-- `encrypt_type_9(pwd)` -/
def encryptType9 (kdf : Scrypt) (salt pwd : Str) : Except Err Str :=
  match pwdCheck pwd with
  | .error e => .error e
  | .ok () =>
    .ok (fmt ['9'] salt (ciscoHash
      (kdf (encodeUtf8 pwd) (encodeUtf8 salt) Gen.type9N Gen.type9r Gen.type9p Gen.type9Buflen)))

/-- `encrypt_type_5(pwd)` = `md5_crypt.using(salt_size=4).hash(pwd)`; passlib refuses a NUL in
the secret (`ValueError`) -/
def encryptType5 (kdf : Md5Crypt) (salt pwd : Str) : Except Err Str :=
  match pwdCheck pwd with
  | .error e => .error e
  | .ok () =>
    if pwd.contains (Char.ofNat 0) then .error .valueError
    else .ok (fmt ['1'] salt (kdf (encodeUtf8 pwd) salt))

/-- the characters `random.choice(self.cisco_b64chars)` can return -/
def isCiscoChar (c : Char) : Bool := Gen.ciscoB64.contains c.toNat

/-- a salt as the fourteen-step loop builds it -/
def ValidSalt (n : Nat) (salt : Str) : Prop := salt.length = n ∧ ∀ c ∈ salt, isCiscoChar c = true

/-- the only exception `decrypt_type_8` / `decrypt_type_9` know -/
inductive NoDecrypt | notImplementedError
deriving Repr, DecidableEq

/-- `decrypt_type_8(pwd)`: a type 8 hash is one-way; the method raises `NotImplementedError` whatever it is given -/
def decryptType8 (_pwd : Str) : Except NoDecrypt Str := .error .notImplementedError

/-- `decrypt_type_9(pwd)`: likewise -/
def decryptType9 (_pwd : Str) : Except NoDecrypt Str := .error .notImplementedError

end Ccp.Pwd
