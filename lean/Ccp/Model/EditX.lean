import Ccp.Model.Edit
/-!
Extension of the edit state machine `Ccp.Model.Edit` (C07) by the parts of the editing /
search API the first alphabet leaves out:

* `ConfigList.remove(obj)` — remove the object and all its descendants (on a state without
  uncommitted change it is `obj.delete()`);
* `obj.delete()` on an object that is no longer in the list — `ConfigListItemDoesNotExist`;
* every guarded search API as its own probe kind (`find_objects`, `find_object_branches`,
  `find_parent_objects`, `find_parent_objects_wo_child`, `find_child_objects`,
  `CiscoConfParse.re_search_children` / `re_match_iter_typed`, and on a line object
  `all_parents`, `lineage`, `geneology`, `re_match`, `re_search`, `re_search_children`,
  `re_match_typed`, `re_match_iter_typed`, `re_list_iter_typed`): each one starts with the
  same `search_safe` guard, so each one is the base model's `probe`;
* list-level `insert_before/after` whose payload is a line object instead of a string (the
  other operations treat a line-object payload exactly like its text);
* calls with a malformed argument, which raise before anything is changed:
  `insert(<not an int>, …)` → `ValueError`, `insert(k, <neither str nor line object>)` →
  `TypeError`, `insert_before/after(regex, <neither str nor line object>)` → `ValueError`,
  `remove(<not a line object>)` → `InvalidParameters`.

The base alphabet is embedded unchanged (`Op.base`), so every theorem about `Edit.step`
carries over.
-/
namespace Ccp.EditX
open Ccp.Py Ccp.Tree Ccp.Edit

/-- the guarded search entry points (ciscoconfparse2.py / ccp_abc.py) -/
inductive Search
  | findObjects | findObjectBranches | findParentObjects | findParentObjectsWoChild | findChildObjects
  | ccpReSearchChildren | ccpReMatchIterTyped
  | allParents | lineage | geneology | reMatch | reSearch | reSearchChildren
  | reMatchTyped | reMatchIterTyped | reListIterTyped
deriving Repr, DecidableEq

inductive Err
  | base (e : Edit.Err)
  | typeError
deriving Repr, DecidableEq

inductive Op
  | base (op : Edit.Op)
  /-- `ConfigList.remove(obj)`; like `delete` only modelled on a state without uncommitted change -/
  | remove (h : Nat)
  /-- `obj.delete()`, also when the object is no longer in the list -/
  | deleteAny (h : Nat)
  | search (k : Search)
  /-- list-level `insert_before/after(regex, <line object>)`: the text of the object is inserted; the
  blank-payload check under `ignore_blank_lines` only looks at `str` payloads, so it does not apply -/
  | listInsObj (after emptyRx : Bool) (row : List Bool) (txt : Str)
  | insertBadIndex (txt : Str)
  | insertBadValue (k : Int)
  | listInsBadValue (after : Bool)
  | removeBadValue
deriving Repr

def liftRes (r : S × Except Edit.Err Unit) : S × Except Err Unit :=
  (r.1, match r.2 with | .ok u => .ok u | .error e => .error (.base e))

def step (s : S) : Op → S × Except Err Unit
  | .base op => liftRes (Edit.step s op)
  | .remove h => liftRes (Edit.step s (.delete h))
  | .deleteAny h =>
    if h ≥ s.tree.size then (s, .error (.base .dirtyHandle))      -- no such object of the last commit
    else
      match posOf s.items h with
      | none => (s, .error (.base .doesNotExist))
      | some _ => liftRes (Edit.step s (.delete h))
  -- every entry point starts with the same `search_safe` guard.  (Before the repair `fix:
  -- CiscoConfParse.re_match_iter_typed() refuses to search an uncommitted config` that method had none and
  -- answered in every state: finding FC07a.)
  | .search _ => liftRes (Edit.step s .probe)
  | .listInsObj after emptyRx row txt =>
    if emptyRx then (s, .error (.base .valueError))
    else (autoCommit { s with items := insertAtMatches after (fresh txt) s.items row, dirty := true }, .ok ())
  | .insertBadIndex _ => (s, .error (.base .valueError))
  | .insertBadValue _ => (s, .error .typeError)
  | .listInsBadValue _ => (s, .error (.base .valueError))
  | .removeBadValue => (s, .error (.base .invalidParameters))

def run (s : S) : List Op → S
  | [] => s
  | op :: ops => run (step s op).1 ops

end Ccp.EditX
