import Ccp.Py.Basic
/-!
Model of `ConfigList.bootstrap` (ciscoconfparse2.py) for the indentation syntaxes
(ios, nxos, iosxr, asa) and of the family views of `BaseCfgLine` (ccp_abc.py).

A parsed config is represented by its line texts, one parent index per line
(`parents[i] = i` for a root) and the `blank_line_keep` flags; child lists are
*derived* (`children t p` = the lines whose parent is `p`, ascending).  That the
implementation's stored child lists coincide with the derived ones is checked by
the correspondence (and is the content of property C03).
-/
namespace Ccp.Tree
open Ccp.Py

structure Cfg where
  /-- `syntax == "ios"` (the only syntax with `macro name` handling) -/
  ios : Bool
  /-- comment delimiters (each one character wide) -/
  delims : List Char
  ignoreBlank : Bool
deriving Repr, DecidableEq

/-- `BaseCfgLine.is_comment` -/
def isComment (cfg : Cfg) (t : Str) : Bool :=
  match lstrip t with
  | c :: _ => cfg.delims.contains c
  | [] => false

/-- `BaseCfgLine.is_config_line` -/
def isConfigLine (cfg : Cfg) (t : Str) : Bool :=
  !(lstrip t).isEmpty && !isComment cfg t

structure Info where
  indent : Nat
  isCfg : Bool
  isCmt : Bool
deriving Repr, DecidableEq

def info (cfg : Cfg) (t : Str) : Info :=
  { indent := indent t, isCfg := isConfigLine cfg t, isCmt := isComment cfg t }

/-! ## pass 1: parent links by indentation, with the parent cache -/

abbrev Cache := List (Nat × Nat)

def lookup : Cache → Nat → Option Nat
  | [], _ => none
  | (k', p) :: r, k => if k' = k then some p else lookup r k

/-- walk backwards for the nearest config line with indent `< k`; `revPre` = processed
lines, newest first, with their indices -/
def walkBack : List (Nat × Info) → Nat → Option Nat
  | [], _ => none
  | (i, l) :: rest, k => if l.indent < k && l.isCfg then some i else walkBack rest k

/-- `_maintain_bootstrap_parent_cache` -/
def maintain (cache : Cache) (mx : Nat) (l : Info) : Cache × Option Nat :=
  if l.isCfg && l.indent < mx then (cache.filter (fun kp => kp.1 < l.indent), none)
  else (cache, lookup cache l.indent)

/-- `_build_bootstrap_parent_child`: the parent it settles on (before the comment
exception of `_add_child_to_parent`) and the cache -/
def build (revPre : List (Nat × Info)) (cp : Cache × Option Nat) (l : Info) : Cache × Option Nat :=
  if l.indent = 0 then (cp.1, none) else
  match cp.2 with
  | some p => (cp.1, some p)
  | none =>
    match walkBack revPre l.indent with
    | some p => ((l.indent, p) :: cp.1, some p)
    | none => (cp.1, none)

def newMax (mx : Nat) (l : Info) : Nat :=
  if l.indent = 0 && l.isCfg then 0 else max mx l.indent

structure St where
  cache : Cache
  mx : Nat
  revPre : List (Nat × Info)

def St.init : St := { cache := [], mx := 0, revPre := [] }

/-- `_add_child_to_parent`: a comment is left unattached when the line directly
above it is indented deeper -/
def attach (revPre : List (Nat × Info)) (i : Nat) (l : Info) (cand : Option Nat) : Nat :=
  match cand with
  | none => i
  | some p =>
    match revPre with
    | (_, prev) :: _ => if l.isCmt && prev.indent > l.indent then i else p
    | [] => p

/-- one iteration of the bootstrap loop: new state and the parent index of line `i` -/
def step (st : St) (i : Nat) (l : Info) : St × Nat :=
  let r := build st.revPre (maintain st.cache st.mx l) l
  ({ cache := r.1, mx := newMax st.mx l, revPre := (i, l) :: st.revPre },
   attach st.revPre i l r.2)

def linkLoop : St → Nat → List Info → List Nat
  | _, _, [] => []
  | st, i, l :: ls => let r := step st i l; r.2 :: linkLoop r.1 (i + 1) ls

/-- parent index of every line after pass 1 -/
def linkByIndent (cfg : Cfg) (ls : List Str) : List Nat :=
  linkLoop St.init 0 (ls.map (info cfg))

/-! ## pass 2: banners -/

/-- code points < 256 matched by `\w` are generated in `Gen.wordLatin1`; the
generators emit no other word characters (see the evidence `rule`). -/
def isWord (c : Char) : Bool := Gen.wordLatin1.contains c.toNat

def startsWith (p : Str) (s : Str) : Bool := p.isPrefixOf s

/-- skip `(set\s+)*` : while the text starts with `set` followed by whitespace -/
def skipSets : Nat → Str → Str
  | 0, s => s
  | fuel + 1, s =>
    match s with
    | 's' :: 'e' :: 't' :: c :: rest =>
      if isSpace c then skipSets fuel (rest.dropWhile isSpace) else s
    | _ => s

def bannerKeywords : List Str :=
  ["login".toList, "motd".toList, "incoming".toList, "exec".toList, "telnet".toList, "lcd".toList]

def isInfixOf (p : Str) : Str → Bool
  | [] => p.isEmpty
  | c :: cs => p.isPrefixOf (c :: cs) || isInfixOf p cs

/-- `_build_banner_re_ios().search(text)` -/
def isBannerStart (t : Str) : Bool :=
  (match skipSets t.length t with
   | 'b' :: 'a' :: 'n' :: 'n' :: 'e' :: 'r' :: c :: rest =>
     isSpace c && bannerKeywords.any (fun k => k.isPrefixOf (rest.dropWhile isSpace))
   | _ => false)
  || isInfixOf "aaa authentication fail-message".toList t

/-- group `bchar` of `^(?:((?:set\s+)*banner\s\w+\s+)(\S))` -/
def bannerDelim (t : Str) : Option Char :=
  match skipSets t.length t with
  | 'b' :: 'a' :: 'n' :: 'n' :: 'e' :: 'r' :: c :: rest =>
    if isSpace c then
      let w := rest.takeWhile isWord
      let r1 := rest.dropWhile isWord
      if w.isEmpty then none else
      match r1 with
      | s :: _ =>
        if isSpace s then
          match r1.dropWhile isSpace with
          | d :: _ => some d
          | [] => none
        else none
      | [] => none
    else none
  | _ => none

structure T where
  texts : List Str
  parents : List Nat
  keep : List Bool
deriving Repr, DecidableEq

def T.size (t : T) : Nat := t.texts.length

/-- `_reparent_child` (child lists are derived, so only the parent changes) -/
def reparent (t : T) (p c : Nat) : T := { t with parents := t.parents.set c p }

def setKeep (t : T) (i : Nat) : T := { t with keep := t.keep.set i true }

/-- the forward walk of `_banner_mark_regex` over the lines after the banner start -/
def bannerWalk (delim : Char) (p : Nat) : Nat → List Str → T → T
  | _, [], t => t
  | idx, txt :: rest, t =>
    if (strip txt).contains delim then reparent t p idx
    else bannerWalk delim p (idx + 1) rest (setKeep (reparent t p idx) idx)

def countChar (c : Char) (s : Str) : Nat := (s.filter (· == c)).length

def markBanner (t : T) (p : Nat) (txt : Str) : T :=
  let t := setKeep t p
  match bannerDelim txt with
  | none => t
  | some d =>
    if countChar d txt ≥ 2 then t      -- `len(text.split(delim)) > 2`: begins and ends on one line
    else bannerWalk d p (p + 1) (t.texts.drop (p + 1)) t

def markBannersFrom : Nat → List Str → T → T
  | _, [], t => t
  | i, txt :: rest, t =>
    markBannersFrom (i + 1) rest (if isBannerStart txt then markBanner t i txt else t)

def markBanners (t : T) : T := markBannersFrom 0 t.texts t

/-! ## pass 3: IOS macros -/

def isMacroStart (txt : Str) : Bool := txt.take 11 == "macro name ".toList

def macroWalk (p : Nat) : Nat → List Str → T → T
  | _, [], t => t
  | idx, txt :: rest, t =>
    let t := reparent (setKeep t idx) p idx
    if rstrip txt == ['@'] then t else macroWalk p (idx + 1) rest t

def markMacrosFrom : Nat → List Str → T → T
  | _, [], t => t
  | i, txt :: rest, t =>
    markMacrosFrom (i + 1) rest
      (if isMacroStart txt then macroWalk i (i + 1) (t.texts.drop (i + 1)) (setKeep t i) else t)

def markMacros (cfg : Cfg) (t : T) : T := if cfg.ios then markMacrosFrom 0 t.texts t else t

/-! ## pass 4 and the whole bootstrap -/

/-- passes 1–3 -/
def link (cfg : Cfg) (ls : List Str) : T :=
  markMacros cfg (markBanners
    { texts := ls, parents := linkByIndent cfg ls, keep := ls.map (fun _ => false) })

def keptTexts (t : T) : List Str :=
  (t.texts.zip t.keep).filterMap (fun tk => if !(strip tk.1).isEmpty || tk.2 then some tk.1 else none)

/-- `ConfigList.bootstrap(text_list)`; with `ignore_blank_lines` it starts over on the
kept lines whenever the filter dropped one (the list gets strictly shorter) -/
def bootstrapFuel (cfg : Cfg) : Nat → List Str → T
  | 0, ls => link cfg ls
  | fuel + 1, ls =>
    let t := link cfg ls
    if cfg.ignoreBlank then
      let kept := keptTexts t
      if kept.length != ls.length then bootstrapFuel cfg fuel kept else t
    else t

def bootstrap (cfg : Cfg) (ls : List Str) : T := bootstrapFuel cfg ls.length ls

/-- `CiscoConfParse(ls, …)`: `ConfigList.__init__` bootstraps, then `commit()` bootstraps
again from the resulting texts -/
def parse (cfg : Cfg) (ls : List Str) : T := bootstrap cfg (bootstrap cfg ls).texts

/-! ## family views -/

def parentOf (t : T) (i : Nat) : Nat := t.parents.getD i i

/-- `obj.children` (derived): lines whose parent is `p`, ascending -/
def children (t : T) (p : Nat) : List Nat :=
  (List.range t.size).filter (fun j => j != p && parentOf t j == p)

def insertAsc (x : Nat) : List Nat → List Nat
  | [] => [x]
  | y :: ys => if x < y then x :: y :: ys else if x = y then y :: ys else y :: insertAsc x ys

def sortDedup (l : List Nat) : List Nat := l.foldr insertAsc []

def insertKeep (x : Nat) : List Nat → List Nat
  | [] => [x]
  | y :: ys => if x ≤ y then x :: y :: ys else y :: insertKeep x ys

/-- `sorted(l)` (duplicates kept) -/
def sortKeep (l : List Nat) : List Nat := l.foldr insertKeep []

/-- `all_children`: children and, recursively, theirs; `sorted` -/
def allChildrenFuel (t : T) : Nat → Nat → List Nat
  | 0, _ => []
  | fuel + 1, i => (children t i).flatMap (fun c => c :: allChildrenFuel t fuel c)

def allChildren (t : T) (i : Nat) : List Nat := sortKeep (allChildrenFuel t t.size i)

/-- `all_parents`: follow `parent` until a root; `sorted(set(...))` -/
def allParentsFuel (t : T) : Nat → Nat → List Nat
  | 0, _ => []
  | fuel + 1, i => let p := parentOf t i; if p = i then [] else p :: allParentsFuel t fuel p

def allParents (t : T) (i : Nat) : List Nat := sortDedup (allParentsFuel t t.size i)

def lineage (t : T) (i : Nat) : List Nat :=
  sortKeep (allParents t i ++ [i] ++ (if (children t i).isEmpty then [] else allChildren t i))

def geneology (t : T) (i : Nat) : List Nat := allParents t i ++ [i]

def familyEndpoint (t : T) (i : Nat) : Nat := ((allChildren t i).getLast?).getD i

def indentOf (t : T) (i : Nat) : Nat := indent (t.texts.getD i [])

def siblings (t : T) (i : Nat) : List Nat :=
  (children t (parentOf t i)).filter (fun j => indentOf t j == indentOf t i)

def isParent (t : T) (i : Nat) : Bool := !(children t i).isEmpty
def isChild (t : T) (i : Nat) : Bool := parentOf t i != i

end Ccp.Tree
