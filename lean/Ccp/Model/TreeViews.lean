import Ccp.Model.Tree
/-!
Two more family views of `BaseCfgLine` (ccp_abc.py) that the property C03 names and the
first model file does not carry, and the family views of a brace-syntax (junos) parse.

* `geneology_text` — `[ii.text for ii in self.geneology]`
* `has_children`   — `isinstance(self.children, list) and len(self.children) > 0`
  (`is_parent` is `bool(self.has_children)`)
-/
namespace Ccp.Tree
open Ccp.Py

/-- `obj.text` of line `i` -/
def textOf (t : T) (i : Nat) : Str := t.texts.getD i []

/-- `geneology_text` -/
def geneologyText (t : T) (i : Nat) : List Str := (geneology t i).map (textOf t)

/-- `has_children` -/
def hasChildren (t : T) (i : Nat) : Bool := decide ((children t i).length > 0)

end Ccp.Tree
