import Ccp.Py.Basic
/-!
Model of `CiscoRange(text, result_type=int)` (ccp_util.py): `parse_integers`,
the read accessors, `append`, `remove`, `as_compressed_str`.
Mirrors the code after the repairs F19 (sorted data) and F20 (`as_set()`).
-/
namespace Ccp.Range
open Ccp.Py

inductive Err | invalidRange | valueError | duplicate | absent
deriving Repr, DecidableEq

/-- `int(s)` for a value that cannot carry a minus sign here (a part containing
`-` is split on it), so the result is a natural number. -/
def pyNat (s : Str) : Option Nat :=
  match pyInt s with
  | some (.ofNat n) => some n
  | _ => none

/-- one comma-separated part: `begin` and optional `end` -/
def parsePart (part : Str) : Except Err (Nat × Option Nat) :=
  if part.contains '-' then
    match splitOn '-' part with
    | [a, b] =>
      match pyNat (strip a), pyNat (strip b) with
      | some lo, some _ =>
        -- end_ordinal = int("".join(filter(str.isdigit, b.strip())))
        match ofDigits ((strip b).filter isDigit) with
        | some hi => .ok (lo, some hi)
        | none => .error .valueError
      | _, _ => .error .valueError
    | _ => .error .invalidRange
  else
    match pyNat part with
    | some n => .ok (n, none)
    | none => .error .valueError

/-- `range(lo, hi + 1)` -/
def upto (lo hi : Nat) : List Nat := (List.range (hi + 1 - lo)).map (· + lo)

def expandPart : Nat × Option Nat → List Nat
  | (lo, none) => [lo]
  | (lo, some hi) => upto lo hi

/-- insert into an ascending duplicate-free list, keeping it so -/
def insertAsc (x : Nat) : List Nat → List Nat
  | [] => [x]
  | y :: ys => if x < y then x :: y :: ys else if x = y then y :: ys else y :: insertAsc x ys

/-- `sorted(set(l))` -/
def sortedSet (l : List Nat) : List Nat := l.foldr insertAsc []

def hasDoubleComma : Str → Bool
  | ',' :: ',' :: _ => true
  | _ :: cs => hasDoubleComma cs
  | [] => false

def parseParts (text : Str) : Except Err (List (Nat × Option Nat)) :=
  (splitOn ',' text).mapM parsePart

/-- `CiscoRange(text, result_type=int).data` -/
def parse (text : Str) : Except Err (List Nat) :=
  if text = [] then .ok [] else
  if hasDoubleComma text then .error .invalidRange else
  match parseParts text with
  | .ok ps => .ok (sortedSet (ps.flatMap expandPart))
  | .error e => .error e

/-! ### compressed string -/

inductive Tok | num (n : Nat) | dash
deriving Repr, DecidableEq

/-- the index loop of `as_compressed_str` over `input_str[ii-1], input_str[ii], input_str[ii+1]`;
`prev` is `input_str[ii-1]`, the list starts at `input_str[ii]`, `acc` is `range_list` reversed -/
def windowLoop : Nat → List Nat → List Tok → List Tok
  | prev, x :: y :: rest, acc =>
    let acc' := if x - prev = 1 ∧ prev < x ∧ y - x = 1 ∧ x < y then
                  (if acc.head? = some Tok.dash then acc else Tok.dash :: acc)
                else Tok.num x :: acc
    windowLoop x (y :: rest) acc'
  | _, _, acc => acc

def compressToks (s : List Nat) : List Tok :=
  match s with
  | [] => []
  | [a] => [Tok.num a]
  | a :: b :: rest =>
    let body := windowLoop a (b :: rest) [Tok.num a]
    (Tok.num ((b :: rest).getLast?.getD b) :: body).reverse

def renderTok : Tok → Str
  | .num n => toDec n
  | .dash => ['-']

def sameKind : Tok → Tok → Bool
  | .num _, .num _ => true
  | .dash, .dash => true
  | _, _ => false

def renderFrom : Tok → List Tok → Str
  | _, [] => []
  | prev, t :: ts => (if sameKind prev t then ',' :: renderTok t else renderTok t) ++ renderFrom t ts

def renderToks : List Tok → Str
  | [] => []
  | t :: ts => renderTok t ++ renderFrom t ts

def compress (data : List Nat) : Str := renderToks (compressToks (sortedSet data))

/-! ### accessors and mutators on `data` -/

def append (data : List Nat) (v : Nat) : Except Err (List Nat) :=
  if data.contains v then .error .duplicate else .ok (sortedSet (data ++ [v]))

def remove (data : List Nat) (v : Nat) : Except Err (List Nat) :=
  if data.contains v then .ok (data.filter (· != v)) else .error .absent

/-! ### one call on a range object

The operations the check drives (`harness/props/c14.py`): the read accessors `len()`,
iteration, `as_list()`, `as_set()`, `as_compressed_str()`, re-expansion of the compressed
string, `in`; and the mutators `append`, `remove`.  `stepOp` gives the state after the call
and what the call answered. -/

inductive Op
  | len | iter | list | set | cstr | rexp
  | has (k : Nat) | app (k : Nat) | rem (k : Nat)
deriving Repr, DecidableEq

/-- the read accessors: everything except `append` / `remove` -/
def Op.isRead : Op → Bool
  | .app _ => false
  | .rem _ => false
  | _ => true

inductive Ans
  | nat (n : Nat) | nats (l : List Nat) | str (s : Str) | bool (b : Bool) | ok | err (e : Err)
deriving Repr, DecidableEq

def stepOp (data : List Nat) : Op → List Nat × Ans
  | .len => (data, .nat data.length)
  | .iter => (data, .nats data)
  | .list => (data, .nats (sortedSet data))
  | .set => (data, .nats (sortedSet data))
  | .cstr => (data, .str (compress data))
  | .rexp => (data, match parse (compress data) with
      | .ok d => .nats d
      | .error e => .err e)
  | .has k => (data, .bool (data.contains k))
  | .app k => (match append data k with
      | .ok d => (d, .ok)
      | .error e => (data, .err e))
  | .rem k => (match remove data k with
      | .ok d => (d, .ok)
      | .error e => (data, .err e))

end Ccp.Range
