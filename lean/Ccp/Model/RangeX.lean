import Ccp.Model.Range
/-!
Options of `CiscoRange` on an integer range (ccp_util.py), on top of `Ccp.Model.Range`:

* constructor: `result_type` (int / float / not one of the valid types) and `reverse`;
* `as_list(result_type=…)` / `as_set(result_type=…)` for every rung of the `if/elif` ladder
  (`"auto"`, `None`, an interface *instance*, `str`, `int`, `float`, anything else);
* `append(val, sort=…, ignore_errors=…)` for an `int`, a decimal `str` and a non-numeric `str`;
* `remove(arg, ignore_errors=…)` for an `int`, a decimal `str` and `None`;
* `insert` (always `NotImplementedError`).

The code is mirrored as it is: `append` sorts with `sorted(new_list)` (duplicates survive),
so (before fix aef5a7a) `append(v, ignore_errors=True)` of a member left the member twice in `data`; the repaired code returns at once.
-/
namespace Ccp.RangeX
open Ccp.Py Ccp.Range

inductive XErr
  | base (e : Err)
  | notImplemented      -- NotImplementedError (parse_floats, insert)
  | mismatched          -- MismatchedType
  | invalidInterface    -- InvalidCiscoInterface (as_set(result_type=None) on integers)
  | typeError           -- TypeError (as_set(result_type=<interface instance>))
  | indexError          -- IndexError (obj[k] beyond the end)
deriving Repr, DecidableEq

/-- `result_type=` of the constructor -/
inductive CTy | int | float | bad
deriving Repr, DecidableEq

structure St where
  data : List Nat
  rev : Bool
deriving Repr, DecidableEq

/-- `CiscoRange(text, result_type=rt, reverse=rev)`: `""` builds the empty range before
anything is parsed, `",,"` is refused first, then an invalid `result_type`, then the text goes
to `parse_integers` / `parse_floats` (which is not implemented). -/
def construct (rt : CTy) (rev : Bool) (text : Str) : Except XErr St :=
  if text = [] then
    (if rt = .bad then .error (.base .invalidRange) else .ok ⟨[], rev⟩)
  else if hasDoubleComma text then .error (.base .invalidRange)
  else match rt with
    | .bad => .error (.base .invalidRange)
    | .float => .error .notImplemented
    | .int =>
      match parse text with
      | .ok d => .ok ⟨d, rev⟩
      | .error e => .error (.base e)

/-- `sorted(l)`: duplicates are kept -/
def insertDup (x : Nat) : List Nat → List Nat
  | [] => [x]
  | y :: ys => if x ≤ y then x :: y :: ys else y :: insertDup x ys

def sortDup (l : List Nat) : List Nat := l.foldr insertDup []

/-- `result_type=` of `as_list` / `as_set` -/
inductive Ty | auto | none | inst | str | int | float | bad
deriving Repr, DecidableEq

/-- the Python type of the members of a returned container (`e`: nothing to look at) -/
inductive ElTy | e | i | s | f
deriving Repr, DecidableEq

/-- a returned container: is it a `list` (else a `set`), the member type, the members (a set
is listed ascending) -/
structure View where
  isList : Bool
  ty : ElTy
  items : List Nat
deriving Repr, DecidableEq

def elTy (t : ElTy) (l : List Nat) : ElTy := if l = [] then .e else t

/-- `sorted(set(self.data), reverse=self.reverse)` -/
def ordered (s : St) : List Nat := if s.rev then (sortedSet s.data).reverse else sortedSet s.data

/-- `as_list(result_type=t)` -/
def asList (s : St) (t : Ty) : Except XErr View :=
  let r := ordered s
  match t with
  | .auto => if s.data = [] then .ok ⟨false, .e, []⟩ else .ok ⟨true, .i, r⟩
  | .none => if r = [] then .ok ⟨true, .e, []⟩ else .error (.base .valueError)
  | .inst => if r = [] then .ok ⟨true, .e, []⟩ else .error (.base .valueError)
  | .str => .ok ⟨true, elTy .s r, r⟩
  | .int => .ok ⟨true, elTy .i r, r⟩
  | .float => .ok ⟨true, elTy .f r, r⟩
  | .bad => .error (.base .valueError)

/-- `as_set(result_type=t)` -/
def asSet (s : St) (t : Ty) : Except XErr View :=
  let r := sortedSet s.data
  match t with
  | .auto => if s.data = [] then .ok ⟨true, .e, []⟩ else .ok ⟨false, .i, r⟩
  | .none => if r = [] then .ok ⟨false, .e, []⟩ else .error .invalidInterface
  | .inst => if r = [] then .ok ⟨false, .e, []⟩ else .error .typeError
  | .str => .ok ⟨false, elTy .s r, r⟩
  | .int => .ok ⟨false, elTy .i r, r⟩
  | .float => .ok ⟨false, elTy .f r, r⟩
  | .bad => .error (.base .valueError)

/-- the value handed to `append` / `remove` -/
inductive Val
  | int (n : Nat)       -- `n`
  | strOf (n : Nat)     -- `str(n)`
  | junk                -- `"abc"` for append, `None` for remove
deriving Repr, DecidableEq

def Val.isInt : Val → Bool
  | .int _ => true
  | _ => false

/-- `val in self.data` (a `str` or `None` never equals an `int`) -/
def Val.isIn (v : Val) (d : List Nat) : Bool :=
  match v with
  | .int n => d.contains n
  | _ => false

/-- `append(val, sort=sort, ignore_errors=ign)` -/
def appendX (d : List Nat) (v : Val) (sort ign : Bool) : Except XErr (List Nat) :=
  if d ≠ [] ∧ v.isInt = false ∧ ign = false then .error .mismatched
  else if v.isIn d = true ∧ ign = false then .error (.base .duplicate)
  else match v with
    | .junk => .ok d          -- int("abc") raises inside the try: logged, skipped
    -- a value that is a member already (only reachable with ignore_errors: the duplicate check above raised otherwise)
    -- is not added again (`if new_list[-1] in self.data: return self`, fix aef5a7a)
    | .int n => .ok (if d.contains n then d else if sort then sortDup (d ++ [n]) else d ++ [n])
    | .strOf n => .ok (if d.contains n then d else if sort then sortDup (d ++ [n]) else d ++ [n])

/-- `remove(arg, ignore_errors=ign)`; `absent` stands for the exception family of a failed
removal (MismatchedType, UnboundLocalError, ValueError by path) -/
def removeX (d : List Nat) (v : Val) (ign : Bool) : Except XErr (List Nat) :=
  if v.isIn d = false ∧ ign = true then .ok d
  else if d = [] then .error (.base .absent)
  else match v with
    | .junk => .error (.base .absent)
    | .int n =>
      let new := d.filter (· != n)
      if new.length < d.length then .ok new else .error (.base .absent)
    | .strOf n =>
      let new := d.filter (· != n)
      if new.length < d.length then .ok new else .error (.base .absent)

inductive OpX
  | old (o : Op)                              -- len / iter / cstr / rexp / has, and plain list / set / app / rem
  | list (t : Ty) | set (t : Ty)
  | app (v : Val) (sort ign : Bool)
  | rem (v : Val) (ign : Bool)
  | ins (k : Nat)
deriving Repr, DecidableEq

inductive AnsX
  | old (a : Ans) | view (v : View) | ok | err (e : XErr)
deriving Repr, DecidableEq

/-- the accessors: everything except `append` / `remove` -/
def OpX.isRead : OpX → Bool
  | .old o => o.isRead
  | .app _ _ _ => false
  | .rem _ _ => false
  | _ => true

def stepX (s : St) : OpX → St × AnsX
  | .old .list => (s, match asList s .auto with | .ok v => .view v | .error e => .err e)
  | .old .set => (s, match asSet s .auto with | .ok v => .view v | .error e => .err e)
  | .old (.app k) => (match appendX s.data (.int k) true false with
      | .ok d => (⟨d, s.rev⟩, .ok)
      | .error e => (s, .err e))
  | .old (.rem k) => (match removeX s.data (.int k) false with
      | .ok d => (⟨d, s.rev⟩, .ok)
      | .error e => (s, .err e))
  | .old o => let r := stepOp s.data o; (⟨r.1, s.rev⟩, .old r.2)
  | .list t => (s, match asList s t with | .ok v => .view v | .error e => .err e)
  | .set t => (s, match asSet s t with | .ok v => .view v | .error e => .err e)
  | .app v sort ign => (match appendX s.data v sort ign with
      | .ok d => (⟨d, s.rev⟩, .ok)
      | .error e => (s, .err e))
  | .rem v ign => (match removeX s.data v ign with
      | .ok d => (⟨d, s.rev⟩, .ok)
      | .error e => (s, .err e))
  | .ins _ => (s, .err .notImplemented)

/-! ### further readers: `str()`, `repr()`, `obj[k]`, `==` against a freshly parsed range, `obj.data`

They are functions of the state alone (no new state is returned: reading cannot change it). -/

inductive ReadOp
  | str | repr | idx (k : Nat) | eqFresh | data
deriving Repr, DecidableEq

/-- `"[" + ", ".join(str(ii) for ii in self.data) + "]"` -/
def strOf (d : List Nat) : Str := '[' :: join ", ".toList (d.map toDec) ++ [']']

def tyName : CTy → Str
  | .int => "<class 'int'>".toList
  | .float => "<class 'float'>".toList
  | .bad => "<class 'bool'>".toList

/-- `repr(obj)`: the members and their type, or the constructor's `result_type` when empty -/
def reprOf (rt : CTy) (d : List Nat) : Str :=
  if d = [] then "<CiscoRange [] result_type: ".toList ++ tyName rt ++ ['>']
  else "<CiscoRange ".toList ++ strOf d ++ " members: <class 'int'>>".toList

/-- `fresh` is the data of `CiscoRange(text, result_type=…)` built again from the same text -/
def readX (rt : CTy) (fresh : List Nat) (s : St) : ReadOp → AnsX
  | .str => .old (.str (strOf s.data))
  | .repr => .old (.str (reprOf rt s.data))
  | .idx k => (match s.data[k]? with
      | some v => .old (.nat v)
      | none => .err .indexError)
  | .eqFresh => .old (.bool (s.data == fresh))
  | .data => .old (.nats s.data)

end Ccp.RangeX
