import Ccp.Py.Basic
import Ccp.Gen.Tables
/-!
The argument checks of `config_line_factory(all_lines, line, index, comment_delimiters, syntax, debug)`
(ciscoconfparse2.py) in front of the class walk — what a direct caller can get wrong.  Python values enter by
the observations the checks make (`isinstance`, `is None`, membership in `ALL_VALID_SYNTAX`).  Which class is
picked for an accepted call is outside this model (`Ccp.Model.IosModels` covers the IOS interface / route lines).
-/
namespace Ccp.Factory
open Ccp.Py

inductive Err | notImplementedError | invalidParameters | valueError
deriving Repr, DecidableEq

structure Args where
  /-- `isinstance(all_lines, list)` -/
  allLinesIsList : Bool
  /-- `isinstance(line, str)` -/
  lineIsStr : Bool
  /-- `comment_delimiters`: `none` = None (the default); `some b` = given, `b` = `isinstance(…, list)` -/
  delims : Option Bool
  /-- `syntax`: `none` = not a `str` (and then equal to no member of `ALL_VALID_SYNTAX`) -/
  syn : Option Str
  /-- `isinstance(debug, int)` -/
  debugIsInt : Bool
deriving Repr, DecidableEq

/-- `syntax in ALL_VALID_SYNTAX` -/
def validSyntax (s : Option Str) : Bool :=
  match s with
  | some t => Gen.allValidSyntax.contains (String.ofList t)
  | none => false

/-- the checks in source order; `none` = the class walk is reached -/
def argCheck (a : Args) : Option Err :=
  if a.delims.isNone && !validSyntax a.syn then some .notImplementedError   -- "Invalid syntax" while looking up the default delimiters
  else if !a.allLinesIsList then some .invalidParameters
  else if !a.lineIsStr then some .invalidParameters
  else if a.delims == some false then some .invalidParameters
  else if a.syn.isNone then some .invalidParameters
  else if !a.debugIsInt then some .invalidParameters
  else if !validSyntax a.syn then some .valueError
  else none

end Ccp.Factory
