import Ccp.Py.Basic
/-!
Model of `ciscoconfparse2.Diff` (ciscoconfparse2.py) and of the part of the third-party
package `hier_config` 2.2.3 that it drives, **restricted to the plain fragment**:

* `Diff.__init__`  : input normalisation (`None`, `str`, file path, `list`/`tuple`), the
  `syntax` check, `Host.load_running_config(old)`, `Host.load_generated_config(new)`;
* `HConfig._load_from_string_lines` : `splitlines`, whitespace normalisation of a line,
  hier_config's own indentation rule (walk up while `this_indent <= real_indent_level`),
  `add_child` returning the existing child for a duplicate sibling (= sections are merged);
* `HConfigBase._config_to_get_to` : `_config_to_get_to_left` (negate what is missing in the
  target) followed by `_config_to_get_to_right` (recurse into a shared child, deep copy of an
  absent one, drop an empty subtree);
* `all_children_sorted` + `cisco_style_text` : pre-order, two blanks per level.  Every
  `order_weight` is 500 in the fragment and Python's `sorted` is stable, so the order is the
  order of `children`.

What the fragment leaves out (the harness derives the exclusion list from the installed
hier_config's `options_for(os)` at run time): `banner ` blocks, lines changed by a
`per_line_sub` rule, lineages named by an `idempotent_commands`, `ordering`,
`sectional_exiting`, `sectional_overwrite*`, `negation_*`, `parent_allows_duplicate_child`
or `indent_adjust` rule, the ios-only ACL renumbering, and lines that start with the negation
prefix `no ` or with `default `.  hier_config is *modelled, not verified*.
-/
namespace Ccp.Diff
open Ccp.Py

/-! ### Python primitives used by the loader -/

/-- `str.splitlines()` boundary -/
def isBreak (c : Char) : Bool := Gen.linebreaks.contains c.toNat

/-- `str.splitlines()`: break at every boundary, `\r\n` counts once, no empty last item.
`cur` is the current line, reversed. -/
def splitlinesAux : Str → Str → List Str
  | [], cur => if cur = [] then [] else [cur.reverse]
  | '\r' :: '\n' :: rest, cur => cur.reverse :: splitlinesAux rest []
  | c :: rest, cur =>
    if isBreak c then cur.reverse :: splitlinesAux rest []
    else splitlinesAux rest (c :: cur)

def splitlines (s : Str) : List Str := splitlinesAux s []

/-- `str.split()` (no argument): maximal runs of non-whitespace -/
def wordsAux : Str → Str → List Str
  | [], cur => if cur = [] then [] else [cur.reverse]
  | c :: rest, cur =>
    if isSpace c then
      (if cur = [] then wordsAux rest [] else cur.reverse :: wordsAux rest [])
    else wordsAux rest (c :: cur)

def words (s : Str) : List Str := wordsAux s []

/-! ### The configuration tree (`HConfig` / `HConfigChild`) -/

inductive Tree where
  | node (text : Str) (children : List Tree)
deriving Repr

abbrev Forest := List Tree

def Tree.text : Tree → Str
  | .node t _ => t

def Tree.children : Tree → Forest
  | .node _ cs => cs

/-- keys of `children_dict` -/
def texts (f : Forest) : List Str := f.map Tree.text

/-- `children_dict.get(t)` : the children of the first child whose text is `t` -/
def lookup (t : Str) : Forest → Option Forest
  | [] => none
  | .node u cs :: rest => if u = t then some cs else lookup t rest

/-- `add_child(t)` followed by `g` on the returned child: an existing child with that text
is returned (no duplicate sibling), otherwise a new last child is created. -/
def upd (t : Str) (g : Forest → Forest) : Forest → Forest
  | [] => [.node t (g [])]
  | .node u cs :: rest => if u = t then .node u (g cs) :: rest else .node u cs :: upd t g rest

/-- `add_children_deep(path)` -/
def insertPath : List Str → Forest → Forest
  | [], f => f
  | t :: q, f => upd t (insertPath q) f

/-! ### `_load_from_string_lines` -/

/-- the text of a line after `" " * actual_indent + " ".join(line.split())`, `rstrip`,
`lstrip`: `none` for a line without a word (skipped), else indentation and text -/
def normLine (line : Str) : Option (Nat × Str) :=
  match words line with
  | [] => none
  | ws => some (indent line, join [' '] ws)

/-- the chain `current_section … most_recent_item` as (real_indent_level, text), innermost
first.  A new line at indentation `i` walks up past every section with level `≥ i`. -/
def step (st : List (Nat × Str)) (i : Nat) (t : Str) : List (Nat × Str) :=
  (i, t) :: st.dropWhile (fun p => i ≤ p.1)

/-- the hierarchical path (ancestor texts, then its own) of every line -/
def linePaths : List (Nat × Str) → List (Nat × Str) → List (List Str)
  | _, [] => []
  | st, (i, t) :: rest =>
    let st' := step st i t
    (st'.reverse.map (·.2)) :: linePaths st' rest

def loadLines (lines : List Str) : Forest :=
  (linePaths [] (lines.filterMap normLine)).foldl (fun f p => insertPath p f) []

/-- `HConfig.load_from_string` -/
def loadTree (text : Str) : Forest := loadLines (splitlines text)

/-! ### `_config_to_get_to` -/

def negPrefix : Str := ['n', 'o', ' ']

/-- `_swap_negation` with the default negation prefix `"no "` -/
def negate (t : Str) : Str :=
  if negPrefix.isPrefixOf t then t.drop 3 else negPrefix ++ t

/-- `_config_to_get_to_left`: a child of `self` whose text is not a key of `target` is added
to the delta without its children and negated -/
def diffLeft (self target : Forest) : Forest :=
  (self.filter (fun c => !(texts target).contains c.text)).map (fun c => .node (negate c.text) [])

mutual
/-- `_config_to_get_to_right`, one target child: recurse if `self` has it (the subtree is
deleted again when it stays empty), otherwise deep copy -/
def diffT (self : Forest) : Tree → Forest
  | .node t tcs =>
    match lookup t self with
    | some scs =>
      let sub := diffLeft scs tcs ++ diffF scs tcs
      if sub.isEmpty then [] else [.node t sub]
    | none => [.node t tcs]
/-- `_config_to_get_to_right` -/
def diffF (self : Forest) : Forest → Forest
  | [] => []
  | tc :: rest => diffT self tc ++ diffF self rest
end

/-- `self.config_to_get_to(target)` -/
def diff (self target : Forest) : Forest := diffLeft self target ++ diffF self target

/-! ### `all_children_sorted` + `cisco_style_text` -/

mutual
def renderT (d : Nat) : Tree → List Str
  | .node t cs => (List.replicate (2 * d) ' ' ++ t) :: renderF (d + 1) cs
def renderF (d : Nat) : Forest → List Str
  | [] => []
  | x :: r => renderT d x ++ renderF d r
end

def render (f : Forest) : List Str := renderF 0 f

/-! ### `Diff.__init__`, `get_diff`, `get_rollback` -/

inductive Err | valueError | notImplemented
deriving Repr, DecidableEq

/-- what the caller passes as `old_config` / `new_config` -/
inductive Input where
  | none
  | str (s : Str)
  | list (l : List Str)
  | tuple (l : List Str)
  | other                      -- any other type
deriving Repr

/-- `os.linesep` (POSIX) -/
def linesep : Str := ['\n']

/-- Input normalisation.  `fs p` is what the file system holds at path `p`
(`os.path.isfile(p)` and `open(p).read()`), `none` when there is no such file. -/
def normalise (fs : Str → Option Str) : Input → Except Err Str
  | .none => .ok []
  | .str s =>
    if (splitlines s).length = 1 then
      match fs s with
      | some content => .ok content
      | none => .ok s
    else .ok s
  | .list l => .ok (join linesep l)
  | .tuple l => .ok (join linesep l)
  | .other => .error .valueError

def syntaxes : List Str :=
  ["ios".toList, "nxos".toList, "iosxr".toList, "asa".toList, "junos".toList]

/-- the two loaded configurations: (running, generated) -/
def init (fs : Str → Option Str) (old new : Input) (syn : Str) : Except Err (Forest × Forest) := do
  let o ← normalise fs old
  let n ← normalise fs new
  if syntaxes.contains syn then pure (loadTree o, loadTree n) else .error .notImplemented

/-- `Diff(old, new).get_diff()` for already loaded configurations -/
def getDiff (cfg : Forest × Forest) : List Str := render (diff cfg.1 cfg.2)

/-- `Diff(old, new).get_rollback()` : `generated_config.config_to_get_to(running_config)` -/
def getRollback (cfg : Forest × Forest) : List Str := render (diff cfg.2 cfg.1)

/-! ### Specification vocabulary (short; read this against properties.jsonl)

A configuration denotes the set of its *hierarchical lines*: every line together with the
texts of its ancestors (`paths`).  A diff is a list of commands, each again a hierarchical
line (`paths` of the delta tree, in output order).  A command whose last text starts with
`no ` removes the line it names together with everything below it; any other command adds
its line under its ancestor path. -/

abbrev Path := List Str

mutual
def pathsT : Tree → List Path
  | .node t cs => [t] :: (pathsF cs).map (t :: ·)
/-- all hierarchical lines of a configuration, in pre-order -/
def pathsF : Forest → List Path
  | [] => []
  | x :: r => pathsT x ++ pathsF r
end

abbrev paths (f : Forest) : List Path := pathsF f

/-- the command is a removal: its own (last) text starts with `no ` -/
def isRem (c : Path) : Bool :=
  match c.getLast? with
  | some t => negPrefix.isPrefixOf t
  | none => false

/-- the hierarchical line a removal names: same ancestors, text without `no ` -/
def target (c : Path) : Path :=
  match c.getLast? with
  | some t => c.dropLast ++ [t.drop 3]
  | none => []

/-- one command applied to a set of hierarchical lines -/
def applyCmd (s : List Path) (c : Path) : List Path :=
  if isRem c then s.filter (fun p => !(target c).isPrefixOf p) else s ++ [c]

/-- the commands applied in output order -/
def apply (cmds : List Path) (s : List Path) : List Path := cmds.foldl applyCmd s

mutual
def DistinctT : Tree → Prop
  | .node _ cs => DistinctF cs
/-- siblings have pairwise different texts, at every level (what the loader guarantees) -/
def DistinctF : Forest → Prop
  | [] => True
  | x :: r => x.text ∉ texts r ∧ DistinctT x ∧ DistinctF r
end

abbrev Distinct (f : Forest) : Prop := DistinctF f

/-- no line of the configuration starts with the negation prefix `no ` -/
def Plain (f : Forest) : Prop := ∀ p ∈ paths f, isRem p = false

/-- the text is one the loader stores: at least one word, words separated by one blank, no
surrounding whitespace -/
def NormalText (t : Str) : Prop := normLine t = some (0, t)

end Ccp.Diff
