import Ccp.Py.Basic
import Ccp.Gen.Tables
/-!
Model of `IPv4Obj` / `IPv6Obj` (ccp_util.py): the text, integer and copy
constructors and the derived values, computed the way the code computes them.

Three layers, kept apart on purpose:

* **stdlib** – the part of `ipaddress` (CPython 3.12) that the classes call:
  `IPv4Address(str)`, `IPv4Network(str, strict)`, `IPv6Address(str)`,
  `IPv6Network(str, strict)`, `str()`/`.exploded`/`.compressed`, netmask /
  hostmask / broadcast.  Re-implemented here following the stdlib source line by
  line; *modelled, not verified* – agreement with the real module is measured on
  every run (three-way correspondence).
* **regex** – the two address regexes of ccp_util.py as hand-written token
  automata (`matchV4`, `matchV6`), validated against Python's `re`.
* **ccp** – `__init__` (group fix-ups, whitespace handling, length guard, integer
  and copy constructors) and the properties (`as_decimal*`, `numhosts`,
  `as_cidr_*`, zero-padded / hex / binary renderings).

An object is what the instance stores: the integer of `ip_object`, and the
network address and prefix length of `network_object`.
-/
namespace Ccp.IPText
open Ccp.Py

inductive Err
  | addressValueError | netmaskValueError | requirementFailure | notImplementedError | valueError
deriving Repr, DecidableEq

structure Obj where
  ip : Nat
  net : Nat
  len : Nat
deriving Repr, DecidableEq

/-! ## small Python primitives used only here -/

def isHexDigit (c : Char) : Bool :=
  isDigit c || (97 ≤ c.toNat && c.toNat ≤ 102) || (65 ≤ c.toNat && c.toNat ≤ 70)

def hexVal (c : Char) : Nat :=
  if isDigit c then c.toNat - 48 else if 97 ≤ c.toNat then c.toNat - 87 else c.toNat - 55

def ofHexAux : Str → Nat → Option Nat
  | [], acc => some acc
  | c :: cs, acc => if isHexDigit c then ofHexAux cs (acc * 16 + hexVal c) else none

/-- `int(s, 16)` on a non-empty run of ASCII hex digits (CPython also accepts a
sign, blanks, `0x` and `_`; none of those reaches this call) -/
def ofHex (s : Str) : Option Nat := if s = [] then none else ofHexAux s 0

def toHexRev (n : Nat) : List Char :=
  if h : n < 16 then [Nat.digitChar n] else Nat.digitChar (n % 16) :: toHexRev (n / 16)
decreasing_by omega

/-- `'%x' % n` -/
def toHex (n : Nat) : Str := (toHexRev n).reverse

def toBinRev (n : Nat) : List Char :=
  if h : n < 2 then [Nat.digitChar n] else Nat.digitChar (n % 2) :: toBinRev (n / 2)
decreasing_by omega

/-- `'%b' % n` -/
def toBin (n : Nat) : Str := (toBinRev n).reverse

/-- `s.rjust(k, c)` / the `0k` format width -/
def padLeft (k : Nat) (c : Char) (s : Str) : Str := List.replicate (k - s.length) c ++ s

/-- `int(s)` where the result is known to be non-negative -/
def pyNat (s : Str) : Option Nat :=
  match pyInt s with
  | some (.ofNat n) => some n
  | _ => none

/-- `sum(f(num) * base**idx for idx, num in enumerate(nums))`, `idx` starting at `i` -/
def sumPow (base : Nat) (f : Str → Option Nat) : Nat → List Str → Option Nat
  | _, [] => some 0
  | i, w :: ws =>
    match f w, sumPow base f (i + 1) ws with
    | some v, some r => some (v * base ^ i + r)
    | _, _ => none

/-- `re.split(r"\s+", s)`; the flag says that the previous character was white space -/
def splitWsAux : Bool → Str → List Str
  | _, [] => [[]]
  | prevSp, c :: cs =>
    if isSpace c then
      if prevSp then splitWsAux true cs else [] :: splitWsAux true cs
    else
      match splitWsAux false cs with
      | w :: ws => (c :: w) :: ws
      | [] => [[c]]

def splitWs (s : Str) : List Str := splitWsAux false s

/-! ## stdlib `ipaddress` -/

def allOnes (w : Nat) : Nat := 2 ^ w - 1

/-- `_ip_int_from_prefix`: `ALL_ONES ^ (ALL_ONES >> prefixlen)` -/
def ipIntFromPrefix (w len : Nat) : Nat := allOnes w ^^^ (allOnes w >>> len)

/-- `hostmask`: `int(netmask) ^ ALL_ONES` -/
def hostmaskInt (w len : Nat) : Nat := ipIntFromPrefix w len ^^^ allOnes w

/-- `_count_righthand_zero_bits(n, bits)` (`bits` is also the fuel) -/
def ctz : Nat → Nat → Nat
  | 0, _ => 0
  | b + 1, n => if n % 2 = 0 then ctz b (n / 2) + 1 else 0

/-- `_prefix_from_ip_int`; `none` = ValueError (zeroes and ones mixed) -/
def prefixFromIpInt (w ip : Nat) : Option Nat :=
  let tz := ctz w ip
  let plen := w - tz
  if ip >>> tz = 2 ^ plen - 1 then some plen else none

/-- `_prefix_from_prefix_string`; `none` = NetmaskValueError -/
def prefixFromPrefixString (w : Nat) (s : Str) : Option Nat :=
  if s ≠ [] ∧ s.all isDigit then
    match ofDigits s with
    | some n => if n ≤ w then some n else none
    | none => none
  else none

/-- `IPv4Address._parse_octet`; `none` = ValueError -/
def parseOctet (s : Str) : Option Nat :=
  if s = [] then none
  else if !s.all isDigit then none
  else if s.length > 3 then none
  else if s ≠ ['0'] ∧ s.head? = some '0' then none
  else
    match ofDigits s with
    | some n => if n > 255 then none else some n
    | none => none

/-- `int.from_bytes(octets, 'big')` -/
def fromBytes (l : List Nat) : Nat := l.foldl (fun acc b => acc * 256 + b) 0

/-- `IPv4Address._ip_int_from_string`; `none` = AddressValueError -/
def stdV4Int (s : Str) : Option Nat :=
  if s = [] then none else
  match splitOn '.' s with
  | [a, b, c, d] =>
    match parseOctet a, parseOctet b, parseOctet c, parseOctet d with
    | some a, some b, some c, some d => some (fromBytes [a, b, c, d])
    | _, _, _, _ => none
  | _ => none

/-- `IPv4Address(str)` (a text containing `/` is refused first) -/
def stdV4Addr (s : Str) : Except Err Nat :=
  if s.contains '/' then .error .addressValueError else
  match stdV4Int s with
  | some n => .ok n
  | none => .error .addressValueError

/-- `n.to_bytes(4, 'big')` -/
def toBytes4 (n : Nat) : List Nat := [n / 16777216 % 256, n / 65536 % 256, n / 256 % 256, n % 256]

/-- `str(IPv4Address(n))`: `'.'.join(map(str, n.to_bytes(4, 'big')))` -/
def strV4 (n : Nat) : Str := join ['.'] ((toBytes4 n).map toDec)

/-- `_prefix_from_ip_string` (IPv4 only): netmask first, then hostmask -/
def prefixFromIpString (s : Str) : Option Nat :=
  match stdV4Int s with
  | none => none
  | some ip =>
    match prefixFromIpInt 32 ip with
    | some p => some p
    | none => prefixFromIpInt 32 (ip ^^^ allOnes 32)

/-- `IPv4Network._make_netmask(str)` → prefix length -/
def makeNetmask4 (s : Str) : Except Err Nat :=
  match prefixFromPrefixString 32 s with
  | some p => .ok p
  | none =>
    match prefixFromIpString s with
    | some p => .ok p
    | none => .error .netmaskValueError

/-- `IPv6Network._make_netmask(str)` → prefix length -/
def makeNetmask6 (s : Str) : Except Err Nat :=
  match prefixFromPrefixString 128 s with
  | some p => .ok p
  | none => .error .netmaskValueError

/-- `_split_optional_netmask` -/
def splitOptionalNetmask (s : Str) : Except Err (Str × Option Str) :=
  match splitOn '/' s with
  | [a] => .ok (a, none)
  | [a, m] => .ok (a, some m)
  | _ => .error .addressValueError

/-- the tail of `IPv?Network.__init__`: host bits are refused (strict) or cleared -/
def finishNet (w : Nat) (strict : Bool) (packed len : Nat) : Except Err (Nat × Nat) :=
  let mask := ipIntFromPrefix w len
  if packed &&& mask ≠ packed then
    if strict then .error .valueError else .ok (packed &&& mask, len)
  else .ok (packed, len)

/-- `IPv4Network(str, strict)` → (network address, prefix length) -/
def stdV4Net (strict : Bool) (s : Str) : Except Err (Nat × Nat) := do
  let (a, m) ← splitOptionalNetmask s
  let packed ← stdV4Addr a
  let len ← match m with
    | none => pure 32
    | some m => makeNetmask4 m
  finishNet 32 strict packed len

/-- `IPv6Address._parse_hextet`; `none` = ValueError -/
def parseHextet (s : Str) : Option Nat :=
  if !s.all isHexDigit then none
  else if s.length > 4 then none
  else ofHex s

/-- the two loops `ip_int <<= 16; ip_int |= parse_hextet(part)` -/
def accHextets : Nat → List Str → Option Nat
  | acc, [] => some acc
  | acc, p :: ps =>
    match parseHextet p with
    | some h => accHextets ((acc <<< 16) ||| h) ps
    | none => none

/-- positions `i` (counted from `start`) of the empty parts -/
def emptyIdx : Nat → List Str → List Nat
  | _, [] => []
  | i, p :: ps => if p = [] then i :: emptyIdx (i + 1) ps else emptyIdx (i + 1) ps

/-- the part of `IPv6Address._ip_int_from_string` after the IPv4 suffix was rewritten -/
def v6FromParts (parts : List Str) : Option Nat :=
  if parts.length > 9 then none else
  -- "Disregarding the endpoints, find '::' with nothing in between."
  match emptyIdx 1 ((parts.drop 1).dropLast) with
  | _ :: _ :: _ => none
  | [skip] =>
    let hi := skip
    let lo := parts.length - skip - 1
    let first := parts.head?.getD []
    let last := parts.getLast?.getD []
    if first = [] ∧ hi - 1 ≠ 0 then none else
    if last = [] ∧ lo - 1 ≠ 0 then none else
    let hi := if first = [] then hi - 1 else hi
    let lo := if last = [] then lo - 1 else lo
    if 8 - (hi + lo) < 1 then none else
    match accHextets 0 (parts.take hi) with
    | none => none
    | some a => accHextets (a <<< (16 * (8 - (hi + lo)))) (parts.drop (parts.length - lo))
  | [] =>
    if parts.length ≠ 8 then none else
    if parts.head?.getD [] = [] then none else
    if parts.getLast?.getD [] = [] then none else
    accHextets 0 parts

/-- `IPv6Address._ip_int_from_string`; `none` = AddressValueError -/
def stdV6Int (s : Str) : Option Nat :=
  if s = [] then none else
  let parts := splitOn ':' s
  if parts.length < 3 then none else
  let last := parts.getLast?.getD []
  if last.contains '.' then
    match stdV4Int last with
    | none => none
    | some v => v6FromParts (parts.dropLast ++ [toHex ((v >>> 16) &&& 0xFFFF), toHex (v &&& 0xFFFF)])
  else v6FromParts parts

/-- `IPv6Address(str)`: `/` refused, a `%scope` suffix is split off (a scope may not be empty
or contain `%`; an accepted one is dropped from the integer value) -/
def stdV6Addr (s : Str) : Except Err Nat :=
  if s.contains '/' then .error .addressValueError else
  if s.contains '%' then .error .addressValueError else   -- scope ids never reach this call (regex)
  match stdV6Int s with
  | some n => .ok n
  | none => .error .addressValueError

/-- `IPv6Network(str, strict)` -/
def stdV6Net (strict : Bool) (s : Str) : Except Err (Nat × Nat) := do
  let (a, m) ← splitOptionalNetmask s
  let packed ← stdV6Addr a
  let len ← match m with
    | none => pure 128
    | some m => makeNetmask6 m
  finishNet 128 strict packed len

/-- the eight 16-bit groups, most significant first (`'%032x' % n` cut in fours) -/
def hextets (n : Nat) : List Nat :=
  [n / 2 ^ 112 % 65536, n / 2 ^ 96 % 65536, n / 2 ^ 80 % 65536, n / 2 ^ 64 % 65536,
   n / 2 ^ 48 % 65536, n / 2 ^ 32 % 65536, n / 2 ^ 16 % 65536, n % 65536]

/-- four lower-case hex digits -/
def hex4 (h : Nat) : Str :=
  [Nat.digitChar (h / 4096 % 16), Nat.digitChar (h / 256 % 16), Nat.digitChar (h / 16 % 16), Nat.digitChar (h % 16)]

/-- `IPv6Address.exploded` -/
def explodedV6 (n : Nat) : Str := join [':'] ((hextets n).map hex4)

/-- state of the loop of `_compress_hextets`: best start/len, current start/len
(`none` is the `-1` of the source) -/
structure Run where
  bestStart : Option Nat := none
  bestLen : Nat := 0
  curStart : Option Nat := none
  curLen : Nat := 0
deriving Repr, DecidableEq

/-- one iteration; `z` says whether the hextet is `'0'` -/
def runStep (st : Run) (index : Nat) (z : Bool) : Run :=
  if z then
    let curLen := st.curLen + 1
    let curStart := match st.curStart with | none => some index | some s => some s
    if curLen > st.bestLen then
      { bestStart := curStart, bestLen := curLen, curStart := curStart, curLen := curLen }
    else { st with curStart := curStart, curLen := curLen }
  else { st with curStart := none, curLen := 0 }

def runLoop : Run → Nat → List Bool → Run
  | st, _, [] => st
  | st, i, z :: zs => runLoop (runStep st i z) (i + 1) zs

/-- the second half of `_compress_hextets`: cut the best run out -/
def compressWith (st : Run) (hs : List Str) : List Str :=
  if st.bestLen > 1 then
    let start := st.bestStart.getD 0
    let stop := start + st.bestLen
    let hs := if stop = hs.length then hs ++ [[]] else hs
    let hs := hs.take start ++ [[]] ++ hs.drop stop
    if start = 0 then [] :: hs else hs
  else hs

/-- `_compress_hextets` on the list of hextet texts -/
def compressHextets (hs : List Str) : List Str :=
  compressWith (runLoop {} 0 (hs.map (· == ['0']))) hs

/-- `str(IPv6Address(n))` -/
def strV6 (n : Nat) : Str := join [':'] (compressHextets ((hextets n).map toHex))

/-! ## the regexes of ccp_util.py -/

/-- `\d` of a `str` pattern -/
def isReDigit (c : Char) : Bool :=
  Gen.reDigitRanges.any (fun r => r.1 ≤ c.toNat && c.toNat ≤ r.2)

/-- `\d+\.` at the start: (the digits, what follows the dot) -/
def digitsDot (s : Str) : Option (Str × Str) :=
  let ds := s.takeWhile isReDigit
  if ds = [] then none else
  match s.dropWhile isReDigit with
  | '.' :: r => some (ds, r)
  | _ => none

/-- `\d+\.\d+\.\d+\.\d+` at the start of `s`: (matched text, rest).  Every `\d+` is followed by
something that is not a digit, so the longest run is the only possible match. -/
def quad (s : Str) : Option (Str × Str) :=
  match digitsDot s with
  | none => none
  | some (a, r1) =>
    match digitsDot r1 with
    | none => none
    | some (b, r2) =>
      match digitsDot r2 with
      | none => none
      | some (c, r3) =>
        let d := r3.takeWhile isReDigit
        if d = [] then none else
        some (a ++ '.' :: b ++ '.' :: c ++ '.' :: d, r3.dropWhile isReDigit)

/-- `^\d+\.\d+\.\d+\.\d+$` (on a text without a trailing line feed) -/
def fullQuad (s : Str) : Bool :=
  match quad s with
  | some (_, []) => true
  | _ => false

/-- `^\d+$` -/
def fullDigits (s : Str) : Bool := s ≠ [] && s.all isReDigit

/-- unanchored `re.search(r"\d+\.\d+\.\d+\.\d+", s)` -/
def searchQuad : Str → Bool
  | [] => false
  | c :: cs => (quad (c :: cs)).isSome || searchQuad cs

/-- the named groups of `_RGX_IPV4ADDR_WITH_MASK` (`""` = did not participate) -/
structure V4Groups where
  nomask : Str := []
  addrNetmask : Str := []
  addrPrefixlen : Str := []
  netmask : Str := []
  masklen : Str := []
deriving Repr, DecidableEq

/-- `_RGX_IPV4ADDR_WITH_MASK.search(s)` for a stripped `s`; `none` = no match.
Alternatives: `A` | `A(\s+|/)A` | `A/\d+`, each anchored at both ends. -/
def matchV4 (s : Str) : Option V4Groups :=
  match quad s with
  | none => none
  | some (a, rest) =>
    match rest with
    | [] => some { nomask := a }
    | c :: r =>
      if c = '/' then
        match quad r with
        | some (m, []) => some { addrNetmask := a, netmask := m }
        | _ => if fullDigits r then some { addrPrefixlen := a, masklen := r } else none
      else if isSpace c then
        match quad (r.dropWhile isSpace) with
        | some (m, []) => some { addrNetmask := a, netmask := m }
        | _ => none
      else none

def isHexColon (c : Char) : Bool := isHexDigit c || c = ':'

/-- `[0-9a-fA-F]{1,4}` -/
def isH (p : Str) : Bool := 1 ≤ p.length && p.length ≤ 4 && p.all isHexDigit

/-- `opt1 | opt3 … opt11` of `_IPV6_REGEX_STR` on the colon-separated parts of the whole text -/
def hexFormParts (parts : List Str) : Bool :=
  match parts with
  | [[], [], []] => true                                                          -- opt11  ::
  | [] :: [] :: rest => rest.all isH && 1 ≤ rest.length && rest.length ≤ 7         -- opt9   ::H(:H)*
  | _ =>
    if parts.all isH then parts.length = 8                                        -- opt1
    else
      let hi := parts.takeWhile isH
      match parts.dropWhile isH with
      | [] :: lo =>
        if lo = [[]] then 1 ≤ hi.length && hi.length ≤ 7                          -- opt10  (H:)+:
        else lo.all isH && 1 ≤ hi.length && 1 ≤ lo.length && hi.length + lo.length ≤ 7   -- opt3 … opt8
      | _ => false

/-- `opt1 | opt3 … opt11` of `_IPV6_REGEX_STR`, whole text -/
def matchHexForm (a : Str) : Bool := hexFormParts (splitOn ':' a)

/-- `opt2`: `[0-9a-fA-F\:]+?\d+\.\d+\.\d+\.\d+`, whole text: some non-empty prefix of
hex digits / colons is followed by a dotted quad that ends the text -/
def matchEmbedded (a : Str) : Bool :=
  (List.range a.length).any (fun i => 1 ≤ i && (a.take i).all isHexColon && fullQuad (a.drop i))

/-- `(?!:::\S+?$)` fails -/
def tripleColonAhead (s : Str) : Bool :=
  match s with
  | ':' :: ':' :: ':' :: x => x ≠ [] && x.all (fun c => !isSpace c)
  | _ => false

/-- `_RGX_IPV6ADDR.search(s)` on a text without a trailing line feed: the groups `addr`, `masklen` -/
def matchV6 (s : Str) : Option (Str × Option Str) :=
  if tripleColonAhead s then none else
  let a := s.takeWhile (fun c => !(c = '/' || isSpace c))
  let okAddr := matchHexForm a || matchEmbedded a
  if !okAddr then none else
  match s.dropWhile (fun c => !(c = '/' || isSpace c)) with
  | [] => some (a, none)
  | _ :: m => if fullDigits m then some (a, some m) else none

/-! ## IPv4Obj -/

namespace V4

/-- `IPv4Obj(text)` -/
def fromStr (input : Str) : Except Err Obj :=
  let g := (matchV4 (strip input)).getD {}
  let netmask := g.netmask
  let prefixlen := g.masklen
  -- "There is a bug here... if I don't use this if condition, address parsing fails"
  let prefixlen := if netmask = [] ∧ prefixlen = [] then "32".toList else prefixlen
  -- "Fix parsing problems..."
  let prefixlen := if !fullDigits (strip prefixlen) then [] else prefixlen
  let netmask := if !fullQuad (strip netmask) then [] else netmask
  let prefixlen := if netmask ≠ [] ∧ prefixlen ≠ [] then [] else prefixlen
  let v4addr := g.nomask ++ g.addrNetmask ++ g.addrPrefixlen
  let maskPrefixlen := netmask ++ prefixlen
  if searchQuad v4addr then do
    let ip ← stdV4Addr v4addr
    let n0 ← stdV4Net false (v4addr ++ '/' :: maskPrefixlen)
    -- `self.prefixlen = self.network_object.prefixlen` (the setter re-parses `str(ip)/len`)
    let n ← stdV4Net false (strV4 ip ++ '/' :: toDec n0.2)
    pure ⟨ip, n.1, n.2⟩
  else .error .addressValueError

/-- `IPv4Obj(int)` -/
def fromInt (v : Int) : Except Err Obj :=
  match v with
  | .ofNat n =>
    if n ≤ Gen.ipv4MaxInt then
      -- IPv4Address(n); IPv4Network(n, strict=False): prefix 32
      match finishNet 32 false n 32 with
      | .ok r => .ok ⟨n, r.1, r.2⟩
      | .error e => .error e
    else .error .requirementFailure
  | .negSucc _ => .error .requirementFailure

/-- `network_object.compressed` -/
def netObjStr (o : Obj) : Str := strV4 o.net ++ '/' :: toDec o.len

/-- `.network`: `IPv4Network(network_object.compressed, strict=False)` -/
def network (o : Obj) : Except Err (Nat × Nat) := stdV4Net false (netObjStr o)

def ipStr (o : Obj) : Str := strV4 o.ip

/-- `.as_cidr_net`: `str(self.network)` -/
def asCidrNet (o : Obj) : Except Err Str := do
  let n ← network o
  pure (strV4 n.1 ++ '/' :: toDec n.2)

/-- `.as_cidr_addr` -/
def asCidrAddr (o : Obj) : Str := ipStr o ++ '/' :: toDec o.len

/-- `IPv4Obj(IPv4Obj)` -/
def copy (o : Obj) : Except Err Obj := do
  let ip ← stdV4Addr (ipStr o)
  let c ← asCidrNet o
  let n ← stdV4Net false c
  pure ⟨ip, n.1, n.2⟩

def ofOpt (x : Option α) : Except Err α :=
  match x with
  | some v => .ok v
  | none => .error .valueError

/-- `.as_decimal` -/
def asDecimal (o : Obj) : Except Err Nat :=
  ofOpt (sumPow 256 pyNat 0 (splitOn '.' (ipStr o)).reverse)

/-- `.as_decimal_network` -/
def asDecimalNetwork (o : Obj) : Except Err Nat := do
  let c ← asCidrNet o
  ofOpt (sumPow 256 pyNat 0 (splitOn '.' ((splitOn '/' c).headD [])).reverse)

/-- `.as_decimal_broadcast` -/
def asDecimalBroadcast (o : Obj) : Except Err Nat := do
  let n ← asDecimalNetwork o
  pure (n + (2 ^ (Gen.ipv4MaxPrefixlen - o.len) - 1))

def netmask (o : Obj) : Nat := ipIntFromPrefix 32 o.len
def hostmask (o : Obj) : Nat := hostmaskInt 32 o.len
/-- `network_object.broadcast_address` -/
def broadcast (o : Obj) : Nat := o.net ||| hostmask o

/-- `.numhosts` -/
def numhosts (o : Obj) : Except Err Nat :=
  if o.len ≤ 30 then .ok (2 ^ (Gen.ipv4MaxPrefixlen - o.len) - 2)
  else if o.len = 31 then .ok 2
  else if o.len = 32 then .ok 1
  else .error .notImplementedError

/-- `.as_zeropadded` -/
def asZeropadded (o : Obj) : Except Err Str := do
  let nums ← ofOpt ((splitOn '.' (ipStr o)).mapM pyNat)
  pure (join ['.'] (nums.map (fun n => padLeft 3 '0' (toDec n))))

/-- `.as_zeropadded_network` -/
def asZeropaddedNetwork (o : Obj) : Except Err Str := do
  let c ← asCidrNet o
  let nums ← ofOpt ((splitOn '.' ((splitOn '/' c).headD [])).mapM pyNat)
  pure (join ['.'] (nums.map (fun n => padLeft 3 '0' (toDec n))) ++ '/' :: toDec o.len)

/-- `.as_hex`: `hex(self)` through `__index__` -/
def asHex (o : Obj) : Except Err Str := do
  let d ← asDecimal o
  pure ('0' :: 'x' :: toHex d)

def asHexTuple (o : Obj) : Except Err (List Str) := do
  let nums ← ofOpt ((splitOn '.' (ipStr o)).mapM pyNat)
  pure (nums.map (fun n => padLeft 2 '0' (toHex n)))

def asBinaryTuple (o : Obj) : Except Err (List Str) := do
  let nums ← ofOpt ((splitOn '.' (ipStr o)).mapM pyNat)
  pure (nums.map (fun n => padLeft 8 '0' (toBin n)))

end V4

/-! ## IPv6Obj -/

namespace V6

/-- `IPv6Obj(text)` -/
def fromStr (input : Str) : Except Err Obj :=
  let tmp := splitWs (strip input)
  let joined : Option Str :=
    match tmp with
    | [a, b] => some (a ++ '/' :: b)
    | [a] => some a
    | _ => none
  match joined with
  | none => .error .notImplementedError
  | some v6input =>
    -- the length guard sees the normalised text (blanks stripped, one blank run rewritten to `/`)
    if v6input.length > Gen.ipv6MaxStrLen then .error .requirementFailure else
    match matchV6 (strip v6input) with
    | none => .error .addressValueError
    | some (addr, masklen) => do
      let ip ← stdV6Addr addr
      let netstr := match masklen with
        | some m => addr ++ '/' :: m
        | none => addr ++ "/128".toList
      let n ← stdV6Net false netstr
      pure ⟨ip, n.1, n.2⟩

/-- `IPv6Obj(int)` -/
def fromInt (v : Int) : Except Err Obj :=
  match v with
  | .ofNat n =>
    if n ≤ Gen.ipv6MaxInt then
      match finishNet 128 false n 128 with
      | .ok r => .ok ⟨n, r.1, r.2⟩
      | .error e => .error e
    else .error .requirementFailure
  | .negSucc _ => .error .requirementFailure

def ipStr (o : Obj) : Str := strV6 o.ip

/-- `.compressed`: `network_object.compressed` -/
def compressed (o : Obj) : Str := strV6 o.net ++ '/' :: toDec o.len

/-- `.network`: `IPv6Network(network_object.compressed)` – strict -/
def network (o : Obj) : Except Err (Nat × Nat) := stdV6Net true (compressed o)

def asCidrNet (o : Obj) : Except Err Str := do
  let n ← network o
  pure (strV6 n.1 ++ '/' :: toDec n.2)

def asCidrAddr (o : Obj) : Str := ipStr o ++ '/' :: toDec o.len

/-- `IPv6Obj(IPv6Obj)` -/
def copy (o : Obj) : Except Err Obj := do
  let ip ← stdV6Addr (ipStr o)
  let c ← asCidrNet o
  let n ← stdV6Net true c
  pure ⟨ip, n.1, n.2⟩

def ofOpt (x : Option α) : Except Err α :=
  match x with
  | some v => .ok v
  | none => .error .valueError

/-- `.exploded` (of the address) -/
def exploded (o : Obj) : Str := explodedV6 o.ip

/-- `.as_decimal` -/
def asDecimal (o : Obj) : Except Err Nat :=
  ofOpt (sumPow 65536 ofHex 0 (splitOn ':' (exploded o)).reverse)

/-- `.as_decimal_network`: from `self.network.exploded` = `<exploded net>/<len>` -/
def asDecimalNetwork (o : Obj) : Except Err Nat := do
  let n ← network o
  let text := explodedV6 n.1 ++ '/' :: toDec n.2
  ofOpt (sumPow 65536 ofHex 0 (splitOn ':' ((splitOn '/' text).headD [])).reverse)

/-- `.as_decimal_network_maxint` -/
def asDecimalNetworkMaxint (o : Obj) : Except Err Nat := do
  let n ← asDecimalNetwork o
  pure (n + (2 ^ (Gen.ipv6MaxPrefixlen - o.len) - 1))

def netmask (o : Obj) : Nat := ipIntFromPrefix 128 o.len
def hostmask (o : Obj) : Nat := hostmaskInt 128 o.len
/-- `network_object.broadcast_address` (the class has no `broadcast`; used by the spec only) -/
def lastAddress (o : Obj) : Nat := o.net ||| hostmask o

def numhosts (o : Obj) : Except Err Nat :=
  if o.len ≤ 126 then .ok (2 ^ (Gen.ipv6MaxPrefixlen - o.len) - 2)
  else if o.len = 127 then .ok 2
  else if o.len = 128 then .ok 1
  else .error .notImplementedError

def asHex (o : Obj) : Except Err Str := do
  let d ← asDecimal o
  pure ('0' :: 'x' :: toHex d)

def asHexTuple (o : Obj) : List Str := splitOn ':' (exploded o)

def asBinaryTuple (o : Obj) : Except Err (List Str) := do
  let nums ← ofOpt ((asHexTuple o).mapM ofHex)
  pure (nums.map (fun n => padLeft 16 '0' (toBin n)))

end V6

end Ccp.IPText
