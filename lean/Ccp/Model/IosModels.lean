import Ccp.Model.Typed
import Ccp.Model.Range
import Ccp.Model.Intf
/-!
Model of the typed IOS models of `models_cisco.py` (syntax `ios`, `factory=True`):

* `IOSIntfLine` / `BaseIOSIntfLine` accessors: `name`, `port_type`, `ordinal_list`,
  `interface_number`, `subinterface_number`, `description`, `ipv4_addr`, `ipv4_netmask`,
  `ipv4_masklength`, `ipv4_addr_object`, `ip_secondary_addresses`, `ip_secondary_networks`,
  `vrf`, `manual_mtu`, `manual_ip_mtu`, `is_shutdown`, `is_switchport`,
  `has_manual_switch_access`, `has_manual_switch_trunk`, `access_vlan`, `native_vlan`,
  `trunk_vlans_allowed`, `portchannel_number`, `is_in_portchannel`, `is_portchannel_intf`
* `IOSRouteLine` (`_RE_IP_ROUTE`) and its accessors.

**Token level.**  A line is read as leading whitespace followed by words, each with the
whitespace gap after it (`lex`).  Every regular expression of the source is written as a
matcher over that token list which mirrors the pattern, including where the pattern is
sensitive to the *width* of a gap (`vrf\sforwarding\s`), to trailing whitespace (`(\d+)$`
against `\s*$`) or to a non-empty indent (`^\s+ip`).  This regex → matcher step is modelled,
not proved; the correspondence run compares it with Python's `re` through the real accessors
on generated stanzas and on whitespace variants of them.

The family order is C05's (`Ccp.Typed.order`): the line itself, then `all_children`; the
`switchport …` accessors loop over the direct children, as the code does.

Assumptions (generator-enforced): no line-break character inside a line (`.` and `$` of `re`
treat `\n` specially); digits are ASCII (`\d` also accepts other Unicode digits);
`IPv4Obj("A/M")` is re-implemented for canonical dotted quads and contiguous netmasks only;
`CiscoIOSInterface` is C15's model `Ccp.Intf.parse` (imported, validated and proved there).
-/
namespace Ccp.Ios
open Ccp.Py Ccp.Tree

/-! ## lexing a line into words and gaps -/

/-- a word and the whitespace after it -/
abbrev Tok := Str × Str

/-- put a word (or the first characters of one) in front of an already lexed rest -/
def consWord (w : Str) (r : Str × List Tok) : Str × List Tok :=
  match r with
  | ([], (w', g) :: ts) => ([], (w ++ w', g) :: ts)
  | (g, ts) => ([], (w, g) :: ts)

/-- leading whitespace, then the words with the gap after each of them -/
def lex : Str → Str × List Tok
  | [] => ([], [])
  | c :: cs => if isSpace c then (c :: (lex cs).1, (lex cs).2) else consWord [c] (lex cs)

/-- `text.split()` -/
def wordsOf (s : Str) : List Str := (lex s).2.map (·.1)

/-- the text from the first of these words to the end of the line -/
def unlex (ts : List Tok) : Str := ts.flatMap (fun t => t.1 ++ t.2)

def allDigits (s : Str) : Bool := !s.isEmpty && s.all isDigit

/-- `\d+\.\d+\.\d+\.\d+` as a whole word -/
def isQuadShape (s : Str) : Bool :=
  match splitOn '.' s with
  | [a, b, c, d] => allDigits a && allDigits b && allDigits c && allDigits d
  | _ => false

/-! ## keywords -/
def kInterface : Str := "interface".toList
def kDescription : Str := "description".toList
def kMtu : Str := "mtu".toList
def kIp : Str := "ip".toList
def kShut : Str := "shut".toList
def kVrf : Str := "vrf".toList
def kForwarding : Str := "forwarding".toList
def kAddress : Str := "address".toList
def kSecondary : Str := "secondary".toList
def kDhcp : Str := "dhcp".toList
def kNegotiated : Str := "negotiated".toList
def kSwitchport : Str := "switchport".toList
def kMode : Str := "mode".toList
def kAccess : Str := "access".toList
def kTrunk : Str := "trunk".toList
def kVlan : Str := "vlan".toList
def kNative : Str := "native".toList
def kAllowed : Str := "allowed".toList
def kAdd : Str := "add".toList
def kExcept : Str := "except".toList
def kRemove : Str := "remove".toList
def kAll : Str := "all".toList
def kNone : Str := "none".toList
def kChannelGroup : Str := "channel-group".toList
def kRoute : Str := "route".toList
def kGlobal : Str := "global".toList
def kMulticast : Str := "multicast".toList
def kName : Str := "name".toList
def kPermanent : Str := "permanent".toList
def kTrack : Str := "track".toList
def kTag : Str := "tag".toList
def kChannel : Str := "channel".toList

/-! ## child-line patterns (each mirrors one regular expression of the source) -/

/-- `^\s*description\s+(\S.*)$` -/
def pDescr (s : Str) : Option Str :=
  match (lex s).2 with
  | (w, _) :: t :: rest => if w = kDescription then some (unlex (t :: rest)) else none
  | _ => none

/-- `^\s*mtu\s+(\d+)$` -/
def pMtu (s : Str) : Option Str :=
  match (lex s).2 with
  | [(w, _), (n, g)] => if w = kMtu && allDigits n && g.isEmpty then some n else none
  | _ => none

/-- `^\s*ip\s+mtu\s+(\d+)$` -/
def pIpMtu (s : Str) : Option Str :=
  match (lex s).2 with
  | [(w, _), (w2, _), (n, g)] =>
    if w = kIp && w2 = kMtu && allDigits n && g.isEmpty then some n else none
  | _ => none

/-- `^\s*(shut\S*)\s*$` -/
def pShut (s : Str) : Option Str :=
  match (lex s).2 with
  | [(w, _)] => if kShut.isPrefixOf w then some w else none
  | _ => none

/-- `^\s*(ip\s+)*vrf\sforwarding\s(\S+)$` -/
def pVrf (s : Str) : Option Str :=
  match (lex s).2.dropWhile (fun t => t.1 = kIp) with
  | [(w, g1), (w2, g2), (n, g3)] =>
    if w = kVrf && g1.length = 1 && w2 = kForwarding && g2.length = 1 && g3.isEmpty then some n else none
  | _ => none

/-- the four words of `^\s+ip\s+address\s+(\S+)\s+(\S+)\s*$` -/
def addrWords (s : Str) : Option (Str × Str) :=
  let r := lex s
  if r.1.isEmpty then none else
  match r.2 with
  | [(w, _), (w2, _), (a, _), (m, _)] => if w = kIp && w2 = kAddress then some (a, m) else none
  | _ => none

/-- `^\s+ip\s+address\s+(\d+\.\d+\.\d+\.\d+)\s+\d+\.\d+\.\d+\.\d+\s*$` -/
def pAddr (s : Str) : Option Str :=
  match addrWords s with
  | some (a, m) => if isQuadShape a && isQuadShape m then some a else none
  | none => none

/-- `^\s+ip\s+address\s+\d+\.\d+\.\d+\.\d+\s+(\d+\.\d+\.\d+\.\d+)\s*$` -/
def pMask (s : Str) : Option Str :=
  match addrWords s with
  | some (a, m) => if isQuadShape a && isQuadShape m then some m else none
  | none => none

/-- `^\s+ip\s+address\s+(?P<v4addr>\S+)\s+(?P<v4netmask>\d+\.\d+\.\d+\.\d+)\s*$` -/
def pAddrObj (s : Str) : Option (Str × Str) :=
  match addrWords s with
  | some (a, m) => if isQuadShape m then some (a, m) else none
  | none => none

/-- `^\s+ip\s+address\s+(kw)\s*$` for `kw` = `dhcp`, `negotiated` -/
def pAddrKw (kw : Str) (s : Str) : Option Str :=
  let r := lex s
  if r.1.isEmpty then none else
  match r.2 with
  | [(w, _), (w2, _), (k, _)] => if w = kIp && w2 = kAddress && k = kw then some k else none
  | _ => none

/-- `^\s*ip\s+address\s+(?P<secondary>\S+\s+\S+)\s+secondary\s*$` -/
def pSecondary (s : Str) : Option (Str × Str) :=
  match (lex s).2 with
  | [(w, _), (w2, _), (a, _), (m, _), (k, _)] =>
    if w = kIp && w2 = kAddress && k = kSecondary then some (a, m) else none
  | _ => none

/-- `^\s*channel-group\s+(\d+)` (no anchor after the digits) -/
def pChan (s : Str) : Option Str :=
  match (lex s).2 with
  | (w, _) :: (n, _) :: _ =>
    if w = kChannelGroup && !(n.takeWhile isDigit).isEmpty then some (n.takeWhile isDigit) else none
  | _ => none

/-! ## `IPv4Obj("A/M")` for canonical quads and contiguous netmasks -/

/-- one octet: ASCII digits, no leading zero, at most 255 -/
def octet (s : Str) : Option Nat :=
  match s with
  | ['0'] => some 0
  | '0' :: _ => none
  | _ =>
    match ofDigits s with
    | some n => if n ≤ 255 then some n else none
    | none => none

def quad (s : Str) : Option (List Nat) :=
  match splitOn '.' s with
  | [a, b, c, d] =>
    match octet a, octet b, octet c, octet d with
    | some a, some b, some c, some d => some [a, b, c, d]
    | _, _, _, _ => none
  | _ => none

/-- number of leading one bits of an octet that is `1…10…0` -/
def octetOnes : Nat → Option Nat
  | 0 => some 0 | 128 => some 1 | 192 => some 2 | 224 => some 3 | 240 => some 4
  | 248 => some 5 | 252 => some 6 | 254 => some 7 | 255 => some 8
  | _ => none

def onesLen : List Nat → Option Nat
  | [] => some 0
  | 255 :: rest => (onesLen rest).map (· + 8)
  | o :: rest => if rest.all (· == 0) then octetOnes o else none

/-- prefix length of a contiguous netmask text -/
def maskLen (m : Str) : Option Nat := (quad m).bind onesLen

/-- `IPv4Obj(f"{a}/{m}")`: the address text and the prefix length; `none` = the constructor raises -/
def ipv4obj (a m : Str) : Option (Str × Nat) :=
  match quad a, maskLen m with
  | some _, some l => some (a, l)
  | _, _ => none

/-! ## factory transparency

`CiscoConfParse(lines, syntax=…, factory=…)`: the factory only chooses the *class* of each line
object (`config_line_factory`); `ConfigList.bootstrap` then links the objects by their texts.
The tree builder of the model, `Ccp.Tree.parse`, has no class input at all, so the tree of a
factory parse — when the factory accepts the config, i.e. no constructor raises — is modelled
as the same function of the lines.  That the real code behaves so is measured (tree dumps with
factory on and off), not proved. -/

/-- texts / parents / keep flags of `CiscoConfParse(ls, factory=factory)`, if it returns -/
def treeOf (_factory : Bool) (cfg : Cfg) (ls : List Str) : T := parse cfg ls

/-! ## the family of an interface line -/

structure Fam where
  /-- the interface line -/
  self : Str
  /-- texts of `self.children` -/
  kids : List Str
  /-- texts of C05's order: the line itself, then `self.all_children` -/
  order : List Str
  /-- for every `obj` of `self.parent.all_children`: the texts of `obj`'s own order -/
  secFams : List (List Str)
deriving Repr, DecidableEq

def famOf (t : T) (i : Nat) : Fam :=
  { self := Typed.text t i
    kids := (children t i).map (Typed.text t)
    order := (Typed.order t i true).map (Typed.text t)
    secFams := (allChildren t (parentOf t i)).map
      (fun j => (Typed.order t j true).map (Typed.text t)) }

/-- `re_match_iter_typed`, first line of the order that matches -/
def first {α : Type} (p : Str → Option α) (l : List Str) : Option α := l.findSome? p

inductive Err | indexError | valueError | ipError | rangeError
deriving Repr, DecidableEq

/-- `int(digits)` as used on `\d+` groups -/
def digitsInt (s : Str) : Int := Int.ofNat ((ofDigits s).getD 0)

def description (f : Fam) : Str := (first pDescr f.order).getD []

def manualMtu (f : Fam) : Int :=
  match first pMtu f.order with | some n => digitsInt n | none => -1

def manualIpMtu (f : Fam) : Int :=
  match first pIpMtu f.order with | some n => digitsInt n | none => -1

def isShutdown (f : Fam) : Bool := (first pShut f.order).isSome

def vrf (f : Fam) : Str := (first pVrf f.order).getD []

def ipv4Addr (f : Fam) : Str :=
  if (first (pAddrKw kDhcp) f.order).isSome then []
  else if (first (pAddrKw kNegotiated) f.order).isSome then []
  else (first pAddr f.order).getD []

def ipv4Netmask (f : Fam) : Str := (first pMask f.order).getD []

/-- `ipv4_addr_object`: `none` is the default (empty) object -/
def ipv4AddrObject (f : Fam) : Except Err (Option (Str × Nat)) :=
  match first pAddrObj f.order with
  | none => .ok none
  | some (a, m) =>
    if a = kDhcp || a = kNegotiated then .ok none else
    match ipv4obj a m with
    | some r => .ok (some r)
    | none => .error .ipError

def ipv4Masklength (f : Fam) : Except Err Int :=
  match ipv4AddrObject f with
  | .ok (some r) => .ok (Int.ofNat r.2)
  | .ok none => .ok (-1)
  | .error e => .error e

/-- the loop of `ip_secondary_addresses` / `ip_secondary_networks` (result is a Python set) -/
def secondaries (f : Fam) : Except Err (List (Str × Nat)) :=
  f.secFams.foldr (fun fam acc =>
    match first pSecondary fam with
    | none => acc
    | some (a, m) =>
      match ipv4obj a m, acc with
      | none, _ => .error .ipError
      | some r, .ok l => .ok (r :: l)
      | some _, .error e => .error e) (.ok [])

def portchannelNumber (f : Fam) : Int :=
  match first pChan f.order with | some n => digitsInt n | none => -1

def isInPortchannel (f : Fam) : Bool := (first pChan f.order).isSome

/-! ### the `switchport …` accessors: loops over the direct children, `text.strip().split()` -/

/-- `for _obj in self.children: if _obj.text.strip().split()[0] == "switchport": return True` -/
def isSwitchportLoop : List Str → Except Err Bool
  | [] => .ok false
  | k :: ks =>
    match wordsOf k with
    | [] => .error .indexError
    | w :: _ => if w = kSwitchport then .ok true else isSwitchportLoop ks

def isSwitchport (f : Fam) : Except Err Bool := isSwitchportLoop f.kids

/-- `split()[0:3] == [a, b, c]` for some child -/
def hasWords3 (a b c : Str) (f : Fam) : Bool :=
  f.kids.any (fun k => (wordsOf k).take 3 = [a, b, c])

def hasManualSwitchAccess (f : Fam) : Bool := hasWords3 kSwitchport kMode kAccess f
def hasManualSwitchTrunk (f : Fam) : Bool := hasWords3 kSwitchport kMode kTrunk f

/-- `int(word)` for the vlan words -/
def intWord (w : Str) : Except Err Int :=
  match pyInt w with
  | some n => .ok n
  | none => .error .valueError

def accessVlanLoop (dflt : Int) : List Str → Except Err Int
  | [] => .ok dflt
  | k :: ks =>
    let ws := wordsOf k
    if ws.take 3 = [kSwitchport, kAccess, kVlan] then
      match ws[3]? with
      | some w => intWord w
      | none => .error .indexError
    else accessVlanLoop dflt ks

def accessVlan (f : Fam) : Except Err Int :=
  match isSwitchport f with
  | .error e => .error e
  | .ok sw => accessVlanLoop (if sw then 1 else -1) f.kids

def nativeVlanLoop (dflt : Int) : List Str → Except Err Int
  | [] => .ok dflt
  | k :: ks =>
    let ws := wordsOf k
    if ws.length = 5 && ws.take 4 = [kSwitchport, kTrunk, kNative, kVlan] then
      match ws[4]? with
      | some w => intWord w
      | none => .error .indexError
    else nativeVlanLoop dflt ks

def nativeVlan (f : Fam) : Except Err Int :=
  match isSwitchport f with
  | .error e => .error e
  | .ok sw => nativeVlanLoop (if sw then 1 else -1) f.kids

/-! ### `trunk_vlans_allowed` -/

def isVlanChar (c : Char) : Bool := isDigit c || c = '-' || c = ',' || isSpace c

/-- group of `^\s+switchport\s+trunk\s+allowed\s+vlan\s+<kw>\s+(\d[\d\-\,\s]*)$` where the
keyword words have already been compared: the rest of the line from token `rest` on -/
def vlanListGroup (lead : Str) (rest : List Tok) : Option Str :=
  let g := unlex rest
  match g with
  | c :: _ => if !lead.isEmpty && isDigit c && g.all isVlanChar then some g else none
  | [] => none

/-- `(all|none|\d[\d\-\,\s]*)$` -/
def allowedGroup (lead : Str) (rest : List Tok) : Option Str :=
  match rest with
  | [(w, g)] =>
    if !lead.isEmpty && (w = kAll || w = kNone) && g.isEmpty then some w else vlanListGroup lead rest
  | _ => vlanListGroup lead rest

structure VDict where
  allowed : Str
  add : Option Str
  exc : Option Str
  rem : Option Str

def allVlans : Str := "1-4094".toList

def accum (old : Option Str) (s : Str) : Option Str :=
  match old with
  | none => some s
  | some o => some (o ++ ',' :: s)

/-- one iteration of the loop over `self.children` -/
def vdictStep (v : VDict) (k : Str) : VDict :=
  let r := lex k
  let ws := r.2.map (·.1)
  if ws.take 4 = [kSwitchport, kTrunk, kAllowed, kVlan] then
    match ws[4]? with
    | some w5 =>
      if w5 = kAdd then
        match vlanListGroup r.1 (r.2.drop 5) with
        | some s => { v with add := accum v.add s }
        | none => v
      else if w5 = kExcept then
        match vlanListGroup r.1 (r.2.drop 5) with
        | some s => { v with exc := accum v.exc s }
        | none => v
      else if w5 = kRemove then
        match vlanListGroup r.1 (r.2.drop 5) with
        | some s => { v with rem := accum v.rem s }
        | none => v
      else
        match allowedGroup r.1 (r.2.drop 4) with
        | some s =>
          if s = kNone then { v with allowed := [] }
          else if s = kAll then { v with allowed := allVlans }
          else if v.allowed = allVlans || v.allowed = [] then { v with allowed := s }
          else { v with allowed := v.allowed ++ ',' :: s }
        | none => v
    | none =>
      match allowedGroup r.1 (r.2.drop 4) with
      | some _ => v      -- unreachable: the group needs a fifth word
      | none => v
  else v

def rangeOf (s : Str) : Except Err (List Nat) :=
  match Range.parse s with
  | .ok l => .ok l
  | .error _ => .error .rangeError

/-- `retval - CiscoRange(...)` -/
def minus (a b : List Nat) : List Nat := a.filter (fun x => !b.contains x)

/-- the second half of `trunk_vlans_allowed`: apply `allowed`, `add`, `except`, `remove` in order -/
def applyVDict (v : VDict) : Except Err (List Nat) := do
  -- `retval = CiscoRange(vdict["allowed"])` is built first (and may raise) …
  let _ ← (if v.allowed = allVlans || v.allowed = [] then pure [] else rangeOf v.allowed)
  -- … then `allowed` is applied again from the stripped text
  let a := strip v.allowed
  let r0 ← (if a = [] then
              (if v.allowed = allVlans then pure (Range.upto 1 4094) else pure [])
            else do
              let l ← rangeOf a
              pure (Range.sortedSet l))
  let r1 ← (match v.add with
            | none => pure r0
            | some s => if strip s = [] then pure r0 else do
                let l ← rangeOf (strip s); pure (Range.sortedSet (r0 ++ l)))
  let r2 ← (match v.exc with
            | none => pure r1
            | some s => if strip s = [] then pure r1 else do
                let l ← rangeOf (strip s); pure (minus r1 l))
  let r3 ← (match v.rem with
            | none => pure r2
            | some s => if strip s = [] then pure r2 else do
                let l ← rangeOf (strip s); pure (minus r2 l))
  pure r3

def trunkVlansAllowed (f : Fam) : Except Err (List Nat) :=
  match isSwitchport f with
  | .error e => .error e
  | .ok sw =>
    if sw && !hasManualSwitchAccess f then
      applyVDict (f.kids.foldl vdictStep { allowed := allVlans, add := none, exc := none, rem := none })
    else .ok []

/-! ## the interface line itself -/

/-- `IOSIntfLine.is_object_for`: `line.strip().split()[0] == "interface"` -/
def isIntfLine (s : Str) : Bool := (wordsOf s).head? = some kInterface

/-- `" ".join(self.text.split()[1:])` -/
def intfName (s : Str) : Str := join [' '] (wordsOf s).tail

def isAlphaHyphen (c : Char) : Bool :=
  (65 ≤ c.toNat && c.toNat ≤ 90) || (97 ≤ c.toNat && c.toNat ≤ 122) || c = '-'

/-- text after `^interface\s+`, if the line starts that way -/
def afterInterface (s : Str) : Option Str :=
  if kInterface.isPrefixOf s then
    match s.drop 9 with
    | c :: r => if isSpace c then some (r.dropWhile isSpace) else none
    | [] => none
  else none

/-- `^interface\s+([A-Za-z\-]+)` -/
def portType (s : Str) : Str :=
  match afterInterface s with
  | some r => r.takeWhile isAlphaHyphen
  | none => []

/-- `self.text[0:10] == "interface " and self.text[10] != " "`; `none` = `IndexError` -/
def isIntf (s : Str) : Option Bool :=
  if s.take 10 = kInterface ++ [' '] then
    match s[10]? with
    | some c => some (c != ' ')
    | none => none
  else some false

/-- `(\s\S+)*\s*$` -/
def tail2 (t : Str) : Bool :=
  let r := lex t
  match r.2 with
  | [] => true
  | ts => r.1.length = 1 && ts.dropLast.all (fun tk => tk.2.length = 1)

/-- `(\.\d+)*(\s\S+)*\s*$` -/
def tail1 : Nat → Str → Bool
  | 0, r => tail2 r
  | fuel + 1, r =>
    tail2 r ||
    match r with
    | '.' :: rest => !(rest.takeWhile isDigit).isEmpty && tail1 fuel (rest.dropWhile isDigit)
    | _ => false

/-- the lazy `.*?` of `interface_number`: extend the group until the rest matches `tail1` -/
def lazyNum (acc : Str) : Str → Str
  | [] => acc
  | c :: r => if tail1 (c :: r).length (c :: r) then acc else lazyNum (acc ++ [c]) r

/-- the text from the first digit of the number part on:
`^interface\s+[A-Za-z\-]+\s*` consumed, the rest must start with a digit -/
def numberPart (s : Str) : Option Str :=
  match afterInterface s with
  | none => none
  | some r =>
    if (r.takeWhile isAlphaHyphen).isEmpty then none else
    match (r.dropWhile isAlphaHyphen).dropWhile isSpace with
    | c :: rest => if isDigit c then some (c :: rest) else none
    | [] => none

/-- `interface_number`: group 1 of
`^interface\s+[A-Za-z\-]+\s*(\d+.*?)(\.\d+)*(\s\S+)*\s*$` -/
def interfaceNumber (s : Str) : Option Str :=
  match isIntf s with
  | none => none
  | some false => some []
  | some true =>
    match numberPart s with
    | none => some []
    | some r => some (lazyNum (r.takeWhile isDigit) (r.dropWhile isDigit))

/-- what `\.?\d?` takes at this point when the rest then matches `(\s\S+)*\s*$` -/
def subEnd (r : Str) : Option Str :=
  match r with
  | '.' :: d :: r2 =>
    if isDigit d && tail2 r2 then some ['.', d]
    else if tail2 (d :: r2) then some ['.']
    else none
  | ['.'] => some ['.']
  | d :: r2 =>
    if isDigit d && tail2 r2 then some [d]
    else if tail2 (d :: r2) then some []
    else none
  | [] => some []

/-- the lazy `.*?` of `subinterface_number` -/
def lazySub (acc : Str) : Str → Str
  | [] => acc
  | c :: r =>
    match subEnd (c :: r) with
    | some e => acc ++ e
    | none => lazySub (acc ++ [c]) r

/-- `subinterface_number`: group 1 of `^interface\s+[A-Za-z\-]+\s*(\d+.*?\.?\d?)(\s\S+)*\s*$` -/
def subinterfaceNumber (s : Str) : Option Str :=
  match isIntf s with
  | none => none
  | some false => some []
  | some true =>
    match numberPart s with
    | none => some []
    | some r => some (lazySub (r.takeWhile isDigit) (r.dropWhile isDigit))

/-- `"channel" in self.name.lower()` -/
def isPortchannelIntf (s : Str) : Bool :=
  Tree.isInfixOf kChannel ((intfName s).map Char.toLower)

def optI (o : Option Nat) : Int :=
  match o with | some n => Int.ofNat n | none => -1

/-- `ordinal_list` = (slot, card, port, subinterface, channel, interface_class→-1) of
`CiscoIOSInterface("".join(text.split()[1:]))` — C15's model `Ccp.Intf.parse`; `none` = raises -/
def ordinalList (s : Str) : Option (List Int) :=
  match isIntf s with
  | none => none
  | some false => some []
  | some true =>
    match Intf.parse ((wordsOf s).tail.flatMap id) with
    | .ok i => some [optI i.slot, optI i.card, Int.ofNat i.port, optI i.sub, optI i.chan, -1]
    | .error _ => none

/-! ## `IOSRouteLine`: `_RE_IP_ROUTE` as an ordered optional-slot consumer -/

structure Route where
  vrf : Option Str := none
  prefix_ : Str := []
  netmask : Str := []
  nhIntf : Option Str := none
  nhAddr : Option Str := none
  dhcp : Option Str := none
  glob : Option Str := none
  ad : Option Str := none
  mcast : Option Str := none
  name : Option Str := none
  perm : Option Str := none
  track : Option Str := none
  tag : Option Str := none
deriving Repr, DecidableEq

/-- longest prefix of a word of the shape `\d+\.\d+\.\d+\.\d+` and whether it is the whole word -/
def quadPrefix (w : Str) : Option (Str × Bool) :=
  let a := w.takeWhile isDigit
  match w.dropWhile isDigit with
  | '.' :: r1 =>
    let b := r1.takeWhile isDigit
    match r1.dropWhile isDigit with
    | '.' :: r2 =>
      let c := r2.takeWhile isDigit
      match r2.dropWhile isDigit with
      | '.' :: r3 =>
        let d := r3.takeWhile isDigit
        if a.isEmpty || b.isEmpty || c.isEmpty || d.isEmpty then none
        else some (a ++ '.' :: b ++ '.' :: c ++ '.' :: d, (r3.dropWhile isDigit).isEmpty)
      | _ => none
    | _ => none
  | _ => none

/-- state of the consumer: remaining tokens, the gap before the first of them, and whether the
previous group ended at a word end (every later group starts with `\s+`) -/
structure RSt where
  gap : Str
  toks : List Tok
  open_ : Bool

/-- a literal keyword group `(?:\s+(?P<x>kw))?` -/
def slotKw (kw : Str) (st : RSt) : Option Str × RSt :=
  match st.toks with
  | (w, g) :: rest =>
    if st.open_ && kw.isPrefixOf w then (some kw, { gap := g, toks := rest, open_ := w = kw })
    else (none, st)
  | [] => (none, st)

/-- `(?:\s+(?P<x>\d+))?` -/
def slotDigits (st : RSt) : Option Str × RSt :=
  match st.toks with
  | (w, g) :: rest =>
    let d := w.takeWhile isDigit
    if st.open_ && !d.isEmpty then (some d, { gap := g, toks := rest, open_ := d = w })
    else (none, st)
  | [] => (none, st)

/-- `(?:\s+kw\s+(?P<x>\S+))?` -/
def slotKwWord (kw : Str) (st : RSt) : Option Str × RSt :=
  match st.toks with
  | (w, _) :: (v, g) :: rest =>
    if st.open_ && w = kw then (some v, { gap := g, toks := rest, open_ := true }) else (none, st)
  | _ => (none, st)

/-- `(?:\s+kw\s+(?P<x>\d+))?` -/
def slotKwDigits (kw : Str) (st : RSt) : Option Str × RSt :=
  match st.toks with
  | (w, _) :: (v, g) :: rest =>
    let d := v.takeWhile isDigit
    if st.open_ && w = kw && !d.isEmpty then (some d, { gap := g, toks := rest, open_ := d = v })
    else (none, st)
  | _ => (none, st)

/-- `(?:\s+(?P<nh_intf>[^\d]\S+))?` — when the word itself does not fit (`[^\d]` then at least
one more character) and the gap before it is at least two wide, the engine backtracks into
`\s+` and `[^\d]` takes the last whitespace character of the gap -/
def slotIntf (st : RSt) : Option Str × RSt :=
  match st.toks with
  | (w, g) :: rest =>
    if !st.open_ then (none, st) else
    match w with
    | c :: _ :: _ =>
      if !isDigit c then (some w, { gap := g, toks := rest, open_ := true })
      else if st.gap.length ≥ 2 then
        (some (st.gap.getLast?.toList ++ w), { gap := g, toks := rest, open_ := true })
      else (none, st)
    | _ =>
      if st.gap.length ≥ 2 then
        (some (st.gap.getLast?.toList ++ w), { gap := g, toks := rest, open_ := true })
      else (none, st)
  | [] => (none, st)

/-- `(?:\s+(?P<nh_addr>\d+\.\d+\.\d+\.\d+))?` -/
def slotAddr (st : RSt) : Option Str × RSt :=
  match st.toks with
  | (w, g) :: rest =>
    match quadPrefix w with
    | some (q, whole) => if st.open_ then (some q, { gap := g, toks := rest, open_ := whole }) else (none, st)
    | none => (none, st)
  | [] => (none, st)

/-- the optional groups after the netmask -/
def routeTail (vrf : Option Str) (pfx mask : Str) (st : RSt) : Route :=
  let r1 := slotIntf st
  let r2 := slotAddr r1.2
  let r3 := slotKw kDhcp r2.2
  let r4 := slotKw kGlobal r3.2
  let r5 := slotDigits r4.2
  let r6 := slotKw kMulticast r5.2
  let r7 := slotKwWord kName r6.2
  let r8 := slotKw kPermanent r7.2
  let r9 := slotKwDigits kTrack r8.2
  let r10 := slotKwDigits kTag r9.2
  { vrf := vrf, prefix_ := pfx, netmask := mask, nhIntf := r1.1, nhAddr := r2.1, dhcp := r3.1,
    glob := r4.1, ad := r5.1, mcast := r6.1, name := r7.1, perm := r8.1, track := r9.1, tag := r10.1 }

/-- prefix and netmask, then the tail -/
def routeBody (vrf : Option Str) : List Tok → Option Route
  | (p, _) :: (m, g) :: rest =>
    if isQuadShape p then
      match quadPrefix m with
      | some (q, whole) => some (routeTail vrf p q { gap := g, toks := rest, open_ := whole })
      | none => none
    else none
  | _ => none

/-- `IOSRouteLine.is_object_for`: `line[0:9] == "ip route "` -/
def isRouteLine (s : Str) : Bool := s.take 9 = kIp ++ ' ' :: kRoute ++ [' ']

/-- `_RE_IP_ROUTE.search(text).groupdict()`; `none` = no match (`ValueError` in `__init__`) -/
def routeParse (s : Str) : Option Route :=
  let r := lex s
  if !r.1.isEmpty then none else
  match r.2 with
  | (w, _) :: (w2, _) :: rest =>
    if w = kIp && w2 = kRoute then
      match rest with
      | (v, _) :: (n, _) :: rest' =>
        if v = kVrf then
          match routeBody (some n) rest' with
          | some x => some x
          | none => routeBody none rest          -- the engine retries without the vrf group
        else routeBody none rest
      | _ => routeBody none rest
    else none
  | _ => none

def Route.vrfName (r : Route) : Str := r.vrf.getD []
def Route.network (r : Route) : Str := r.prefix_
def Route.nextHopInterface (r : Route) : Str := r.nhIntf.getD []
def Route.nextHopAddr (r : Route) : Str := r.nhAddr.getD []
def Route.adminDistance (r : Route) : Int :=
  match r.ad with | some d => digitsInt d | none => 1
def Route.routeName (r : Route) : Str := r.name.getD []
def Route.trackingObjectName (r : Route) : Str := r.track.getD []
def Route.tagText (r : Route) : Str := r.tag.getD []
def Route.permanent (r : Route) : Bool := r.perm.isSome
def Route.multicast (r : Route) : Bool := r.mcast.isSome
def Route.globalNextHop (r : Route) : Bool := if r.vrfName.isEmpty then true else r.glob.isSome
/-- `network_object.prefixlen`; `none` = `network_object` is `None` (the attribute access raises) -/
def Route.masklen (r : Route) : Option Nat := (ipv4obj r.prefix_ r.netmask).map (·.2)

/-! ## further accessors of the same objects (reached by the generator since the coverage pass) -/

/-- `port` = `self.cisco_interface_object.port`: the third component `ordinal_list` reports; `none` = raises
(`NoRegexMatch` / `InvalidCiscoInterface` — also where `ordinal_list` silently answers `()`) -/
def port (s : Str) : Option Int :=
  match ordinalList s with
  | some (_ :: _ :: p :: _) => some p
  | _ => none

/-- `_address_family`: the constructor of `IOSRouteLine` only completes for `ip route` lines (for an `ipv6 route`
line it raises NotImplementedError, which `config_line_factory` swallows, handing out a plain `IOSCfgLine`) -/
def Route.addressFamily (_r : Route) : Str := "ip".toList

/-- `nexthop_str`: `next_hop_interface + " " + next_hop_addr` when there is an interface (a trailing blank when
there is no address), else `next_hop_addr` -/
def Route.nexthopStr (r : Route) : Str :=
  if r.nextHopInterface.isEmpty then r.nextHopAddr else r.nextHopInterface ++ ' ' :: r.nextHopAddr

inductive RouteErr | valueError | notImplementedError
deriving Repr, DecidableEq

/-- `nexthop_vrf` is an IPv6-only notion: ValueError for every `ip route` object -/
def Route.nexthopVrf (_r : Route) : Except RouteErr Str := .error .valueError

/-- `unicast`: "unclear how to implement this" — NotImplementedError for every object -/
def Route.unicast (_r : Route) : Except RouteErr Bool := .error .notImplementedError

end Ccp.Ios
