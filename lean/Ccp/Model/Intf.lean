import Ccp.Py.Basic
import Ccp.Model.Range
/-!
Model of `CiscoIOSInterface(name)` and of `CiscoRange(text, result_type=None)`
(ccp_util.py): `parse_single_interface`, `parse_intf_short`, `parse_intf_long`,
`update_internal_state`, `render_as_string` / `number`, `sort_list`,
`__eq__` / `__lt__` / `__gt__` / `__hash__`, `CiscoRange.parse_cisco_interfaces`
and the reading accessors of `CiscoRange` on interface members.

Python's `re` is not modelled; the handful of patterns in the source are written
out as character-class scanners (`matchHead`, `firstDigits`, `searchAfter`,
`classWord`, `scanSlotCardPort`).  Their agreement with `re` is measured by the
correspondence run.  `\d`, `str.isdigit` and `int()` are restricted to ASCII
digits (the generators emit no other digits).
-/
namespace Ccp.Intf
open Ccp.Py

inductive Err
  | invalidCiscoInterface | noRegexMatch | valueError | typeError
  | invalidCiscoRange | indexError
deriving Repr, DecidableEq

/-! ### character classes of the patterns -/

def isAlpha (c : Char) : Bool :=
  (97 ≤ c.toNat && c.toNat ≤ 122) || (65 ≤ c.toNat && c.toNat ≤ 90)

/-- `[a-zA-Z\-]` -/
def isWordCh (c : Char) : Bool := isAlpha c || c == '-'

/-- `[a-zA-Z\-\s]` : the prefix group -/
def isPfxCh (c : Char) : Bool := isWordCh c || isSpace c

/-- `[\d\:\.^\-^a-z^A-Z^\s]` : the `^` are literal members of the class -/
def isShortCh (c : Char) : Bool :=
  isDigit c || c == ':' || c == '.' || c == '^' || isPfxCh c

/-- `[\d\:\.\/^\-^a-z^A-Z^\s]` -/
def isLongCh (c : Char) : Bool := isShortCh c || c == '/'

/-- `[^\:^\.^\-^\s^\d^a-z^A-Z]` : a digit separator -/
def isSepCh (c : Char) : Bool := !(isShortCh c)

/-- `int(ds)` for a run of ASCII digits -/
def natOf (ds : Str) : Nat := ds.foldl (fun a c => a * 10 + digitVal c) 0

/-! ### the scanners -/

/-- groups `(prefix, rest)` of
`^(?P<prefix>[a-zA-Z\-\s]*)(?P<rest>CLS+)(?P<interface_class>\s+[a-zA-Z\-]+){0,1}$`
where `CLS ⊇ [a-zA-Z\-\s]`.  `rest` is greedy and every character of the optional third
group is in `CLS`, so `rest` runs to the end and the third group never takes part; the
prefix gives one character back when it would otherwise swallow the whole text. -/
def matchHead (cls : Char → Bool) (s : Str) : Option (Str × Str) :=
  if s = [] || !(s.all cls) then none
  else
    let r := s.dropWhile isPfxCh
    if r = [] then some (s.dropLast, s.drop (s.length - 1))
    else some (s.takeWhile isPfxCh, r)

/-- `re.search(r"^\D*(?P<port>\d+)", r)` -/
def firstDigits (r : Str) : Option Str :=
  let ds := (r.dropWhile (fun c => !isDigit c)).takeWhile isDigit
  if ds = [] then none else some ds

/-- `re.search(r"\<ch>(\d+)", r)` as an `int` -/
def searchAfter (ch : Char) : Str → Option Nat
  | [] => none
  | c :: cs =>
    if c = ch && (cs.takeWhile isDigit != []) then some (natOf (cs.takeWhile isDigit))
    else searchAfter ch cs

/-- `re.search(r"(?P<interface_class>\s+[a-zA-Z\-]+)$", r)`, stripped (as the
`interface_class` setter does): the trailing run of word characters, if it is not empty
and a whitespace character stands before it. -/
def classWord (r : Str) : Option Str :=
  let w := (r.reverse.takeWhile isWordCh).reverse
  match r.reverse.dropWhile isWordCh with
  | c :: _ => if isSpace c && w != [] then some w else none
  | [] => none

/-- what `parse_intf_short` / `parse_intf_long` return -/
structure Raw where
  pfx : Str
  sep : Option Char
  slot : Option Nat
  card : Option Nat
  port : Option Nat
  sub : Option Nat
  chan : Option Nat
  cls : Option Str
deriving Repr, DecidableEq

/-- the state of a constructed `CiscoIOSInterface` (`port` is always an `int` there) -/
structure Intf where
  pfx : Str
  sep : Option Char
  slot : Option Nat
  card : Option Nat
  port : Nat
  sub : Option Nat
  chan : Option Nat
  cls : Option Str
deriving Repr, DecidableEq

def parseShort (g : Str × Str) : Except Err Raw :=
  match firstDigits g.2 with
  | none => .error .noRegexMatch
  | some p =>
    .ok { pfx := strip g.1, sep := none, slot := none, card := none, port := some (natOf p),
          sub := searchAfter '.' g.2, chan := searchAfter ':' g.2, cls := classWord g.2 }

/-- one optional `(\d+)?` group -/
def optDigits (r : Str) : Option Nat × Str :=
  let ds := r.takeWhile isDigit
  if ds = [] then (none, r) else (some (natOf ds), r.dropWhile isDigit)

/-- one optional separator group -/
def optSep : Str → Option Char × Str
  | c :: cs => if isSepCh c then (some c, cs) else (none, c :: cs)
  | [] => (none, [])

/-- `^(?P<slot>\d+)(?P<sep1>SEP)?(?P<card>\d+)?(?P<sep2>SEP)?(?P<port>\d+)?` : every group after
`slot` is optional and greedy, so the first attempt succeeds.  Answer: slot, sep1, card, port. -/
def scanSlotCardPort (r : Str) : Option (Nat × Option Char × Option Nat × Option Nat) :=
  let ds := r.takeWhile isDigit
  if ds = [] then none else
  let s1 := optSep (r.dropWhile isDigit)
  let c := optDigits s1.2
  let s2 := optSep c.2
  let p := optDigits s2.2
  some (natOf ds, s1.1, c.1, p.1)

def parseLong (g : Str × Str) : Except Err Raw :=
  match scanSlotCardPort g.2 with
  | none => .error .invalidCiscoInterface
  | some (slot, sep1, card, port) =>
    -- "Handle Ethernet1/48, where 48 is initially assigned to _card (should be port)"
    let (card, port) := match card, port with
      | some c, none => (none, some c)
      | c, p => (c, p)
    -- `_sep2 = groupdict_slot_card_port["sep1"]` and `_slot` is an int by now: without a
    -- first separator every branch of the separator ladder falls through to the ValueError
    match sep1 with
    | none => .error .valueError
    | some sp =>
      .ok { pfx := strip g.1, sep := some sp, slot := some slot, card := card, port := port,
            sub := searchAfter '.' g.2, chan := searchAfter ':' g.2, cls := classWord g.2 }

/-- `update_internal_state` -/
def updateInternalState (r : Raw) : Except Err Intf :=
  match r.slot, r.port with
  | some s, some p => .ok { pfx := strip r.pfx, sep := r.sep, slot := some s, card := r.card, port := p,
                            sub := r.sub, chan := r.chan, cls := r.cls }
  | none, some p => .ok { pfx := strip r.pfx, sep := r.sep, slot := none, card := none, port := p,
                          sub := r.sub, chan := r.chan, cls := r.cls }
  | _, none => .error .invalidCiscoInterface

def parseSingle (name : Str) : Except Err Raw :=
  if name.contains ',' then .error .invalidCiscoInterface else
  let t := strip name
  match matchHead isShortCh t with
  | some g => parseShort g
  | none =>
    match matchHead isLongCh t with
    | some g => parseLong g
    | none => .error .invalidCiscoInterface

/-- `CiscoIOSInterface(name)` -/
def parse (name : Str) : Except Err Intf :=
  match parseSingle name with
  | .ok r => updateInternalState r
  | .error e => .error e

/-! ### rendering -/

/-- `f"{self.digit_separator}"` -/
def sepStr : Option Char → Str
  | some c => [c]
  | none => "None".toList

/-- the `number` property -/
def number (i : Intf) : Except Err Str :=
  match i.slot, i.card with
  | none, none => .ok (toDec i.port)
  | some s, none => .ok (toDec s ++ sepStr i.sep ++ toDec i.port)
  | some s, some c => .ok (toDec s ++ sepStr i.sep ++ toDec c ++ sepStr i.sep ++ toDec i.port)
  | none, some _ => .error .valueError

def optNum (mark : Char) : Option Nat → Str
  | some n => mark :: toDec n
  | none => []

def clsStr : Option Str → Str
  | some w => ' ' :: w
  | none => []

/-- `render_as_string` / `str()` / `.name` -/
def render (i : Intf) : Except Err Str :=
  match number i with
  | .ok n => .ok (i.pfx ++ n ++ optNum '.' i.sub ++ optNum ':' i.chan ++ clsStr i.cls)
  | .error e => .error e

/-! ### `sort_list`, comparison, hash -/

inductive Cell | none | int (n : Nat) | str (s : Str)
deriving Repr, DecidableEq

def cellOf : Option Nat → Cell
  | some n => .int n
  | none => .none

def sortList (i : Intf) : List Cell :=
  [cellOf i.slot, cellOf i.card, .int i.port, cellOf i.sub, cellOf i.chan,
   match i.cls with | some w => .str w | none => .none]

/-- `a < b` on Python `str` : lexicographic on code points -/
def strLt : Str → Str → Bool
  | [], [] => false
  | [], _ :: _ => true
  | _ :: _, [] => false
  | a :: as, b :: bs => if a = b then strLt as bs else a.toNat < b.toNat

def cellLt : Cell → Cell → Except Err Bool
  | .int a, .int b => .ok (a < b)
  | .str a, .str b => .ok (strLt a b)
  | _, _ => .error .typeError

/-- `l1 < l2` on Python lists: the first pair of unequal items decides, with `<` of the items -/
def listLt : List Cell → List Cell → Except Err Bool
  | [], [] => .ok false
  | [], _ :: _ => .ok true
  | _ :: _, [] => .ok false
  | a :: as, b :: bs => if a = b then listLt as bs else cellLt a b

/-- `__eq__` -/
def eq (a b : Intf) : Bool := a.pfx == b.pfx && sortList a == sortList b

/-- `__lt__` -/
def lt (a b : Intf) : Except Err Bool := listLt (sortList a) (sortList b)

/-- `__gt__` -/
def gt (a b : Intf) : Except Err Bool := listLt (sortList b) (sortList a)

def hashFrom : Nat → List Cell → Nat
  | _, [] => 0
  | idx, .int n :: cs => (idx + 1) ^ n + hashFrom (idx + 1) cs
  | idx, _ :: cs => hashFrom (idx + 1) cs

/-- the value returned by `__hash__` -/
def hashRaw (i : Intf) : Nat := hashFrom 0 (sortList i)

/-- `hash(obj)` on a 64-bit CPython: the value of `__hash__` itself when it fits a `Py_ssize_t`,
otherwise the hash of that `int`, i.e. the value modulo `2^61 - 1` -/
def pyHash (i : Intf) : Nat :=
  if hashRaw i < 2 ^ 63 then hashRaw i else hashRaw i % (2 ^ 61 - 1)

/-! ### `CiscoRange` on interface members -/

inductive Attr | chan | sub | port
deriving Repr, DecidableEq

/-- the loop over `['channel', 'subinterface', 'port', 'card', 'slot']`; `port` is always an int -/
def iterAttr (b : Intf) : Attr :=
  if b.chan.isSome then .chan else if b.sub.isSome then .sub else .port

def getAttr (i : Intf) : Attr → Option Nat
  | .chan => i.chan
  | .sub => i.sub
  | .port => some i.port

/-- `this_obj.<attr> = v` / `from_dict` with `iter_dict[<attr>] = v`.  (`port = None` cannot be
written by this code: the value comes from a constructed interface.) -/
def setAttr (i : Intf) (a : Attr) (v : Option Nat) : Intf :=
  match a with
  | .chan => { i with chan := v }
  | .sub => { i with sub := v }
  | .port => { i with port := v.getD i.port }

/-- `text.split()[-1]` -/
def lastWord (text : Str) : Option Str :=
  let w := ((rstrip text).reverse.takeWhile (fun c => !isSpace c)).reverse
  if w = [] then none else some w

/-- `int("".join(filter(str.isdigit, s)))` -/
def digitsOf (s : Str) : Option Nat :=
  let ds := s.filter isDigit
  if ds = [] then none else some (natOf ds)

/-! `re.split(r"(?<=\d)\s*-\s*(?=\d)", part)` : a part is cut only at a hyphen (with optional
whitespace around it) that stands between two digits, so `Port-channel1-3` is
`["Port-channel1", "3"]`.  Written as a one-pass automaton; a match can only start right
after a digit and consists of whitespace and one hyphen, so a failed attempt never hides a
later match. -/

inductive IvMode
  | other      -- the previous character is not a digit and no attempt is open
  | digit      -- the previous character is a digit
  | blanks     -- digit, then whitespace
  | hyphen     -- digit, whitespace*, '-', whitespace*
deriving Repr, DecidableEq

/-- `cur` is the current piece reversed (pending characters of an open attempt included),
`cut` is `cur` as it was when the open attempt started, `done` the finished pieces reversed -/
def splitIvGo : IvMode → Str → Str → List Str → Str → List Str
  | _, _, cur, done, [] => (cur.reverse :: done).reverse
  | .other, cut, cur, done, c :: cs =>
    splitIvGo (if isDigit c then .digit else .other) cut (c :: cur) done cs
  | .digit, cut, cur, done, c :: cs =>
    if isSpace c then splitIvGo .blanks cur (c :: cur) done cs
    else if c = '-' then splitIvGo .hyphen cur (c :: cur) done cs
    else splitIvGo (if isDigit c then .digit else .other) cut (c :: cur) done cs
  | .blanks, cut, cur, done, c :: cs =>
    if isSpace c then splitIvGo .blanks cut (c :: cur) done cs
    else if c = '-' then splitIvGo .hyphen cut (c :: cur) done cs
    else splitIvGo (if isDigit c then .digit else .other) cut (c :: cur) done cs
  | .hyphen, cut, cur, done, c :: cs =>
    if isSpace c then splitIvGo .hyphen cut (c :: cur) done cs
    else if isDigit c then splitIvGo .digit [] [c] (cut.reverse :: done) cs
    else splitIvGo .other cut (c :: cur) done cs

def splitIv (part : Str) : List Str := splitIvGo .other [] [] [] part

/-- one comma-separated part: the value of the iterated attribute written at its head, and the
end of the interval if there is an interval hyphen (`splitIv`).  `range(begin_ordinal, end_ordinal + 1)` needs an int
`begin_ordinal`, otherwise `TypeError`. -/
def partBounds (a : Attr) (part : Str) : Except Err (Option Nat × Option Nat) :=
  let pieces := splitIv part
  match parse (strip (pieces.headD [])) with
  | .error e => .error e
  | .ok o =>
    if pieces.length > 1 then
      match pieces with
      | [_, e] =>
        match digitsOf (strip e) with
        | none => .error .valueError
        | some hi =>
          match getAttr o a with
          | some lo => .ok (some lo, some hi)
          | none => .error .typeError
      | _ => .error .invalidCiscoRange
    else .ok (getAttr o a, none)

/-- the values one part contributes: `[v]`, or `range(lo, hi + 1)` -/
def expandBounds : Option Nat × Option Nat → List (Option Nat)
  | (v, none) => [v]
  | (some lo, some hi) => (Ccp.Range.upto lo hi).map some
  | (none, some _) => []      -- not produced by `partBounds`

/-- insertion into `sorted(set(...))`: an equal member is already there; `<` raises `TypeError`
when the first unequal items of the two `sort_list`s are `None` and an int -/
def insertMember (x : Intf) : List Intf → Except Err (List Intf)
  | [] => .ok [x]
  | y :: ys =>
    if eq x y then .ok (y :: ys) else
    match lt x y with
    | .error e => .error e
    | .ok true => .ok (x :: y :: ys)
    | .ok false =>
      match insertMember x ys with
      | .ok r => .ok (y :: r)
      | .error e => .error e

/-- `sorted(set(l))` on interfaces (`key=sort_list` and `__lt__` are the same comparison) -/
def sortedMembers : List Intf → Except Err (List Intf)
  | [] => .ok []
  | x :: xs =>
    match sortedMembers xs with
    | .ok r => insertMember x r
    | .error e => .error e

/-- the analysis of the text: begin object (with the class word of the whole text), iterated
attribute, and the bounds of every part -/
def plan (text : Str) : Except Err (Intf × Attr × List (Option Nat × Option Nat)) :=
  match splitOn ',' text with
  | [] => .error .indexError          -- unreachable: `split` never returns []
  | p0 :: rest =>
    match parse ((splitIv p0).headD []) with
    | .error e => .error e
    | .ok b0 =>
      let b : Intf := match lastWord text with
        | some w => if w.any isDigit then b0 else { b0 with cls := some (strip w) }
        | none => b0
      let a := iterAttr b
      match (p0 :: rest).mapM (partBounds a) with
      | .error e => .error e
      | .ok ps => .ok (b, a, ps)

/-- `CiscoRange(text, result_type=None).data` -/
def parseRange (text : Str) : Except Err (List Intf) :=
  if text = [] then .ok [] else
  if Ccp.Range.hasDoubleComma text then .error .invalidCiscoRange else
  match plan text with
  | .error e => .error e
  | .ok (b, a, ps) =>
    let members := (ps.flatMap expandBounds).map (setAttr b a)
    -- `attribute_sort` raises `ValueError()` for an empty list
    if members = [] then .error .valueError else sortedMembers members

/-! ### reading accessors: each returns the new `data` and the answer -/

/-- `as_list()` : `self.data` is replaced by a copy of itself; the answer is `sorted(set(data))` -/
def asList (data : List Intf) : List Intf × Except Err (List Intf) := (data, sortedMembers data)

/-- `as_set(result_type=str)` : the members as a set -/
def asSet (data : List Intf) : List Intf × Except Err (List Intf) := (data, sortedMembers data)

def len (data : List Intf) : List Intf × Nat := (data, data.length)

def iter (data : List Intf) : List Intf × List Intf := (data, data)

end Ccp.Intf
