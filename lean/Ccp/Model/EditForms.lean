import Ccp.Model.Edit
/-!
The other accepted input forms and the rejections of the editing API (C06), on top of
`Ccp.Model.Edit.step`:

* a line text may be handed over as a `str` or as a `BaseCfgLine` object (its `.text` is
  used): `ConfigList.insert`, list-level and object-level `insert_before/after`,
  `append_to_family`; anything else is rejected, with the exception class of that entry point;
* the `exist_val` of a list-level `insert_before/after` may be a `BaseCfgLine` that is not an
  element of the list: its text is then used as the regular expression (an element of the
  list names its own position — that is `Op.objInsBefore/After`);
* `ConfigList.insert` rejects an index that is not an `int`;
* `ConfigList.remove(obj)`: the line and all its descendants (`delete` at list level);
* a second `delete()` through a handle that has been deleted already (the stale handle
  keeps its old line number, text and descendants);
* `classify_family_indent` called directly; `replace_text` / `re_sub` on a line object that
  belongs to no configuration.

`stepX` mirrors the order of the checks in the code; `Ccp.Props.C06` proves how each form
reduces to `step`.
-/
namespace Ccp.Edit
open Ccp.Py Ccp.Tree

/-- a Python value handed to an editing call where a line text is expected -/
inductive Arg
  /-- a `str` -/
  | str (t : Str)
  /-- a `BaseCfgLine` with that text which is not an element of the edited list -/
  | line (t : Str)
  /-- any other value (`None`, an `int`, a list …) -/
  | other
deriving Repr, DecidableEq

def Arg.text? : Arg → Option Str
  | .str t => some t
  | .line t => some t
  | .other => none

/-- the argument of `ConfigList.remove` -/
inductive RemArg
  /-- the object with that committed line number -/
  | member (i : Nat)
  /-- a `BaseCfgLine` that is not in the list -/
  | foreign
  /-- not a `BaseCfgLine` -/
  | other
deriving Repr, DecidableEq

inductive ErrX
  | base (e : Err)
  | typeError
deriving Repr, DecidableEq

inductive OpX
  | base (op : Op)
  /-- `ConfigList.insert(index, value)`; `k = none`: the index is not an `int` -/
  | insertA (k : Option Int) (v : Arg)
  | objInsBeforeA (i : Nat) (v : Arg)
  | objInsAfterA (i : Nat) (v : Arg)
  /-- list-level `insert_before(exist_val, new_val)`: `row` = the lines matched by the regex
  that `pat` stands for (its text) -/
  | listInsBeforeA (pat : Arg) (row : List Bool) (v : Arg)
  | listInsAfterA (pat : Arg) (row : List Bool) (v : Arg)
  /-- `append_to_family` with a `BaseCfgLine` payload -/
  | appendToFamilyL (i : Nat) (txt : Str) (indent : Int) (autoIndent : Bool)
  | remove (v : RemArg)
  /-- `obj.delete(); obj.delete()` through the same handle -/
  | deleteTwice (i : Nat)
deriving Repr

def liftR (r : S × Except Err Unit) : S × Except ErrX Unit :=
  (r.1, match r.2 with | .ok u => .ok u | .error e => .error (.base e))

/-- the list-level insert itself, once the arguments have been accepted -/
def listInsCore (after : Bool) (s : S) (row : List Bool) (txt : Str) : S × Except ErrX Unit :=
  (autoCommit { s with items := insertAtMatches after (fresh txt) s.items row, dirty := true }, .ok ())

/-- list-level `insert_before/after` with both arguments in any form; the checks in the
order of the code: blank `str` payload under `ignore_blank_lines`, then `exist_val`, then
`new_val` -/
def listInsA (after : Bool) (s : S) (pat : Arg) (row : List Bool) (v : Arg) : S × Except ErrX Unit :=
  let blankStr := match v with
    | .str t => isBlank t && s.cfg.ignoreBlank
    | _ => false
  if blankStr then (s, .error (.base .invalidParameters))
  else
    let patOk := match pat with
      | .str p => !p.isEmpty
      | .line _ => true
      | .other => false
    if !patOk then (s, .error (.base .valueError))
    else match v.text? with
      | none => (s, .error (.base .valueError))
      | some t => listInsCore after s row t

/-- does the list hold an element that compares equal (`__eq__`: same line number and same
text) to the stale handle `(i, txt)` -/
def presentEq (items : List Item) (i : Nat) (txt : Str) : Bool :=
  items.any (fun it => it.id == some i && it.text == txt)

def stepX (s : S) : OpX → S × Except ErrX Unit
  | .base op => liftR (step s op)
  | .insertA none _ => (s, .error (.base .valueError))
  | .insertA (some k) v =>
    match v.text? with
    | none => (s, .error .typeError)
    | some t => liftR (step s (.insert k t))
  | .objInsBeforeA h v =>
    match v.text? with
    | some t => liftR (step s (.objInsBefore h t))
    | none =>
      match posOf s.items h with
      | none => (s, .error (.base .dirtyHandle))
      | some _ => (s, .error (.base .notImplemented))
  | .objInsAfterA h v =>
    match v.text? with
    | some t => liftR (step s (.objInsAfter h t))
    | none =>
      match posOf s.items h with
      | none => (s, .error (.base .dirtyHandle))
      | some _ => (s, .error (.base .notImplemented))
  | .listInsBeforeA pat row v => listInsA false s pat row v
  | .listInsAfterA pat row v => listInsA true s pat row v
  | .appendToFamilyL i txt ind autoIndent => liftR (step s (.appendToFamily i txt ind autoIndent))
  | .remove (.member i) => liftR (step s (.delete i))
  | .remove .foreign => (s, .error (.base .valueError))
  | .remove .other => (s, .error (.base .invalidParameters))
  | .deleteTwice i =>
    let r1 := step s (.delete i)
    match r1.2 with
    | .error e => (r1.1, .error (.base e))
    | .ok _ =>
      let s1 := r1.1
      if !presentEq s1.items i (s.texts.getD i []) then (s1, .error (.base .doesNotExist))
      else
        -- the stale handle still has its old descendants, with their old line numbers
        let dead := descendantsAndSelf s.tree i
        if dead.any (fun j => j ≥ s1.items.length) then (s1, .error (.base .indexError))
        else (autoCommit { s1 with items := eraseAll s1.items dead, dirty := true }, .ok ())

/-- `stepX` for a configuration parsed with `factory=True` (`factory = false`: without).  The typed-model factory
chooses the CLASS of a new line object; every editing call hands it `all_lines` and the line text and then works on
the object exactly as without the factory, so the flag changes no outcome.  (Before the repair `fix: ConfigList.insert()
passes all_lines to config_line_factory() under factory=True`, `ConfigList.insert` built the new line with
`config_line_factory(line=…, syntax=…)`, i.e. without `all_lines`, which that function rejects: `insert` -- and
`append_to_family`, which inserts through it -- always raised `InvalidParameters` under the factory: finding F10e.) -/
def stepF (_factory : Bool) (s : S) (op : OpX) : S × Except ErrX Unit := stepX s op

def runX (factory : Bool) (s : S) : List OpX → S
  | [] => s
  | op :: ops => runX factory (stepF factory s op).1 ops

/-! ### calls that are not part of a history -/

/-- `obj.classify_family_indent(arg)` for an object of indent `selfIndent`: only a `str` is
accepted (a `BaseCfgLine` too is `InvalidParameters`) -/
def cfiArg (width selfIndent : Nat) : Arg → Except ErrX Int
  | .str t =>
    match cfi width selfIndent t with
    | some k => .ok k
    | none => .error (.base .notImplemented)
  | _ => .error (.base .invalidParameters)

/-- an editing call on a line object that belongs to no configuration -/
inductive DetOp
  | replaceText (before after : Str)
  /-- `re_sub`: the substituted text is oracle data, as in `Op.reSub` -/
  | reSub (newText : Str)
deriving Repr

def detStep (txt : Str) : DetOp → Str
  | .replaceText b a => pyReplace b a txt
  | .reSub new => new

end Ccp.Edit
