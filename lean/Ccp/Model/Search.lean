import Ccp.Model.Tree
/-!
Model of the search APIs of `CiscoConfParse` (ciscoconfparse2.py) and of
`BaseCfgLine.re_search_children` / `has_child_with` (ccp_abc.py), as the code is
after the repairs F03–F06 and FC04a–FC04d.

The regular expression is data supplied by the caller.  Every function takes, per
regex of the request, a *row* `List Bool`: entry `i` says whether
`re.search(rx, text_i)` succeeds on line `i` of the parsed config (with the flag
reading of the request already applied to `rx`: `exactmatch`, `ignore_ws`,
`escape_chars`).  The model is what the library does *around* the regex engine:
where it looks, how it grows branches, what it does with the answers.

Results are line numbers; a branch is a list of `Option Nat` (`none` = Python `None`).
-/
namespace Ccp.Search
open Ccp.Py Ccp.Tree

inductive Err | valueError | indexError | invalidParameters
deriving Repr, DecidableEq

abbrev Row := List Bool

/-- `re.search(rx, objs[i].text) is not None` -/
def hit (r : Row) (i : Nat) : Bool := r.getD i false

/-- `_find_line_OBJ`: `filter(lambda obj: linespec_re.search(obj.text), self.config_objs)` -/
def findLineObj (t : T) (r : Row) : List Nat := (List.range t.size).filter (hit r)

/-- `find_objects(linespec, …, reverse)` for a string `linespec` -/
def findObjects (t : T) (r : Row) (reverse : Bool) : List Nat :=
  let l := findLineObj t r
  if reverse then l.reverse else l

/-- `find_objects([linespec], …)`: a list must hold exactly one expression -/
def findObjectsList (t : T) (rs : List Row) (reverse : Bool) : Except Err (List Nat) :=
  match rs with
  | [r] => .ok (findObjects t r reverse)
  | _ => .error .invalidParameters

abbrev Branch := List (Option Nat)

/-- `_find_child_object_branches(parent_obj, childspec)`: the candidates are the whole
config (already filtered once by `_find_line_OBJ`) for `parent_obj=None`, else the direct
children; `[None]` when nothing matches -/
def findChildObjectBranches (t : T) (parent : Option Nat) (r : Row) : List (Option Nat) :=
  let cands := match parent with
    | none => findLineObj t r
    | some p => children t p
  let seg := cands.filter (hit r)
  if seg.isEmpty then [none] else seg.map some

/-- body of `for branch in branches:` — fork the branch once per matching kid
(`copy.copy` + `append`), or pad a dead branch with `None` -/
def extend (t : T) (r : Row) (b : Branch) : List Branch :=
  match b.getLast? with
  | some (some p) => (findChildObjectBranches t (some p) r).map (fun k => b ++ [k])
  | _ => [b ++ [none]]

/-- one iteration `idx > 0` of `for idx, childspec in enumerate(branchspec)` -/
def growStep (t : T) (bs : List Branch) (r : Row) : List Branch := bs.flatMap (extend t r)

/-- `any(ii is None for ii in branch)` -/
def hasNone (b : Branch) : Bool := b.any Option.isNone

/-- `find_object_branches(branchspec, empty_branches=…, reverse=…)` (`regex_flags=0`,
`regex_groups=False`) -/
def findObjectBranches (t : T) (rs : List Row) (emptyBranches reverse : Bool) :
    Except Err (List Branch) :=
  match rs with
  | r0 :: r1 :: rest =>
    let b0 := (findChildObjectBranches t none r0).map (fun k => [k])
    let bs := (r1 :: rest).foldl (growStep t) b0
    let kept := if emptyBranches then bs else bs.filter (fun b => !hasNone b)
    .ok (if reverse then kept.reverse else kept)
  | _ => .error .valueError

/-- `_obj_branch[0]` / `_obj_branch[-1]` of a branch without `None` -/
def firstOf (b : Branch) : Option Nat := b.head?.bind id
def lastOf (b : Branch) : Option Nat := b.getLast?.bind id

/-- `find_parent_objects([r0, r1, …], reverse=…)`.  `escape_chars` / `ignore_ws` are applied to
every expression of the list (they are part of the rows); one expression is handed to
`find_objects(parentspec[0], reverse=reverse)`; otherwise `sorted(set(branch[0] …), reverse=reverse)`. -/
def findParentObjectsList (t : T) (rs : List Row) (reverse : Bool) : Except Err (List Nat) :=
  match rs with
  | [] => .error .valueError
  | [r] => .ok (findObjects t r reverse)
  | _ =>
    match findObjectBranches t rs false false with
    | .ok bs =>
      let l := sortDedup (bs.filterMap firstOf)
      .ok (if reverse then l.reverse else l)
    | .error e => .error e

/-- `find_child_objects([r0, r1, …], reverse=…)`: `sorted(set(branch[-1] …), reverse=reverse)` -/
def findChildObjectsList (t : T) (rs : List Row) (reverse : Bool) : Except Err (List Nat) :=
  match rs with
  | [] => .error .valueError
  | [r] => .ok (findObjects t r reverse)
  | _ =>
    match findObjectBranches t rs false false with
    | .ok bs =>
      let l := sortDedup (bs.filterMap lastOf)
      .ok (if reverse then l.reverse else l)
    | .error e => .error e

/-- `obj.children` or `obj.all_children` -/
def offspring (t : T) (recurse : Bool) (p : Nat) : List Nat :=
  if recurse then allChildren t p else children t p

/-- `BaseCfgLine.re_search_children(regex, recurse)` -/
def reSearchChildren (t : T) (p : Nat) (crow : Row) (recurse : Bool) : List Nat :=
  (offspring t recurse p).filter (hit crow)

/-- `find_parent_objects(parentspec, childspec, recurse=…, reverse=…)` -/
def findParentObjects2 (t : T) (prow crow : Row) (recurse reverse : Bool) : List Nat :=
  (findObjects t prow reverse).filter (fun p => !(reSearchChildren t p crow recurse).isEmpty)

/-- `find_child_objects(parentspec, childspec, recurse=…, reverse=…)`: the matching
(all-)children of every matching parent go into a set which is returned
`sorted(retval, reverse=reverse)` -/
def findChildObjects2 (t : T) (prow crow : Row) (recurse reverse : Bool) : List Nat :=
  let l := sortDedup ((findObjects t prow reverse).flatMap (fun p => reSearchChildren t p crow recurse))
  if reverse then l.reverse else l

/-- `find_parent_objects_wo_child(parentspec, childspec, recurse=…, reverse=…)` -/
def findParentObjectsWoChild2 (t : T) (prow crow : Row) (recurse reverse : Bool) : List Nat :=
  (findObjects t prow reverse).filter (fun p => (reSearchChildren t p crow recurse).isEmpty)

/-- `find_parent_objects_wo_child([p, c], …)` as the code behaves (F07): after
`parentspec = parentspec[0]` the child expression is `parentspec[1]`, the second
*character* of `p`; `p1` is the row of that one-character expression, `none` when `p`
is shorter than two characters (`IndexError`).  The row of `c` is never consulted. -/
def findParentObjectsWoChildList (t : T) (rs : List Row) (p1 : Option Row)
    (recurse reverse : Bool) : Except Err (List Nat) :=
  match rs with
  | [prow, _] =>
    match p1 with
    | none => .error .indexError
    | some crow => .ok (findParentObjectsWoChild2 t prow crow recurse reverse)
  | _ => .error .invalidParameters

/-- `CiscoConfParse.re_search_children(regexspec, recurse)`: matching roots, or every
matching line -/
def reSearchChildrenRoot (t : T) (r : Row) (recurse : Bool) : List Nat :=
  if recurse then findObjects t r false
  else (findObjects t r false).filter (fun i => parentOf t i == i)

/-- `BaseCfgLine.has_child_with(linespec, all_children)`: some offspring has
`cobj.re_search(linespec, default=None) is not None` -/
def hasChildWith (t : T) (p : Nat) (crow : Row) (allCh : Bool) : Bool :=
  ((offspring t allCh p).filter (hit crow)).length != 0

end Ccp.Search
