import Ccp.Model.Search
/-!
Argument handling of the search APIs of `CiscoConfParse` (ciscoconfparse2.py) — the part of
`find_objects`, `find_object_branches`, `find_parent_objects`, `find_child_objects`,
`find_parent_objects_wo_child`, `CiscoConfParse.re_search_children` and
`BaseCfgLine.has_child_with` that runs *before* the search proper (`Ccp.Search`):

* the other accepted spellings of an expression: a compiled `re.Pattern`, a `BaseCfgLine`
  (its `text` becomes the expression; for `find_objects` the lines equal to it are returned),
  a tuple instead of a list, a missing (`None`) or ill-typed (`int`) argument;
* the `isinstance` ladders and the order in which the checks are made (typeguard on the
  annotated parameters — it inspects only the first element of a list/tuple —, the
  `search_safe` refusal while an uncommitted `ConfigList.insert` is pending, `re.escape`
  on a non-string, `build_space_tolerant_regex` on a non-string, …);
* the exception class raised by each rejection.

As in `Ccp.Search` the regex engine is an oracle: every argument carries the row of the
expression *the code ends up evaluating* for it (computed by the harness with Python's `re`).
-/
namespace Ccp.SearchForms
open Ccp.Py Ccp.Tree Ccp.Search

/-- Python exception classes raised by the argument handling -/
inductive FErr
  | valueError | typeError | indexError | invalidParameters | notImplementedError | typeCheckError
deriving Repr, DecidableEq

def FErr.ofSearch : Search.Err → FErr
  | .valueError => .valueError
  | .indexError => .indexError
  | .invalidParameters => .invalidParameters

def liftErr {α : Type} : Except Search.Err α → Except FErr α
  | .ok a => .ok a
  | .error e => .error (FErr.ofSearch e)

/-- how the caller wrote one expression: `str`, `re.compile(..)`, a `BaseCfgLine`, `None`
(argument omitted) or an `int` -/
inductive Kind | str | pat | line | none | int
deriving Repr, DecidableEq

/-- one expression argument.  `row` = `re.search` of the expression the code evaluates for it on
every line (`str` / `pat`: the expression under the flags of the request; `line`: its `text` used
as an expression).  `num`, `text`: the `linenum` and `text` of a `line` argument. -/
structure Arg where
  kind : Kind
  row : Row := []
  num : Nat := 0
  text : Str := []

/-- a `str` expression with row `r` -/
def strArg (r : Row) : Arg := { kind := .str, row := r }
/-- `re.compile(..)` with row `r` -/
def patArg (r : Row) : Arg := { kind := .pat, row := r }
/-- the `BaseCfgLine` with `linenum = n`, `text = txt`; `r` = row of `txt` used as an expression -/
def lineArg (r : Row) (n : Nat) (txt : Str) : Arg := { kind := .line, row := r, num := n, text := txt }

/-- the first positional argument: one expression, a list, or a tuple -/
inductive First
  | one (a : Arg)
  | list (l : List Arg)
  | tuple (l : List Arg)

/-- keyword arguments of the request and the state of the `ConfigList`:
`pend` = `search_safe is False` (an insert is not committed yet) -/
structure Opts where
  exact : Bool := false
  ws : Bool := false
  esc : Bool := false
  rev : Bool := false
  rec_ : Bool := false
  emp : Bool := false
  pend : Bool := false

/-- `re.escape(x)` (in `escape_linespec`) raises `TypeError` unless `x` is a `str` -/
def escOk (k : Kind) : Bool := k == .str
/-- `build_space_tolerant_regex(x)` raises `ValueError` unless `x` is a `str` -/
def wsOk (k : Kind) : Bool := k == .str
/-- `re.search(x, text)` / `re.compile(x)` raise `TypeError` unless `x` is a `str` or a `re.Pattern` -/
def rxOk (k : Kind) : Bool := k == .str || k == .pat

def revIf (b : Bool) (l : List Nat) : List Nat := if b then l.reverse else l

/-- `[obj for obj in self.objs if obj == linespec]`: equality of `BaseCfgLine` is equality of the
`(linenum, text)` pair (F03) -/
def eqLines (t : T) (a : Arg) : List Nat :=
  (List.range t.size).filter (fun j => j == a.num && t.texts.getD j [] == a.text)

/-- `find_objects(linespec, ignore_ws=ws, escape_chars=esc, reverse=rev)` for a single (non-list)
`linespec`, called while `search_safe is (not pend)`.  `exactmatch` is part of the row. -/
def findObjectsArg (t : T) (a : Arg) (ws esc rev pend : Bool) : Except FErr (List Nat) :=
  -- @typechecked: Union[str, re.Pattern, BaseCfgLine, List[str], List[re.Pattern]]
  if !(rxOk a.kind || a.kind == .line) then .error .typeCheckError
  else if esc && !escOk a.kind then .error .typeError
  else if pend then .error .notImplementedError
  else if ws && !wsOk a.kind then .error .valueError
  else if rxOk a.kind then .ok (findObjects t a.row rev)
  else .ok (revIf rev (eqLines t a))

/-- `find_objects(linespec, exactmatch, ignore_ws, escape_chars, reverse)`.  A list must hold exactly
one `str` / `re.Pattern` (typeguard has looked at its first element only). -/
def findObjectsF (t : T) (f : First) (o : Opts) : Except FErr (List Nat) :=
  match f with
  | .one a => findObjectsArg t a o.ws o.esc o.rev o.pend
  | .tuple _ => .error .typeCheckError
  | .list [] => .error .invalidParameters
  | .list [a] => if rxOk a.kind then findObjectsArg t a o.ws o.esc o.rev o.pend else .error .typeCheckError
  | .list (a :: _) => if rxOk a.kind then .error .invalidParameters else .error .typeCheckError

/-- `find_object_branches(branchspec, empty_branches, reverse)` for a list or a tuple of `str`
expressions: the `search_safe` refusal comes before the length check; a list is turned into a
tuple, so both spellings answer alike -/
def findObjectBranchesF (t : T) (_tuple : Bool) (rs : List Row) (o : Opts) : Except FErr (List Branch) :=
  if o.pend then .error .notImplementedError
  else liftErr (findObjectBranches t rs o.emp o.rev)

/-- `find_parent_objects([r0, r1, …], ignore_ws, escape_chars, reverse)` for a list of `str` -/
def findParentObjectsListF (t : T) (rs : List Row) (o : Opts) : Except FErr (List Nat) :=
  if o.pend then .error .notImplementedError
  else liftErr (findParentObjectsList t rs o.rev)

/-- does evaluating `re.search(childspec, child.text)` over the offspring of the lines `ps` reach
at least one child?  (an ill-typed `childspec` raises only then) -/
def anyOffspring (t : T) (recurse : Bool) (ps : List Nat) : Bool :=
  ps.any (fun q => !(offspring t recurse q).isEmpty)

/-- `find_parent_objects(parentspec, childspec, ignore_ws, recurse, escape_chars, reverse)`, two-argument
form.  @typechecked: `parentspec: Union[str, re.Pattern, List[str]]`, `childspec: Union[str, None]`;
a compiled `parentspec` passes typeguard and is then refused by the `isinstance` ladder. -/
def findParentObjects2F (t : T) (p c : Arg) (o : Opts) : Except FErr (List Nat) :=
  if !(rxOk p.kind) || !(c.kind == .str || c.kind == .none) then .error .typeCheckError
  else if o.pend then .error .notImplementedError
  else if o.esc && !(escOk p.kind && escOk c.kind) then .error .typeError
  else if p.kind != .str then .error .invalidParameters
  else if o.ws && !wsOk c.kind then .error .valueError
  else if rxOk c.kind then .ok (findParentObjects2 t p.row c.row o.rec_ o.rev)
  else if anyOffspring t o.rec_ (findObjects t p.row o.rev) then .error .typeError
  else .ok []

/-- `find_child_objects(parentspec, childspec, ignore_ws, recurse, escape_chars, reverse)` — not
type-checked.  List / tuple: every element is escaped / made whitespace tolerant, one element goes to
`find_objects(parentspec[0], reverse=reverse)`, more go to `find_object_branches` (typeguard there:
the first element must be a `str`; elements that are neither `str` nor `re.Pattern` are not
generated and answered `TypeError` here).  Otherwise a `BaseCfgLine` parent is replaced by its text; a
`BaseCfgLine` *child* overwrites `parentspec` with the child's text and stays the child expression. -/
def findChildObjectsF (t : T) (f : First) (c : Arg) (o : Opts) : Except FErr (List Nat) :=
  if o.pend then .error .notImplementedError else
  let coll (l : List Arg) : Except FErr (List Nat) :=
    if o.esc && l.any (fun a => !escOk a.kind) then .error .typeError
    else if l.isEmpty then .error .valueError
    else if o.ws && l.any (fun a => !wsOk a.kind) then .error .valueError
    else match l with
      | [a] => findObjectsArg t a false false o.rev false
      | a :: _ =>
        if a.kind != .str then .error .typeCheckError
        else if l.any (fun a => !rxOk a.kind) then .error .typeError
        else liftErr (findChildObjectsList t (l.map (·.row)) o.rev)
      | [] => .error .valueError
  match f with
  | .list l => coll l
  | .tuple l => coll l
  | .one p =>
    if o.esc && !(escOk p.kind && escOk c.kind) then .error .typeError
    else if !(p.kind == .str || p.kind == .line) then .error .invalidParameters
    else if o.ws && !wsOk c.kind then .error .valueError
    else
      let prow := if c.kind == .line then c.row else p.row
      if rxOk c.kind then .ok (findChildObjects2 t prow c.row o.rec_ o.rev)
      else if anyOffspring t o.rec_ (findObjects t prow o.rev) then .error .typeError
      else .ok []

/-- the part of `find_parent_objects_wo_child` after the list form has been unpacked -/
def woChildCore (t : T) (tuple : Bool) (p c : Arg) (o : Opts) : Except FErr (List Nat) :=
  if !rxOk c.kind then .error .invalidParameters
  else if o.pend then .error .notImplementedError
  else if o.esc && !(!tuple && escOk p.kind && escOk c.kind) then .error .typeError
  else if tuple then .error .invalidParameters
  else if o.ws && !((p.kind == .str || p.kind == .line) && wsOk c.kind) then .error .valueError
  else if !(rxOk p.kind || p.kind == .line) then .error .typeCheckError   -- find_objects(parentspec) is type-checked
  else .ok (findParentObjectsWoChild2 t p.row c.row o.rec_ o.rev)

/-- `find_parent_objects_wo_child(parentspec, childspec, ignore_ws, recurse, escape_chars, reverse)`.
List form (F07): `parentspec = parentspec[0]; childspec = parentspec[1]` — the second *character*
of a `str` parent (`p1` = its row, `none` = `IndexError`), `TypeError` for a compiled parent
(not subscriptable).  A tuple reaches the `isinstance(parentspec, (list, tuple))` refusal. -/
def findParentObjectsWoChildF (t : T) (f : First) (c : Arg) (p1 : Option Row) (o : Opts) :
    Except FErr (List Nat) :=
  match f with
  | .one p => woChildCore t false p c o
  | .tuple _ => woChildCore t true { kind := .str } c o
  | .list [a, b] =>
    if rxOk a.kind && rxOk b.kind then
      if a.kind == .pat then .error .typeError
      else match p1 with
        | none => .error .indexError
        | some r => woChildCore t false a { kind := .str, row := r } o
    else .error .invalidParameters
  | .list _ => .error .invalidParameters

/-- `CiscoConfParse.re_search_children(regexspec, recurse)` = `find_objects(regexspec)`, roots only
unless `recurse` -/
def reSearchChildrenRootF (t : T) (a : Arg) (o : Opts) : Except FErr (List Nat) :=
  match findObjectsArg t a false false false o.pend with
  | .ok l => .ok (if o.rec_ then l else l.filter (fun i => parentOf t i == i))
  | .error e => .error e

/-- `obj.has_child_with(linespec, all_children)`: `cobj.re_search(linespec, default=None)` is evaluated
for every offspring, so the `search_safe` refusal and the `TypeError` of an ill-typed `linespec`
need at least one offspring -/
def hasChildWithF (t : T) (p : Nat) (a : Arg) (o : Opts) : Except FErr Bool :=
  if (offspring t o.rec_ p).isEmpty then .ok false
  else if o.pend then .error .notImplementedError
  else if !rxOk a.kind then .error .typeError
  else .ok (hasChildWith t p a.row o.rec_)

/-- `[o for o in parse.objs if o.has_child_with(linespec, all_children)]` -/
def hasChildWithAll (t : T) (a : Arg) (o : Opts) : Except FErr (List Nat) :=
  (List.range t.size).foldr (fun p acc =>
    match hasChildWithF t p a o with
    | .error e => .error e
    | .ok b => match acc with
      | .error e => .error e
      | .ok l => .ok (if b then p :: l else l)) (.ok [])

/-- sequence the per-line answers of a method called on every line object, first error wins -/
def forLines {α : Type} (t : T) (f : Nat → Except FErr α) : Except FErr (List α) :=
  (List.range t.size).foldr (fun p acc =>
    match f p with
    | .error e => .error e
    | .ok b => match acc with
      | .error e => .error e
      | .ok l => .ok (b :: l)) (.ok [])

/-- `obj.re_search(regex, default=None) is not None` for line `i` (the returned value is the text) -/
def reSearchF (_t : T) (i : Nat) (a : Arg) (o : Opts) : Except FErr Bool :=
  if o.pend then .error .notImplementedError
  else if !rxOk a.kind then .error .typeError
  else .ok (hit a.row i)

/-- `obj.re_search_children(regex, recurse)` called on line `p`: the refusal comes first; an
ill-typed `regex` raises when the first offspring is examined -/
def reSearchChildrenObjF (t : T) (p : Nat) (a : Arg) (o : Opts) : Except FErr (List Nat) :=
  if o.pend then .error .notImplementedError
  else if !rxOk a.kind then
    (if (offspring t o.rec_ p).isEmpty then .ok [] else .error .typeError)
  else .ok (reSearchChildren t p a.row o.rec_)

/-! ### `find_object_branches(regex_groups=True)` -/

/-- an item of a cell: `None`, a line object, or the text of a capture group -/
inductive Item
  | none
  | line (i : Nat)
  | str (s : Str)
deriving Repr, DecidableEq

/-- a cell of a `regex_groups=True` row: a tuple or a list of items -/
structure Cell where
  isTuple : Bool
  items : List Item
deriving Repr, DecidableEq

/-- `re.search(branchspec[idx], text).groups()` — `none`: no match; a group that did not
participate is `none` inside the list -/
abbrev Groups := Option (List (Option Str))
/-- the group oracle: per expression, per line of the config -/
abbrev GroupTable := List (List Groups)

def groupsAt (g : GroupTable) (idx i : Nat) : Groups := (g.getD idx []).getD i none

/-- a capture group as an item of a cell -/
def itemOf : Option Str → Item
  | none => .none
  | some s => .str s

/-- the body of `for idx, element in enumerate(row)` -/
def cellOf (g : GroupTable) (idx : Nat) (el : Option Nat) : Cell :=
  match el with
  | none => ⟨true, [.none]⟩                       -- return_row[idx] = (None,)
  | some i =>
    match groupsAt g idx i with
    | none => ⟨false, [.none]⟩                    -- [None,] (needs regex_flags; not generated)
    | some [] => ⟨false, [.line i]⟩               -- no capture groups: [element,]
    | some gs => ⟨true, gs.map itemOf⟩

/-- `Branch.__init__`: `if isinstance(ii, list): self.data[idx] = tuple(ii)` -/
def branchInit (c : Cell) : Cell := { c with isTuple := true }

/-- `Branch(return_row)` for one grown branch -/
def rowCells (g : GroupTable) (b : Branch) : List Cell :=
  ((List.range b.length).zip b).map (fun ie => branchInit (cellOf g ie.1 ie.2))

/-- `find_object_branches(branchspec, regex_groups=True, empty_branches, reverse)`: the grown branches -- all of
them, complete or padded with `None`, when `empty_branches`, otherwise only the complete ones (the partial branches
are dropped BEFORE the conversion) -- become rows of cells.  The later `any(ii is None for ii in branch)` looks at
cells -- tuples and lists, never `None` -- and discards nothing more.  (Before the repair `fix:
find_object_branches(regex_groups=True) drops partial branches unless empty_branches=True` that later filter was the
only one, so `empty_branches=False` had no effect and the padded rows were returned: finding FC04f.) -/
def findObjectBranchesGroups (t : T) (rs : List Row) (g : GroupTable) (emp rev pend : Bool) :
    Except FErr (List (List Cell)) :=
  if pend then .error .notImplementedError
  else match findObjectBranches t rs emp false with
    | .error e => .error (FErr.ofSearch e)
    | .ok bs =>
      let m := bs.map (rowCells g)
      .ok (if rev then m.reverse else m)

end Ccp.SearchForms
