import Ccp.Py.Basic
import Ccp.Model.IPVal
import Ccp.Model.Mac
import Ccp.Model.Diff
/-!
# Model of `ciscoconfparse2/cli_script.py` — C18

What `CliApplication.__init__` does with an already parsed `argparse.Namespace`, i.e. what
ends up in `CliApplication.stdout` (the list that `print_all_stdout` prints line by line):

* `ipgrep`  : option defaults (`-4`/`-6`, `--show-networks` implies `--show-cidr`), the
  `--subnets` list, word mode (`find_ip46_addr_matches`: for word, for subnet; the unique
  bookkeeping; which of address / CIDR address / network is appended; the two exclusion
  checks) and line mode (`find_ip46_line_matches` with its `append_line` / `exclude_line`
  flags);
* `macgrep` : `MACEUISearch` (classification with `macaddress.parse(word, MAC, EUI64)`, then
  `MACObj` / `EUI64Obj`), `search_all_formats` over dash / colon / cisco / undelimited text,
  word mode with `--unique`, line mode;
* `parent`, `child`, `branch`, `diff` : which arguments are handed to which API call and
  what is done with the answer.

`argparse`, file I/O (`open().read()` with universal newlines) and the `rich` header lines
(which go to the console, not to `stdout`) are **not** modelled.  External calls are
parameters of the model and universally quantified in the theorems:

* `re.split(word_delimiter, s)`, `re.search(rgx, s, re.I)` — the regex engine;
* `IPv4Obj(word)` / `IPv6Obj(word)` — text → `(int(ip), prefixlen)` or "raises" (C11);
  the *object* (`network_object`, `in`) is `Ccp.IPVal`'s, proved in C12;
* `str(ipaddress.IPv4Address(n))` / `IPv6Address` — address text (C11);
* the `CiscoConfParse` / `Diff` API (C04, C10) for the four sub-commands.

MAC parsing and renderings are `Ccp.Mac`'s (C16); `str.splitlines` is `Ccp.Diff.splitlines`.
-/
namespace Ccp.Cli
open Ccp.Py

/-- exception classes that leave `CliApplication.__init__`; `parser.error()` is
`SystemExit`; an exception raised inside an API call passes through unchanged -/
inductive Err
  | systemExit
  | valueError
  | notImplemented
  | attributeError
  | indexError
  | api (cls : Str)
  deriving DecidableEq, Repr

inductive Ver | v4 | v6
  deriving DecidableEq, Repr

def Ver.fam : Ver → IPVal.Fam
  | .v4 => IPVal.v4
  | .v6 => IPVal.v6

/-- `IPv4Address._max_prefixlen` / `IPv6Address…`: the literals 32 and 128 of the exclusion checks -/
def Ver.hostLen : Ver → Nat
  | .v4 => 32
  | .v6 => 128

/-- an `IPv4Obj` / `IPv6Obj`: `.version` and the value-level object of `Ccp.IPVal` -/
structure Addr where
  ver : Ver
  o : IPVal.Obj
  deriving DecidableEq, Repr

/-- the external calls of the two greps -/
structure Oracle where
  /-- `re.split(self.word_delimiter, s)` -/
  split : Str → List Str
  /-- `IPv4Obj(w)`: `(int(obj.ip), obj.prefixlen)`, `none` when the constructor raises -/
  ip4 : Str → Option (Nat × Nat)
  /-- `IPv6Obj(w)` -/
  ip6 : Str → Option (Nat × Nat)
  /-- `str(ipaddress.IPv4Address(n))` / `str(ipaddress.IPv6Address(n))` -/
  txt : Ver → Nat → Str
  /-- `re.search(rgx, s, re.I) is not None` -/
  rx : Str → Str → Bool

/-- `IPv4Obj(w)` if `v = 4` else `IPv6Obj(w)`; `none` = the `except Exception: continue` -/
def mkAddr (O : Oracle) (v : Ver) (w : Str) : Option Addr :=
  match v with
  | .v4 => (O.ip4 w).map (fun p => ⟨.v4, IPVal.ofIpLen IPVal.v4 p.1 p.2⟩)
  | .v6 => (O.ip6 w).map (fun p => ⟨.v6, IPVal.ofIpLen IPVal.v6 p.1 p.2⟩)

/-- `addr in subnet`: `type(subnet).__contains__(subnet, addr)` -/
def containsA (s a : Addr) : Bool :=
  match s.ver with
  | .v4 => IPVal.contains4 IPVal.v4 s.o a.o
  | .v6 => IPVal.contains6 IPVal.v6 s.o a.o

/-- `(addr.version == subnet.version) and (addr in subnet)` -/
def hitA (s a : Addr) : Bool := (a.ver == s.ver) && containsA s a

/-! ### renderings -/

def slash : Str := ['/']

/-- `str(addr.ip)` -/
def ipText (O : Oracle) (a : Addr) : Str := O.txt a.ver a.o.ip
/-- `addr.as_cidr_addr = str(self.ip) + "/" + str(self.prefixlen)` -/
def cidrAddr (O : Oracle) (a : Addr) : Str := O.txt a.ver a.o.ip ++ slash ++ toDec a.o.len
/-- `addr.as_cidr_net = str(self.network)` -/
def cidrNet (O : Oracle) (a : Addr) : Str := O.txt a.ver a.o.net ++ slash ++ toDec a.o.len

structure Opts where
  showCidr : Bool
  showNetworks : Bool
  excludeHosts : Bool
  /-- `getattr(args, 'exclude_networks', False)`: there is no such option, so always `False` -/
  excludeNetworks : Bool
  unique : Bool
  deriving Repr, DecidableEq

/-- the three-way `if self.show_networks … elif … elif …` that picks what is appended -/
def render (O : Oracle) (o : Opts) (a : Addr) : Str :=
  if o.showNetworks then cidrNet O a
  else if !o.showCidr && !o.showNetworks then ipText O a
  else cidrAddr O a

/-- the text looked up in `retval` by the `--unique` branch (`str(…) not in retval`) -/
def uniqueKey (O : Oracle) (o : Opts) (a : Addr) : Str :=
  if o.showCidr = false then
    (if o.showNetworks = false then ipText O a else cidrNet O a)
  else
    (if o.showNetworks = false then cidrAddr O a else cidrNet O a)

/-- `check_ip46_host_exclusion_args` -/
def hostExcluded (O : Oracle) (o : Opts) (a : Addr) : Bool :=
  if o.excludeHosts then
    if a.ver = .v4 ∧ a.o.len = 32 then true
    else if a.ver = .v6 ∧ a.o.len = 128 then true
    else if !o.showNetworks then cidrNet O a != cidrAddr O a
    else false
  else false

/-- `check_ip46_net_exclusion_args` -/
def netExcluded (o : Opts) (a : Addr) : Bool :=
  if o.excludeNetworks then
    if a.ver = .v4 ∧ a.o.len = 32 then false
    else if a.ver = .v6 ∧ a.o.len = 128 then false
    else true
  else false

/-! ### `find_ip46_addr_matches` -/

/-- `for subnet in subnets:` for one word, `unique_matches=False`: an excluded hit goes on
with the next subnet, the first kept hit is appended and `break`s -/
def wordPlain (O : Oracle) (o : Opts) (w : Str) : List Addr → Option Str
  | [] => none
  | s :: rest =>
    match mkAddr O s.ver w with
    | none => wordPlain O o w rest
    | some a =>
      if hitA s a then
        if netExcluded o a then wordPlain O o w rest
        else if hostExcluded O o a then wordPlain O o w rest
        else some (render O o a)
      else wordPlain O o w rest

/-- `for subnet in subnets:` for one word, `unique_matches=True` (no `break`); `acc` is `retval` -/
def wordUnique (O : Oracle) (o : Opts) (w : Str) : List Addr → List Str → List Str
  | [], acc => acc
  | s :: rest, acc =>
    match mkAddr O s.ver w with
    | none => wordUnique O o w rest acc
    | some a =>
      if hitA s a then
        let appendAddr := !(acc.contains (uniqueKey O o a))
        if appendAddr then
          if hostExcluded O o a then wordUnique O o w rest acc
          else if netExcluded o a then wordUnique O o w rest acc
          else wordUnique O o w rest (acc ++ [render O o a])
        else wordUnique O o w rest acc
      else wordUnique O o w rest acc

/-- `find_ip46_addr_matches(subnets, potential_matches=words, unique_matches=…)` -/
def addrMatches (O : Oracle) (o : Opts) (subnets : List Addr) (words : List Str) : List Str :=
  if o.unique then words.foldl (fun acc w => wordUnique O o w subnets acc) []
  else words.foldl (fun acc w => acc ++ (wordPlain O o w subnets).toList) []

/-! ### `find_ip46_line_matches` -/

structure LineSt where
  append : Bool
  exclude : Bool
  deriving DecidableEq, Repr

/-- body of `for subnet in subnets:` inside `for word in words:` -/
def lineStep (O : Oracle) (o : Opts) (w : Str) (st : LineSt) (s : Addr) : LineSt :=
  match mkAddr O s.ver w with
  | none => st
  | some a =>
    if st.exclude then st
    else if hitA s a then
      if netExcluded o a then ⟨false, true⟩
      else if hostExcluded O o a then ⟨false, true⟩
      else ⟨true, st.exclude⟩
    else st

def lineScan (O : Oracle) (o : Opts) (subnets : List Addr) (line : Str) : LineSt :=
  (O.split line).foldl (fun st w => subnets.foldl (lineStep O o w) st) ⟨false, false⟩

/-- `find_ip46_line_matches` -/
def lineMatches (O : Oracle) (o : Opts) (subnets : List Addr) (lines : List Str) : List Str :=
  lines.foldl (fun acc line => if (lineScan O o subnets line).append then acc ++ [line] else acc) []

/-! ### `ipgrep` from the parsed arguments -/

structure IpArgs where
  /-- `args.subnets` (`None` without `-s`) -/
  subnets : Option Str
  ipv4 : Bool
  ipv6 : Bool
  showCidr : Bool
  showNetworks : Bool
  excludeHosts : Bool
  line : Bool
  unique : Bool
  /-- `self.ipgrep_file.read()` -/
  text : Str
  deriving Repr

/-- "Overwrite the --subnets argument if --ipv4 or --ipv6 is used" and the two `parser.error`s -/
def effectiveSubnets (a : IpArgs) : Except Err (Option Str) :=
  match a.subnets with
  | none =>
    if a.ipv4 && !a.ipv6 then .ok (some "0.0.0.0/0".toList)
    else if !a.ipv4 && a.ipv6 then .ok (some "::/0".toList)
    else if a.ipv4 && a.ipv6 then .ok (some "0.0.0.0/0,::/0".toList)
    else .ok none
  | some s =>
    if a.ipv4 || a.ipv6 then .error .systemExit
    else if s = [] then .error .systemExit
    else .ok (some s)

/-- one item of `subnets.split(",")`: `IPv4Obj` is tried, then `IPv6Obj`; the last success wins -/
def parseSubnet (O : Oracle) (s : Str) : Except Err Addr :=
  match mkAddr O .v6 s with
  | some a => .ok a
  | none =>
    match mkAddr O .v4 s with
    | some a => .ok a
    | none => .error .valueError

/-- `ipgrep_command` (and the part of `__init__` in front of it): the lines appended to `stdout`.
`_subnets` is a Python `set`; the model keeps the list (see `C18.ipgrep_subnets_irrelevant`). -/
def ipgrep (O : Oracle) (a : IpArgs) : Except Err (List Str) := do
  let showCidr := if a.showNetworks then true else a.showCidr
  let o : Opts := ⟨showCidr, a.showNetworks, a.excludeHosts, false, a.unique⟩
  match ← effectiveSubnets a with
  | none => .error .systemExit
  | some subnets =>
    let subs ← (splitOn ',' subnets).mapM (parseSubnet O)
    if !a.line then
      .ok (addrMatches O o subs (O.split a.text))
    else if o.showCidr || o.showNetworks then .error .systemExit
    else .ok (lineMatches O o subs (Diff.splitlines a.text))

/-! ### `macgrep` -/

/-- `MACEUISearch(word).mac_retval`: `macaddress.parse(word, MAC, EUI64)` decides the class,
then `MACObj(word)` / `EUI64Obj(word)` re-parse; any `ValueError` gives `None` -/
def macOf (w : Str) : Option (Mac.Kind × Nat) :=
  match Mac.parse [Mac.eui48, Mac.eui64] w with
  | .error _ => none
  | .ok (_, c) =>
    if c = Mac.eui48 then
      (match Mac.parseObj .mac w with
       | .ok v => some (.mac, v)
       | .error _ => none)
    else if c = Mac.eui64 then
      (match Mac.parseObj .eui64 w with
       | .ok v => some (.eui64, v)
       | .error _ => none)
    else none

/-- the four texts a regex is tried on: `dash`, `colon`, `cisco`, `dash.replace('-', '')` -/
def macTexts (k : Mac.Kind) (v : Nat) : List Str :=
  [Mac.dash k v, Mac.colon k v, Mac.cisco k v, (Mac.dash k v).filter (· != '-')]

/-- `search_all_formats(mac_regex_strs)` for a word with `mac_retval = (k, v)` -/
def searchAllFormats (O : Oracle) (regexes : List Str) (k : Mac.Kind) (v : Nat) : Bool :=
  regexes.any (fun rgx => (macTexts k v).any (fun t => O.rx rgx t))

/-- `search.mac_retval is not None and search.search_all_formats(…)` -/
def macWordMatches (O : Oracle) (regexes : List Str) (w : Str) : Bool :=
  match macOf w with
  | none => false
  | some (k, v) => searchAllFormats O regexes k v

/-- `find_maceui_addr_matches` -/
def macAddrMatches (O : Oracle) (regexes : List Str) (unique : Bool) (words : List Str) : List Str :=
  words.foldl (fun acc w =>
    if macWordMatches O regexes w then
      (if unique then (if acc.contains w then acc else acc ++ [w]) else acc ++ [w])
    else acc) []

/-- the word loop of `find_maceui_line_matches`: `line_appended` -/
def macLineHas (O : Oracle) (regexes : List Str) (line : Str) : Bool :=
  (O.split line).foldl (fun appended w =>
    if appended then appended else macWordMatches O regexes w) false

/-- `find_maceui_line_matches` -/
def macLineMatches (O : Oracle) (regexes : List Str) (lines : List Str) : List Str :=
  lines.foldl (fun acc line => if macLineHas O regexes line then acc ++ [line] else acc) []

structure MacArgs where
  /-- `args.regex`, default `"."` -/
  regex : Str
  line : Bool
  unique : Bool
  text : Str
  deriving Repr

/-- `macgrep_command`; `mac_regex_strs` is a `set` of the comma separated items -/
def macgrep (O : Oracle) (a : MacArgs) : List Str :=
  let regexes := splitOn ',' a.regex
  if !a.line then macAddrMatches O regexes a.unique (O.split a.text)
  else macLineMatches O regexes (Diff.splitlines a.text)

/-! ### `parent`, `child`, `branch`, `diff` -/

/-- `str.split(sep)` for a non-empty separator: find `sep` from the left, non-overlapping.
`cur` is the current item, reversed. -/
def splitStrAux (p : Char) (ps : Str) : Str → Str → List Str
  | [], cur => [cur.reverse]
  | c :: cs, cur =>
    if c = p ∧ ps.isPrefixOf cs then cur.reverse :: splitStrAux p ps (cs.drop ps.length) []
    else splitStrAux p ps cs (c :: cur)
termination_by s => s.length
decreasing_by
  all_goals simp only [List.length_cons, List.length_drop]
  all_goals omega

/-- `s.split(sep)`; an empty separator raises `ValueError` -/
def splitStr (sep s : Str) : Except Err (List Str) :=
  match sep with
  | [] => .error .valueError
  | p :: ps => .ok (splitStrAux p ps s [])

/-- a `BaseCfgLine` as far as the CLI looks at it -/
structure Line where
  linenum : Nat
  text : Str
  deriving DecidableEq, Repr

/-- the methods the sub-commands call on `CiscoConfParse(config=filename, syntax=syntax)` -/
structure Parse where
  /-- `find_parent_objects(terms)` with every other argument at its default -/
  findParentObjects : List Str → Except Err (List Line)
  /-- `find_child_objects(terms)` -/
  findChildObjects : List Str → Except Err (List Line)
  /-- `find_object_branches(terms)`; an item may be `None` -/
  findObjectBranches : List Str → Except Err (List (List (Option Line)))
  /-- `obj.all_children` -/
  allChildren : Line → List Line

/-- the API as a whole -/
structure Api where
  /-- `CiscoConfParse(config=filename, syntax=syntax)` (all other arguments default) -/
  parse : (filename syn : Str) → Except Err Parse
  /-- `open(filename).read()` -/
  read : Str → Except Err Str
  /-- `Diff(old, new, syntax=syntax)` then `.get_diff()` / `.get_rollback()` -/
  diff : (old new syn : Str) → Except Err (List Str × List Str)

/-- the arguments shared by `parent` / `child` / `branch` -/
structure FindArgs where
  /-- `-a` -/
  args : Str
  /-- `-d`, default `","` -/
  delimiter : Str
  /-- `-s`, default `"ios"` -/
  syn : Str
  /-- `-o`, default `"raw_text"` -/
  output : Str
  /-- the `file` list (`nargs='+'`) -/
  files : List Str
  deriving Repr

def rawText : Str := "raw_text".toList
def original : Str := "original".toList

/-- `for filename in self.file_list:` — the outputs are appended in file order; the first
exception ends the run -/
def forFiles (files : List Str) (body : Str → Except Err (List Str)) : Except Err (List Str) :=
  files.foldlM (fun acc f => do let out ← body f; pure (acc ++ out)) []

/-- `parent_command` -/
def parentCmd (A : Api) (a : FindArgs) : Except Err (List Str) := do
  let terms ← splitStr a.delimiter a.args
  forFiles a.files (fun f => do
    let p ← A.parse f a.syn
    if a.output = rawText then
      let objs ← p.findParentObjects terms
      pure (objs.map Line.text)
    else .error .notImplemented)

/-- `child_command` -/
def childCmd (A : Api) (a : FindArgs) : Except Err (List Str) := do
  let terms ← splitStr a.delimiter a.args
  forFiles a.files (fun f => do
    let p ← A.parse f a.syn
    if a.output = rawText then
      let objs ← p.findChildObjects terms
      pure (objs.map Line.text)
    else .error .notImplemented)

/-- `[obj.text for obj in branch]`: `None.text` is an `AttributeError` -/
def branchTexts (b : List (Option Line)) : Except Err (List Str) :=
  b.mapM (fun o => match o with
    | some l => .ok l.text
    | none => .error .attributeError)

/-- `retval.add(obj)` on a Python `set` of lines: identity is `(linenum, text)` -/
def setAdd (s : List Line) (l : Line) : List Line := if s.contains l then s else s ++ [l]

def insertLine (x : Line) : List Line → List Line
  | [] => [x]
  | y :: ys => if x.linenum < y.linenum then x :: y :: ys else y :: insertLine x ys

/-- `sorted(retval)`: `BaseCfgLine.__lt__` compares `linenum`.  (The lines of one parse have
distinct line numbers, so the iteration order of the set cannot show.) -/
def sortLines (s : List Line) : List Line := s.foldr insertLine []

/-- `branch_command` -/
def branchCmd (A : Api) (a : FindArgs) : Except Err (List Str) := do
  let terms ← splitStr a.delimiter a.args
  forFiles a.files (fun f => do
    let p ← A.parse f a.syn
    if a.output = rawText then
      if terms.length = 1 then .error .notImplemented
      else do
        let bs ← p.findObjectBranches terms
        let ts ← bs.mapM branchTexts
        pure ts.flatten
    else if a.output = original then
      if terms.length = 1 then do
        let ps ← p.findParentObjects [terms.headD []]
        let s := ps.foldl (fun s ii => (p.allChildren ii).foldl setAdd (setAdd s ii)) []
        pure ((sortLines s).map Line.text)
      else do
        -- `elif len(self.args) > 1`; `split` never returns an empty list
        let bs ← p.findObjectBranches terms
        let s ← bs.foldlM (fun s b => b.foldlM (fun s o => match o with
          | some l => pure (setAdd s l)
          | none => .error .attributeError) s) []   -- `sorted` of a set holding `None` and lines
        pure ((sortLines s).map Line.text)
    else .error .notImplemented)

structure DiffArgs where
  /-- the two `file` arguments -/
  files : List Str
  /-- `-m`, default `"diff"` -/
  method : Str
  /-- `-s`, default `"ios"` -/
  syn : Str
  deriving Repr

def mDiff : Str := "diff".toList
def mRollback : Str := "rollback".toList
def ios : Str := "ios".toList

/-- the syntax `diff_command` hands to `Diff(...)`: the `-s` value (after the repair of F48). -/
def diffSyntaxPassed (a : DiffArgs) : Str := a.syn

/-- `diff_command` -/
def diffCmd (A : Api) (a : DiffArgs) : Except Err (List Str) := do
  match a.files with
  | [f0, f1] =>
    let old ← A.read f0
    let new ← A.read f1
    let d ← A.diff old new (diffSyntaxPassed a)
    if a.method = mDiff then pure d.1
    else if a.method = mRollback then pure d.2
    else .error .valueError
  | _ => .error .indexError   -- argparse guarantees two files (`nargs=2`)

end Ccp.Cli
