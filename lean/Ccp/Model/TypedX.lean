import Ccp.Model.Typed
/-!
Typed value extraction with a caller's `default` that is a `float` or a `bool`
(`Ccp.Model.Typed` knows `None`, `str` and `int` defaults only).

Python compares `0 == False == 0.0`, `1 == True == 1.0`, `1500 == 1500.0` (with equal hashes),
but `result_type(default)` depends on the TYPE of the default: `str(1500.0) == '1500.0'`,
`str(False) == 'False'`, and an untyped default is handed back as the object it is.  The functions
below are the code's helpers once more (same loops: `firstLoop`, `rootLoop` of `Ccp.Model.Typed`),
with the default drawn from the larger type `ArgX`; `Ccp.Proofs.TypedX` shows that on the old
defaults they are the old functions.

A `float` default is represented exactly, by sign, integer part and the digits after the point
of its positional `repr` (the generators emit only floats whose `repr` is positional and exact:
`1500.0`, `-1.0`, `0.5`, `2.25`, `-0.0`); so `str`, `int` (truncation towards zero) and `float`
(identity) of it need no floating point arithmetic.  `IPv4Obj(default)` stays an oracle.
-/
namespace Ccp.TypedX
open Ccp.Py Ccp.Tree Ccp.Typed

/-- what the caller passes as `default=` -/
inductive ArgX
  /-- `None`, a `str`, an `int` -/
  | base (a : Arg)
  /-- a finite `float` whose `repr` is `[-]<ip>.<frac>` -/
  | float (neg : Bool) (ip : Nat) (frac : Str)
  /-- `True` / `False` -/
  | bool (b : Bool)
deriving Repr, DecidableEq

/-- a returned value: as before, or a `bool` (only an untyped default comes back as one) -/
inductive ValX
  | base (v : Val)
  | bool (b : Bool)
deriving Repr, DecidableEq

/-- `repr(x)` = `str(x)` of a float default -/
def floatRepr (neg : Bool) (ip : Nat) (frac : Str) : Str :=
  (if neg then ['-'] else []) ++ toDec ip ++ '.' :: frac

/-- `str(default)` -/
def pyStrX : ArgX → Str
  | .base a => pyStr a
  | .float neg ip frac => floatRepr neg ip frac
  | .bool true => "True".toList
  | .bool false => "False".toList

/-- the default itself, as a returned value (`untyped_default=True`) -/
def ValX.ofArgX : ArgX → ValX
  | .base a => .base (Val.ofArg a)
  | .float neg ip frac => .base (.float (floatRepr neg ip frac))
  | .bool b => .bool b

def liftV : Except Err Val → Except Err ValX
  | .ok v => .ok (.base v)
  | .error e => .error e

/-- `result_type(default)`; `ipx` is `IPv4Obj(default)` as an oracle -/
def convX (ipx : ArgX → Except Err Str) : Ty → ArgX → Except Err ValX
  | ty, .base a => liftV (conv (fun b => ipx (.base b)) ty a)
  | .str, a => .ok (.base (.str (pyStrX a)))
  | .int, .float neg ip _ => .ok (.base (.int (if neg then -(ip : Int) else (ip : Int))))
  | .int, .bool b => .ok (.base (.int (if b then 1 else 0)))
  | .float, .float neg ip frac => .ok (.base (.float (floatRepr neg ip frac)))
  | .float, .bool b => .ok (.base (.float (if b then "1.0".toList else "0.0".toList)))
  | .ip, a =>
    (match ipx a with
     | .ok r => .ok (.base (.ip r))
     | .error e => .error e)

/-- the regex oracle, the `IPv4Obj` oracle (now over `ArgX`) and the tree -/
structure CtxX where
  g : Str → GroupRes
  ipx : ArgX → Except Err Str
  t : T

/-- the context of the old model: `IPv4Obj` of a group text / an old default -/
def CtxX.c (x : CtxX) : Ctx := { g := x.g, ip := fun a => x.ipx (.base a), t := x.t }

/-- `return default if untyped_default else result_type(default)` -/
def typedDefaultX (x : CtxX) (ty : Ty) (default : ArgX) (untyped : Bool) : Except Err ValX :=
  if untyped then .ok (ValX.ofArgX default) else convX x.ipx ty default

/-- `obj.re_match(regex, group, default)` -/
def reMatchX (x : CtxX) (i : Nat) (default : ArgX) : Except Err ValX :=
  match x.c.at i with
  | .noMatch => .ok (ValX.ofArgX default)
  | .noGroup => .error .indexError
  | .unset => .ok (.base .none)
  | .val s => .ok (.base (.str s))

/-- `obj.re_match_typed(regex, group, result_type, default, untyped_default)` -/
def reMatchTypedX (x : CtxX) (i : Nat) (ty : Ty) (default : ArgX) (untyped : Bool) : Except Err ValX :=
  match x.c.at i with
  | .val s => liftV (conv x.c.ip ty (.str s))
  | .noGroup => .error .indexError
  | .unset => typedDefaultX x ty default untyped
  | .noMatch => typedDefaultX x ty default untyped

/-- `obj.re_match_iter_typed(regex, group, result_type, default, untyped_default, recurse=…)` -/
def reMatchIterTypedX (x : CtxX) (i : Nat) (ty : Ty) (default : ArgX) (untyped recurse : Bool) :
    Except Err ValX :=
  if matched (x.c.at i) then liftV (convGroup x.c.ip ty (x.c.at i)) else
  if recurse = false then
    match firstLoop x.c ty (children x.t i) with
    | some r => liftV r
    | none => typedDefaultX x ty default untyped
  else
    match firstLoop x.c ty (allChildren x.t i) with
    | some r => liftV r
    | none => typedDefaultX x ty default untyped

/-- `parse.re_match_iter_typed(regex, group, result_type, default, untyped_default)` -/
def rootIterTypedX (x : CtxX) (ty : Ty) (default : ArgX) (untyped : Bool) : Except Err ValX :=
  match rootLoop x.c ty (List.range x.t.size) with
  | some r => liftV r
  | none => typedDefaultX x ty default untyped

end Ccp.TypedX
