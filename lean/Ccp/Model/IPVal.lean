import Ccp.Py.Basic
import Ccp.Gen.Tables
/-!
# Value-level model of `IPv4Obj` / `IPv6Obj` (ccp_util.py) — C12, C13

An address object holds two stdlib objects: `ip_object` (an address) and
`network_object` (a network = network address + prefix length, built with
`strict=False`).  The model keeps exactly these: `ip`, `net`, `len`.  The two are
set by different methods (`prefixlen` setter rebuilds `network_object` from
`ip_object`; `network_offset` setter replaces `ip_object` only), so `net` is a
field of its own and "`net` is the network of `ip`" is an invariant to be proved
(`Valid`), not a definition.

Everything is parametric in the family constants `Fam` (`v4`, `v6` below take them
from the generated tables).  Text forms (`as_decimal` goes through the dotted /
exploded text) are C11's business; here `as_decimal = int(ip_object)`.
-/
namespace Ccp.IPVal
open Ccp.Py

inductive Err
  | requirementFailure   -- ciscoconfparse2.errors.RequirementFailure
  | addressValueError    -- ipaddress.AddressValueError
  | netmaskValueError    -- ipaddress.NetmaskValueError
  | notImplemented       -- NotImplementedError
  deriving DecidableEq, Repr

/-- family constants as they appear in ccp_util.py -/
structure Fam where
  /-- `IPV4_MAX_PREFIXLEN` / `IPV6_MAX_PREFIXLEN` -/
  w : Nat
  /-- `IPV4_MAXINT` / `IPV6_MAXINT` -/
  maxInt : Nat
  /-- the three literals of the `numhosts` ladder: `<= 30`, `== 31`, `== 32` -/
  nhA : Nat
  nhB : Nat
  nhC : Nat

def v4 : Fam := ⟨Gen.ipv4MaxPrefixlen, Gen.ipv4MaxInt, 30, 31, 32⟩
def v6 : Fam := ⟨Gen.ipv6MaxPrefixlen, Gen.ipv6MaxInt, 126, 127, 128⟩

/-! ### the part of stdlib `ipaddress` that is used -/

/-- `ipaddress._BaseV4._ALL_ONES = 2**32 - 1` -/
def allOnes (f : Fam) : Nat := 2 ^ f.w - 1

/-- `_ip_int_from_prefix`: `ALL_ONES ^ (ALL_ONES >> prefixlen)` -/
def netmask (f : Fam) (len : Nat) : Nat := allOnes f ^^^ (allOnes f >>> len)

/-- `IPv4Network(addr/len, strict=False).network_address = int(addr) & int(netmask)` -/
def netOf (f : Fam) (ip len : Nat) : Nat := ip &&& netmask f len

/-! ### the object -/

structure Obj where
  /-- `int(self.ip_object)` -/
  ip : Nat
  /-- `int(self.network_object.network_address)` -/
  net : Nat
  /-- `self.network_object.prefixlen` -/
  len : Nat
  deriving DecidableEq, Repr

/-- `IPv4Obj("a.b.c.d/len")`: `ip_object = IPv4Address(a.b.c.d)`,
`network_object = IPv4Network("a.b.c.d/len", strict=False)` -/
def ofIpLen (f : Fam) (ip len : Nat) : Obj := ⟨ip, netOf f ip len, len⟩

/-- `IPv4Obj(n)` for an integer: bound check, then `IPv4Address(n)`, `IPv4Network(n)` (a host route) -/
def ofInt (f : Fam) (n : Int) : Except Err Obj :=
  if 0 ≤ n ∧ n ≤ (f.maxInt : Int) then .ok (ofIpLen f n.toNat f.w)
  else .error .requirementFailure

def asDecimal (x : Obj) : Nat := x.ip
def asDecimalNetwork (x : Obj) : Nat := x.net
def prefixlen (x : Obj) : Nat := x.len

/-- `as_decimal_broadcast` (v4) / `as_decimal_network_maxint` (v6):
`as_decimal_network + 2 ** (MAX_PREFIXLEN - prefixlen) - 1` -/
def asDecimalBroadcast (f : Fam) (x : Obj) : Nat := x.net + (2 ^ (f.w - x.len) - 1)

/-- `numhosts` ladder -/
def numhosts (f : Fam) (x : Obj) : Except Err Nat :=
  if x.len ≤ f.nhA then .ok (2 ^ (f.w - x.len) - 2)
  else if x.len = f.nhB then .ok 2
  else if x.len = f.nhC then .ok 1
  else .error .notImplemented

/-! ### membership (C12) -/

/-- `IPv4Obj.__contains__`: `val in self` (non-empty objects) -/
def contains4 (f : Fam) (self val : Obj) : Bool :=
  if self.len = 0 then true
  else if self.len > val.len then false
  else decide (asDecimalNetwork self ≤ asDecimalNetwork val)
    && decide (asDecimalBroadcast f self ≥ asDecimalBroadcast f val)
    && decide (self.len ≤ val.len)

/-- `IPv6Obj.__contains__` (after the F17 repair: upper bound is `as_decimal_network_maxint`) -/
def contains6 (f : Fam) (self val : Obj) : Bool :=
  if self.len = 0 then true
  else if self.len > val.len then false
  else decide (asDecimalNetwork self ≤ asDecimalNetwork val)
    && decide (asDecimalBroadcast f self ≥ asDecimalBroadcast f val)

/-- the pre-repair IPv6 bound (`as_decimal_network + numhosts - 1`), kept to document F17 -/
def contains6AsWritten (f : Fam) (self val : Obj) : Bool :=
  if self.len = 0 then true
  else if self.len > val.len then false
  else
    let top (o : Obj) : Nat := match numhosts f o with
      | .ok n => o.net + n - 1
      | .error _ => 0
    decide (self.net ≤ val.net) && decide (top self ≥ top val)

/-! ### comparison, equality, hashing (C13) -/

/-- `__lt__` -/
def lt (self val : Obj) : Bool :=
  if self.net = val.net ∧ self.len = val.len then decide (self.ip < val.ip)
  else if self.net = val.net then decide (self.len < val.len)
  else decide (self.net < val.net)

/-- `__gt__` -/
def gt (self val : Obj) : Bool :=
  if self.net = val.net ∧ self.len = val.len then decide (self.ip > val.ip)
  else if self.net = val.net then decide (self.len > val.len)
  else decide (self.net > val.net)

/-- `__eq__` -/
def eq (self val : Obj) : Bool :=
  if self.ip = val.ip ∧ self.len = val.len then true else false

/-- `__ne__` -/
def ne (self val : Obj) : Bool := !(eq self val)

/-- `__hash__`: `hash(str(self.ip_object)) + hash(str(self.prefixlen))`; the string
hash `H` and the address rendering `render` are parameters -/
def hash (H : Str → Int) (render : Nat → Str) (x : Obj) : Int :=
  H (render x.ip) + H (toDec x.len)

/-- `sorted(objs)` (uses `__lt__` only; stable) -/
def sorted (l : List Obj) : List Obj := l.mergeSort (fun a b => !(lt b a))

/-! ### setters and arithmetic (C13) -/

/-- `obj.prefixlen = arg` (also `masklen`, `masklength`, `prefixlength`):
`network_object = IPv4Network(f"{ip_object}/{arg}", strict=False)`; the stdlib
raises `NetmaskValueError` outside `0..MAX_PREFIXLEN` and then nothing is assigned -/
def setLen (f : Fam) (x : Obj) (arg : Int) : Except Err Obj :=
  if 0 ≤ arg ∧ arg ≤ (f.w : Int) then .ok ⟨x.ip, netOf f x.ip arg.toNat, arg.toNat⟩
  else .error .netmaskValueError

/-- `__add__` with an `int` -/
def add (f : Fam) (x : Obj) (val : Int) : Except Err Obj :=
  let origLen := x.len
  let total : Int := (asDecimal x : Int) + val
  if total > (f.maxInt : Int) then .error .requirementFailure
  else if total < 0 then .error .requirementFailure
  else do
    let retval ← ofInt f total
    setLen f retval origLen

/-- `__sub__` with an `int` (after the F18 repair: `>` as in `__add__`) -/
def sub (f : Fam) (x : Obj) (val : Int) : Except Err Obj :=
  let origLen := x.len
  let total : Int := (asDecimal x : Int) - val
  if total > (f.maxInt : Int) then .error .requirementFailure
  else if total < 0 then .error .requirementFailure
  else do
    let retval ← ofInt f total
    setLen f retval origLen

/-- `network_offset` getter -/
def getOffset (f : Fam) (x : Obj) : Except Err Int := do
  let offset : Int := (asDecimal x : Int) - (asDecimalNetwork x : Int)
  let nh ← numhosts f x
  if offset > (nh : Int) then .error .requirementFailure else .ok offset

/-- `IPv4Address(n)` for an integer -/
def addressOfInt (f : Fam) (n : Int) : Except Err Nat :=
  if 0 ≤ n ∧ n ≤ (allOnes f : Int) then .ok n.toNat else .error .addressValueError

/-- `network_offset` setter with an `int`: only `ip_object` is replaced
(`0 <= arg <= max_offset`, after the F41 repair). -/
def setOffset (f : Fam) (x : Obj) (arg : Int) : Except Err Obj :=
  let maxOffset : Int := (asDecimalBroadcast f x : Int) - (asDecimalNetwork x : Int)
  if 0 ≤ arg ∧ arg ≤ maxOffset then do
    let ip ← addressOfInt f ((asDecimalNetwork x : Int) + arg)
    .ok { x with ip := ip }
  else .error .addressValueError

/-! ### `collapse_addresses` (C12)

The function maps every object to `obj.network` and calls
`ipaddress.collapse_addresses`.  Below: that stdlib routine for a list of networks
(`_collapse_addresses_internal`), networks as `(network address, prefix length)`. -/

abbrev Net := Nat × Nat

/-- `obj.network`: `IPv4Network(network_object.compressed)` -/
def network (x : Obj) : Net := (x.net, x.len)

/-- `net.supernet()` (one bit shorter; `/0` is its own supernet) -/
def supernet (f : Fam) (n : Net) : Net :=
  if n.2 = 0 then n else (netOf f n.1 (n.2 - 1), n.2 - 1)

def netLe (a b : Net) : Bool := a.1 < b.1 || (a.1 == b.1 && a.2 ≤ b.2)

def netBcast (f : Fam) (n : Net) : Nat := n.1 + (2 ^ (f.w - n.2) - 1)

/-- the `while to_merge:` loop; `subnets` is the dict `supernet → net` as an association list.
`fuel` only bounds the recursion (the caller passes more than the loop can use). -/
def mergeLoop (f : Fam) : Nat → List Net → List (Net × Net) → List (Net × Net)
  | 0, _, subnets => subnets
  | _, [], subnets => subnets
  | fuel + 1, net :: rest, subnets =>
    let sup := supernet f net
    match subnets.lookup sup with
    | none => mergeLoop f fuel rest ((sup, net) :: subnets)
    | some existing =>
      if existing ≠ net then mergeLoop f fuel (sup :: rest) (subnets.filter (fun e => e.1 ≠ sup))
      else mergeLoop f fuel rest subnets

/-- the final pass: ascending, skipping a network covered by the last one kept -/
def dropCovered (f : Fam) : Option Net → List Net → List Net
  | _, [] => []
  | none, n :: ns => n :: dropCovered f (some n) ns
  | some last, n :: ns =>
    if netBcast f last ≥ netBcast f n then dropCovered f (some last) ns
    else n :: dropCovered f (some n) ns

/-- `list(ipaddress.collapse_addresses(nets))` for a list of networks; `to_merge.pop()` takes from
the end of the list.  The loop needs at most `2 * len` rounds (proved in `Ccp.Proofs.IPVal`). -/
def collapseNets (f : Fam) (nets : List Net) : List Net :=
  let toMerge := nets.reverse
  let subnets := mergeLoop f ((f.w + 2) * (toMerge.length + 1)) toMerge []
  dropCovered f none ((subnets.map (·.2)).mergeSort netLe)

/-- `list(collapse_addresses(objs))`: every object is mapped to `obj.network` first -/
def collapse (f : Fam) (objs : List Obj) : List Net := collapseNets f (objs.map network)

end Ccp.IPVal
