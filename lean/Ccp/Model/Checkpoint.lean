import Ccp.Py.Basic
/-!
Integer model of the change seatbelt of `ConfigList` (ciscoconfparse2.py):

* `get_checkpoint()`  = sum over the list of `obj.get_unique_identifier()` = `hash((obj.linenum, obj.text))`;
* `search_safe`       = `current_checkpoint == commit_checkpoint`;
* `ConfigList.insert` = put a NEW object (its `linenum` is still the class default `-1`) into the list and
  recompute `current_checkpoint` (the only place that does, besides `bootstrap`);
* `pop` / `delete` / the text setter change the list but recompute nothing;
* `commit()` → `bootstrap()` renumbers every line and sets `commit_checkpoint = current_checkpoint = get_checkpoint()`.

The tuple hash is a PARAMETER `h` of every definition and theorem (CPython's `hash` is not modelled); the edit model
of C06/C07 (`Ccp.Edit`) abstracts this integer pair to a boolean `stale`.  The theorems of `Ccp.Props.C07Ck` say exactly
when that abstraction is right: the search seatbelt trips iff the hash sums differ.
-/
namespace Ccp.Checkpoint
open Ccp.Py

/-- a line object as the checkpoint sees it: `(linenum, text)`; a fresh object has `linenum = -1` -/
abbrev Item := Int × Str

structure St where
  items : List Item
  current : Int
  commit : Int
deriving Repr

/-- `get_checkpoint` -/
def total (h : Item → Int) (l : List Item) : Int := (l.map h).sum

/-- `search_safe` -/
def safe (s : St) : Bool := s.current == s.commit

def insertAt (l : List Item) (p : Nat) (x : Item) : List Item := l.take p ++ x :: l.drop p

/-- `ConfigList.insert(p, text)` with auto_commit off -/
def lineInsert (h : Item → Int) (s : St) (p : Nat) (t : Str) : St :=
  let items := insertAt s.items p (-1, t)
  { s with items := items, current := total h items }

/-- `ConfigList.pop(p)` / `BaseCfgLine.delete()` of one line, auto_commit off: nothing is recomputed -/
def pop (s : St) (p : Nat) : St := { s with items := s.items.eraseIdx p }

/-- the text setter (`replace_text` / `re_sub` without commit): nothing is recomputed -/
def setText (s : St) (p : Nat) (t : Str) : St :=
  { s with items := s.items.modify p (fun it => (it.1, t)) }

/-- renumbering done by `bootstrap` -/
def renumber : Nat → List Item → List Item
  | _, [] => []
  | k, it :: r => ((k : Int), it.2) :: renumber (k + 1) r

/-- `commit()`: rebuild (renumber) and take the checkpoint (`keep` = the blank-line filter of ignore_blank_lines) -/
def commit (h : Item → Int) (keep : Str → Bool) (s : St) : St :=
  let items := renumber 0 (s.items.filter (fun it => keep it.2))
  let c := total h items
  { items := items, current := c, commit := c }

inductive Op where
  | insert (p : Nat) (t : Str)
  | pop (p : Nat)
  | setText (p : Nat) (t : Str)
  | commit

def step (h : Item → Int) (keep : Str → Bool) (s : St) : Op → St
  | .insert p t => lineInsert h s p t
  | .pop p => pop s p
  | .setText p t => setText s p t
  | .commit => commit h keep s

def run (h : Item → Int) (keep : Str → Bool) (s : St) (ops : List Op) : St := ops.foldl (step h keep) s

end Ccp.Checkpoint
