import Ccp.Model.Brace
/-!
The options and argument checks around the brace-syntax conversion (C08), on top of
`Ccp.Model.Brace`:

* `BraceParse(config_txt, comment_delimiters, stop_width, semicolon_end)` called directly:
  any `stop_width` (an `int`; a negative one indents by nothing), `semicolon_end=True`
  keeps the terminating semicolon, `comment_delimiters` is never consulted, a `config_txt`
  that is not a `str` is refused;
* `convert_junos_to_ios(input_list, stop_width, comment_delimiters, ignore_blank_lines, debug)`:
  the ladder of argument checks in the order of the code, then the conversion
  (`ignore_blank_lines` is accepted and not used);
* `CiscoConfParse.handle_ccp_brace_syntax(tmp_lines, syntax)`: junos converts, every other
  valid syntax passes the lines through, anything else is refused; a `tuple` of lines is handed
  to `convert_junos_to_ios` as a list (`list(tmp_lines)`; before the repair `fix: CiscoConfParse
  accepts a tuple of lines with syntax='junos'` the tuple itself was passed on and the converter,
  which insists on a `list`, refused it: finding FC08a);
* `CiscoConfParse(lines, syntax='junos', factory=…, ignore_blank_lines=…)`: the factory only
  chooses the class of the line objects; `ignore_blank_lines` drops the blank lines of the
  conversion (a statement that is a lone `;` converts to a blank line) before linking.
-/
namespace Ccp.Brace
open Ccp.Py

/-! ### `unpack_nested_list_to_config_objs` with `semicolon_end` -/

/-- `elem.strip()`; unless `semicolon_end`, drop one trailing `;`; `.strip()` again -/
def cleanTokS (semiEnd : Bool) (t : Str) : Str :=
  let e := strip t
  let e := if !semiEnd && e.getLast? = some ';' then e.dropLast else e
  strip e

mutual
def unpackItemS (semiEnd : Bool) (stop depth : Nat) : Item → List Str
  | .tok t => [List.replicate (depth * stop) ' ' ++ cleanTokS semiEnd t]
  | .grp items => unpackListS semiEnd stop (depth + 1) items
def unpackListS (semiEnd : Bool) (stop depth : Nat) : List Item → List Str
  | [] => []
  | x :: xs => unpackItemS semiEnd stop depth x ++ unpackListS semiEnd stop depth xs
end

/-- `parse_braces_to_nested_list(config_txt)` behind the guard on the first character -/
def braceItems (txt : Str) : Except Err (List Item) :=
  match txt with
  | '{' :: _ => .error .valueError
  | '}' :: _ => .error .valueError
  | _ =>
    let s := expandTabsFrom 1 (txt ++ ['}'])
    match parseItems (s.length + 1) s with
    | .ok (items, _) => .ok items
    | .error e => .error e

/-- `" " * (depth * stop_width)` for an `int` width: a negative product is the empty string -/
def stopOf (w : Int) : Nat := w.toNat

/-- `BraceParse(config_txt, stop_width=w, semicolon_end=semiEnd).get_junoscfgline_list()` as texts -/
def braceTextS (semiEnd : Bool) (w : Int) (txt : Str) : Except Err (List Str) :=
  match braceItems txt with
  | .ok items => .ok (unpackListS semiEnd (stopOf w) 0 items)
  | .error e => .error e

/-! ### argument forms -/

inductive ErrA
  | base (e : Err)
  | invalidParameters
  | notImplemented
deriving Repr, DecidableEq

/-- the value handed over as the list of config lines -/
inductive Lines
  | list (ls : List Str)
  | tuple (ls : List Str)
  /-- neither (`None`, a `str`, …) -/
  | other
deriving Repr, DecidableEq

def liftE {α : Type} : Except Err α → Except ErrA α
  | .ok a => .ok a
  | .error e => .error (.base e)

/-- the arguments of `BraceParse(...)`; `txt = none`: `config_txt` is not a `str`;
`delims`: `comment_delimiters` (`none` = omitted, then `["#"]`) — stored, never consulted -/
structure BraceArgs where
  txt : Option Str
  delims : Option (List Str)
  stopWidth : Int
  semiEnd : Bool
deriving Repr

def braceParseArgs (a : BraceArgs) : Except ErrA (List Str) :=
  match a.txt with
  | none => .error .notImplemented
  | some t => liftE (braceTextS a.semiEnd a.stopWidth t)

/-- the arguments of `convert_junos_to_ios(...)`: `stopWidth = none`: not an `int`;
`delims`: `none` = not a list, `some none` = omitted (then `[]`), `some (some ds)` = that list;
`debugIsInt`: is `debug` an `int` -/
structure ConvArgs where
  input : Lines
  stopWidth : Option Int
  delims : Option (Option (List Str))
  debugIsInt : Bool
deriving Repr

def convertArgs (a : ConvArgs) : Except ErrA (List Str) :=
  match a.input with
  | .list ls =>
    match a.stopWidth with
    | none => .error .invalidParameters
    | some w =>
      match a.delims with
      | none => .error .invalidParameters
      | some d =>
        if !a.debugIsInt then .error .invalidParameters
        else
          let ds := d.getD []
          if ls.isEmpty || ds.contains ['{'] || ds.contains ['}'] then .error (.base .valueError)
          else liftE (braceTextS false w (join ['\n'] ls))
  | _ => .error .invalidParameters

/-- the `syntax` argument of `handle_ccp_brace_syntax` -/
inductive Syn
  | junos
  /-- ios, nxos, asa, iosxr -/
  | indented
  /-- not in `ALL_VALID_SYNTAX` -/
  | invalid
deriving Repr, DecidableEq

/-- `CiscoConfParse.handle_ccp_brace_syntax(tmp_lines, syntax)` -/
def handleBrace (syn : Syn) (tmp : Lines) : Except ErrA (List Str) :=
  match syn with
  | .invalid => .error .invalidParameters
  | _ =>
    match tmp with
    | .other => .error .invalidParameters
    | .list ls =>
      (match syn with
       | .junos => convertArgs { input := .list ls, stopWidth := some Gen.junosStopWidth,
                                 delims := some (some [['#']]), debugIsInt := true }
       | _ => .ok ls)
    | .tuple ls =>
      (match syn with
       -- `convert_junos_to_ios(list(tmp_lines), …)`
       | .junos => convertArgs { input := .list ls, stopWidth := some Gen.junosStopWidth,
                                 delims := some (some [['#']]), debugIsInt := true }
       | _ => .ok ls)

/-- `CiscoConfParse(lines, syntax='junos', factory=…, ignore_blank_lines=ignoreBlank)`: convert,
drop the blank lines if asked to, link by indentation (pass 1 of the shared bootstrap; a brace
syntax has no banner / macro pass, so no blank line is ever marked "keep") -/
def junosParseWith (ignoreBlank : Bool) (lines : Lines) : Except ErrA Tree.T :=
  match handleBrace .junos lines with
  | .error e => .error e
  | .ok out =>
    let out' := if ignoreBlank then out.filter (fun l => !(strip l).isEmpty) else out
    .ok { texts := out', parents := Tree.linkByIndent junosCfg out',
          keep := out'.map (fun _ => false) }

end Ccp.Brace
