import Ccp.Model.Cli
/-!
`CliApplication.__init__` (cli_script.py) seen from the `argparse.Namespace` it is given, for the
parts `Ccp.Model.Cli` leaves out:

* where the grep text comes from: the positional `ipgrep_file` / `macgrep_file` is optional
  (`nargs='?'`), its default is `sys.stdin` — or `None` when standard input is a terminal, and then
  `__init__` ends with `parser.error("The ipgrep_file argument is required")`;
* `exclude_networks`: `getattr(args, 'exclude_networks', False)` — no command-line option sets it, a
  hand-built Namespace can; `check_ip46_net_exclusion_args` then drops every hit that is not a host
  (`Ccp.Cli.netExcluded`, already part of `Opts`);
* a `command` that is none of the six sub-commands: "missing an if-clause" → ValueError.
-/
namespace Ccp.Cli
open Ccp.Py

/-- where the text to grep comes from -/
inductive Source
  | file (t : Str)         -- the FILE argument, opened by argparse (`FileType('r')`)
  | stdin (t : Str)        -- no FILE argument, standard input is not a terminal: `sys.stdin.read()`
  | ttyNoFile              -- no FILE argument and standard input is a terminal: `ipgrep_file is None`
deriving Repr, DecidableEq

/-- `self.ipgrep_file.read()` / `self.macgrep_file.read()`; `none` = the attribute is `None` -/
def Source.text? : Source → Option Str
  | .file t => some t
  | .stdin t => some t
  | .ttyNoFile => none

/-- `ipgrep` for a Namespace that may also carry `exclude_networks` (`xn`); the same steps as
`Ccp.Cli.ipgrep`, whose `Opts` hard-wire `false` there -/
def ipgrepX (O : Oracle) (a : IpArgs) (xn : Bool) : Except Err (List Str) := do
  let showCidr := if a.showNetworks then true else a.showCidr
  let o : Opts := ⟨showCidr, a.showNetworks, a.excludeHosts, xn, a.unique⟩
  match ← effectiveSubnets a with
  | none => .error .systemExit
  | some subnets =>
    let subs ← (splitOn ',' subnets).mapM (parseSubnet O)
    if !a.line then
      .ok (addrMatches O o subs (O.split a.text))
    else if o.showCidr || o.showNetworks then .error .systemExit
    else .ok (lineMatches O o subs (Diff.splitlines a.text))

/-- the `ipgrep` branch of `__init__`: the missing-input check comes before every other check -/
def ipgrepFrom (O : Oracle) (a : IpArgs) (xn : Bool) (src : Source) : Except Err (List Str) :=
  match src.text? with
  | none => .error .systemExit
  | some t => ipgrepX O { a with text := t } xn

/-- the `macgrep` branch of `__init__` -/
def macgrepFrom (O : Oracle) (a : MacArgs) (src : Source) : Except Err (List Str) :=
  match src.text? with
  | none => .error .systemExit
  | some t => .ok (macgrep O { a with text := t })

/-- the sub-command names `__init__` has an if-clause for -/
def commands : List Str :=
  ["parent".toList, "child".toList, "branch".toList, "diff".toList, "ipgrep".toList, "macgrep".toList]

/-- `__init__` for a Namespace whose `command` is not one of `commands` (and that has no `file` attribute, so
`file_list` is `[""]` and the loop body runs once): the final `else` raises ValueError -/
def otherCommand (name : Str) : Option Err := if commands.contains name then none else some .valueError

end Ccp.Cli
