import Ccp.Model.Diff
/-!
`ccp diff [-m METHOD] [-s SYNTAX] FILE FILE` (cli_script.py: `ArgParser.build_command_args_diff`,
`CliApplication.__init__` → `CliApplication.diff_command`), on top of the `Diff` model.

* argparse accepts `-m diff|rollback` (default `diff`) and `-s ios|nxos|iosxr|asa|junos` (default `ios`);
  any other choice ends the process (`SystemExit`) before a file is touched;
* `diff_command` reads both files as text (`open(f).read()`, FileNotFoundError when one is missing), hands
  the two *texts* to `Diff(old, new, syntax=…)` as strings, and appends the lines of `get_diff()` or
  `get_rollback()` to `CliApplication.stdout`.

Because `Diff` is given a `str`, its own "a one-line string naming an existing file is that file" rule
applies once more to the *content* of each file (the same file system `fs` is consulted).
-/
namespace Ccp.Diff
open Ccp.Py

inductive CliErr
  | diff (e : Err)         -- raised by `Diff(...)`
  | fileNotFound           -- FileNotFoundError from `open(self.file_list[i])`
  | systemExit             -- argparse: invalid choice
deriving Repr, DecidableEq

inductive Method | diff | rollback
deriving Repr, DecidableEq

/-- `-m`: `choices=['diff', 'rollback']`, `default='diff'` -/
def parseMethod : Option Str → Option Method
  | none => some .diff
  | some m => if m = "diff".toList then some .diff else if m = "rollback".toList then some .rollback else none

/-- `-s`: `choices=['ios', 'nxos', 'iosxr', 'asa', 'junos']`, `default='ios'` -/
def parseSyntax : Option Str → Option Str
  | none => some "ios".toList
  | some s => if syntaxes.contains s then some s else none

/-- the lines `ccp diff` appends to `CliApplication.stdout` -/
def cliDiff (fs : Str → Option Str) (f0 f1 : Str) (method syn : Option Str) : Except CliErr (List Str) :=
  match parseMethod method, parseSyntax syn with
  | some m, some s =>
    match fs f0, fs f1 with
    | some a, some b =>
      match init fs (.str a) (.str b) s with
      | .error e => .error (.diff e)
      | .ok cfg => .ok (match m with | .diff => getDiff cfg | .rollback => getRollback cfg)
    | _, _ => .error .fileNotFound
  | _, _ => .error .systemExit

end Ccp.Diff
