import Ccp.Py.Basic
/-!
Model of `MACObj` / `EUI64Obj` (ccp_util.py) and of the parts of the third-party
package `macaddress` 2.0.2 they rest on: the `formats` templates of `EUI48` /
`EUI64`, `_parse` (candidate templates of the right length, sorted, narrowed one
character at a time) and `HWAddress.__str__` (the first template filled with
nibbles from the low end).

`macaddress` is *modelled, not verified*: the templates are written here as data
and the re-implementation of `_parse` / `__str__` is validated by the
correspondence runs only (the driver also prints the templates so that the harness
compares them with `macaddress.EUI48.formats` / `EUI64.formats` on every run).
-/
namespace Ccp.Mac
open Ccp.Py

/-- the only exception a `str` argument can produce -/
inductive Err | valueError
deriving Repr, DecidableEq

/-! ### `macaddress` -/

/-- `macaddress._HEX_DIGITS = "0123456789ABCDEFabcdef"` -/
def hexDigits : Str :=
  ['0', '1', '2', '3', '4', '5', '6', '7', '8', '9', 'A', 'B', 'C', 'D', 'E', 'F',
   'a', 'b', 'c', 'd', 'e', 'f']

/-- `character in _HEX_DIGITS` for a one-character string -/
def isHex (c : Char) : Bool := hexDigits.contains c

/-- `int(character, 16)` for a character of `_HEX_DIGITS` -/
def hexVal (c : Char) : Nat :=
  if c.toNat ≤ 57 then c.toNat - 48
  else if c.toNat ≤ 70 then c.toNat - 55
  else c.toNat - 87

/-- a `HWAddress` subclass: its name, `size` in bits and `formats` -/
structure Cls where
  name : Str
  size : Nat
  formats : List Str
deriving Repr, DecidableEq

def eui48 : Cls where
  name := ['E', 'U', 'I', '4', '8']
  size := 48
  formats := [
    ['x','x','-','x','x','-','x','x','-','x','x','-','x','x','-','x','x'],
    ['x','x',':','x','x',':','x','x',':','x','x',':','x','x',':','x','x'],
    ['x','x','x','x','.','x','x','x','x','.','x','x','x','x'],
    ['x','x','x','x','x','x','x','x','x','x','x','x']]

def eui64 : Cls where
  name := ['E', 'U', 'I', '6', '4']
  size := 64
  formats := [
    ['x','x','-','x','x','-','x','x','-','x','x','-','x','x','-','x','x','-','x','x','-','x','x'],
    ['x','x',':','x','x',':','x','x',':','x','x',':','x','x',':','x','x',':','x','x',':','x','x'],
    ['x','x','x','x','.','x','x','x','x','.','x','x','x','x','.','x','x','x','x'],
    ['x','x','x','x','x','x','x','x','x','x','x','x','x','x','x','x']]

/-- one entry of `candidates`: the template, its class, and the part of the
template that has not been compared yet (`format_[index:]`) -/
structure Cand where
  rest : Str
  fmt : Str
  cls : Cls
deriving Repr, DecidableEq

/-- `candidates.setdefault(format_, cls)` for every format of the right length,
in insertion order -/
def collect (classes : List Cls) (length : Nat) : List Cand :=
  classes.foldl (fun acc cls =>
    cls.formats.foldl (fun acc f =>
      if f.length = length then
        (if acc.any (fun c => c.fmt == f) then acc else acc ++ [⟨f, f, cls⟩])
      else acc) acc) []

/-- `<` of two Python strings (code point order, a proper prefix is smaller) -/
def strLt : Str → Str → Bool
  | [], [] => false
  | [], _ :: _ => true
  | _ :: _, [] => false
  | a :: as, b :: bs => a.toNat < b.toNat || (a == b && strLt as bs)

def insertCand (x : Cand) : List Cand → List Cand
  | [] => [x]
  | y :: ys => if strLt x.fmt y.fmt then x :: y :: ys else y :: insertCand x ys

/-- `sorted(candidates.items())`: the keys are distinct, so the order is that of the
format strings -/
def sortCands (l : List Cand) : List Cand := l.foldr insertCand []

def candidates (classes : List Cls) (length : Nat) : List Cand :=
  sortCands (collect classes length)

/-- a Python string of length 0 or 1 (`''` is `none`), ordered as Python orders them -/
def key : Option Char → Nat
  | none => 0
  | some c => c.toNat + 1

def pyLt (a b : Option Char) : Bool := key a < key b

/-- what `character` is after the `if … in _HEX_DIGITS … elif … == 'x'` -/
def chOf (c : Char) : Option Char :=
  if isHex c then some 'x' else if c = 'x' then none else some c

/-- the two `while` loops: `start` moves up past templates whose character is smaller,
`end` moves down past templates whose character is greater.  The list is the slice
`candidates[start:end]`. -/
def narrow (cands : List Cand) (ch : Option Char) : List Cand :=
  let a := cands.dropWhile (fun c => pyLt c.rest.head? ch)
  (a.reverse.dropWhile (fun c => pyLt ch c.rest.head?)).reverse

def Cand.step (c : Cand) : Cand := { c with rest := c.rest.tail }

/-- `for index in range(length)` of `_parse` -/
def loop : Str → Nat → List Cand → Except Err (Nat × List Cand)
  | [], addr, cands => .ok (addr, cands)
  | c :: cs, addr, cands =>
    let addr' := if isHex c then (addr <<< 4) + hexVal c else addr
    match narrow cands (chOf c) with
    | [] => .error .valueError                     -- `start >= end`
    | k :: ks => loop cs addr' ((k :: ks).map Cand.step)

/-- `(4 - cls.size) & 3` on Python integers -/
def offset (size : Nat) : Nat := (4 - size % 4) % 4

/-- `macaddress._parse(string, *classes)` -/
def parse (classes : List Cls) (s : Str) : Except Err (Nat × Cls) :=
  if s.length < 1 then .error .valueError else
  match loop s 0 (candidates classes s.length) with
  | .error e => .error e
  | .ok (_, []) => .error .valueError              -- unreachable: `start < end` after every step
  | .ok (addr, k :: _) => .ok (addr >>> offset k.cls.size, k.cls)

/-- the loop of `HWAddress.__str__` over `reversed(formats[0])` -/
def strLoop : Str → Nat → Str
  | [], _ => []
  | c :: cs, v =>
    if c = 'x' then hexDigits.getD (v &&& 0xf) '0' :: strLoop cs (v >>> 4)
    else c :: strLoop cs v

/-- `str(HWAddress)` -/
def hwStr (cls : Cls) (v : Nat) : Str :=
  (strLoop (cls.formats.headD []).reverse (v <<< offset cls.size)).reverse

/-! ### `MACObj`, `EUI64Obj` -/

inductive Kind | mac | eui64
deriving Repr, DecidableEq

def Kind.cls : Kind → Cls
  | .mac => Mac.eui48
  | .eui64 => Mac.eui64

/-- number of bytes of the address -/
def Kind.nbytes : Kind → Nat
  | .mac => 6
  | .eui64 => 8

/-- `MACObj(value)` / `EUI64Obj(value)` for a `str`: the `_address` that is stored -/
def parseObj (k : Kind) (s : Str) : Except Err Nat :=
  match parse [k.cls] s with
  | .ok (v, _) => .ok v
  | .error e => .error e

/-- `str.lower()` on the output of `__str__` (ASCII only there) -/
def lowerChar (c : Char) : Char :=
  if 65 ≤ c.toNat ∧ c.toNat ≤ 90 then Char.ofNat (c.toNat + 32) else c

def lower (s : Str) : Str := s.map lowerChar

/-- `mb = str(self.mac).lower().split("-")` -/
def mb (k : Kind) (v : Nat) : List Str := splitOn '-' (lower (hwStr k.cls v))

/-- `mb[i]`; the canonical text always has `nbytes` groups, so no `IndexError` -/
def grp (m : List Str) (i : Nat) : Str := m.getD i []

def cisco (k : Kind) (v : Nat) : Str :=
  let m := mb k v
  match k with
  | .mac => grp m 0 ++ grp m 1 ++ ['.'] ++ grp m 2 ++ grp m 3 ++ ['.'] ++ grp m 4 ++ grp m 5
  | .eui64 => grp m 0 ++ grp m 1 ++ ['.'] ++ grp m 2 ++ grp m 3 ++ ['.'] ++ grp m 4 ++ grp m 5
      ++ ['.'] ++ grp m 6 ++ grp m 7

/-- `f"{mb[0]}<sep>{mb[1]}<sep>…"` -/
def sepJoin (k : Kind) (sep : Char) (v : Nat) : Str :=
  let m := mb k v
  match k with
  | .mac => grp m 0 ++ [sep] ++ grp m 1 ++ [sep] ++ grp m 2 ++ [sep] ++ grp m 3 ++ [sep]
      ++ grp m 4 ++ [sep] ++ grp m 5
  | .eui64 => grp m 0 ++ [sep] ++ grp m 1 ++ [sep] ++ grp m 2 ++ [sep] ++ grp m 3 ++ [sep]
      ++ grp m 4 ++ [sep] ++ grp m 5 ++ [sep] ++ grp m 6 ++ [sep] ++ grp m 7

def dash (k : Kind) (v : Nat) : Str := sepJoin k '-' v
def colon (k : Kind) (v : Nat) : Str := sepJoin k ':' v
/-- `MACObj.unix` (there is no `EUI64Obj.unix`) -/
def unix (v : Nat) : Str := sepJoin .mac '-' v

/-- `__eq__` between two objects of the same class:
`str(self.dash).lower() == str(other.dash).lower()` -/
def eq (k : Kind) (v w : Nat) : Bool := lower (dash k v) == lower (dash k w)

/-- `__eq__` against a plain `macaddress.EUI48` / `EUI64` of the same size:
`str(self.mac).lower() == str(other).lower()` -/
def eqRaw (k : Kind) (v w : Nat) : Bool := lower (hwStr k.cls v) == lower (hwStr k.cls w)

/-! ### `macaddress.parse(word, MAC, EUI64)` (`MACEUISearch`) and `==` between any two objects -/

/-- `macaddress.parse(word, MAC, EUI64)` as `MACEUISearch.__init__` calls it: `_parse` over both
classes picks the class, `cls(address)` builds the object (its `int` branch raises `ValueError`
for `address >= 1 << size`).  The answer is the kind (`isinstance(tmp, macaddress.MAC)` /
`EUI64`) and the address. -/
def classify (w : Str) : Except Err (Kind × Nat) :=
  match parse [eui48, eui64] w with
  | .error e => .error e
  | .ok (v, c) =>
    if v ≥ 1 <<< c.size then .error .valueError
    else if c = eui48 then .ok (.mac, v)
    else if c = eui64 then .ok (.eui64, v)
    else .error .valueError                          -- unreachable: `_parse` returns one of the two classes

/-- an object that can stand on either side of `==`: `MACObj` / `EUI64Obj` (`wrapped`) or a
plain `macaddress.EUI48` / `EUI64` (`plain`), with its `_address` -/
inductive Obj
  | wrapped (k : Kind) (v : Nat)
  | plain (k : Kind) (v : Nat)
deriving Repr, DecidableEq

def Obj.kind : Obj → Kind
  | .wrapped k _ => k
  | .plain k _ => k

def Obj.value : Obj → Nat
  | .wrapped _ v => v
  | .plain _ v => v

/-- `a == b` as Python evaluates it.
* `MACObj.__eq__` / `EUI64Obj.__eq__`: same wrapper class → lower-cased dash texts; a plain object
  of the class it wraps (`isinstance(other, EUI48)` resp. `EUI64`) → lower-cased canonical texts;
  anything else (in particular an object of the other size) → `False`.
* plain on the left, wrapper of the same size on the right: the wrapper is a subclass that overrides
  `__eq__`, so Python calls the wrapper's reflected `__eq__` first — the same comparison.
* otherwise `HWAddress.__eq__`: `type(self) == type(other) and int(self) == int(other)`; a plain
  object and a wrapper are never of the same type. -/
def objEq : Obj → Obj → Bool
  | .wrapped k v, .wrapped k' w => if k = k' then eq k v w else false
  | .wrapped k v, .plain k' w => if k = k' then eqRaw k v w else false
  | .plain k v, .wrapped k' w => if k = k' then eqRaw k' w v else false
  | .plain k v, .plain k' w => k = k' && v = w

/-! ### `str()` / `repr()` of the objects, and `MACEUISearch` (`search_all_formats`, `__str__`) -/

/-- `'<MACObj '` / `'<EUI64Obj '` -/
def reprHead : Kind → Str
  | .mac => ['<', 'M', 'A', 'C', 'O', 'b', 'j', ' ']
  | .eui64 => ['<', 'E', 'U', 'I', '6', '4', 'O', 'b', 'j', ' ']

/-- `MACObj.__repr__` / `EUI64Obj.__repr__` (`__str__` returns the same text):
`f'<MACObj {str(self.mac)}>'` — the class name and macaddress' canonical (upper-case dash) text -/
def reprObj (k : Kind) (v : Nat) : Str := reprHead k ++ hwStr k.cls v ++ ['>']

/-- `'<MACEUISearch word: '` -/
def searchHead : Str :=
  ['<', 'M', 'A', 'C', 'E', 'U', 'I', 'S', 'e', 'a', 'r', 'c', 'h', ' ', 'w', 'o', 'r', 'd', ':', ' ']

/-- `', found: '` -/
def searchMid : Str := [',', ' ', 'f', 'o', 'u', 'n', 'd', ':', ' ']

/-- `MAC <cisco>` / `EUI64 <cisco>` / `None` -/
def foundText : Except Err (Kind × Nat) → Str
  | .ok (.mac, v) => ['M', 'A', 'C', ' '] ++ cisco .mac v
  | .ok (.eui64, v) => ['E', 'U', 'I', '6', '4', ' '] ++ cisco .eui64 v
  | .error _ => ['N', 'o', 'n', 'e']

/-- `MACEUISearch.__str__` (`__repr__` returns the same text) for the word and what `classify` found -/
def searchStr (w : Str) : Str :=
  searchHead ++ w ++ searchMid ++ foundText (classify w) ++ ['>']

/-- the regexes the correspondence feeds to `search_all_formats`: hex digits, `-`, `:` (all literal
outside a character class) and `.` (any character but a newline) -/
def rxCharOk (c : Char) : Bool := isHex c || c == '-' || c == ':' || c == '.'

/-- one pattern character against one text character under `re.I` -/
def rxMatchChar (p c : Char) : Bool :=
  if p = '.' then c != '\n' else lowerChar p == lowerChar c

/-- `re.match(rgx, text, re.I)` for such a regex: position by position -/
def rxAt : Str → Str → Bool
  | [], _ => true
  | _ :: _, [] => false
  | p :: ps, c :: cs => rxMatchChar p c && rxAt ps cs

/-- `re.search(rgx, text, re.I)`: a match at some position -/
def rxSearch (p : Str) : Str → Bool
  | [] => rxAt p []
  | c :: cs => rxAt p (c :: cs) || rxSearch p cs

/-- the four texts `search_all_formats` tries: `dash`, `colon`, `cisco`, `dash.replace('-', '')` -/
def searchTexts (k : Kind) (v : Nat) : List Str :=
  [dash k v, colon k v, cisco k v, (dash k v).filter (· != '-')]

/-- `MACEUISearch(word).search_all_formats(mac_regex_strs)`: `False` when the word is not an address,
else whether some regex of the set is found in one of the four texts (the `for` loop returns at the
first hit, so the iteration order of the set does not matter) -/
def searchAllFormats (rgxs : List Str) (w : Str) : Bool :=
  match classify w with
  | .error _ => false
  | .ok (k, v) => rgxs.any (fun r => (searchTexts k v).any (fun t => rxSearch r t))

end Ccp.Mac
