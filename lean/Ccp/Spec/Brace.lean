import Ccp.Model.Brace
/-!
Specification side of C08: statement trees, their flattening, the family of whitespace
layouts and the rendering of a tree in a layout.  Nothing here is used by the driver.
-/
namespace Ccp.Brace
open Ccp.Py

/-- a statement: its words and the statements of the block it opens (none for a leaf) -/
inductive Stmt
  | node (words : List Str) (children : List Stmt)

/-- the statement text: the words separated by one blank -/
def stmtText (words : List Str) : Str := join [' '] words

mutual
/-- preorder, one line per statement, four blanks per enclosing block -/
def flattenStmt (d : Nat) : Stmt → List Str
  | .node w cs => (List.replicate (4 * d) ' ' ++ stmtText w) :: flattenList (d + 1) cs
def flattenList (d : Nat) : List Stmt → List Str
  | [] => []
  | s :: ss => flattenStmt d s ++ flattenList d ss
end

def flatten (T : List Stmt) : List Str := flattenList 0 T

mutual
/-- number of statements -/
def sizeStmt : Stmt → Nat
  | .node _ cs => 1 + sizeList cs
def sizeList : List Stmt → Nat
  | [] => 0
  | s :: ss => sizeStmt s + sizeList ss
end

mutual
/-- per line of the flattening (numbered from `start`): the line number of the statement
that opened its innermost enclosing block, `none` at the top level -/
def treeParentsStmt (start : Nat) (par : Option Nat) : Stmt → List (Option Nat)
  | .node _ cs => par :: treeParentsList (start + 1) (some start) cs
def treeParentsList (start : Nat) (par : Option Nat) : List Stmt → List (Option Nat)
  | [] => []
  | s :: ss => treeParentsStmt start par s ++ treeParentsList (start + sizeStmt s) par ss
end

def treeParents (T : List Stmt) : List (Option Nat) := treeParentsList 0 none T

/-! ### layouts -/

/-- The free choices in writing one statement:
`pre  text [;] post`                                   for a leaf,
`pre  text [;] post { children close } after`          for a block
(a childless statement is written as an empty block when `block` is set). -/
structure NodeLayout where
  /-- white space before the text: indentation, blank lines -/
  pre : Str
  /-- terminating semicolon present -/
  semi : Bool
  /-- white space after the text: trailing blanks; line breaks here put the brace on the next line -/
  post : Str
  /-- write a childless statement as `text { }` -/
  block : Bool
  /-- white space before the closing brace (`" "` in a one-line block) -/
  close : Str
  /-- white space after the closing brace -/
  after : Str

/-- a layout chooses for every node, addressed by its path of child indices from the top -/
abbrev Layout := List Nat → NodeLayout

def Stmt.children : Stmt → List Stmt
  | .node _ cs => cs

def writtenAsBlock (nl : NodeLayout) (cs : List Stmt) : Bool := !cs.isEmpty || nl.block

mutual
/-- `more` = another statement of the same block follows.  A leaf and its next sibling
are separated by a line break (on one line they would be one statement). -/
def renderStmt (L : Layout) (path : List Nat) (more : Bool) : Stmt → Str
  | .node w cs =>
    (L path).pre ++ (stmtText w ++ ((if (L path).semi then [';'] else []) ++ ((L path).post ++
      (if writtenAsBlock (L path) cs then
        '{' :: (renderList L path 0 cs ++ ((L path).close ++ '}' :: (L path).after))
       else if more then ['\n'] else []))))
def renderList (L : Layout) (path : List Nat) (i : Nat) : List Stmt → Str
  | [] => []
  | s :: ss => renderStmt L (path ++ [i]) (!ss.isEmpty) s ++ renderList L path (i + 1) ss
end

def render (L : Layout) (T : List Stmt) : Str := renderList L [] 0 T

/-! ### well-formedness -/

/-- blank, tab, LF, CR -/
def AllWs (w : Str) : Prop := ∀ c ∈ w, c = ' ' ∨ c = '\t' ∨ c = '\n' ∨ c = '\r'

/-- every white-space field of the layout is made of blanks, tabs and line breaks -/
def LayoutOk (L : Layout) : Prop :=
  ∀ p, AllWs (L p).pre ∧ AllWs (L p).post ∧ AllWs (L p).close ∧ AllWs (L p).after

/-- visible ASCII, no brace -/
def WordOk (w : Str) : Prop := w ≠ [] ∧ ∀ c ∈ w, isPrintable c = true ∧ c ≠ '{' ∧ c ≠ '}'

/-- the words of one statement: at least one; the first does not begin with a quote
character (F31); the last does not end with a semicolon -/
def WordsOk (ws : List Str) : Prop :=
  ws ≠ [] ∧ (∀ w ∈ ws, WordOk w) ∧
  (∀ w ∈ ws.head?, w.head? ≠ some '"' ∧ w.head? ≠ some '\'') ∧
  (∀ w ∈ ws.getLast?, w.getLast? ≠ some ';')

mutual
def StmtOk : Stmt → Prop
  | .node w cs => WordsOk w ∧ ListOk cs
def ListOk : List Stmt → Prop
  | [] => True
  | s :: ss => StmtOk s ∧ ListOk ss
end

end Ccp.Brace
