import Ccp.Model.Tree
/-!
# Specification of the blank-line filter (property C01, `ignore_blank_lines`)

Which lines survive: the non-blank ones, and those inside the stretch protected by a banner
or (syntax ios) macro start.  Written without reference to the banner / macro passes, their
index walks or the restart loop; it uses only the per-line recognisers of the model
(`isBannerStart`, `bannerDelim`, `isMacroStart`).
-/
namespace Ccp.Tree
open Ccp.Py

/-- `s.strip() != ""` -/
def nonBlank (s : Str) : Bool := !(strip s).isEmpty

/-- number of lines after a banner start that belong to its body: those before the first
line that contains the delimiter -/
def bannerBodyLen (d : Char) : List Str → Nat
  | [] => 0
  | y :: rest => if (strip y).contains d then 0 else 1 + bannerBodyLen d rest

/-- number of lines after a `macro name` line that belong to the macro: up to and including
the first line that is `@` -/
def macroBodyLen : List Str → Nat
  | [] => 0
  | y :: rest => if rstrip y == ['@'] then 1 else 1 + macroBodyLen rest

/-- how many lines, counted from `x` itself, are protected because `x` starts a banner -/
def protB (x : Str) (rest : List Str) : Nat :=
  if isBannerStart x then
    1 + (match bannerDelim x with
         | some d => if countChar d x ≥ 2 then 0 else bannerBodyLen d rest
         | none => 0)
  else 0

/-- … because `x` starts a macro -/
def protM (x : Str) (rest : List Str) : Nat :=
  if isMacroStart x then 1 + macroBodyLen rest else 0

/-- how many lines, counted from `x` itself, are protected from the blank-line filter
because of what `x` starts (0 = `x` starts nothing) -/
def prot (cfg : Cfg) (x : Str) (rest : List Str) : Nat :=
  max (protB x rest) (if cfg.ios then protM x rest else 0)

/-- line `j` lies in the protected stretch of some start at a position `q ≤ j` -/
def inBody (cfg : Cfg) (ls : List Str) (j : Nat) : Bool :=
  (List.range (j + 1)).any (fun q => decide (j - q < prot cfg (ls.getD q []) (ls.drop (q + 1))))

/-- **which lines survive `ignore_blank_lines`** -/
def keepSpec (cfg : Cfg) (ls : List Str) (j : Nat) : Bool :=
  nonBlank (ls.getD j []) || inBody cfg ls j

end Ccp.Tree
