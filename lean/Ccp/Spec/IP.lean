import Ccp.Py.Basic
/-!
# What the standard library `ipaddress` means by the derived values of an interface `(ip, len)`

`w` is the address width (32 or 128).  Short on purpose: this file is the reading of
"agrees with `ipaddress`" used by the C11 theorems; the harness compares the implementation with the
real module independently on every run.
-/
namespace Ccp.Spec.IP
open Ccp.Py

/-- `network.netmask`: `len` one bits followed by `w - len` zero bits -/
def mask (w len : Nat) : Nat := 2 ^ w - 2 ^ (w - len)
/-- `network.hostmask` -/
def hostmask (w len : Nat) : Nat := 2 ^ (w - len) - 1
/-- `network.network_address` -/
def net (w ip len : Nat) : Nat := ip &&& mask w len
/-- `network.broadcast_address` (the last address of the network) -/
def last (w ip len : Nat) : Nat := net w ip len ||| hostmask w len
/-- number of addresses `network.hosts()` yields -/
def hosts (w len : Nat) : Nat := if len + 2 ≤ w then 2 ^ (w - len) - 2 else 2 ^ (w - len)

/-- the `i`-th octet, most significant first -/
def octet (n i : Nat) : Nat := n / 256 ^ (3 - i) % 256
/-- `str(IPv4Address(n))` -/
def dotted (n : Nat) : Str :=
  toDec (octet n 0) ++ '.' :: (toDec (octet n 1) ++ '.' :: (toDec (octet n 2) ++ '.' :: toDec (octet n 3)))

/-- the `i`-th 16-bit group, most significant first -/
def group (n i : Nat) : Nat := n / 65536 ^ (7 - i) % 65536
def groups (n : Nat) : List Nat := (List.range 8).map (group n)
/-- one lower-case hex digit -/
def hexDigit (d : Nat) : Char := if d < 10 then Char.ofNat (48 + d) else Char.ofNat (87 + d)
/-- four hex digits -/
def hex4 (h : Nat) : Str := [hexDigit (h / 4096 % 16), hexDigit (h / 256 % 16), hexDigit (h / 16 % 16), hexDigit (h % 16)]
/-- `IPv6Address(n).exploded` -/
def exploded (n : Nat) : Str := join [':'] ((groups n).map hex4)
/-- a group without leading zeros (RFC 5952 §4.1) -/
def hexShort (h : Nat) : Str :=
  match (hex4 h).dropWhile (· == '0') with
  | [] => ['0']
  | s => s

/-- RFC 5952 §4.2: `(start, len)` is the run of zero groups that `::` replaces – at least two groups
(§4.2.2), as long as possible (§4.2.1), the first one among equals (§4.2.3) -/
def IsShortened (gs : List Nat) (start len : Nat) : Prop :=
  2 ≤ len ∧ start + len ≤ gs.length ∧ (∀ i, start ≤ i → i < start + len → gs.getD i 1 = 0) ∧
  ∀ s k, 2 ≤ k → s + k ≤ gs.length → (∀ i, s ≤ i → i < s + k → gs.getD i 1 = 0) → k < len ∨ (k = len ∧ start ≤ s)

/-- `str(IPv6Address(n))` when `(start, len)` is shortened -/
def compressedAt (gs : List Nat) (start len : Nat) : Str :=
  join [':'] ((gs.take start).map hexShort) ++ ':' :: ':' :: join [':'] ((gs.drop (start + len)).map hexShort)

/-! ### RFC 4291 §2.2: the text spellings of an IPv6 address

1. `x:x:x:x:x:x:x:x`, each `x` one to four hex digits (either case);
2. one `::` standing for one or more groups of zeros;
3. the last two groups may be written as a dotted quad `d.d.d.d`.
-/

/-- the value of one hex digit, either case -/
def hexDigitVal (c : Char) : Option Nat :=
  if 48 ≤ c.toNat ∧ c.toNat ≤ 57 then some (c.toNat - 48)
  else if 97 ≤ c.toNat ∧ c.toNat ≤ 102 then some (c.toNat - 87)
  else if 65 ≤ c.toNat ∧ c.toNat ≤ 70 then some (c.toNat - 55)
  else none

/-- the number a run of hex digits denotes, continuing from `acc` -/
def hexNumFrom : Nat → Str → Option Nat
  | acc, [] => some acc
  | acc, c :: cs =>
    match hexDigitVal c with
    | some d => hexNumFrom (acc * 16 + d) cs
    | none => none

/-- `s` is a group text (one to four hex digits) with value `g` -/
def IsHextet (s : Str) (g : Nat) : Prop := 1 ≤ s.length ∧ s.length ≤ 4 ∧ hexNumFrom 0 s = some g

/-- the texts `fs` are group texts with the values `gs` -/
def Hextets : List Str → List Nat → Prop
  | [], [] => True
  | f :: fs, g :: gs => IsHextet f g ∧ Hextets fs gs
  | _, _ => False

/-- group texts, the last two groups optionally written as one dotted quad -/
def Fields (fs : List Str) (gs : List Nat) : Prop :=
  Hextets fs gs ∨
  ∃ fs' gs' v, v < 2 ^ 32 ∧ Hextets fs' gs' ∧ fs = fs' ++ [dotted v] ∧ gs = gs' ++ [v / 65536, v % 65536]

/-- the value of a list of groups, most significant first -/
def groupsVal (gs : List Nat) : Nat := gs.foldl (fun a g => a * 65536 + g) 0

/-- `addr` is a spelling of the 128-bit address `n`: eight groups, or `hi::lo` with at most seven groups
written and the missing ones zero -/
def IsV6Spelling (addr : Str) (n : Nat) : Prop :=
  (∃ fs gs, Fields fs gs ∧ gs.length = 8 ∧ addr = join [':'] fs ∧ n = groupsVal gs) ∨
  (∃ hi lo ghi glo, Hextets hi ghi ∧ Fields lo glo ∧ ghi.length + glo.length ≤ 7 ∧
    addr = join [':'] hi ++ ':' :: ':' :: join [':'] lo ∧
    n = groupsVal (ghi ++ List.replicate (8 - (ghi.length + glo.length)) 0 ++ glo))

/-- `a/len` -/
def cidr (a : Str) (len : Nat) : Str := a ++ '/' :: toDec len

/-! ### RFC 5952 §4: the one recommended text of an IPv6 address

* §4.1 leading zeros of a group are suppressed, a zero group is written `0`; §4.3 `a`–`f` are lower case
  (both: `hexShort`);
* §4.2.1/4.2.2 `::` replaces a run of zero groups that is as long as possible and at least two groups long,
  §4.2.3 the first such run when several are equally long (`IsShortened`);
* every other group is written, groups are separated by one `:`; when no run of two zero groups exists
  there is no `::` at all.
-/

/-- `s` is the RFC 5952 text of the 128-bit value `n` -/
def IsRfc5952 (s : Str) (n : Nat) : Prop :=
  (∃ start len, IsShortened (groups n) start len ∧ s = compressedAt (groups n) start len) ∨
  ((∀ start len, ¬ IsShortened (groups n) start len) ∧ s = join [':'] ((groups n).map hexShort))

/-! ### positional numerals: what the zero-padded / hex / binary renderings mean

A rendering is read by its *width*, its *digits* and its *value*: `IsFixed b w s v` – `s` is exactly `w`
lower-case base-`b` digits and denotes `v` (leading zeros are padding); `IsShortest b s v` – `s` is the
base-`b` writing of `v` without leading zeros (`0` for zero), what `str()`, `hex()[2:]`, `'%x'` print. -/

/-- value of the digit character `c` in base `b ≤ 16`: `0`–`9`, lower-case `a`–`f`, below the base -/
def digitOf (b : Nat) (c : Char) : Option Nat :=
  if 48 ≤ c.toNat ∧ c.toNat ≤ 57 ∧ c.toNat - 48 < b then some (c.toNat - 48)
  else if 97 ≤ c.toNat ∧ c.toNat ≤ 102 ∧ c.toNat - 87 < b then some (c.toNat - 87)
  else none

/-- the number a run of base-`b` digits denotes, most significant first, continuing from `acc` -/
def numFrom (b : Nat) : Nat → Str → Option Nat
  | acc, [] => some acc
  | acc, c :: cs =>
    match digitOf b c with
    | some d => numFrom b (acc * b + d) cs
    | none => none

/-- `s` is `v` written with exactly `w` base-`b` digits -/
def IsFixed (b w : Nat) (s : Str) (v : Nat) : Prop := s.length = w ∧ numFrom b 0 s = some v

/-- `s` is `v` written in base `b` without leading zeros -/
def IsShortest (b : Nat) (s : Str) (v : Nat) : Prop :=
  s ≠ [] ∧ (s.head? = some '0' → s = ['0']) ∧ numFrom b 0 s = some v

/-- the texts `ts` are the `w`-digit base-`b` writings of the values `vs`, one for one -/
def AreFixed (b w : Nat) : List Str → List Nat → Prop
  | [], [] => True
  | t :: ts, v :: vs => IsFixed b w t v ∧ AreFixed b w ts vs
  | _, _ => False

/-- the four octets, most significant first -/
def octets (n : Nat) : List Nat := (List.range 4).map (octet n)

end Ccp.Spec.IP
