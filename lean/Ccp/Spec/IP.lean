import Ccp.Py.Basic
/-!
# What the standard library `ipaddress` means by the derived values of an interface `(ip, len)`

`w` is the address width (32 or 128).  Short on purpose: this file is the reading of
"agrees with `ipaddress`" used by the C11 theorems; the harness compares the implementation with the
real module independently on every run.
-/
namespace Ccp.Spec.IP
open Ccp.Py

/-- `network.netmask`: `len` one bits followed by `w - len` zero bits -/
def mask (w len : Nat) : Nat := 2 ^ w - 2 ^ (w - len)
/-- `network.hostmask` -/
def hostmask (w len : Nat) : Nat := 2 ^ (w - len) - 1
/-- `network.network_address` -/
def net (w ip len : Nat) : Nat := ip &&& mask w len
/-- `network.broadcast_address` (the last address of the network) -/
def last (w ip len : Nat) : Nat := net w ip len ||| hostmask w len
/-- number of addresses `network.hosts()` yields -/
def hosts (w len : Nat) : Nat := if len + 2 ≤ w then 2 ^ (w - len) - 2 else 2 ^ (w - len)

/-- the `i`-th octet, most significant first -/
def octet (n i : Nat) : Nat := n / 256 ^ (3 - i) % 256
/-- `str(IPv4Address(n))` -/
def dotted (n : Nat) : Str :=
  toDec (octet n 0) ++ '.' :: (toDec (octet n 1) ++ '.' :: (toDec (octet n 2) ++ '.' :: toDec (octet n 3)))

/-- the `i`-th 16-bit group, most significant first -/
def group (n i : Nat) : Nat := n / 65536 ^ (7 - i) % 65536
def groups (n : Nat) : List Nat := (List.range 8).map (group n)
/-- one lower-case hex digit -/
def hexDigit (d : Nat) : Char := if d < 10 then Char.ofNat (48 + d) else Char.ofNat (87 + d)
/-- four hex digits -/
def hex4 (h : Nat) : Str := [hexDigit (h / 4096 % 16), hexDigit (h / 256 % 16), hexDigit (h / 16 % 16), hexDigit (h % 16)]
/-- `IPv6Address(n).exploded` -/
def exploded (n : Nat) : Str := join [':'] ((groups n).map hex4)
/-- a group without leading zeros (RFC 5952 §4.1) -/
def hexShort (h : Nat) : Str :=
  match (hex4 h).dropWhile (· == '0') with
  | [] => ['0']
  | s => s

/-- RFC 5952 §4.2: `(start, len)` is the run of zero groups that `::` replaces – at least two groups
(§4.2.2), as long as possible (§4.2.1), the first one among equals (§4.2.3) -/
def IsShortened (gs : List Nat) (start len : Nat) : Prop :=
  2 ≤ len ∧ start + len ≤ gs.length ∧ (∀ i, start ≤ i → i < start + len → gs.getD i 1 = 0) ∧
  ∀ s k, 2 ≤ k → s + k ≤ gs.length → (∀ i, s ≤ i → i < s + k → gs.getD i 1 = 0) → k < len ∨ (k = len ∧ start ≤ s)

/-- `str(IPv6Address(n))` when `(start, len)` is shortened -/
def compressedAt (gs : List Nat) (start len : Nat) : Str :=
  join [':'] ((gs.take start).map hexShort) ++ ':' :: ':' :: join [':'] ((gs.drop (start + len)).map hexShort)

/-- `a/len` -/
def cidr (a : Str) (len : Nat) : Str := a ++ '/' :: toDec len

end Ccp.Spec.IP
