import Ccp.Model.Tree
/-!
# Specification of the indentation rule (property C02)

Written without reference to the bootstrap loop, its parent cache or `max_indent`.
A line is seen only through its `Info` (indentation, "is a configuration line",
"is a comment").  `specParent infos i = i` means "line `i` is a root".
-/
namespace Ccp.Tree

/-- the largest `j < n` such that line `j` is a configuration line indented less than `k` -/
def nearestShallower (infos : List Info) (k : Nat) : Nat → Option Nat
  | 0 => none
  | j + 1 =>
    match infos[j]? with
    | some l => if l.isCfg = true ∧ l.indent < k then some j else nearestShallower infos k j
    | none => nearestShallower infos k j

/-- line `i` is a comment and the line directly above it is indented deeper -/
def commentUnderDeeper (infos : List Info) (i : Nat) : Bool :=
  match i, infos[i]? with
  | j + 1, some l =>
    l.isCmt && (match infos[j]? with | some prev => decide (prev.indent > l.indent) | none => false)
  | _, _ => false

/-- the parent of line `i`: itself (a root) when it is not indented or is a comment under
a deeper line; otherwise the nearest preceding shallower configuration line, itself if none -/
def specParent (infos : List Info) (i : Nat) : Nat :=
  match infos[i]? with
  | none => i
  | some l =>
    if l.indent = 0 ∨ commentUnderDeeper infos i = true then i
    else (nearestShallower infos l.indent i).getD i

/-- the children of line `p`, ascending -/
def specChildren (infos : List Info) (p : Nat) : List Nat :=
  (List.range infos.length).filter (fun i => i != p && specParent infos i == p)

end Ccp.Tree
