import Ccp.Spec.Indent
import Ccp.Spec.BlankKeep
/-!
# Specification of the final parent of every line (properties C02 / C03), banner and macro
bodies included

Written without reference to the banner / macro passes, their index walks, or the order in
which they run.  It uses only the per-line recognisers of the model (`isBannerStart`,
`bannerDelim`, `isMacroStart`), the stretch notions of `Spec/BlankKeep.lean`
(`bannerBodyLen`, `macroBodyLen`) and the indentation rule `specParent` of `Spec/Indent.lean`.

*Stretch of a start line `q`* = the lines directly after `q` that are made its children:

* a banner start whose delimiter `d` is recognised and occurs only once on the start line:
  the body lines (those before the first following line containing `d`) **and that closing
  line**; everything up to the end of the config when no later line contains `d`
  (unterminated banner).  A banner start without recognisable delimiter, or with the
  delimiter twice on the start line (one-line banner), has an empty stretch;
* (syntax ios only) a `macro name …` line: the following lines up to and including the first
  line that is `@` (ignoring trailing white space); to the end of the config if there is none.

*Which start wins* when stretches overlap or nest: a macro start beats every banner start;
among starts of the same kind the **last** one before the line (the largest line number)
whose stretch reaches the line.  A line that follows a stretch keeps its indentation parent
even when that parent is a body line.
-/
namespace Ccp.Tree
open Ccp.Py

/-- number of lines after a banner start that become its children: the body and the closing
line (the first line containing the delimiter), or everything when there is no closing line -/
def bannerLinkLen (d : Char) : List Str → Nat
  | [] => 0
  | y :: rest => if (strip y).contains d then 1 else 1 + bannerLinkLen d rest

/-- length of the stretch of `x` as a banner start (`rest` = the lines after `x`) -/
def coverB (x : Str) (rest : List Str) : Nat :=
  if isBannerStart x then
    match bannerDelim x with
    | some d => if countChar d x ≥ 2 then 0 else bannerLinkLen d rest
    | none => 0
  else 0

/-- length of the stretch of `x` as a macro start -/
def coverM (x : Str) (rest : List Str) : Nat :=
  if isMacroStart x then macroBodyLen rest else 0

/-- line `j` lies in the stretch of line `q` -/
def covers (cov : Str → List Str → Nat) (ls : List Str) (q j : Nat) : Bool :=
  decide (q < j ∧ j - q ≤ cov (ls.getD q []) (ls.drop (q + 1)))

/-- the largest `q < n` whose stretch reaches line `j` -/
def lastCover (cov : Str → List Str → Nat) (ls : List Str) (j : Nat) : Nat → Option Nat
  | 0 => none
  | q + 1 => if covers cov ls q j then some q else lastCover cov ls j q

/-- the macro start that owns line `i` (syntax ios only) -/
def macroOwner (cfg : Cfg) (ls : List Str) (i : Nat) : Option Nat :=
  if cfg.ios then lastCover coverM ls i i else none

/-- the banner start that owns line `i`, macros not considered -/
def bannerOwner (ls : List Str) (i : Nat) : Option Nat := lastCover coverB ls i i

/-- **the final parent of line `i`** (`= i` for a root): the last macro start whose stretch
reaches `i`; else the last banner start whose stretch reaches `i`; else the indentation parent -/
def specParentFull (cfg : Cfg) (ls : List Str) (i : Nat) : Nat :=
  match macroOwner cfg ls i with
  | some m => m
  | none =>
    match bannerOwner ls i with
    | some b => b
    | none => specParent (ls.map (info cfg)) i

/-- the children of line `p`, ascending -/
def specChildrenFull (cfg : Cfg) (ls : List Str) (p : Nat) : List Nat :=
  (List.range ls.length).filter (fun i => i != p && specParentFull cfg ls i == p)

end Ccp.Tree
