-- CHANNEL input
import Ccp.Wire
import Ccp.Model.Input
import Ccp.Drv.Tree
namespace Ccp.Drv.Input
open Ccp.Py Ccp.Wire Ccp.Input

def errName : Err → String
  | .fileNotFound => "err:FileNotFoundError"
  | .invalidParameters => "err:InvalidParameters"

def decInput (form arg : String) : Option Ccp.Input.Input :=
  match form with
  | "none" => some .none
  | "list" => (decStrs arg).map .list
  | "tuple" => (decStrs arg).map .tuple
  | "str" => (decStr arg).map .str
  | "path" => (decStr arg).map .path
  | _ => Option.none

/-- `n` further save/load cycles starting from the object with texts `ls`:
each answers `<text written>~<texts of the object loaded from it>` -/
def cycles (cfg : Tree.Cfg) (sep : Str) : Nat → List Str → List String
  | 0, _ => []
  | n + 1, ls =>
    let w := saveAs sep ls
    let ls' := texts cfg (fileLines w)
    (encStr w ++ "~" ++ encStrs ls') :: cycles cfg sep n ls'

/-- one input form: `<form> <arg> <fspath> <fstext|->` -/
def oneForm (cfg : Tree.Cfg) (sp : Str) (k : Nat) (form arg fspath fstext : String) : String :=
  match decInput form arg, decStr fspath with
  | some inp, some fp =>
    let content : Option Text := if fstext == "-" then Option.none else decStr fstext
    let fs : Path → Option Text := fun q => if q = fp then content else Option.none
    match load cfg fs inp with
    | .error e => errName e
    | .ok t => "&".intercalate (Ccp.Drv.Tree.answer t "all" :: cycles cfg sp k (getText t))
  | _, _ => "bad-request"

def forms (cfg : Tree.Cfg) (sp : Str) (k : Nat) : List String → List String
  | form :: arg :: fspath :: fstext :: rest => oneForm cfg sp k form arg fspath fstext :: forms cfg sp k rest
  | [] => []
  | _ => ["bad-request"]

/-- `input <ios 0/1> <delims> <ignore_blank 0/1> <linesep> <ncycles> (<form> <arg> <fspath> <fstext|->)*`
answers, per form and separated by `#`, the tree dump of the first load and one item per cycle
(separated by `&`);
`input split <text>` answers `splitlines`, `re.split("\r*\n")`, universal newlines of the text -/
def handle : List String → String
  | ["split", text] =>
    match decStr text with
    | some t => encStrs (splitlines t) ++ "|" ++ encStrs (splitRegexCRLF t) ++ "|" ++ encStr (universalNewlines t)
    | Option.none => "bad-request"
  | ios :: delims :: ign :: sep :: n :: rest =>
    match decStr delims, decStr sep, decNat n with
    | some ds, some sp, some k =>
      let cfg : Tree.Cfg := { ios := ios == "1", delims := ds, ignoreBlank := ign == "1" }
      "#".intercalate (forms cfg sp k rest)
    | _, _, _ => "bad-request"
  | _ => "bad-request"

end Ccp.Drv.Input
