-- CHANNEL rangex
import Ccp.Wire
import Ccp.Model.RangeX
import Ccp.Drv.Range
namespace Ccp.Drv.RangeX
open Ccp.Py Ccp.Wire Ccp.Range Ccp.RangeX

def errName : XErr → String
  | .base e => Ccp.Drv.Range.errName e
  | .notImplemented => "err:NotImplementedError"
  | .mismatched => "err:MismatchedType"
  | .invalidInterface => "err:InvalidCiscoInterface"
  | .typeError => "err:TypeError"
  | .indexError => "err:IndexError"

def decTy : String → Option Ty
  | "auto" => some .auto
  | "none" => some .none
  | "inst" => some .inst
  | "str" => some .str
  | "int" => some .int
  | "float" => some .float
  | "bad" => some .bad
  | _ => none

def decBool : Char → Option Bool
  | '1' => some true
  | '0' => some false
  | _ => none

def decVal (w : String) : Option Val :=
  match w.toList with
  | ['j'] => some .junk
  | 'i' :: ds => (ofDigits ds).map .int
  | 's' :: ds => (ofDigits ds).map .strOf
  | _ => none

def decOp (op : String) : Option OpX :=
  match op.splitOn ":" with
  | ["list", t] => (decTy t).map .list
  | ["set", t] => (decTy t).map .set
  | ["appx", v, fl] =>
    match decVal v, fl.toList with
    | some v, [a, b] =>
      match decBool a, decBool b with
      | some sort, some ign => some (.app v sort ign)
      | _, _ => none
    | _, _ => none
  | ["remx", v, fl] =>
    match decVal v, fl.toList with
    | some v, [a] => (decBool a).map (.rem v)
    | _, _ => none
  | ["ins", n] => (decNat n).map .ins
  | _ => (Ccp.Drv.Range.decOp op).map .old

def encElTy : ElTy → String
  | .e => "e"
  | .i => "i"
  | .s => "s"
  | .f => "f"

def encAns : AnsX → String
  | .old a => Ccp.Drv.Range.encAns a
  | .view v => (if v.isList then "L" else "S") ++ encElTy v.ty ++ ":" ++ encNats v.items
  | .ok => "ok"
  | .err e => errName e

def decRead (op : String) : Option ReadOp :=
  match op.splitOn ":" with
  | ["str"] => some .str
  | ["repr"] => some .repr
  | ["idx", k] => (decNat k).map .idx
  | ["eqfresh"] => some .eqFresh
  | ["data"] => some .data
  | _ => none

def stepLine (rt : CTy) (fresh : List Nat) (s : St) (op : String) : St × String :=
  match decRead op with
  | some r => (s, encAns (readX rt fresh s r))
  | none =>
    match decOp op with
    | some o => let r := stepX s o; (r.1, encAns r.2)
    | none => (s, "bad-op")

def runOps (rt : CTy) (fresh : List Nat) : St → List String → List String
  | _, [] => []
  | s, op :: ops => let r := stepLine rt fresh s op; r.2 :: runOps rt fresh r.1 ops

def decCTy : String → Option CTy
  | "int" => some .int
  | "float" => some .float
  | "bad" => some .bad
  | _ => none

/-- `rangex <text> <result_type> <reverse> <op> <op> …` -/
def handle : List String → String
  | text :: rt :: rev :: ops =>
    match decStr text, decCTy rt, rev.toList with
    | some t, some rt, [r] =>
      match decBool r with
      | none => "bad-request"
      | some r =>
        match construct rt r t with
        | .error e => errName e
        | .ok s => "|".intercalate ("ok" :: runOps rt s.data s ops)
    | _, _, _ => "bad-request"
  | _ => "bad-request"

end Ccp.Drv.RangeX
