-- CHANNEL ipvalx
import Ccp.Wire
import Ccp.Model.IPValX
namespace Ccp.Drv.IPValX
open Ccp.Py Ccp.Wire Ccp.IPVal Ccp.IPValX

def errName : XErr → String
  | .valueError => "err:ValueError"
  | .attributeError => "err:AttributeError"
  | .typeError => "err:TypeError"
  | .assertionError => "err:AssertionError"
  | .notImplemented => "err:NotImplementedError"

def tf (b : Bool) : String := if b then "T" else "F"

def ans (r : Except XErr Bool) : String :=
  match r with
  | .ok b => tf b
  | .error e => errName e

def decIpLen (w : String) : Option (Nat × Nat) :=
  match w.splitOn "/" with
  | [a, l] => do
    let ip ← decNat a
    let len ← decNat l
    some (ip, len)
  | _ => none

/-- `4:ip/len`, `6:ip/len`, `4:e`, `6:e`, `o` -/
def decArg (w : String) : Option Arg :=
  match w.splitOn ":" with
  | ["o"] => some .other
  | ["4", "e"] => some .empty4
  | ["6", "e"] => some .empty6
  | ["4", o] => (decIpLen o).map (fun p => .obj4 (ofIpLen v4 p.1 p.2))
  | ["6", o] => (decIpLen o).map (fun p => .obj6 (ofIpLen v6 p.1 p.2))
  | _ => none

def decArgs (w : String) : Option (List Arg) :=
  if w = "" then some [] else (w.splitOn ";").mapM decArg

/-- `o4:ip/len` (object), `n4:ip/len` (stdlib network built with `strict=False`), `e` (empty object), `b` (other type) -/
def decItem (w : String) : Option Item :=
  match w.splitOn ":" with
  | ["e"] => some .empty
  | ["b"] => some .bad
  | ["o4", o] => (decIpLen o).map (fun p => .obj 4 (ofIpLen v4 p.1 p.2))
  | ["o6", o] => (decIpLen o).map (fun p => .obj 6 (ofIpLen v6 p.1 p.2))
  | ["n4", o] => (decIpLen o).map (fun p => .net 4 (netOf v4 p.1 p.2, p.2))
  | ["n6", o] => (decIpLen o).map (fun p => .net 6 (netOf v6 p.1 p.2, p.2))
  | _ => none

def decItems (w : String) : Option (List Item) :=
  if w = "" then some [] else (w.splitOn ";").mapM decItem

/--
* `ipvalx in <args>`                 → `a in b` for every ordered pair (row major; `-` when `b` is no address object)
* `ipvalx collapse <seq|nonseq> <items>` → collapsed networks `net/len;…` or `err:<class>`
-/
def handle : List String → String
  | ["in", args] =>
    match decArgs args with
    | none => "bad-request"
    | some l =>
      ",".intercalate (l.flatMap (fun a => l.map (fun b =>
        match containsX b a with
        | none => "-"
        | some r => ans r)))
  | ["collapse", sq, items] =>
    match decItems items with
    | none => "bad-request"
    | some l =>
      match collapseX (sq == "seq") l with
      | .ok ns => "ok:" ++ ";".intercalate (ns.map (fun n => s!"{n.1}/{n.2}"))
      | .error e => errName e
  | _ => "bad-request"

end Ccp.Drv.IPValX
