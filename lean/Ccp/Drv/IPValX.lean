-- CHANNEL ipvalx
import Ccp.Wire
import Ccp.Model.IPValX
import Ccp.Drv.IPVal
namespace Ccp.Drv.IPValX
open Ccp.Py Ccp.Wire Ccp.IPVal Ccp.IPValX

def errName : XErr → String
  | .valueError => "err:ValueError"
  | .attributeError => "err:AttributeError"
  | .typeError => "err:TypeError"
  | .assertionError => "err:AssertionError"
  | .notImplemented => "err:NotImplementedError"

def tf (b : Bool) : String := if b then "T" else "F"

def ans (r : Except XErr Bool) : String :=
  match r with
  | .ok b => tf b
  | .error e => errName e

def decIpLen (w : String) : Option (Nat × Nat) :=
  match w.splitOn "/" with
  | [a, l] => do
    let ip ← decNat a
    let len ← decNat l
    some (ip, len)
  | _ => none

/-- `4:ip/len`, `6:ip/len`, `4:e`, `6:e`, `o` -/
def decArg (w : String) : Option Arg :=
  match w.splitOn ":" with
  | ["o"] => some .other
  | ["4", "e"] => some .empty4
  | ["6", "e"] => some .empty6
  | ["4", o] => (decIpLen o).map (fun p => .obj4 (ofIpLen v4 p.1 p.2))
  | ["6", o] => (decIpLen o).map (fun p => .obj6 (ofIpLen v6 p.1 p.2))
  | _ => none

def decArgs (w : String) : Option (List Arg) :=
  if w = "" then some [] else (w.splitOn ";").mapM decArg

/-- `o4:ip/len` (object), `n4:ip/len` (stdlib network built with `strict=False`), `e` (empty object), `b` (other type) -/
def decItem (w : String) : Option Item :=
  match w.splitOn ":" with
  | ["e"] => some .empty
  | ["b"] => some .bad
  | ["o4", o] => (decIpLen o).map (fun p => .obj 4 (ofIpLen v4 p.1 p.2))
  | ["o6", o] => (decIpLen o).map (fun p => .obj 6 (ofIpLen v6 p.1 p.2))
  | ["n4", o] => (decIpLen o).map (fun p => .net 4 (netOf v4 p.1 p.2, p.2))
  | ["n6", o] => (decIpLen o).map (fun p => .net 6 (netOf v6 p.1 p.2, p.2))
  | _ => none

def decItems (w : String) : Option (List Item) :=
  if w = "" then some [] else (w.splitOn ";").mapM decItem

def ansOpt (r : Option (Except XErr Bool)) : String :=
  match r with
  | none => "-"
  | some r => ans r

def sErrName : SErr → String
  | .base e => Ccp.Drv.IPVal.errName e
  | .attributeError => "err:AttributeError"
  | .valueError => "err:ValueError"

def lenNameOf : String → Option LenName
  | "prefixlen" => some .prefixlen
  | "masklen" => some .masklen
  | "masklength" => some .masklength
  | "prefixlength" => some .prefixlength
  | _ => none

def famOfArg : Arg → Fam
  | .obj6 _ => v6
  | .empty6 => v6
  | _ => v4

/-- `hash int index prefixlen masklen masklength prefixlength +1 -1 network_offset` of one operand -/
def unary (a : Arg) : String :=
  match a with
  | .other => "-"
  | _ =>
    let f := famOfArg a
    let h := match hashX a with
      | some (.ok _) => "h"
      | some (.error e) => errName e
      | none => "-"
    let i := match intX a with
      | some (.ok n) => toString n
      | some (.error e) => errName e
      | none => "-"
    let g (name : LenName) : String := match getLenX name a with
      | some (.ok (some n)) => toString n
      | some (.ok none) => "None"
      | some (.error e) => errName e
      | none => "-"
    let ar (k : Int) : String := match objOf a, arithEmpty a with
      | some x, _ => (match add f x k with
        | .ok _ => "ok"
        | .error e => Ccp.Drv.IPVal.errName e)
      | none, some e => errName e
      | none, none => "-"
    let off : String := match objOf a, arithEmpty a with
      | some x, _ => (match getOffset f x with
        | .ok k => toString k
        | .error e => Ccp.Drv.IPVal.errName e)
      | none, some e => errName e
      | none, none => "-"
    ";".intercalate [h, i, i, g .prefixlen, g .masklen, g .masklength, g .prefixlength, ar 1, ar (-1), off]

def stepX (fam : Nat) (x : Obj) (op : String) : Obj × String :=
  let upd (r : Except SErr Obj) : Obj × String :=
    match r with
    | .ok y => (y, "ok")
    | .error e => (x, sErrName e)
  match op.splitOn ":" with
  | ["setl", name, n] => (match lenNameOf name, decInt n with
      | some nm, some k => upd (setLenBy fam nm x k)
      | _, _ => (x, "bad-op"))
  | ["sets", name, s] => (match lenNameOf name, decStr s with
      | some nm, some t => upd (setLenStr fam nm x t)
      | _, _ => (x, "bad-op"))
  | ["offs", s] => (match decStr s with
      | some t => upd (setOffsetStr fam x t)
      | none => (x, "bad-op"))
  | ["offx"] => upd setOffsetOther
  | ["addx"] => upd arithNonInt
  | ["subx"] => upd arithNonInt
  | ["getl"] => (x, s!"{x.len},{x.len},{x.len},{x.len}")
  | ["int"] => (x, s!"{x.ip},{x.ip}")
  | _ => Ccp.Drv.IPVal.stepOp (famOfNat fam) x op

def runX (fam : Nat) : Obj → List String → List String
  | _, [] => []
  | x, op :: ops => let r := stepX fam x op; r.2 :: runX fam r.1 ops

/--
* `ipvalx cmp <args>`                → `lt/gt/eq/ne` of every ordered pair `|` the unary observations of every operand
* `ipvalx seq <4|6> ip/len op op …`  → one answer per operation (the operations of `ipval seq` and the new ones)
* `ipvalx in <args>`                 → `a in b` for every ordered pair (row major; `-` when `b` is no address object)
* `ipvalx collapse <seq|nonseq> <items>` → collapsed networks `net/len;…` or `err:<class>`
-/
def handle : List String → String
  | ["in", args] =>
    match decArgs args with
    | none => "bad-request"
    | some l =>
      ",".intercalate (l.flatMap (fun a => l.map (fun b =>
        match containsX b a with
        | none => "-"
        | some r => ans r)))
  | ["cmp", args] =>
    match decArgs args with
    | none => "bad-request"
    | some l =>
      ",".intercalate (l.flatMap (fun a => l.map (fun b =>
        "/".intercalate [ansOpt (ltX a b), ansOpt (gtX a b), ansOpt (eqX a b), ansOpt (neX a b)])))
      ++ "|" ++ ",".intercalate (l.map unary)
  | "seq" :: fam :: obj :: ops =>
    match fam, decIpLen obj with
    | "4", some p => "|".intercalate (runX 4 (ofIpLen v4 p.1 p.2) ops)
    | "6", some p => "|".intercalate (runX 6 (ofIpLen v6 p.1 p.2) ops)
    | _, _ => "bad-request"
  | ["collapse", sq, items] =>
    match decItems items with
    | none => "bad-request"
    | some l =>
      match collapseX (sq == "seq") l with
      | .ok ns => "ok:" ++ ";".intercalate (ns.map (fun n => s!"{n.1}/{n.2}"))
      | .error e => errName e
  | _ => "bad-request"

end Ccp.Drv.IPValX
