-- CHANNEL search
import Ccp.Wire
import Ccp.Model.Search
namespace Ccp.Drv.Search
open Ccp.Py Ccp.Wire Ccp.Tree Ccp.Search

def errName : Err → String
  | .valueError => "err:ValueError"
  | .indexError => "err:IndexError"
  | .invalidParameters => "err:InvalidParameters"

/-- a row is `b` followed by one `0`/`1` per line of the parsed config -/
def decRow (w : String) : Option Row :=
  match w.toList with
  | 'b' :: bits => bits.mapM (fun c => if c == '1' then some true else if c == '0' then some false else none)
  | _ => none

def decRows (w : String) : Option (List Row) :=
  if w = "" then some [] else (w.splitOn " ").mapM decRow

def encBranch (b : Branch) : String :=
  ",".intercalate (b.map (fun o => match o with | some i => toString i | none => "-"))

def encBranches (bs : List Branch) : String := ";".intercalate (bs.map encBranch)

def nats : Except Err (List Nat) → String
  | .ok l => encNats l
  | .error e => errName e

def natLists (ls : List (List Nat)) : String := ";".intercalate (ls.map encNats)

/-- flags: `r` reverse, `c` recurse / all_children, `e` empty_branches -/
def answer (t : T) (op : String) (fl : String) (rs : List Row) (p1 : Option Row) : String :=
  let has (c : Char) : Bool := fl.toList.contains c
  let rev := has 'r'; let rec_ := has 'c'; let emp := has 'e'
  match op, rs with
  | "fo", [r] => encNats (findObjects t r rev)
  | "fol", _ => nats (findObjectsList t rs rev)
  | "br", _ =>
    (match findObjectBranches t rs emp rev with
     | .ok bs => encBranches bs
     | .error e => errName e)
  | "pl", _ => nats (findParentObjectsList t rs rev)
  | "cl", _ => nats (findChildObjectsList t rs rev)
  | "p2", [p, c] => encNats (findParentObjects2 t p c rec_ rev)
  | "c2", [p, c] => encNats (findChildObjects2 t p c rec_ rev)
  | "w2", [p, c] => encNats (findParentObjectsWoChild2 t p c rec_ rev)
  | "wl", _ => nats (findParentObjectsWoChildList t rs p1 rec_ rev)
  | "rc", [r] => encNats (reSearchChildrenRoot t r rec_)
  | "hc", [c] => encNats ((List.range t.size).filter (fun p => hasChildWith t p c rec_))
  | _, _ => "bad-op"

/-- `search <ios 0/1> <delims> <ignore_blank 0/1> <lines> <op> <flags> <rows> <p1 row or ->`;
the answer repeats the parent links and child lists (as the `tree` channel prints them)
before the result, because the harness' oracle scans the implementation's own tree -/
def handle : List String → String
  | [ios, delims, ign, lines, op, fl, rows, p1] =>
    match decStr delims, decStrs lines, decRows rows with
    | some ds, some ls, some rs =>
      let cfg : Cfg := { ios := ios == "1", delims := ds, ignoreBlank := ign == "1" }
      let t := parse cfg ls
      let p1r := if p1 == "-" then some none else (decRow p1).map some
      match p1r with
      | none => "bad-request"
      | some p1o =>
        if rs.any (fun r => r.length != t.size) || (p1o.any (fun r => r.length != t.size)) then "bad-rows"
        else
          encNats t.parents ++ "|" ++ natLists ((List.range t.size).map (children t)) ++ "&"
            ++ answer t op fl rs p1o
    | _, _, _ => "bad-request"
  | _ => "bad-request"

end Ccp.Drv.Search
