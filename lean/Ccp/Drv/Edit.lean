-- CHANNEL edit
import Ccp.Wire
import Ccp.Model.Edit
namespace Ccp.Drv.Edit
open Ccp.Py Ccp.Wire Ccp.Tree Ccp.Edit

def errName : Err → String
  | .indexError => "err:IndexError"
  | .valueError => "err:ValueError"
  | .invalidParameters => "err:InvalidParameters"
  | .notImplemented => "err:NotImplementedError"
  | .doesNotExist => "err:ConfigListItemDoesNotExist"
  | .dirtyHandle => "skip"

def bits (w : String) : List Bool := w.toList.map (· == '1')

/-- object handles are sent as raw numbers and resolved modulo the number of committed objects -/
def handle? (n : Nat) (w : String) : Option Nat := (decNat w).map (fun r => if n = 0 then 0 else r % n)

def decOp (n : Nat) (w : String) : Option Op :=
  let decNat := handle? n
  match w.splitOn ":" with
  | ["ins", k, t] => do let k ← decInt k; let t ← decStr t; pure (.insert k t)
  | ["app", t] => do let t ← decStr t; pure (.append t)
  | ["pop", k] => do let k ← decInt k; pure (.pop k)
  | ["lib", e, row, t] => do let t ← decStr t; pure (.listInsBefore (e == "1") (bits row) t)
  | ["lia", e, row, t] => do let t ← decStr t; pure (.listInsAfter (e == "1") (bits row) t)
  | ["oib", i, t] => do let i ← decNat i; let t ← decStr t; pure (.objInsBefore i t)
  | ["oia", i, t] => do let i ← decNat i; let t ← decStr t; pure (.objInsAfter i t)
  | ["del", i] => do let i ← decNat i; pure (.delete i)
  | ["atf", i, t, ind, a] => do
      let i ← decNat i; let t ← decStr t; let ind ← decInt ind
      pure (.appendToFamily i t ind (a == "1"))
  | ["rep", i, b, a] => do let i ← decNat i; let b ← decStr b; let a ← decStr a; pure (.replaceText i b a)
  | ["sub", i, t] => do let i ← decNat i; let t ← decStr t; pure (.reSub i t)
  | ["commit"] => some .commit
  | ["probe"] => some .probe
  | _ => none

def natLists (ls : List (List Nat)) : String := ";".intercalate (ls.map encNats)

def dump (s : S) : String :=
  if s.dirty then encStrs s.texts
  else
    let t := s.tree
    encStrs t.texts ++ "|" ++ encNats (List.range t.size) ++ "|" ++ encNats t.parents ++ "|"
      ++ natLists ((List.range t.size).map (children t))

/-- is the committed tree the one a parse of the current texts from scratch yields? -/
def fresh (s : S) : String :=
  if s.dirty then "-" else if s.tree == parse s.cfg s.texts then "=" else "!"

def runOps : S → List String → List String
  | _, [] => []
  | s, w :: ws =>
    match decOp s.tree.size w with
    | none => ["bad-op"]
    | some op =>
      let r := step s op
      let status := match r.2 with | .ok _ => "ok" | .error e => errName e
      -- object operations also report where their object currently sits in the list
      let where_ := match op with
        | .objInsBefore h _ | .objInsAfter h _ | .replaceText h _ _ | .reSub h _ | .delete h | .appendToFamily h _ _ _ =>
          if status == "skip" then "" else
          match posOf s.items h with
          | some p => "@" ++ toString p
          | none => ""
        | _ => ""
      (status ++ where_ ++ "~" ++ fresh r.1 ++ "~" ++ dump r.1) :: runOps r.1 ws

/-- `edit <ios> <delims> <ignore_blank> <auto_commit> <width> <lines> <op>…` -/
def handle : List String → String
  | ios :: delims :: ign :: auto :: width :: lines :: ops =>
    match decStr delims, decStrs lines, decNat width with
    | some ds, some ls, some w =>
      let cfg : Cfg := { ios := ios == "1", delims := ds, ignoreBlank := ign == "1" }
      let s := init cfg (auto == "1") w ls
      "#".intercalate (("ok~" ++ fresh s ++ "~" ++ dump s) :: runOps s ops)
    | _, _, _ => "bad-request"
  | _ => "bad-request"

end Ccp.Drv.Edit
