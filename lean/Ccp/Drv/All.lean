import Ccp.Wire
import Ccp.Drv.Range
namespace Ccp.Drv

def dispatch (f : List String) : String :=
  match f with
  | "echo" :: rest => "\t".intercalate rest
  | "range" :: rest => Range.handle rest
  | _ => "bad-request"

end Ccp.Drv
