-- CHANNEL editx
import Ccp.Wire
import Ccp.Model.EditForms
import Ccp.Drv.Edit
namespace Ccp.Drv.EditForms
open Ccp.Py Ccp.Wire Ccp.Tree Ccp.Edit

def errNameX : ErrX → String
  | .base e => Ccp.Drv.Edit.errName e
  | .typeError => "err:TypeError"

/-- an argument is sent as two fields: `S`/`L`/`X` and the text (`s` for `X`) -/
def decArg (kind txt : String) : Option Arg :=
  match kind with
  | "S" => (decStr txt).map Arg.str
  | "L" => (decStr txt).map Arg.line
  | "X" => some .other
  | _ => none

def decOpX (n : Nat) (w : String) : Option OpX :=
  let decH := Ccp.Drv.Edit.handle? n
  match w.splitOn ":" with
  | ["insf", k, vk, vt] => do
      let v ← decArg vk vt
      if k == "X" then pure (.insertA none v) else do let k ← decInt k; pure (.insertA (some k) v)
  | ["oibf", i, vk, vt] => do let i ← decH i; let v ← decArg vk vt; pure (.objInsBeforeA i v)
  | ["oiaf", i, vk, vt] => do let i ← decH i; let v ← decArg vk vt; pure (.objInsAfterA i v)
  | ["libf", pk, pt, row, vk, vt] => do
      let p ← decArg pk pt; let v ← decArg vk vt; pure (.listInsBeforeA p (Ccp.Drv.Edit.bits row) v)
  | ["liaf", pk, pt, row, vk, vt] => do
      let p ← decArg pk pt; let v ← decArg vk vt; pure (.listInsAfterA p (Ccp.Drv.Edit.bits row) v)
  | ["atfl", i, t, ind, a] => do
      let i ← decH i; let t ← decStr t; let ind ← decInt ind
      pure (.appendToFamilyL i t ind (a == "1"))
  | ["rem", i] => do let i ← decH i; pure (.remove (.member i))
  | ["remf"] => some (.remove .foreign)
  | ["remx"] => some (.remove .other)
  | ["del2", i] => do let i ← decH i; pure (.deleteTwice i)
  | _ => (Ccp.Drv.Edit.decOp n w).map OpX.base

def runOpsX (factory : Bool) : S → List String → List String
  | _, [] => []
  | s, w :: ws =>
    match decOpX s.tree.size w with
    | none => ["bad-op"]
    | some op =>
      let r := stepF factory s op
      let status := match r.2 with | .ok _ => "ok" | .error e => errNameX e
      let at_ (h : Nat) : String :=
        if status == "skip" then "" else
        match posOf s.items h with
        | some p => "@" ++ toString p
        | none => ""
      -- object operations also report where their object currently sits in the list
      let where_ := match op with
        | .base (.objInsBefore h _) | .base (.objInsAfter h _) | .base (.replaceText h _ _) | .base (.reSub h _)
        | .base (.delete h) | .base (.appendToFamily h _ _ _)
        | .objInsBeforeA h _ | .objInsAfterA h _ | .appendToFamilyL h _ _ _ | .remove (.member h) | .deleteTwice h => at_ h
        | _ => ""
      (status ++ where_ ++ "~" ++ Ccp.Drv.Edit.fresh r.1 ++ "~" ++ Ccp.Drv.Edit.dump r.1) :: runOpsX factory r.1 ws

def decDet (w : String) : Option DetOp :=
  match w.splitOn ":" with
  | ["rep", b, a] => do let b ← decStr b; let a ← decStr a; pure (.replaceText b a)
  | ["sub", t] => do let t ← decStr t; pure (.reSub t)
  | _ => none

def runDet : Str → List String → List String
  | _, [] => []
  | t, w :: ws =>
    match decDet w with
    | none => ["bad-op"]
    | some op => let t' := detStep t op; encStr t' :: runDet t' ws

/-- `editx hist <factory> <ios> <delims> <ignore_blank> <auto_commit> <width> <lines> <op>…` (as channel `edit`, extended ops)
`editx cfi <width> <self text> <S|L|X> <text>` → the integer or the error class
`editx det <text> <op>…` → the text after every operation on a detached line object -/
def handle : List String → String
  | "hist" :: factory :: ios :: delims :: ign :: auto :: width :: lines :: ops =>
    match decStr delims, decStrs lines, decNat width with
    | some ds, some ls, some w =>
      let cfg : Cfg := { ios := ios == "1", delims := ds, ignoreBlank := ign == "1" }
      let s := init cfg (auto == "1") w ls
      "#".intercalate (("ok~" ++ Ccp.Drv.Edit.fresh s ++ "~" ++ Ccp.Drv.Edit.dump s) :: runOpsX (factory == "1") s ops)
    | _, _, _ => "bad-request"
  | ["cfi", width, self, vk, vt] =>
    match decNat width, decStr self, decArg vk vt with
    | some w, some st, some v =>
      match cfiArg w (indent st) v with
      | .ok k => toString k
      | .error e => errNameX e
    | _, _, _ => "bad-request"
  | "det" :: txt :: ops =>
    match decStr txt with
    | some t => "|".intercalate (runDet t ops)
    | none => "bad-request"
  | _ => "bad-request"

end Ccp.Drv.EditForms
