-- CHANNEL typed
import Ccp.Wire
import Ccp.Model.Typed
namespace Ccp.Drv.Typed
open Ccp.Py Ccp.Wire Ccp.Tree Ccp.Typed

def words (w : String) : List String :=
  if w = "" then [] else (splitOn ' ' w.toList).map String.ofList

def errName : Err → String
  | .typeError => "err:TypeError"
  | .valueError => "err:ValueError"
  | .indexError => "err:IndexError"
  | .ext cls => "err:" ++ String.ofList cls

def encVal : Val → String
  | .none => "N"
  | .str s => "S" ++ encStr s
  | .int n => "I" ++ toString n
  | .float src => "F" ++ encStr src
  | .ip r => "P" ++ encStr r

def decArg (w : String) : Option Arg :=
  match w.toList with
  | ['N'] => some .none
  | 'S' :: r => (decStr (String.ofList r)).map .str
  | 'I' :: r => (pyInt r).map .int
  | _ => none

def decGroupRes (w : String) : Option GroupRes :=
  match w.toList with
  | ['-'] => some .noMatch
  | ['x'] => some .noGroup
  | ['u'] => some .unset
  | 's' :: r => (decStr (String.ofList ('s' :: r))).map .val
  | _ => none

def decIpRes (w : String) : Option (Except Err Str) :=
  match w.toList with
  | 'o' :: r => (decStr (String.ofList r)).map .ok
  | 'e' :: r => (decStr (String.ofList r)).map (fun c => .error (.ext c))
  | _ => none

def decTy : String → Option Ty
  | "str" => some .str
  | "int" => some .int
  | "float" => some .float
  | "ip" => some .ip
  | _ => none

def lookupD {α β : Type} [DecidableEq α] (d : β) : List (α × β) → α → β
  | [], _ => d
  | (k, v) :: r, a => if k = a then v else lookupD d r a

def showRes : Except Err Val → String
  | .ok v => encVal v
  | .error e => errName e

def showList : Except Err (List Val) → String
  | .ok vs => "L" ++ ",".intercalate (vs.map encVal)
  | .error e => errName e

/-- one query `idx:op:ty:recurse:untyped:default` -/
def runQuery (c : Ctx) (q : String) : String :=
  match q.splitOn ":" with
  | [idx, op, ty, rec, unt, dflt] =>
    match decNat idx, decTy ty, decArg dflt with
    | some i, some ty, some d =>
      let recurse := rec == "1"
      let untyped := unt == "1"
      if op == "root" then showRes (rootIterTyped c ty d untyped) else
      if i ≥ c.t.size then "oob" else
      match op with
      | "match" => showRes (reMatch c i d)
      | "typed" => showRes (reMatchTyped c i ty d untyped)
      | "iter" => showRes (reMatchIterTyped c i ty d untyped recurse)
      | "list" => showList (reListIterTyped c i ty recurse)
      | _ => "bad-op"
    | _, _, _ => "bad-query"
  | _ => "bad-query"

/-- `typed <ios 0/1> <delims> <ignore_blank 0/1> <lines> <row texts> <row results> <ip args> <ip results> <queries>` -/
def handle : List String → String
  | [ios, delims, ign, lines, rtexts, rres, ipargs, ipres, queries] =>
    match decStr delims, decStrs lines, decStrs rtexts, (words rres).mapM decGroupRes,
          (words ipargs).mapM decArg, (words ipres).mapM decIpRes with
    | some ds, some ls, some rt, some rr, some ia, some ir =>
      if rt.length != rr.length || ia.length != ir.length then "bad-request" else
      let cfg : Cfg := { ios := ios == "1", delims := ds, ignoreBlank := ign == "1" }
      let t := parse cfg ls
      if !(t.texts.all (fun x => rt.contains x)) then "bad-request:missing-row" else
      let c : Ctx := {
        g := lookupD GroupRes.noMatch (rt.zip rr),
        ip := lookupD (Except.error (Err.ext "missing-ip-row".toList)) (ia.zip ir),
        t := t }
      "|".intercalate ((words queries).map (runQuery c)) ++ "&" ++ encStrs t.texts ++ "|" ++ encNats t.parents
    | _, _, _, _, _, _ => "bad-request"
  | _ => "bad-request"

end Ccp.Drv.Typed
