-- CHANNEL typed
import Ccp.Wire
import Ccp.Model.Typed
namespace Ccp.Drv.Typed
open Ccp.Py Ccp.Wire Ccp.Tree Ccp.Typed

def words (w : String) : List String :=
  if w = "" then [] else (splitOn ' ' w.toList).map String.ofList

def errName : Err → String
  | .typeError => "err:TypeError"
  | .valueError => "err:ValueError"
  | .indexError => "err:IndexError"
  | .notImplemented => "err:NotImplementedError"
  | .nameError => "err:NameError"
  | .ext cls => "err:" ++ String.ofList cls

def encVal : Val → String
  | .none => "N"
  | .str s => "S" ++ encStr s
  | .int n => "I" ++ toString n
  | .float src => "F" ++ encStr src
  | .ip r => "P" ++ encStr r

def decArg (w : String) : Option Arg :=
  match w.toList with
  | ['N'] => some .none
  | 'S' :: r => (decStr (String.ofList r)).map .str
  | 'I' :: r => (pyInt r).map .int
  | _ => none

def decGroupRes (w : String) : Option GroupRes :=
  match w.toList with
  | ['-'] => some .noMatch
  | ['x'] => some .noGroup
  | ['u'] => some .unset
  | 's' :: r => (decStr (String.ofList ('s' :: r))).map .val
  | _ => none

def decIpRes (w : String) : Option (Except Err Str) :=
  match w.toList with
  | 'o' :: r => (decStr (String.ofList r)).map .ok
  | 'e' :: r => (decStr (String.ofList r)).map (fun c => .error (.ext c))
  | _ => none

def decTy : String → Option Ty
  | "str" => some .str
  | "int" => some .int
  | "float" => some .float
  | "ip" => some .ip
  | _ => none

def lookupD {α β : Type} [DecidableEq α] (d : β) : List (α × β) → α → β
  | [], _ => d
  | (k, v) :: r, a => if k = a then v else lookupD d r a

def flag (b : Bool) : String := if b then "1" else "0"

def showRes : Except Err Val → String
  | .ok v => encVal v
  | .error e => errName e

def showList : Except Err (List Val) → String
  | .ok vs => "L" ++ ",".intercalate (vs.map encVal)
  | .error e => errName e

/-- one query `idx:op:ty:recurse:untyped:default` -/
def runQuery (c : Ctx) (q : String) : String :=
  match q.splitOn ":" with
  | [idx, op, ty, rec, unt, dflt] =>
    match decNat idx, decTy ty, decArg dflt with
    | some i, some ty, some d =>
      let recurse := rec == "1"
      let untyped := unt == "1"
      if op == "root" then showRes (rootIterTyped c ty d untyped) else
      if i ≥ c.t.size then "oob" else
      match op with
      | "match" => showRes (reMatch c i d)
      | "typed" => showRes (reMatchTyped c i ty d untyped)
      | "iter" => showRes (reMatchIterTyped c i ty d untyped recurse)
      | "list" => showList (reListIterTyped c i ty recurse)
      | _ => "bad-op"
    | _, _, _ => "bad-query"
  | _ => "bad-query"

/-- `typed <ios 0/1> <delims> <ignore_blank 0/1> <lines> <row texts> <row results> <ip args> <ip results> <queries>` -/
def handlePlain : List String → String
  | [ios, delims, ign, lines, rtexts, rres, ipargs, ipres, queries] =>
    match decStr delims, decStrs lines, decStrs rtexts, (words rres).mapM decGroupRes,
          (words ipargs).mapM decArg, (words ipres).mapM decIpRes with
    | some ds, some ls, some rt, some rr, some ia, some ir =>
      if rt.length != rr.length || ia.length != ir.length then "bad-request" else
      let cfg : Cfg := { ios := ios == "1", delims := ds, ignoreBlank := ign == "1" }
      let t := parse cfg ls
      if !(t.texts.all (fun x => rt.contains x)) then "bad-request:missing-row" else
      let c : Ctx := {
        g := lookupD GroupRes.noMatch (rt.zip rr),
        ip := lookupD (Except.error (Err.ext "missing-ip-row".toList)) (ia.zip ir),
        t := t }
      "|".intercalate ((words queries).map (runQuery c)) ++ "&" ++ encStrs t.texts ++ "|" ++ encNats t.parents
    | _, _, _, _, _, _ => "bad-request"
  | _ => "bad-request"

/-! ### groupdict requests -/

def decKey : String → Option (Option Ty)
  | "none" => some none
  | w => (decTy w).map some

/-- `-` (no match) or `+` followed by one `x`/`u`/`s…` token per key, separated by `;` -/
def decGdRow (w : String) : Option (Option (List GroupRes)) :=
  match w.toList with
  | ['-'] => some none
  | ['+'] => some (some [])
  | '+' :: r => ((String.ofList r).splitOn ";").mapM decGroupRes |>.map some
  | _ => none

def showDict : Except Err (List Val) → String
  | .ok vs => "D" ++ ",".intercalate (vs.map encVal)
  | .error e => errName e

/-- one query `idx:op:recurse:default` -/
def runDictQuery (c : DCtx) (q : String) : String :=
  match q.splitOn ":" with
  | [idx, op, rec, dflt] =>
    match decNat idx, decArg dflt with
    | some i, some d =>
      if i ≥ c.t.size then "oob" else
      match op with
      | "diter" => showDict (reMatchIterDict c i d (rec == "1"))
      | "dlist" => (match reListIterDict c i (rec == "1") with
          | .ok rows => "L" ++ ";".intercalate (rows.map (fun r => showDict (.ok r)))
          | .error e => errName e)
      -- `groupdict=` something that is neither None nor a dict (the plain answer is never consulted)
      | "biter" => showDict (gdDispatch .other (.error .typeError) (reMatchIterDict c i d (rec == "1")))
      | "blist" => (match gdDispatch .other (.error .typeError) (reListIterDict c i (rec == "1")) with
          | .ok rows => "L" ++ ";".intercalate (rows.map (fun r => showDict (.ok r)))
          | .error e => errName e)
      | _ => "bad-op"
    | _, _ => "bad-query"
  | _ => "bad-query"

/-- `typed gd <ios> <delims> <ignore_blank> <lines> <row texts> <dict rows> <key types> <ip args> <ip results> <queries>` -/
def handleDict : List String → String
  | [ios, delims, ign, lines, rtexts, gdrows, keys, ipargs, ipres, queries] =>
    match decStr delims, decStrs lines, decStrs rtexts, (words gdrows).mapM decGdRow, (words keys).mapM decKey,
          (words ipargs).mapM decArg, (words ipres).mapM decIpRes with
    | some ds, some ls, some rt, some rr, some ks, some ia, some ir =>
      if rt.length != rr.length || ia.length != ir.length then "bad-request" else
      let cfg : Cfg := { ios := ios == "1", delims := ds, ignoreBlank := ign == "1" }
      let t := parse cfg ls
      if !(t.texts.all (fun x => rt.contains x)) then "bad-request:missing-row" else
      let c : DCtx := {
        gd := lookupD none (rt.zip rr),
        ip := lookupD (Except.error (Err.ext "missing-ip-row".toList)) (ia.zip ir),
        keys := ks, t := t }
      "|".intercalate ((words queries).map (runDictQuery c)) ++ "&" ++ encStrs t.texts ++ "|" ++ encNats t.parents
    | _, _, _, _, _, _, _ => "bad-request"
  | _ => "bad-request"

/-! ### requests on an edit state: parse, one `ConfigList.insert`, optionally `commit` -/

def runStateQuery (s : Edit.S) (g : Str → GroupRes) (ip : Arg → Except Err Str) (q : String) : String :=
  match q.splitOn ":" with
  | [idx, op, ty, rec, unt, dflt] =>
    match decNat idx, decTy ty, decArg dflt with
    | some i, some ty, some d =>
      let recurse := rec == "1"
      let untyped := unt == "1"
      if op == "root" then showRes (stRootIterTyped s g ip ty d untyped) else
      if i ≥ s.tree.size then "oob" else
      match op with
      | "match" => showRes (stMatch s g ip i d)
      | "typed" => showRes (stMatchTyped s g ip i ty d untyped)
      | "iter" => showRes (stIterTyped s g ip i ty d untyped recurse)
      | "list" => showList (stListTyped s g ip i ty recurse)
      | _ => "bad-op"
    | _, _, _ => "bad-query"
  | _ => "bad-query"

/-- `typed st <ios> <delims> <ignore_blank> <auto_commit> <width> <lines> <insert index> <insert text> <commit 0/1>
<row texts> <row results> <ip args> <ip results> <queries>` -/
def handleState : List String → String
  | [ios, delims, ign, auto, width, lines, insk, instxt, com, rtexts, rres, ipargs, ipres, queries] =>
    match decStr delims, decStrs lines, decNat width, decInt insk, decStr instxt, decStrs rtexts,
          (words rres).mapM decGroupRes, (words ipargs).mapM decArg, (words ipres).mapM decIpRes with
    | some ds, some ls, some w, some k, some txt, some rt, some rr, some ia, some ir =>
      if rt.length != rr.length || ia.length != ir.length then "bad-request" else
      let cfg : Cfg := { ios := ios == "1", delims := ds, ignoreBlank := ign == "1" }
      let s0 := Edit.init cfg (auto == "1") w ls
      let s1 := (Edit.step s0 (.insert k txt)).1
      let s := if com == "1" then (Edit.step s1 .commit).1 else s1
      if !(s.texts.all (fun x => rt.contains x)) then "bad-request:missing-row" else
      let g := lookupD GroupRes.noMatch (rt.zip rr)
      let ip := lookupD (Except.error (Err.ext "missing-ip-row".toList)) (ia.zip ir)
      "|".intercalate ((words queries).map (runStateQuery s g ip)) ++ "&" ++ flag s.stale ++ "&"
        ++ encStrs s.tree.texts ++ "|" ++ encNats s.tree.parents
    | _, _, _, _, _, _, _, _, _ => "bad-request"
  | _ => "bad-request"

def handle : List String → String
  | "gd" :: rest => handleDict rest
  | "st" :: rest => handleState rest
  | rest => handlePlain rest

end Ccp.Drv.Typed
