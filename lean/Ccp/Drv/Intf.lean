-- CHANNEL intf
import Ccp.Wire
import Ccp.Model.Intf
namespace Ccp.Drv.Intf
open Ccp.Py Ccp.Wire Ccp.Intf

def errName : Err → String
  | .invalidCiscoInterface => "err:InvalidCiscoInterface"
  | .noRegexMatch => "err:NoRegexMatch"
  | .valueError => "err:ValueError"
  | .typeError => "err:TypeError"
  | .invalidCiscoRange => "err:InvalidCiscoRange"
  | .indexError => "err:IndexError"

def optNat : Option Nat → String
  | some n => toString n
  | none => "-"

/-- `as_dict()` : prefix, digit_separator, slot, card, port, subinterface, channel, interface_class -/
def encDict (i : Intf) : String :=
  ",".intercalate [encStr i.pfx, (match i.sep with | some c => toString c.toNat | none => "-"),
    optNat i.slot, optNat i.card, toString i.port, optNat i.sub, optNat i.chan,
    (match i.cls with | some w => encStr w | none => "-")]

def encRender (i : Intf) : String :=
  match render i with
  | .ok s => encStr s
  | .error e => errName e

def encBoolE : Except Err Bool → String
  | .ok true => "T"
  | .ok false => "F"
  | .error e => errName e

/-- `name <s>` : rendering, components, hash, and the same three of the re-parsed rendering -/
def describe (i : Intf) : List String := [encRender i, encDict i, toString (pyHash i)]

def handleName (s : Str) : String :=
  match parse s with
  | .error e => errName e
  | .ok i =>
    let again := match render i with
      | .ok r => (match parse r with
        | .ok j => describe j ++ [if eq i j then "T" else "F"]
        | .error e => [errName e])
      | .error e => [errName e]
    "|".intercalate ("ok" :: describe i ++ again)

/-- `cmp <a> <b>` : `==`, `<`, `>`, `hash(a) == hash(b)` -/
def handleCmp (a b : Str) : String :=
  match parse a, parse b with
  | .ok x, .ok y =>
    "|".intercalate ["ok", if eq x y then "T" else "F", encBoolE (lt x y), encBoolE (gt x y),
      if pyHash x = pyHash y then "T" else "F"]
  | .error e, _ => errName e
  | _, .error e => errName e

def insertStr (x : Str) : List Str → List Str
  | [] => [x]
  | y :: ys => if strLt x y then x :: y :: ys else if x = y then y :: ys else y :: insertStr x ys

def encMembers (l : List Intf) : String :=
  " ".intercalate (l.map encRender)

def stepOp (data : List Intf) (op : String) : List Intf × String :=
  match op with
  | "len" => let r := len data; (r.1, toString r.2)
  | "iter" => let r := iter data; (r.1, encMembers r.2)
  | "dicts" => (data, " ".intercalate (data.map encDict))
  | "list" => let r := asList data
    (r.1, match r.2 with | .ok l => encMembers l | .error e => errName e)
  | "set" => let r := asSet data
    (r.1, match r.2 with
      | .ok l => (match l.mapM render with
        | .ok ss => encStrs (ss.foldr insertStr [])
        | .error e => errName e)
      | .error e => errName e)
  | _ => (data, "bad-op")

def runOps : List Intf → List String → List String
  | _, [] => []
  | d, op :: ops => let r := stepOp d op; r.2 :: runOps r.1 ops

def handle : List String → String
  | ["name", s] =>
    match decStr s with
    | some t => handleName t
    | none => "bad-request"
  | ["cmp", a, b] =>
    match decStr a, decStr b with
    | some x, some y => handleCmp x y
    | _, _ => "bad-request"
  | "range" :: text :: ops =>
    match decStr text with
    | none => "bad-request"
    | some t =>
      match parseRange t with
      | .error e => errName e
      | .ok d => "|".intercalate ("ok" :: runOps d ops)
  | _ => "bad-request"

end Ccp.Drv.Intf
