-- CHANNEL pair
import Ccp.Wire
import Ccp.Drv.Tree
import Ccp.Drv.TreeStored
import Ccp.Drv.TreeX
import Ccp.Drv.Search
import Ccp.Drv.SearchForms
import Ccp.Drv.Typed
import Ccp.Drv.TypedX
import Ccp.Drv.Edit
import Ccp.Drv.EditForms
import Ccp.Drv.EditX
/-!
Several ordinary requests of the tree properties (C03–C07) on ONE request line.

The harness keeps two (or more) `CiscoConfParse` instances alive in one process and interleaves its observations of
them; the model has no state to share, so the answer for an instance is by construction the answer of the ordinary
request about that instance alone.  This channel only transports the ordinary requests and answers:

  `pair <sub> <sub> …`     each `<sub>` is an ordinary request line whose TABs are written as U+001F
  answer                    the ordinary answers in the same order, separated by U+001E

`answers_length` / `answers_get`: the k-th answer is a function of the k-th sub-request alone.
-/
namespace Ccp.Drv.Pair
open Ccp.Py Ccp.Wire

/-- field separator inside a sub-request (stands for the TAB of the ordinary request line) -/
def subSep : Char := Char.ofNat 0x1f
/-- separator of the answers -/
def ansSep : Char := Char.ofNat 0x1e

/-- the channels of the tree properties; anything else is not a sub-request of this channel -/
def one (f : List String) : String :=
  match f with
  | "tree" :: rest => Tree.handle rest
  | "treestored" :: rest => TreeStored.handle rest
  | "treex" :: rest => TreeX.handle rest
  | "search" :: rest => Search.handle rest
  | "searchf" :: rest => SearchForms.handle rest
  | "typed" :: rest => Typed.handle rest
  | "typedx" :: rest => TypedX.handle rest
  | "edit" :: rest => Edit.handle rest
  | "editx" :: rest => EditForms.handle rest
  | "edit7x" :: rest => EditX.handle rest
  | _ => "bad-sub-request"

def subFields (w : String) : List String :=
  (splitOn subSep w.toList).map String.ofList

def answers (subs : List String) : List String := subs.map (fun w => one (subFields w))

def handle (subs : List String) : String :=
  (String.singleton ansSep).intercalate (answers subs)

theorem answers_length (subs : List String) : (answers subs).length = subs.length := by
  simp [answers]

/-- the k-th answer depends on the k-th sub-request only -/
theorem answers_get (subs : List String) (k : Nat) (h : k < subs.length) :
    (answers subs)[k]'(by simpa [answers] using h) = one (subFields subs[k]) := by
  simp [answers]

end Ccp.Drv.Pair
