-- CHANNEL ipval
import Ccp.Wire
import Ccp.Model.IPVal
namespace Ccp.Drv.IPVal
open Ccp.Py Ccp.Wire Ccp.IPVal

def errName : Err → String
  | .requirementFailure => "err:RequirementFailure"
  | .addressValueError => "err:AddressValueError"
  | .netmaskValueError => "err:NetmaskValueError"
  | .notImplemented => "err:NotImplementedError"

def famOf : String → Option Fam
  | "4" => some v4
  | "6" => some v6
  | _ => none

def tf (b : Bool) : String := if b then "T" else "F"

/-- `ip/len` -/
def decObj (f : Fam) (w : String) : Option Obj :=
  match w.splitOn "/" with
  | [a, l] => do
    let ip ← decNat a
    let len ← decNat l
    some (ofIpLen f ip len)
  | _ => none

def decObjs (f : Fam) (w : String) : Option (List Obj) :=
  if w = "" then some [] else (w.splitOn ";").mapM (decObj f)

def encObj (x : Obj) : String := s!"{x.ip}/{x.len}"

def containsF (f : Fam) (self val : Obj) : Bool :=
  if f.w = 32 then contains4 f self val else contains6 f self val

/-- `lt gt eq ne (a in b)` for the ordered pair `(a, b)` -/
def relBits (f : Fam) (a b : Obj) : String :=
  tf (lt a b) ++ tf (gt a b) ++ tf (eq a b) ++ tf (ne a b) ++ tf (containsF f b a)

def showObj (f : Fam) (x : Obj) : String :=
  let nh := match numhosts f x with
    | .ok n => toString n
    | .error e => errName e
  s!"{asDecimal x},{asDecimalNetwork x},{prefixlen x},{asDecimalBroadcast f x},{nh}"

def stepOp (f : Fam) (x : Obj) (op : String) : Obj × String :=
  let upd (r : Except Err Obj) : Obj × String :=
    match r with
    | .ok y => (y, "ok")
    | .error e => (x, errName e)
  match op.splitOn ":" with
  | ["show"] => (x, showObj f x)
  -- `hash`: "the hash of the object equals that of a freshly built equal object" — always so in the model (`C13.eq_hash`)
  | ["hash"] => (x, "h1")
  | ["goff"] => (x, match getOffset f x with
      | .ok k => toString k
      | .error e => errName e)
  | ["add", n] => (match decInt n with
      | some k => upd (add f x k)
      | none => (x, "bad-op"))
  | ["sub", n] => (match decInt n with
      | some k => upd (sub f x k)
      | none => (x, "bad-op"))
  | ["len", n] => (match decInt n with
      | some k => upd (setLen f x k)
      | none => (x, "bad-op"))
  | ["off", n] => (match decInt n with
      | some k => upd (setOffset f x k)
      | none => (x, "bad-op"))
  | _ => (x, "bad-op")

def runOps (f : Fam) : Obj → List String → List String
  | _, [] => []
  | x, op :: ops => let r := stepOp f x op; r.2 :: runOps f r.1 ops

/--
* `ipval cmp <fam> ip/len;ip/len;…` → relation bits of every ordered pair (row major) `|` sorted list
* `ipval seq <fam> ip/len op op …`  → one answer per operation
* `ipval int <fam> n`               → `IPv4Obj(n)`
* `ipval collapse <fam> ip/len;…`   → collapsed networks `net/len;…`
-/
def handle : List String → String
  | ["cmp", fam, objs] =>
    match famOf fam with
    | none => "bad-request"
    | some f =>
      match decObjs f objs with
      | none => "bad-request"
      | some l =>
        let bits := l.flatMap (fun a => l.map (fun b => relBits f a b))
        ",".intercalate bits ++ "|" ++ ";".intercalate ((sorted l).map encObj)
  | "seq" :: fam :: obj :: ops =>
    match famOf fam with
    | none => "bad-request"
    | some f =>
      match decObj f obj with
      | none => "bad-request"
      | some x => "|".intercalate (runOps f x ops)
  | ["int", fam, n] =>
    match famOf fam, decInt n with
    | some f, some k => (match ofInt f k with
      | .ok x => showObj f x
      | .error e => errName e)
    | _, _ => "bad-request"
  | ["collapse", fam, objs] =>
    match famOf fam with
    | none => "bad-request"
    | some f =>
      match decObjs f objs with
      | none => "bad-request"
      | some l => ";".intercalate ((collapse f l).map (fun n => s!"{n.1}/{n.2}"))
  | _ => "bad-request"

end Ccp.Drv.IPVal
