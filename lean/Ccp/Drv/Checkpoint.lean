-- CHANNEL ckpt
import Ccp.Wire
import Ccp.Model.Checkpoint
namespace Ccp.Drv.Checkpoint
open Ccp.Py Ccp.Wire Ccp.Checkpoint

/-- one oracle row `linenum:hash:text` = the value of Python's `hash((linenum, text))` -/
def decRow (w : String) : Option (Int × Int × Str) :=
  match w.splitOn ":" with
  | [ln, hv, t] => do
    let l ← decInt ln
    let v ← decInt hv
    let s ← decStr t
    pure (l, v, s)
  | _ => none

def lookupH (tbl : List (Int × Int × Str)) (it : Item) : Option Int :=
  (tbl.find? (fun r => r.1 == it.1 && r.2.2 == it.2)).map (fun r => r.2.1)

def decOp (w : String) : Option Op :=
  match w.splitOn ":" with
  | ["i", p, t] => do let n ← decNat p; let s ← decStr t; pure (.insert n s)
  | ["p", p] => (decNat p).map .pop
  | ["t", p, t] => do let n ← decNat p; let s ← decStr t; pure (.setText n s)
  | ["c"] => some .commit
  | _ => none

/-- `delta,safe` after every operation; `?` is appended when an item of the model's list has no oracle row (the
implementation's list then held a different (linenum, text) pair: a disagreement) -/
def runOps (tbl : List (Int × Int × Str)) : St → List Op → List String
  | _, [] => []
  | s, op :: r =>
    let h : Item → Int := fun it => (lookupH tbl it).getD 0
    let s' := step h (fun _ => true) s op
    let miss := s'.items.any (fun it => (lookupH tbl it).isNone)
    (toString (s'.current - s'.commit) ++ "," ++ (if safe s' then "safe" else "unsafe") ++ (if miss then "?" else ""))
      :: runOps tbl s' r

/-- `ckpt <lines> <rows> op op …` -/
def handle : List String → String
  | lines :: rows :: ops =>
    match decStrs lines, (if rows = "" then some [] else (rows.splitOn " ").mapM decRow), ops.mapM decOp with
    | some ls, some tbl, some os =>
      let h : Item → Int := fun it => (lookupH tbl it).getD 0
      let items := renumber 0 (ls.map (fun t => ((0 : Int), t)))
      let c := total h items
      "|".intercalate (runOps tbl { items := items, current := c, commit := c } os)
    | _, _, _ => "bad-request"
  | _ => "bad-request"

end Ccp.Drv.Checkpoint
