-- CHANNEL typedx
import Ccp.Wire
import Ccp.Model.TypedX
import Ccp.Drv.Typed
namespace Ccp.Drv.TypedX
open Ccp.Py Ccp.Wire Ccp.Tree Ccp.Typed Ccp.TypedX Ccp.Drv.Typed

/-- `N`, `S…`, `I…` as in channel `typed`; `B0` / `B1` a bool; `F[-]<digits>.<digits>` a float by its positional repr -/
def decArgX (w : String) : Option ArgX :=
  match w.toList with
  | ['B', '0'] => some (.bool false)
  | ['B', '1'] => some (.bool true)
  | 'F' :: r =>
    let (neg, r) := match r with
      | '-' :: r' => (true, r')
      | _ => (false, r)
    (match splitOn '.' r with
     | [ipd, frac] =>
       (match ofDigits ipd with
        | some ip => if frac != [] && frac.all isDigit then some (.float neg ip frac) else none
        | none => none)
     | _ => none)
  | _ => (decArg w).map .base

def encValX : ValX → String
  | .base v => encVal v
  | .bool b => if b then "B1" else "B0"

def showResX : Except Err ValX → String
  | .ok v => encValX v
  | .error e => errName e

/-- one query `idx:op:ty:recurse:untyped:default` -/
def runQueryX (x : CtxX) (q : String) : String :=
  match q.splitOn ":" with
  | [idx, op, ty, rec, unt, dflt] =>
    match decNat idx, decTy ty, decArgX dflt with
    | some i, some ty, some d =>
      let recurse := rec == "1"
      let untyped := unt == "1"
      if op == "root" then showResX (rootIterTypedX x ty d untyped) else
      if i ≥ x.t.size then "oob" else
      match op with
      | "match" => showResX (reMatchX x i d)
      | "typed" => showResX (reMatchTypedX x i ty d untyped)
      | "iter" => showResX (reMatchIterTypedX x i ty d untyped recurse)
      | "list" => showList (reListIterTyped x.c i ty recurse)
      | _ => "bad-op"
    | _, _, _ => "bad-query"
  | _ => "bad-query"

/-- `typedx <ios 0/1> <delims> <ignore_blank 0/1> <lines> <row texts> <row results> <ip args> <ip results> <queries>`:
the request of channel `typed`, with defaults (and `IPv4Obj` arguments) that may be floats or bools -/
def handle : List String → String
  | [ios, delims, ign, lines, rtexts, rres, ipargs, ipres, queries] =>
    match decStr delims, decStrs lines, decStrs rtexts, (words rres).mapM decGroupRes,
          (words ipargs).mapM decArgX, (words ipres).mapM decIpRes with
    | some ds, some ls, some rt, some rr, some ia, some ir =>
      if rt.length != rr.length || ia.length != ir.length then "bad-request" else
      let cfg : Cfg := { ios := ios == "1", delims := ds, ignoreBlank := ign == "1" }
      let t := parse cfg ls
      if !(t.texts.all (fun x => rt.contains x)) then "bad-request:missing-row" else
      let x : CtxX := {
        g := lookupD GroupRes.noMatch (rt.zip rr),
        ipx := lookupD (Except.error (Err.ext "missing-ip-row".toList)) (ia.zip ir),
        t := t }
      "|".intercalate ((words queries).map (runQueryX x)) ++ "&" ++ encStrs t.texts ++ "|" ++ encNats t.parents
    | _, _, _, _, _, _ => "bad-request"
  | _ => "bad-request"

end Ccp.Drv.TypedX
