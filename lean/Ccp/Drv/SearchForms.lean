-- CHANNEL searchf
import Ccp.Wire
import Ccp.Model.SearchForms
import Ccp.Drv.Search
namespace Ccp.Drv.SearchForms
open Ccp.Py Ccp.Wire Ccp.Tree Ccp.Search Ccp.SearchForms

def errName : FErr → String
  | .valueError => "err:ValueError"
  | .typeError => "err:TypeError"
  | .indexError => "err:IndexError"
  | .invalidParameters => "err:InvalidParameters"
  | .notImplementedError => "err:NotImplementedError"
  | .typeCheckError => "err:TypeCheckError"

def decKind : Char → Option Kind
  | 's' => some .str
  | 'p' => some .pat
  | 'o' => some .line
  | 'n' => some .none
  | 'i' => some .int
  | _ => none

def nats : Except FErr (List Nat) → String
  | .ok l => encNats l
  | .error e => errName e

def encItem : Item → String
  | .none => "-"
  | .line i => "#" ++ toString i
  | .str s => encStr s

def encCell (c : Cell) : String :=
  (if c.isTuple then "T" else "L") ++ ",".intercalate (c.items.map encItem)

def encMatrix (m : List (List Cell)) : String :=
  ";".intercalate (m.map (fun row => ":".intercalate (row.map encCell)))

/-- `x` no match, else `g` + the groups separated by `,` (`-` = did not participate) -/
def decGroups (w : List Char) : Option Groups :=
  match w with
  | ['x'] => some none
  | 'g' :: rest =>
    if rest.isEmpty then some (some [])
    else ((splitOn ',' rest).mapM (fun it =>
      if it == ['-'] then some (none : Option Str) else (decStr (String.ofList it)).map some)).map some
  | _ => none

/-- per expression `G` + the lines separated by `;`; expressions separated by one blank -/
def decGroupTable (w : String) : Option GroupTable :=
  if w == "-" then some [] else
  (splitOn ' ' w.toList).mapM (fun e =>
    match e with
    | 'G' :: rest => if rest.isEmpty then some [] else (splitOn ';' rest).mapM decGroups
    | _ => none)

def answer (t : T) (op : String) (f : First) (c : Arg) (p1 : Option Row) (o : Opts) : String :=
  let rowsOf : First → List Row
    | .one a => [a.row]
    | .list l => l.map (·.row)
    | .tuple l => l.map (·.row)
  let isTuple : Bool := match f with | .tuple _ => true | _ => false
  match op with
  | "fo" => nats (findObjectsF t f o)
  | "br" =>
    (match f with
     | .one _ => "bad-op"
     | _ =>
       match findObjectBranchesF t isTuple (rowsOf f) o with
       | .ok bs => Search.encBranches bs
       | .error e => errName e)
  | "pl" => (match f with | .list _ => nats (findParentObjectsListF t (rowsOf f) o) | _ => "bad-op")
  | "p2" => (match f with | .one p => nats (findParentObjects2F t p c o) | _ => "bad-op")
  | "c2" => nats (findChildObjectsF t f c o)
  | "w2" => nats (findParentObjectsWoChildF t f c p1 o)
  | "rc" => (match f with | .one a => nats (reSearchChildrenRootF t a o) | _ => "bad-op")
  | "hc" => (match f with | .one a => nats (hasChildWithAll t a o) | _ => "bad-op")
  | "os" =>
    (match f with
     | .one a =>
       (match forLines t (fun i => reSearchF t i a o) with
        | .ok bs => encNats (((List.range t.size).zip bs).filterMap (fun ib => if ib.2 then some ib.1 else none))
        | .error e => errName e)
     | _ => "bad-op")
  | "oc" =>
    (match f with
     | .one a =>
       (match forLines t (fun p => reSearchChildrenObjF t p a o) with
        | .ok ls => Search.natLists ls
        | .error e => errName e)
     | _ => "bad-op")
  | _ => "bad-op"

def handleGroups (t : T) (fl : String) (rs : List Row) (g : GroupTable) : String :=
  let has (c : Char) : Bool := fl.toList.contains c
  match findObjectBranchesGroups t rs g (has 'e') (has 'r') (has 'u') with
  | .ok m => encMatrix m
  | .error e => errName e

/-- `searchf <ios> <delims> <ignore_blank> <lines> <op> <flags> <first> <child> <rows> <p1> <lnum> <ltext>`

* flags: `a` exactmatch `w` ignore_ws `x` escape_chars `r` reverse `c` recurse/all_children
  `e` empty_branches `u` an uncommitted insert is pending;
* first: `1`/`l`/`t` (one expression / list / tuple) followed by one kind letter per element
  (`s` str, `p` re.Pattern, `o` BaseCfgLine, `n` None, `i` int); child: a kind letter or `-`;
* rows: one row per element of `first`, then the row of the child expression (if not `-`);
* p1: the row of the second character of the first expression (F07) or `-`;
* lnum, ltext: `linenum` and `text` of the `BaseCfgLine` arguments of `first`.

The answer has the format of the `search` channel.

`searchf <ios> <delims> <ignore_blank> <lines> brg <flags> <rows> <groups>` is
`find_object_branches(regex_groups=True)`: groups = per expression `G` + one entry per line (`;`),
`x` = no match, `g` + the capture groups (`,`; `-` = group did not participate). -/
def handle : List String → String
  | [ios, delims, ign, lines, "brg", fl, rows, groups] =>
    match decStr delims, decStrs lines, Search.decRows rows, decGroupTable groups with
    | some ds, some ls, some rs, some g =>
      let cfg : Cfg := { ios := ios == "1", delims := ds, ignoreBlank := ign == "1" }
      let t := parse cfg ls
      if rs.any (fun r => r.length != t.size) || g.length != rs.length || g.any (fun l => l.length != t.size) then "bad-rows"
      else
        encNats t.parents ++ "|" ++ Search.natLists ((List.range t.size).map (children t)) ++ "&"
          ++ handleGroups t fl rs g
    | _, _, _, _ => "bad-request"
  | [ios, delims, ign, lines, op, fl, first, child, rows, p1, lnum, ltext] =>
    match decStr delims, decStrs lines, Search.decRows rows, decNat lnum, decStr ltext with
    | some ds, some ls, some rs, some ln, some lt =>
      let cfg : Cfg := { ios := ios == "1", delims := ds, ignoreBlank := ign == "1" }
      let t := parse cfg ls
      let has (c : Char) : Bool := fl.toList.contains c
      let o : Opts := { exact := has 'a', ws := has 'w', esc := has 'x', rev := has 'r', rec_ := has 'c',
                        emp := has 'e', pend := has 'u' }
      let p1r := if p1 == "-" then some none else (Search.decRow p1).map some
      match first.toList, p1r with
      | shape :: ks, some p1o =>
        match ks.mapM decKind, (if child == "-" then some Kind.none else (child.toList.head?).bind decKind) with
        | some kinds, some ck =>
          let nfirst := kinds.length
          let nrows := nfirst + (if child == "-" then 0 else 1)
          if rs.length != nrows || rs.any (fun r => r.length != t.size) || (p1o.any (fun r => r.length != t.size))
          then "bad-rows"
          else
            let args : List Arg := (kinds.zip (rs.take nfirst)).map
              (fun kr => { kind := kr.1, row := kr.2, num := ln, text := lt })
            let c : Arg := { kind := ck, row := (rs.drop nfirst).headD [] }
            let f? : Option First :=
              if shape == '1' then (match args with | [a] => some (.one a) | _ => none)
              else if shape == 'l' then some (.list args)
              else if shape == 't' then some (.tuple args)
              else none
            match f? with
            | some f =>
              encNats t.parents ++ "|" ++ Search.natLists ((List.range t.size).map (children t)) ++ "&"
                ++ answer t op f c p1o o
            | none => "bad-request"
        | _, _ => "bad-request"
      | _, _ => "bad-request"
    | _, _, _, _, _ => "bad-request"
  | _ => "bad-request"

end Ccp.Drv.SearchForms
