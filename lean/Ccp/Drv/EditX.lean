-- CHANNEL edit7x
import Ccp.Wire
import Ccp.Model.EditX
import Ccp.Drv.Edit
namespace Ccp.Drv.EditX
open Ccp.Py Ccp.Wire Ccp.Tree Ccp.Edit

def errName : Ccp.EditX.Err → String
  | .base e => Ccp.Drv.Edit.errName e
  | .typeError => "err:TypeError"

def searchOf : String → Option Ccp.EditX.Search
  | "fo" => some .findObjects | "fob" => some .findObjectBranches | "fpo" => some .findParentObjects
  | "fpw" => some .findParentObjectsWoChild | "fco" => some .findChildObjects
  | "crsc" => some .ccpReSearchChildren | "crmit" => some .ccpReMatchIterTyped
  | "oap" => some .allParents | "olin" => some .lineage | "ogen" => some .geneology
  | "orm" => some .reMatch | "ors" => some .reSearch | "orsc" => some .reSearchChildren
  | "ormt" => some .reMatchTyped | "ormit" => some .reMatchIterTyped | "orlit" => some .reListIterTyped
  | _ => none

def decOp (n : Nat) (w : String) : Option Ccp.EditX.Op :=
  match w.splitOn ":" with
  | ["rem", i] => do let i ← Ccp.Drv.Edit.handle? n i; pure (.remove i)
  | ["dela", i] => do let i ← Ccp.Drv.Edit.handle? n i; pure (.deleteAny i)
  | ["srch", k] => (searchOf k).map .search
  | ["libo", e, row, t] => do let t ← decStr t; pure (.listInsObj false (e == "1") (Ccp.Drv.Edit.bits row) t)
  | ["liao", e, row, t] => do let t ← decStr t; pure (.listInsObj true (e == "1") (Ccp.Drv.Edit.bits row) t)
  | ["insbi", t] => do let t ← decStr t; pure (.insertBadIndex t)
  | ["insbv", k] => do let k ← decInt k; pure (.insertBadValue k)
  | ["libv"] => some (.listInsBadValue false)
  | ["liav"] => some (.listInsBadValue true)
  | ["rembv"] => some .removeBadValue
  | _ => (Ccp.Drv.Edit.decOp n w).map .base

/-- the committed handle an operation works on, for the `@position` report -/
def handleOf : Ccp.EditX.Op → Option Nat
  | .base (.objInsBefore h _) | .base (.objInsAfter h _) | .base (.replaceText h _ _) | .base (.reSub h _)
  | .base (.delete h) | .base (.appendToFamily h _ _ _) | .remove h | .deleteAny h => some h
  | _ => none

def runOps : S → List String → List String
  | _, [] => []
  | s, w :: ws =>
    match decOp s.tree.size w with
    | none => ["bad-op"]
    | some op =>
      let r := Ccp.EditX.step s op
      let status := match r.2 with | .ok _ => "ok" | .error e => errName e
      let where_ :=
        if status == "skip" then "" else
        match handleOf op with
        | some h => (match posOf s.items h with | some p => "@" ++ toString p | none => "")
        | none => ""
      (status ++ where_ ++ "~" ++ Ccp.Drv.Edit.fresh r.1 ++ "~" ++ Ccp.Drv.Edit.dump r.1) :: runOps r.1 ws

/-- `editx <ios> <delims> <ignore_blank> <auto_commit> <width> <lines> <op>…` — the protocol of channel `edit` over
the extended alphabet `Ccp.EditX.Op` -/
def handle : List String → String
  | ios :: delims :: ign :: auto :: width :: lines :: ops =>
    match decStr delims, decStrs lines, decNat width with
    | some ds, some ls, some w =>
      let cfg : Cfg := { ios := ios == "1", delims := ds, ignoreBlank := ign == "1" }
      let s := init cfg (auto == "1") w ls
      "#".intercalate (("ok~" ++ Ccp.Drv.Edit.fresh s ++ "~" ++ Ccp.Drv.Edit.dump s) :: runOps s ops)
    | _, _, _ => "bad-request"
  | _ => "bad-request"

end Ccp.Drv.EditX
