-- CHANNEL diffcli
import Ccp.Wire
import Ccp.Model.DiffCli
namespace Ccp.Drv.DiffCli
open Ccp.Py Ccp.Wire Ccp.Diff

def errName : CliErr → String
  | .diff .valueError => "err:ValueError"
  | .diff .notImplemented => "err:NotImplementedError"
  | .fileNotFound => "err:FileNotFoundError"
  | .systemExit => "err:SystemExit"

/-- an optional command-line value: `-` = the option is not given -/
def decOpt (w : String) : Option (Option Str) :=
  if w == "-" then some none else (decStr w).map some

/-- `diffcli <method|-> <syntax|-> <path0> <content0|-> <path1> <content1|->` → `ok|<stdout lines>` or `err:<class>`
(a content of `-` = no such file) -/
def handle : List String → String
  | [m, s, p0, c0, p1, c1] =>
    match decOpt m, decOpt s, decStr p0, decOpt c0, decStr p1, decOpt c1 with
    | some method, some syn, some f0, some a, some f1, some b =>
      let fs : Str → Option Str := fun p => if p = f0 then a else if p = f1 then b else none
      match cliDiff fs f0 f1 method syn with
      | .error e => errName e
      | .ok ls => "ok|" ++ encStrs ls
    | _, _, _, _, _, _ => "bad-request"
  | _ => "bad-request"

end Ccp.Drv.DiffCli
