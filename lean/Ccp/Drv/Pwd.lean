-- CHANNEL pwd
import Ccp.Wire
import Ccp.Model.Pwd
namespace Ccp.Drv.Pwd
open Ccp.Py Ccp.Wire Ccp.Pwd

def errName : Err → String
  | .invalidPassword => "err:InvalidPassword"
  | .attributeError => "err:AttributeError"
  | .valueError => "err:ValueError"
  | .overflowError => "err:OverflowError"
  | .indexError => "err:IndexError"

def show' : Except Err Str → String
  | .ok s => encStr s
  | .error e => errName e

/-- does every salt passlib can draw (0..15) decode back to the password? -/
def roundTrips16 (pwd : Str) : Bool :=
  (List.range 16).all (fun s => match decrypt7 (encrypt7 s (encodeUtf8 pwd)) with | .ok d => d == pwd | .error _ => false)

/--
* `chk <pwd>`                      → `ok` / `err:InvalidPassword`
* `dec7 <ep>`                      → decoded string / error class
* `dec7o <self.ep> <ep>`           → `CiscoPassword(self.ep).decrypt_type_7(ep)`
* `ref7 <salt> <pwd>`              → reference encoding `|` its decoding by the library's decoder
* `lib7 <salt> <pwd>`              → `encrypt_type_7` with the drawn salt `|` decoding `|` T/F (all 16 library salts round-trip)
* `h8|h9 <salt> <pwd> <kdf bytes>` → `encrypt_type_8/9` with the drawn salt and the KDF answer supplied by the harness
* `h5 <salt> <pwd> <checksum>`     → `encrypt_type_5`
* `dec8 <text>` / `dec9 <text>`    → `decrypt_type_8/9` (always `err:NotImplementedError`)
-/
def handle : List String → String
  | ["chk", p] =>
    match decStr p with
    | some pwd => (match pwdCheck pwd with | .ok () => "ok" | .error e => errName e)
    | none => "bad-request"
  | ["dec7", e] =>
    match decStr e with
    | some ep => show' (decrypt7 ep)
    | none => "bad-request"
  | ["dec7o", o, e] =>
    match decStr o, decStr e with
    | some selfEp, some ep => show' (decryptType7 selfEp ep)
    | _, _ => "bad-request"
  | ["ref7", s, p] =>
    match decNat s, decStr p with
    | some salt, some pwd =>
      let enc := encrypt7 salt (encodeUtf8 pwd)
      encStr enc ++ "|" ++ show' (decrypt7 enc)
    | _, _ => "bad-request"
  | ["lib7", s, p] =>
    match decNat s, decStr p with
    | some salt, some pwd =>
      match encryptType7 salt pwd with
      | .error e => errName e
      | .ok enc => encStr enc ++ "|" ++ show' (decrypt7 enc) ++ "|" ++ (if roundTrips16 pwd then "T" else "F")
    | _, _ => "bad-request"
  | ["h8", s, p, k] =>
    match decStr s, decStr p, decNats k with
    | some salt, some pwd, some raw => show' (encryptType8 (fun _ _ _ _ _ => raw) salt pwd)
    | _, _, _ => "bad-request"
  | ["h9", s, p, k] =>
    match decStr s, decStr p, decNats k with
    | some salt, some pwd, some raw => show' (encryptType9 (fun _ _ _ _ _ _ => raw) salt pwd)
    | _, _, _ => "bad-request"
  | ["h5", s, p, k] =>
    match decStr s, decStr p, decStr k with
    | some salt, some pwd, some chk => show' (encryptType5 (fun _ _ => chk) salt pwd)
    | _, _, _ => "bad-request"
  | ["dec8", e] =>
    match decStr e with
    | some t => (match decryptType8 t with | .ok s => encStr s | .error .notImplementedError => "err:NotImplementedError")
    | none => "bad-request"
  | ["dec9", e] =>
    match decStr e with
    | some t => (match decryptType9 t with | .ok s => encStr s | .error .notImplementedError => "err:NotImplementedError")
    | none => "bad-request"
  | _ => "bad-request"

end Ccp.Drv.Pwd
