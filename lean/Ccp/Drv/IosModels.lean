-- CHANNEL ios
import Ccp.Wire
import Ccp.Model.IosModels
namespace Ccp.Drv.IosModels
open Ccp.Py Ccp.Wire Ccp.Tree Ccp.Ios

def errName : Err → String
  | .indexError => "err:IndexError"
  | .valueError => "err:ValueError"
  | .ipError => "err:ip"
  | .rangeError => "err:range"

def encBool (b : Bool) : String := if b then "T" else "F"

def encE {α : Type} (f : α → String) : Except Err α → String
  | .ok a => f a
  | .error e => errName e

def encOptStr : Option Str → String
  | some s => encStr s
  | none => "err:IndexError"

/-- a Python set of strings: sorted, duplicate free -/
def encSet (l : List String) : String :=
  " ".intercalate ((l.toArray.qsort (· < ·)).toList.eraseDups)

def objText (r : Str × Nat) : String := String.ofList r.1 ++ "/" ++ toString r.2

/-- all accessors of one interface line, in the order documented in `harness/props/c19.py` -/
def intfAnswer (t : T) (i : Nat) : String :=
  let f := famOf t i
  let s := f.self
  "|".intercalate [
    encStr (intfName s),
    encStr (portType s),
    (match ordinalList s with | some l => encInts l | none => "err"),
    encOptStr (interfaceNumber s),
    encOptStr (subinterfaceNumber s),
    encBool (isPortchannelIntf s),
    encStr (description f),
    encStr (ipv4Addr f),
    encStr (ipv4Netmask f),
    encE toString (ipv4Masklength f),
    encE (fun o => match o with | some r => objText r | none => "-") (ipv4AddrObject f),
    encE (fun l => encSet (l.map (fun r => String.ofList r.1))) (secondaries f),
    encE (fun l => encSet (l.map objText)) (secondaries f),
    encStr (vrf f),
    toString (manualMtu f),
    toString (manualIpMtu f),
    encBool (isShutdown f),
    encE encBool (isSwitchport f),
    encBool (hasManualSwitchAccess f),
    encBool (hasManualSwitchTrunk f),
    encE toString (accessVlan f),
    encE toString (nativeVlan f),
    encE (fun l => encStr (Range.compress l)) (trunkVlansAllowed f),
    toString (portchannelNumber f),
    encBool (isInPortchannel f),
    (match port s with | some p => toString p | none => "err"),
    encStr (ipv4Addr f)]            -- `ip_addr`, the alias of `ipv4_addr`

def encRouteErr {α : Type} (f : α → String) : Except RouteErr α → String
  | .ok a => f a
  | .error .valueError => "err:ValueError"
  | .error .notImplementedError => "err:NotImplementedError"

def routeAnswer (s : Str) : String :=
  if !isRouteLine s then "notroute" else
  match routeParse s with
  | none => "err:ValueError"
  | some r =>
    "|".intercalate [
      encStr r.vrfName, encStr r.network, encStr r.netmask,
      (match r.masklen with | some n => toString n | none => "err"),
      encStr r.nextHopInterface, encStr r.nextHopAddr, toString r.adminDistance,
      encStr r.routeName, encStr r.trackingObjectName, encStr r.tagText,
      encBool r.permanent, encBool r.multicast, encBool r.globalNextHop,
      encStr r.addressFamily, encStr r.nexthopStr, encRouteErr encStr r.nexthopVrf, encRouteErr encBool r.unicast]

/-- `ios intf <index> <lines>` | `ios route <line>` -/
def handle : List String → String
  | ["intf", idx, lines] =>
    match decNat idx, decStrs lines with
    | some i, some ls =>
      let t := parse { ios := true, delims := ['!'], ignoreBlank := false } ls
      if i < t.size then
        (if isIntfLine (Typed.text t i) then intfAnswer t i else "notintf")
      else "oob"
    | _, _ => "bad-request"
  | ["route", line] =>
    match decStr line with
    | some s => routeAnswer s
    | none => "bad-request"
  | _ => "bad-request"

end Ccp.Drv.IosModels
