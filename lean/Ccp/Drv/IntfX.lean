-- CHANNEL intfx
import Ccp.Wire
import Ccp.Model.IntfX
import Ccp.Drv.Intf
namespace Ccp.Drv.IntfX
open Ccp.Py Ccp.Wire Ccp.Intf Ccp.IntfX
open Ccp.Drv.Intf (errName encDict encRender optNat insertStr)

def xerrName : XErr → String
  | .base e => errName e
  | .keyError => "err:KeyError"
  | .listItemMissingAttribute => "err:ListItemMissingAttribute"

def encStrE : Except Err Str → String
  | .ok s => encStr s
  | .error e => errName e

/-- rendering, components and `==` to the original -/
def describe3 (i j : Intf) : List String := [encRender j, encDict j, if eq i j then "T" else "F"]

def describeE (i : Intf) : Except Err Intf → List String
  | .ok j => describe3 i j
  | .error e => [errName e]

/-- `obj <s>` : repr, .name, `== str`, `== int`, str() after `number = "9/9"`, the dictionary
constructor, the copy constructor, `from_dict`, `from_dict` with the card overwritten -/
def handleObj (s : Str) : String :=
  match parse s with
  | .error e => errName e
  | .ok i =>
    "|".intercalate (["ok", encStrE (reprOf i), encRender i, "F", "F", encRender i]
      ++ describeE i (fromDictCtor i) ++ describeE i (fromDictCtor i) ++ describe3 i (fromDictMethod i)
      -- `o.from_dict(dict(o.as_dict(), card=7))`: a card without a slot cannot be rendered
      ++ (let j := fromDictMethod { i with card := some 7 }; [encRender j, encDict j]))

/-- `raw <s>` : what `parse_single_interface(s)` returns (prefix and class word stripped,
numbers as ints) -/
def handleRaw (s : Str) : String :=
  match parseSingle s with
  | .error e => errName e
  | .ok r =>
    ",".intercalate [encStr (strip r.pfx), (match r.sep with | some c => toString c.toNat | none => "-"),
      optNat r.slot, optNat r.card, optNat r.port, optNat r.sub, optNat r.chan,
      (match r.cls with | some w => encStr w | none => "-")]

def handleDict (s : Str) (ks : List String) : String :=
  match parse s with
  | .error e => errName e
  | .ok i =>
    let chk := match checkDict ks with
      | .ok () => "T"
      | .error e => xerrName e
    let ctor := match ctorDict i ks with
      | .ok j => "|".intercalate (describe3 i j)
      | .error e => xerrName e
    "|".intercalate ["ok", chk, ctor]

def handleSetPfx (s p : Str) : String :=
  match parse s with
  | .error e => errName e
  | .ok i => let j := setPrefix i p; "|".intercalate ["ok", encRender j, encDict j]

def decGuard : String → Option Guard
  | "psi-int" => some .psiInt
  | "short-none" => some .shortNone
  | "short-str" => some .shortStr
  | "long-none" => some .longNone
  | "long-str" => some .longStr
  | "check-int" => some .checkInt
  | "prefix-int" => some .prefixInt
  | "ctor-int" => some .ctorInt
  | "ctor-dict-int" => some .ctorDictInt
  | "ctor-nothing" => some .ctorNothing
  | _ => none

def decTy : String → Option Ty
  | "auto" => some .auto
  | "none" => some .none
  | "inst" => some .inst
  | "str" => some .str
  | "int" => some .int
  | "float" => some .float
  | "bad" => some .bad
  | _ => none

def encView (v : View) : String :=
  let kind := if v.isList then "L" else "S"
  if v.items = [] then kind ++ "e:" else
  match v.items.mapM render with
  | .error e => errName e
  | .ok names =>
    let names := if v.isList then names else names.foldr insertStr []
    kind ++ (if v.asNames then "s" else "o") ++ ":" ++ encStrs names

def rtName : String → Str
  | "none" => "None".toList
  | "ios" => memberType
  | _ => "<class 'str'>".toList

def decRead (op : String) : Option RRead :=
  match op.splitOn ":" with
  | ["str"] => some .str
  | ["repr"] => some .repr
  | ["idx", k] => (decNat k).map .idx
  | ["eqfresh"] => some .eqFresh
  | ["data"] => some .data
  | _ => none

def encRAns : Except Err RAns → String
  | .ok (.text t) => encStr t
  | .ok (.bool b) => if b then "T" else "F"
  | .ok (.member m) => encRender m
  | .ok (.members l) => Ccp.Drv.Intf.encMembers l
  | .error e => errName e

def stepOp0 (s : RSt) (op : String) : RSt × String :=
  match op.splitOn ":" with
  | ["list", t] =>
    (s, match decTy t with
      | none => "bad-op"
      | some t => (match asListT s t with | .ok v => encView v | .error e => xerrName e))
  | ["set", t] =>
    (s, match decTy t with
      | none => "bad-op"
      | some t => (match asSetT s t with | .ok v => encView v | .error e => xerrName e))
  | ["list"] =>
    -- `as_list()` in the format of the `intf` channel (names only)
    (s, match asListT s .auto with
      | .ok v => Ccp.Drv.Intf.encMembers v.items
      | .error e => xerrName e)
  | _ => let r := Ccp.Drv.Intf.stepOp s.data op; (⟨r.1, s.rev⟩, r.2)

def stepOp (rt : String) (fresh : List Intf) (s : RSt) (op : String) : RSt × String :=
  match decRead op with
  | some r => (s, encRAns (readR (rtName rt) fresh s r))
  | none => stepOp0 s op

def runOps (rt : String) (fresh : List Intf) : RSt → List String → List String
  | _, [] => []
  | s, op :: ops => let r := stepOp rt fresh s op; r.2 :: runOps rt fresh r.1 ops

def handle : List String → String
  | ["obj", s] => (decStr s).elim "bad-request" handleObj
  | ["raw", s] => (decStr s).elim "bad-request" handleRaw
  | ["dict", s, ks] =>
    match decStr s, decStrs ks with
    | some t, some ks => handleDict t (ks.map String.ofList)
    | _, _ => "bad-request"
  | ["setpfx", s, p] =>
    match decStr s, decStr p with
    | some t, some p => handleSetPfx t p
    | _, _ => "bad-request"
  | ["guard", g] => (decGuard g).elim "bad-request" (fun g => errName (guardErr g))
  | "range" :: text :: rt :: rev :: ops =>
    match decStr text with
    | none => "bad-request"
    | some t =>
      match construct (rev == "1") t with
      | .error e => errName e
      | .ok s => "|".intercalate ("ok" :: runOps rt s.data s ops)
  | _ => "bad-request"

end Ccp.Drv.IntfX
