-- CHANNEL diff
import Ccp.Wire
import Ccp.Model.Diff
namespace Ccp.Drv.Diff
open Ccp.Py Ccp.Wire Ccp.Diff

def errName : Err → String
  | .valueError => "err:ValueError"
  | .notImplemented => "err:NotImplementedError"

/-- one side: kind (`N` None, `S` str, `L` list, `T` tuple, `X` another type), payload, and
what the file system holds under the payload taken as a path (`-` = no such file) -/
def decSide (kind payload file : String) : Option (Input × Option (Str × Str)) :=
  match kind with
  | "N" => some (.none, none)
  | "X" => some (.other, none)
  | "L" => (decStrs payload).map (fun l => (.list l, none))
  | "T" => (decStrs payload).map (fun l => (.tuple l, none))
  | "S" =>
    match decStr payload with
    | none => none
    | some s =>
      if file = "-" then some (.str s, none)
      else (decStr file).map (fun c => (.str s, some (s, c)))
  | _ => none

/-- `diff <syntax> <kind> <payload> <file> <kind> <payload> <file>` →
`ok|<get_diff() lines>|<get_rollback() lines>` or `err:<class>` -/
def handle : List String → String
  | [syn, ok, op, ofile, nk, np, nfile] =>
    match decStr syn, decSide ok op ofile, decSide nk np nfile with
    | some syn, some (o, f1), some (n, f2) =>
      let fs : Str → Option Str := fun p =>
        match f1, f2 with
        | some (q, c), _ => if p = q then some c else
            (match f2 with | some (q2, c2) => if p = q2 then some c2 else none | none => none)
        | none, some (q2, c2) => if p = q2 then some c2 else none
        | none, none => none
      match init fs o n syn with
      | .error e => errName e
      | .ok cfg => "ok|" ++ encStrs (getDiff cfg) ++ "|" ++ encStrs (getRollback cfg)
    | _, _, _ => "bad-request"
  | _ => "bad-request"

end Ccp.Drv.Diff
