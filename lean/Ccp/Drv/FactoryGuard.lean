-- CHANNEL factory
import Ccp.Wire
import Ccp.Model.FactoryGuard
namespace Ccp.Drv.FactoryGuard
open Ccp.Py Ccp.Wire Ccp.Factory

def errName : Err → String
  | .notImplementedError => "err:NotImplementedError"
  | .invalidParameters => "err:InvalidParameters"
  | .valueError => "err:ValueError"

/-- `factory guard <all_lines is list 0/1> <line is str 0/1> <delims -|0|1> <syntax str | -> <debug is int 0/1>`
→ `ok` (the class walk is reached) or `err:<class>` -/
def handle : List String → String
  | ["guard", al, ln, ds, syn, dbg] =>
    let delims : Option (Option Bool) :=
      if ds == "-" then some none else if ds == "1" then some (some true) else if ds == "0" then some (some false) else none
    let syn' : Option (Option Str) := if syn == "-" then some none else (decStr syn).map some
    match delims, syn' with
    | some d, some s =>
      (match argCheck ⟨al == "1", ln == "1", d, s, dbg == "1"⟩ with
       | none => "ok"
       | some e => errName e)
    | _, _ => "bad-request"
  | _ => "bad-request"

end Ccp.Drv.FactoryGuard
