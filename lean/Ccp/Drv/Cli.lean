-- CHANNEL cli
import Ccp.Wire
import Ccp.Model.Cli
namespace Ccp.Drv.Cli
open Ccp.Py Ccp.Wire Ccp.Cli

def errName : Err → String
  | .systemExit => "err:SystemExit"
  | .valueError => "err:ValueError"
  | .notImplemented => "err:NotImplementedError"
  | .attributeError => "err:AttributeError"
  | .indexError => "err:IndexError"
  | .api cls => "err:" ++ String.ofList cls

def has (fl : String) (c : Char) : Bool := fl.toList.contains c

/-- `a;b;c` → items (empty field = no item) -/
def items (w : String) : List String := if w = "" then [] else w.splitOn ";"

/-- `key=value` -/
def kv (w : String) : Option (String × String) :=
  match w.splitOn "=" with
  | [k, v] => some (k, v)
  | _ => none

/-! ### oracle rows of the greps -/

/-- `<str>=<strs>` : `re.split(delim, key)` -/
def decSplitRow (w : String) : Option (Str × List Str) := do
  let (k, v) ← kv w
  let key ← decStr k
  let ws ← decStrs v
  some (key, ws)

def decPair (w : String) : Option (Option (Nat × Nat)) :=
  if w = "-" then some none else
  match w.splitOn ":" with
  | [a, l] => do
    let ip ← decNat a
    let len ← decNat l
    some (some (ip, len))
  | _ => none

/-- `<word>=<v4>/<v6>` with `-` or `ip:len` -/
def decAddrRow (w : String) : Option (Str × Option (Nat × Nat) × Option (Nat × Nat)) := do
  let (k, v) ← kv w
  let key ← decStr k
  match v.splitOn "/" with
  | [a, b] => do
    let p4 ← decPair a
    let p6 ← decPair b
    some (key, p4, p6)
  | _ => none

/-- `4:<n>=<str>` -/
def decTxtRow (w : String) : Option ((Nat × Nat) × Str) := do
  let (k, v) ← kv w
  let t ← decStr v
  match k.splitOn ":" with
  | [a, n] => do
    let ver ← decNat a
    let n ← decNat n
    some ((ver, n), t)
  | _ => none

/-- `<rgx>~<text>=0/1` -/
def decRxRow (w : String) : Option ((Str × Str) × Bool) := do
  let (k, v) ← kv w
  match k.splitOn "~" with
  | [r, t] => do
    let r ← decStr r
    let t ← decStr t
    some ((r, t), v == "1")
  | _ => none

def missing : Str := "?missing-row".toList

def verNum : Ver → Nat
  | .v4 => 4
  | .v6 => 6

def mkOracle (splits : List (Str × List Str))
    (addrs : List (Str × Option (Nat × Nat) × Option (Nat × Nat)))
    (txts : List ((Nat × Nat) × Str)) (rxs : List ((Str × Str) × Bool)) : Oracle where
  split := fun s => (splits.lookup s).getD [missing]
  ip4 := fun w => ((addrs.lookup w).map (·.1)).getD none
  ip6 := fun w => ((addrs.lookup w).map (·.2)).getD none
  txt := fun v n => (txts.lookup (verNum v, n)).getD missing
  rx := fun r t => (rxs.lookup (r, t)).getD false

def outLines : Except Err (List Str) → String
  | .ok l => "ok|" ++ encStrs l
  | .error e => errName e

/-! ### API rows of the sub-commands -/

/-- `linenum:text` -/
def decLine (w : String) : Option Line :=
  match w.splitOn ":" with
  | [n, t] => do
    let n ← decNat n
    let t ← decStr t
    some ⟨n, t⟩
  | _ => none

def decLines (w : String) : Option (List Line) :=
  if w = "" then some [] else (w.splitOn ",").mapM decLine

def decBranch (w : String) : Option (List (Option Line)) :=
  (w.splitOn ",").mapM (fun x => if x = "-" then some none else (decLine x).map some)

def decBranches (w : String) : Option (List (List (Option Line))) :=
  if w = "" then some [] else (w.splitOn "&").mapM decBranch

def encLine (l : Line) : String := toString l.linenum ++ ":" ++ encStr l.text

def missErr : Err := .api "missing-row".toList

/-- value of a row: `err:<cls>` or a payload -/
def rowVal {α : Type} (dec : String → Option α) (rows : List (String × String)) (key : String) :
    Except Err α :=
  match rows.lookup key with
  | none => .error missErr
  | some v =>
    if v.startsWith "err:" then .error (.api (v.drop 4).toString.toList)
    else match dec v with
      | some x => .ok x
      | none => .error (.api "bad-row".toList)

def mkParse (rows : List (String × String)) (f syn : Str) : Parse where
  findParentObjects := fun terms =>
    rowVal decLines rows ("P|" ++ encStr f ++ "|" ++ encStr syn ++ "|" ++ encStrs terms)
  findChildObjects := fun terms =>
    rowVal decLines rows ("C|" ++ encStr f ++ "|" ++ encStr syn ++ "|" ++ encStrs terms)
  findObjectBranches := fun terms =>
    rowVal decBranches rows ("B|" ++ encStr f ++ "|" ++ encStr syn ++ "|" ++ encStrs terms)
  allChildren := fun l =>
    match rowVal decLines rows ("A|" ++ encStr f ++ "|" ++ encStr syn ++ "|" ++ encLine l) with
    | .ok ls => ls
    | .error _ => [⟨0, missing⟩]

def decTwoLists (w : String) : Option (List Str × List Str) :=
  match w.splitOn ">" with
  | [a, b] => do
    let x ← decStrs a
    let y ← decStrs b
    some (x, y)
  | _ => none

def mkApi (rows : List (String × String)) : Api where
  parse := fun f syn =>
    match rowVal (fun _ => some ()) rows ("X|" ++ encStr f ++ "|" ++ encStr syn) with
    | .ok _ => .ok (mkParse rows f syn)
    | .error e => .error e
  read := fun f => rowVal decStr rows ("R|" ++ encStr f)
  diff := fun old new syn =>
    rowVal decTwoLists rows ("D|" ++ encStr old ++ "|" ++ encStr new ++ "|" ++ encStr syn)

def decRows (w : String) : Option (List (String × String)) := (items w).mapM kv

/--
* `cli ipgrep <flags 46cnHlu> <subnets | -> <text> <split rows> <addr rows> <txt rows>`
* `cli macgrep <flags lu> <regex> <text> <split rows> <rx rows>`
* `cli find <parent|child|branch> <args> <delimiter> <syntax> <output> <files> <api rows>`
* `cli diff <files> <method> <syntax> <api rows>`

answers `ok|<lines>` or `err:<class>`.
-/
def handle : List String → String
  | ["ipgrep", fl, subnets, text, splits, addrs, txts] =>
    let sub : Option (Option Str) := if subnets = "-" then some none else (decStr subnets).map some
    match sub, decStr text, (items splits).mapM decSplitRow, (items addrs).mapM decAddrRow,
        (items txts).mapM decTxtRow with
    | some sub, some text, some splits, some addrs, some txts =>
      -- every word the split rows can return must have an address row
      if splits.any (fun r => r.2.any (fun w => (addrs.lookup w).isNone)) then "bad-rows" else
      let O := mkOracle splits addrs txts []
      let a : IpArgs := {
        subnets := sub, ipv4 := has fl '4', ipv6 := has fl '6', showCidr := has fl 'c',
        showNetworks := has fl 'n', excludeHosts := has fl 'H', line := has fl 'l',
        unique := has fl 'u', text := text }
      outLines (ipgrep O a)
    | _, _, _, _, _ => "bad-request"
  | ["macgrep", fl, regex, text, splits, rxs] =>
    match decStr regex, decStr text, (items splits).mapM decSplitRow, (items rxs).mapM decRxRow with
    | some regex, some text, some splits, some rxs =>
      let O := mkOracle splits [] [] rxs
      outLines (.ok (macgrep O ⟨regex, has fl 'l', has fl 'u', text⟩))
    | _, _, _, _ => "bad-request"
  | ["find", cmd, args, delim, syn, output, files, rows] =>
    match decStr args, decStr delim, decStr syn, decStr output, decStrs files, decRows rows with
    | some args, some delim, some syn, some output, some files, some rows =>
      let A := mkApi rows
      let a : FindArgs := ⟨args, delim, syn, output, files⟩
      match cmd with
      | "parent" => outLines (parentCmd A a)
      | "child" => outLines (childCmd A a)
      | "branch" => outLines (branchCmd A a)
      | _ => "bad-request"
    | _, _, _, _, _, _ => "bad-request"
  | ["diff", files, method, syn, rows] =>
    match decStrs files, decStr method, decStr syn, decRows rows with
    | some files, some method, some syn, some rows =>
      outLines (diffCmd (mkApi rows) ⟨files, method, syn⟩)
    | _, _, _, _ => "bad-request"
  | _ => "bad-request"

end Ccp.Drv.Cli
