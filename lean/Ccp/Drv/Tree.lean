-- CHANNEL tree
import Ccp.Wire
import Ccp.Model.Tree
namespace Ccp.Drv.Tree
open Ccp.Py Ccp.Wire Ccp.Tree

def natLists (ls : List (List Nat)) : String := ";".intercalate (ls.map encNats)

def flag (b : Bool) : String := if b then "1" else "0"

def viewOf (t : T) (i : Nat) : String :=
  "/".intercalate [encNats (allChildren t i), encNats (allParents t i), encNats (lineage t i),
    encNats (geneology t i), toString (familyEndpoint t i), encNats (siblings t i),
    flag (isParent t i) ++ flag (isChild t i)]

def answer (t : T) : String → String
  | "texts" => encStrs t.texts
  | "parents" => encNats t.parents
  | "children" => natLists ((List.range t.size).map (children t))
  | "links" => encNats t.parents ++ "|" ++ natLists ((List.range t.size).map (children t))
  | "all" => encStrs t.texts ++ "|" ++ encNats (List.range t.size) ++ "|" ++ encNats t.parents ++ "|"
      ++ natLists ((List.range t.size).map (children t))
  | "lossless" => encStrs t.texts ++ "|" ++ encNats (List.range t.size)
  | "forest" => encNats t.parents ++ "|" ++ natLists ((List.range t.size).map (children t)) ++ "&"
      ++ "|".intercalate ((List.range t.size).map (viewOf t))
  | "views" => "|".intercalate ((List.range t.size).map (viewOf t))
  | "pass1" => "bad-op"
  | _ => "bad-op"

/-- `tree <ios 0/1> <delims> <ignore_blank 0/1> <op> <lines>` -/
def handle : List String → String
  | [ios, delims, ign, op, lines] =>
    match decStr delims, decStrs lines with
    | some ds, some ls =>
      let cfg : Cfg := { ios := ios == "1", delims := ds, ignoreBlank := ign == "1" }
      if op == "pass1" then encNats (linkByIndent cfg ls) else
      answer (parse cfg ls) op
    | _, _ => "bad-request"
  | _ => "bad-request"

end Ccp.Drv.Tree
