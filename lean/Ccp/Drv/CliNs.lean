-- CHANNEL clins
import Ccp.Wire
import Ccp.Model.CliNs
import Ccp.Drv.Cli
namespace Ccp.Drv.CliNs
open Ccp.Py Ccp.Wire Ccp.Cli Ccp.Drv.Cli

/-- `f` the FILE argument, `s` standard input, `t` a terminal and no FILE -/
def decSource (w : String) (text : Str) : Option Source :=
  match w with
  | "f" => some (.file text)
  | "s" => some (.stdin text)
  | "t" => some .ttyNoFile
  | _ => none

/--
* `clins ipgrep <source f|s|t> <exclude_networks 0|1> <flags 46cnHlu> <subnets | -> <text> <split rows> <addr rows> <txt rows>`
* `clins macgrep <source f|s|t> <flags lu> <regex> <text> <split rows> <rx rows>`
* `clins command <name>`  (a Namespace with this `command` and nothing else)

answers `ok|<lines>` or `err:<class>`.
-/
def handle : List String → String
  | ["ipgrep", src, xn, fl, subnets, text, splits, addrs, txts] =>
    let sub : Option (Option Str) := if subnets = "-" then some none else (decStr subnets).map some
    match sub, decStr text, (items splits).mapM decSplitRow, (items addrs).mapM decAddrRow,
        (items txts).mapM decTxtRow with
    | some sub, some text, some splits, some addrs, some txts =>
      match decSource src text with
      | none => "bad-request"
      | some source =>
        if splits.any (fun r => r.2.any (fun w => (addrs.lookup w).isNone)) then "bad-rows" else
        let O := mkOracle splits addrs txts []
        let a : IpArgs := {
          subnets := sub, ipv4 := has fl '4', ipv6 := has fl '6', showCidr := has fl 'c',
          showNetworks := has fl 'n', excludeHosts := has fl 'H', line := has fl 'l',
          unique := has fl 'u', text := [] }
        outLines (ipgrepFrom O a (xn == "1") source)
    | _, _, _, _, _ => "bad-request"
  | ["macgrep", src, fl, regex, text, splits, rxs] =>
    match decStr regex, decStr text, (items splits).mapM decSplitRow, (items rxs).mapM decRxRow with
    | some regex, some text, some splits, some rxs =>
      match decSource src text with
      | none => "bad-request"
      | some source =>
        let O := mkOracle splits [] [] rxs
        outLines (macgrepFrom O ⟨regex, has fl 'l', has fl 'u', []⟩ source)
    | _, _, _, _ => "bad-request"
  | ["command", name] =>
    match decStr name with
    | some n => (match otherCommand n with | some e => errName e | none => "ok|")
    | none => "bad-request"
  | _ => "bad-request"

end Ccp.Drv.CliNs
