-- CHANNEL brace
import Ccp.Wire
import Ccp.Model.Brace
namespace Ccp.Drv.Brace
open Ccp.Py Ccp.Wire Ccp.Brace

def errName : Err → String
  | .valueError => "err:ValueError"
  | .parseException => "err:ParseException"

def encParent : Option Nat → String
  | none => "r"
  | some j => toString j

/-- `brace conv <lines>` → `ok|<lines>|<parents>` or `err:<class>`:
the texts `convert_junos_to_ios(lines)` returns and, per text, the index of its
indentation parent (`r` for a root); `brace txt <lines>` → texts only. -/
def handle : List String → String
  | ["conv", ls] =>
    match decStrs ls with
    | none => "bad-request"
    | some lines =>
      match junosToIos lines with
      | .error e => errName e
      | .ok out => "ok|" ++ encStrs out ++ "|" ++ ",".intercalate ((indentParents out).map encParent)
  | ["txt", ls] =>
    match decStrs ls with
    | none => "bad-request"
    | some lines =>
      match if lines = [] then convertJunosToIos Gen.junosStopWidth lines else junosToIos lines with
      | .error e => errName e
      | .ok out => "ok|" ++ encStrs out
  | _ => "bad-request"

end Ccp.Drv.Brace
