-- CHANNEL brace
import Ccp.Wire
import Ccp.Model.Brace
namespace Ccp.Drv.Brace
open Ccp.Py Ccp.Wire Ccp.Brace

def errName : Err → String
  | .valueError => "err:ValueError"
  | .parseException => "err:ParseException"

/-- parents as the shared tree model stores them (a root is its own parent); `r` for a root -/
def encParents (ps : List Nat) : String :=
  ",".intercalate ((ps.zipIdx).map (fun pi => if pi.1 = pi.2 then "r" else toString pi.1))

/-- `brace conv <lines>` → `ok|<lines>|<parents>` or `err:<class>`:
the texts and parent links of `CiscoConfParse(lines, syntax='junos')` (`junosParse`: the
conversion followed by pass 1 of the shared bootstrap model, `r` for a root);
`brace txt <lines>` → texts of `convert_junos_to_ios(lines)` only. -/
def handle : List String → String
  | ["conv", ls] =>
    match decStrs ls with
    | none => "bad-request"
    | some lines =>
      match junosParse lines with
      | .error e => errName e
      | .ok t => "ok|" ++ encStrs t.texts ++ "|" ++ encParents t.parents
  | ["txt", ls] =>
    match decStrs ls with
    | none => "bad-request"
    | some lines =>
      match if lines = [] then convertJunosToIos Gen.junosStopWidth lines else junosToIos lines with
      | .error e => errName e
      | .ok out => "ok|" ++ encStrs out
  | _ => "bad-request"

end Ccp.Drv.Brace
