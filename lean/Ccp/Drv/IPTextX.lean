-- CHANNEL iptextx
import Ccp.Wire
import Ccp.Model.IPTextX
import Ccp.Drv.IPText
/-!
`iptextx get4|get6 <s|i> <arg> <T|F>`, `iptextx fac <s|i> <arg> <T|F> <mode>`, `iptextx chk <text>`,
`iptextx guardget <T|F>×4`, `iptextx guardfac <T|F> <mode> <T|F> <T|F>`, `iptextx ctor <none|foreign|baddebug>`,
`iptextx v4x|v6x <text>`.
-/
namespace Ccp.Drv.IPTextX
open Ccp.Py Ccp.Wire Ccp.IPText Ccp.IPTextX

def errName (e : Err) : String := "err:" ++ Ccp.Drv.IPText.errName e

def tfOf : String → Option Bool
  | "T" => some true
  | "F" => some false
  | _ => none

def decVal (kind arg : String) : Option Val :=
  match kind with
  | "s" => (decStr arg).map .str
  | "i" => (decInt arg).map .int
  | _ => none

def showRet : Ret → String
  | .obj4 o => Ccp.Drv.IPText.show4 o
  | .obj6 o => Ccp.Drv.IPText.show6 o
  | .addr4 n => s!"addr4|{n}"
  | .addr6 n => s!"addr6|{n}"
  | .net4 n => s!"net4|{n.1}/{n.2}"
  | .net6 n => s!"net6|{n.1}/{n.2}"

def ansRet : Except Err Ret → String
  | .ok r => showRet r
  | .error e => errName e

def showEx (f : α → String) : Except Err α → String
  | .ok v => f v
  | .error e => "exc:" ++ Ccp.Drv.IPText.errName e

def showExtra (x : Extra) : String :=
  "|".intercalate [toString x.ip, toString x.ipInt, toString x.masklen, toString x.masklength,
    toString x.prefixlength, encNats x.packed, showEx toString x.networkOffset, toString x.maxInt,
    toString x.inverseNetmask, toString x.version, showEx toString x.asInt]

def raisesName : AlwaysRaises → String
  | .notImplemented => "exc:NotImplementedError"
  | .attributeError => "exc:AttributeError"

def tf (b : Bool) : String := if b then "T" else "F"

def handle : List String → String
  | ["get4", k, a, st] =>
    match decVal k a, tfOf st with
    | some v, some b => ansRet (getIpv4 v b)
    | _, _ => "bad-request"
  | ["get6", k, a, st] =>
    match decVal k a, tfOf st with
    | some v, some b => ansRet (getIpv6 v b)
    | _, _ => "bad-request"
  | ["fac", k, a, st, mode] =>
    match decVal k a, tfOf st, decStr mode with
    | some v, some b, some m => ansRet (ipFactory v b m)
    | _, _, _ => "bad-request"
  | ["chk", a] =>
    match decStr a with
    | some t => (match checkValid t with
      | .ok (s, fam) => "ok|" ++ encStr s ++ "|" ++ toString fam
      | .error e => errName e)
    | none => "bad-request"
  | ["guardget", a, b, c, d] =>
    match tfOf a, tfOf b, tfOf c, tfOf d with
    | some a, some b, some c, some d => (match guardGet a b c d with
      | some e => errName e
      | none => "pass")
    | _, _, _, _ => "bad-request"
  | ["guardchk", a] =>
    match tfOf a with
    | some a => (match guardCheck a with
      | some e => errName e
      | none => "pass")
    | none => "bad-request"
  | ["guardfac", a, mode, c, d] =>
    match tfOf a, decStr mode, tfOf c, tfOf d with
    | some a, some m, some c, some d => (match guardFactory a m c d with
      | some e => errName e
      | none => "pass")
    | _, _, _, _ => "bad-request"
  | ["ctor", t] =>
    let ty : Option ArgType := match t with
      | "none" => some .none
      | "foreign" => some .foreign
      | "baddebug" => some .badDebug
      | _ => none
    match ty with
    | some ty => (match ctorByType ty with
      | .ok _ => "empty"
      | .error e => errName e)
    | none => "bad-request"
  | ["v4x", a] =>
    match decStr a with
    | some t => (match V4.fromStr t with
      | .ok o => "ok|" ++ showExtra (extra4 o)
      | .error e => errName e)
    | none => "bad-request"
  | ["v6x", a] =>
    match decStr a with
    | some t => (match V6.fromStr t with
      | .ok o => "ok|" ++ showExtra (extra6 o) ++ "|" ++ tf (isIpv4Mapped o) ++ "|"
          ++ "|".intercalate (v6AlwaysRaise.map raisesName)
      | .error e => errName e)
    | none => "bad-request"
  | _ => "bad-request"

end Ccp.Drv.IPTextX
