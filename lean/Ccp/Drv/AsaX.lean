-- CHANNEL asax
import Ccp.Wire
import Ccp.Model.AsaX
import Ccp.Drv.Asa
namespace Ccp.Drv.AsaX
open Ccp.Py Ccp.Wire Ccp.Asa Ccp.AsaX
open Ccp.Drv.Asa (errName)

def xerrName : XErr → String
  | .base e => errName e
  | .attributeError => "err:AttributeError"

def tf (b : Bool) : String := if b then "T" else "F"

/-- `l4 <p1> <syn1> <spec1> <p2> <syn2> <spec2>` : `a == b`, `a != b`, `repr(a)` -/
def handleL4 (p1 y1 s1 p2 y2 s2 : Str) : String :=
  match mkL4 p1 y1 s1 with
  | .error e => errName e
  | .ok a =>
    match mkL4 p2 y2 s2 with
    | .error e => "second:" ++ errName e
    | .ok b =>
      "|".intercalate ["ok", tf (l4Eq a b), tf (!(l4Eq a b)),
        (match l4Repr a with | .ok s => encStr s | .error e => xerrName e)]

def decGuard : String → Option Guard
  | "spec-none" => some .specNone
  | "spec-int" => some .specInt
  | "spec-list" => some .specList
  | "eq-int" => some .eqInt
  | _ => none

def row (f : GObj → GObj → String) (a : GObj) (bs : List GObj) : String := "".intercalate (bs.map (f a))

def encBoolE : Except Err Bool → String
  | .ok b => tf b
  | .error _ => "E"

/-- `groups <lines1> <lines2>` : for the group objects `A` of the first config and `B` of the
second: `network_count` of every `a`; then for every `a` the rows over `A ++ B` of `==`, `!=`,
`hash ==`, `hash_children ==` -/
def handleGroups (l1 l2 : List Str) : String :=
  let as := gobjs l1
  let all := as ++ gobjs l2
  let counts := as.map (fun a => match networkCount a with | .ok n => toString n | .error e => errName e)
  "|".intercalate [",".intercalate counts,
    ",".intercalate (as.map (fun a => row (fun x y => tf (objEq x y)) a all)),
    ",".intercalate (as.map (fun a => row (fun x y => tf (objNe x y)) a all)),
    ",".intercalate (as.map (fun a => row (fun x y => tf (objEq x y)) a all)),
    ",".intercalate (as.map (fun a => row (fun x y => encBoolE (hcEq x y)) a all))]

/-- `pseq <p1> <spec1> <p2> <spec2> …` : the port lists (run encoded) of the constructions, in order -/
def decPairs : List String → Option (List (Str × Str))
  | [] => some []
  | p :: s :: rest =>
    match decStr p, decStr s, decPairs rest with
    | some p, some s, some r => some ((p, s) :: r)
    | _, _, _ => none
  | [_] => none

def handle : List String → String
  | "pseq" :: rest =>
    match decPairs rest with
    | none => "bad-request"
    | some l => "|".intercalate ((pseq l).map (fun r => match r with
        | .ok ports => "ok " ++ Ccp.Drv.Asa.encRuns ports
        | .error e => errName e))
  | ["l4", p1, y1, s1, p2, y2, s2] =>
    match decStr p1, decStr y1, decStr s1, decStr p2, decStr y2, decStr s2 with
    | some a, some b, some c, some d, some e, some f => handleL4 a b c d e f
    | _, _, _, _, _, _ => "bad-request"
  | ["guard", g] => (decGuard g).elim "bad-request" (fun g => xerrName (guardErr g))
  | ["tables", syn] =>
    match decStr syn with
    | some y => (match tableAccess y with | .ok () => "ok" | .error e => xerrName e)
    | none => "bad-request"
  | ["groups", l1, l2] =>
    match decStrs l1, decStrs l2 with
    | some a, some b => handleGroups a b
    | _, _ => "bad-request"
  | _ => "bad-request"

end Ccp.Drv.AsaX
