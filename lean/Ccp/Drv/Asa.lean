-- CHANNEL asa
import Ccp.Wire
import Ccp.Model.Asa
namespace Ccp.Drv.Asa
open Ccp.Py Ccp.Wire Ccp.Asa

def errName : Err → String
  | .valueError => "err:ValueError"
  | .notImplemented => "err:NotImplementedError"
  | .requirementFailure => "err:RequirementFailure"
  | .indexError => "err:IndexError"
  | .recursionError => "err:RecursionError"

/-- lossless run encoding of a number sequence: maximal runs of `+1` steps written `a-b`
(`[1,2,3,5]` ↦ `1-3,5`, `[3,2]` ↦ `3,2`, `[2,2]` ↦ `2,2`) -/
def runsAux : Nat → Nat → List Nat → List (Nat × Nat)
  | a, b, [] => [(a, b)]
  | a, b, x :: xs => if x = b + 1 then runsAux a x xs else (a, b) :: runsAux x x xs

def encRuns : List Nat → String
  | [] => ""
  | x :: xs =>
    ",".intercalate ((runsAux x x xs).map (fun r =>
      if r.1 = r.2 then toString r.1 else toString r.1 ++ "-" ++ toString r.2))

def showStrs : Except Err (List Str) → String
  | .ok l => "ok " ++ encStrs l
  | .error e => errName e

def handleCfg (lines : List Str) : String :=
  let names := dictItems (nameDefs lines)
  let groups := dictItems (groupDefs lines)
  let acls := multiItems (aclDefs 0 lines)
  let objs := groupObjs 0 lines
  "|".intercalate [
    " ".intercalate (names.map (fun p => encStr p.1 ++ "=" ++ encStr p.2)),
    " ".intercalate (groups.map (fun p => encStr p.1 ++ "@" ++ toString p.2.1)),
    " ".intercalate (acls.map (fun p => encStr p.1 ++ ":" ++ encNats p.2)),
    ";".intercalate (objs.map (fun t =>
      toString t.1 ++ "/" ++ encStr t.2.2.name ++ "/" ++ showStrs (networkStrings lines t.2.2)))]

/-- `asa port <protocol> <syntax> <port_spec>` and `asa cfg <lines>` -/
def handle : List String → String
  | ["port", proto, syn, spec] =>
    match decStr proto, decStr syn, decStr spec with
    | some p, some y, some s =>
      (match l4 p y s with
       | .ok l => "ok " ++ encRuns l
       | .error e => errName e)
    | _, _, _ => "bad-request"
  | ["cfg", lines] =>
    match decStrs lines with
    | some ls => handleCfg ls
    | none => "bad-request"
  | _ => "bad-request"

end Ccp.Drv.Asa
