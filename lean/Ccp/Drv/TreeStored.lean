-- CHANNEL treestored
import Ccp.Wire
import Ccp.Model.TreeStored
namespace Ccp.Drv.TreeStored
open Ccp.Py Ccp.Wire Ccp.Tree

def natLists (ls : List (List Nat)) : String := ";".intercalate (ls.map encNats)

/-- the stored links: `parent.linenum` of every line `|` `_children` of every line -/
def dump (s : Ccp.TreeStored.S) : String := encNats s.parents ++ "|" ++ natLists s.children

/-- `treestored <ios 0/1> <delims> <ignore_blank 0/1> <op> <lines>`

* `stored`  — after `CiscoConfParse(lines)` (bootstrap + the re-bootstrap of `commit()`)
* `boot`    — after one `ConfigList.bootstrap(lines)`
* `pass1`   — after the indentation loop only (before the banner / macro walks) -/
def handle : List String → String
  | [ios, delims, ign, op, lines] =>
    match decStr delims, decStrs lines with
    | some ds, some ls =>
      let cfg : Cfg := { ios := ios == "1", delims := ds, ignoreBlank := ign == "1" }
      if op == "stored" then dump (Ccp.TreeStored.parse cfg ls)
      else if op == "boot" then dump (Ccp.TreeStored.bootstrap cfg ls)
      else if op == "pass1" then dump (Ccp.TreeStored.linkByIndent cfg ls)
      else "bad-op"
    | _, _ => "bad-request"
  | _ => "bad-request"

end Ccp.Drv.TreeStored
