-- CHANNEL mac
import Ccp.Wire
import Ccp.Model.Mac
namespace Ccp.Drv.Mac
open Ccp.Py Ccp.Wire Ccp.Mac

def errName : Err → String
  | .valueError => "err:ValueError"

def kindOf : String → Option Kind
  | "mac" => some .mac
  | "eui64" => some .eui64
  | _ => none

def tf (b : Bool) : String := if b then "T" else "F"

/-- value obtained by constructing an object of kind `k` from a rendering -/
def reparse (k : Kind) (s : Str) : String :=
  match parseObj k s with
  | .ok v => toString v
  | .error e => errName e

/-- `obj <kind> <s1> <s2>`:
`ok|value|str(obj.mac)|cisco|dash|colon|unix|` values of the objects rebuilt from
cisco, dash, colon, unix and `dash.replace('-','')` `|` then for the second text
`== | != | == plain EUI object`, or `err:ValueError` in place of the three. -/
def obj (k : Kind) (s1 s2 : Str) : String :=
  match parseObj k s1 with
  | .error e => errName e
  | .ok v =>
    let ux := match k with
      | .mac => encStr (unix v)
      | .eui64 => "err:AttributeError"
    let rux := match k with
      | .mac => reparse k (unix v)
      | .eui64 => "err:AttributeError"
    let second := match parseObj k s2 with
      | .error e => [errName e]
      | .ok w => [tf (eq k v w), tf (!(eq k v w)), tf (eqRaw k v w)]
    "|".intercalate ([
      "ok", toString v, encStr (hwStr k.cls v),
      encStr (cisco k v), encStr (dash k v), encStr (colon k v), ux,
      reparse k (cisco k v), reparse k (dash k v), reparse k (colon k v), rux,
      reparse k ((dash k v).filter (· != '-'))] ++ second)

/-- `classify <s>`: `macaddress.parse(s, MAC, EUI64)` as used by `MACEUISearch` -/
def classify (s : Str) : String :=
  match parse [eui48, eui64] s with
  | .ok (v, c) => String.ofList c.name ++ " " ++ toString v
  | .error e => errName e

def handle : List String → String
  | ["obj", k, a, b] =>
    match kindOf k, decStr a, decStr b with
    | some k, some a, some b => obj k a b
    | _, _, _ => "bad-request"
  | ["classify", a] =>
    match decStr a with
    | some a => classify a
    | none => "bad-request"
  | ["formats", k] =>
    match kindOf k with
    | some k => toString k.cls.size ++ "|" ++ encStrs k.cls.formats
    | none => "bad-request"
  | _ => "bad-request"

end Ccp.Drv.Mac
