-- CHANNEL mac
import Ccp.Wire
import Ccp.Model.Mac
namespace Ccp.Drv.Mac
open Ccp.Py Ccp.Wire Ccp.Mac

def errName : Err → String
  | .valueError => "err:ValueError"

def kindOf : String → Option Kind
  | "mac" => some .mac
  | "eui64" => some .eui64
  | _ => none

def tf (b : Bool) : String := if b then "T" else "F"

/-- value obtained by constructing an object of kind `k` from a rendering -/
def reparse (k : Kind) (s : Str) : String :=
  match parseObj k s with
  | .ok v => toString v
  | .error e => errName e

/-- `obj <kind> <s1> <s2>`:
`ok|value|str(obj.mac)|cisco|dash|colon|unix|` values of the objects rebuilt from
cisco, dash, colon, unix and `dash.replace('-','')` `|` then for the second text
`== | != | == plain EUI object`, or `err:ValueError` in place of the three. -/
def obj (k : Kind) (s1 s2 : Str) : String :=
  match parseObj k s1 with
  | .error e => errName e
  | .ok v =>
    let ux := match k with
      | .mac => encStr (unix v)
      | .eui64 => "err:AttributeError"
    let rux := match k with
      | .mac => reparse k (unix v)
      | .eui64 => "err:AttributeError"
    let second := match parseObj k s2 with
      | .error e => [errName e]
      | .ok w => [tf (eq k v w), tf (!(eq k v w)), tf (eqRaw k v w)]
    "|".intercalate ([
      "ok", toString v, encStr (hwStr k.cls v),
      encStr (cisco k v), encStr (dash k v), encStr (colon k v), ux,
      reparse k (cisco k v), reparse k (dash k v), reparse k (colon k v), rux,
      reparse k ((dash k v).filter (· != '-'))] ++ second)

/-- `classify <s>`: `macaddress.parse(s, MAC, EUI64)` as used by `MACEUISearch` -/
def classifyAns (s : Str) : String :=
  (match classify s with
   | .ok (k, v) => String.ofList k.cls.name ++ " " ++ toString v
   | .error e => errName e) ++ "|" ++ encStr (searchStr s) ++ "|" ++ encStr (searchStr s)

/-- `show <kind> <s>`: `ok|str(obj)|repr(obj)` -/
def showAns (k : Kind) (s : Str) : String :=
  match parseObj k s with
  | .error e => errName e
  | .ok v => "ok|" ++ encStr (reprObj k v) ++ "|" ++ encStr (reprObj k v)

/-- `search <word> <regexes>`: `MACEUISearch(word).search_all_formats(set(regexes))` -/
def searchAns (w : Str) (rgxs : List Str) : String :=
  if rgxs.all (fun r => r.all rxCharOk) then tf (searchAllFormats rgxs w) else "out-of-fragment"

/-- `w` = `MACObj` / `EUI64Obj`, `p` = plain `macaddress.EUI48` / `EUI64` -/
def mkObj (k : Kind) (form : String) (s : Str) : Option (Except Err Obj) :=
  match form with
  | "w" => some (match parseObj k s with | .ok v => .ok (.wrapped k v) | .error e => .error e)
  | "p" => some (match parse [k.cls] s with | .ok (v, _) => .ok (.plain k v) | .error e => .error e)
  | _ => none

/-- `xeq <kind1> <w|p> <s1> <kind2> <w|p> <s2>`: `==` and `!=` between any two objects -/
def xeq (a b : Option (Except Err Obj)) : String :=
  match a, b with
  | some (.ok x), some (.ok y) => tf (objEq x y) ++ "|" ++ tf (!(objEq x y))
  | some (.error e), some _ => errName e
  | some _, some (.error e) => errName e
  | _, _ => "bad-request"

def handle : List String → String
  | ["obj", k, a, b] =>
    match kindOf k, decStr a, decStr b with
    | some k, some a, some b => obj k a b
    | _, _, _ => "bad-request"
  | ["classify", a] =>
    match decStr a with
    | some a => classifyAns a
    | none => "bad-request"
  | ["show", k, a] =>
    match kindOf k, decStr a with
    | some k, some a => showAns k a
    | _, _ => "bad-request"
  | ["search", a, rs] =>
    match decStr a, decStrs rs with
    | some a, some rs => searchAns a rs
    | _, _ => "bad-request"
  | ["xeq", k1, f1, a, k2, f2, b] =>
    match kindOf k1, kindOf k2, decStr a, decStr b with
    | some k1, some k2, some a, some b => xeq (mkObj k1 f1 a) (mkObj k2 f2 b)
    | _, _, _, _ => "bad-request"
  | ["formats", k] =>
    match kindOf k with
    | some k => toString k.cls.size ++ "|" ++ encStrs k.cls.formats
    | none => "bad-request"
  | _ => "bad-request"

end Ccp.Drv.Mac
