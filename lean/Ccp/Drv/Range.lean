-- CHANNEL range
import Ccp.Wire
import Ccp.Model.Range
namespace Ccp.Drv.Range
open Ccp.Py Ccp.Wire Ccp.Range

def errName : Err → String
  | .invalidRange => "err:InvalidCiscoRange"
  | .valueError => "err:ValueError"
  | .duplicate => "err:DuplicateMember"
  | .absent => "err:absent"

def decOp (op : String) : Option Op :=
  match op.splitOn ":" with
  | ["len"] => some .len
  | ["iter"] => some .iter
  | ["list"] => some .list
  | ["set"] => some .set
  | ["cstr"] => some .cstr
  | ["rexp"] => some .rexp
  | ["has", n] => (decNat n).map .has
  | ["app", n] => (decNat n).map .app
  | ["rem", n] => (decNat n).map .rem
  | _ => none

def encAns : Ans → String
  | .nat n => toString n
  | .nats l => encNats l
  | .str s => encStr s
  | .bool b => if b then "T" else "F"
  | .ok => "ok"
  | .err e => errName e

/-- one accessor / mutator (`Ccp.Range.stepOp`) on the wire; returns the new data and the
printed answer -/
def stepLine (data : List Nat) (op : String) : List Nat × String :=
  match decOp op with
  | some o => let r := stepOp data o; (r.1, encAns r.2)
  | none => (data, "bad-op")

def runOps : List Nat → List String → List String
  | _, [] => []
  | d, op :: ops => let r := stepLine d op; r.2 :: runOps r.1 ops

/-- `range <text> <op> <op> …` -/
def handle : List String → String
  | text :: ops =>
    match decStr text with
    | none => "bad-request"
    | some t =>
      match parse t with
      | .error e => errName e
      | .ok d => "|".intercalate ("ok" :: runOps d ops)
  | _ => "bad-request"

end Ccp.Drv.Range
