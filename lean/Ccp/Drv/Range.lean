-- CHANNEL range
import Ccp.Wire
import Ccp.Model.Range
namespace Ccp.Drv.Range
open Ccp.Py Ccp.Wire Ccp.Range

def errName : Err → String
  | .invalidRange => "err:InvalidCiscoRange"
  | .valueError => "err:ValueError"
  | .duplicate => "err:DuplicateMember"
  | .absent => "err:absent"

/-- one accessor / mutator; returns the new data and the printed answer -/
def stepOp (data : List Nat) (op : String) : List Nat × String :=
  match op.splitOn ":" with
  | ["len"] => (data, toString data.length)
  | ["iter"] => (data, encNats data)
  | ["list"] => (data, encNats (sortedSet data))
  | ["set"] => (data, encNats (sortedSet data))
  | ["cstr"] => (data, encStr (compress data))
  | ["rexp"] => (data, match parse (compress data) with
      | .ok d => encNats d
      | .error e => errName e)
  | ["has", n] => (data, match decNat n with
      | some k => if data.contains k then "T" else "F"
      | none => "bad-op")
  | ["app", n] => (match decNat n with
      | some k => (match append data k with
        | .ok d => (d, "ok")
        | .error e => (data, errName e))
      | none => (data, "bad-op"))
  | ["rem", n] => (match decNat n with
      | some k => (match remove data k with
        | .ok d => (d, "ok")
        | .error e => (data, errName e))
      | none => (data, "bad-op"))
  | _ => (data, "bad-op")

def runOps : List Nat → List String → List String
  | _, [] => []
  | d, op :: ops => let r := stepOp d op; r.2 :: runOps r.1 ops

/-- `range <text> <op> <op> …` -/
def handle : List String → String
  | text :: ops =>
    match decStr text with
    | none => "bad-request"
    | some t =>
      match parse t with
      | .error e => errName e
      | .ok d => "|".intercalate ("ok" :: runOps d ops)
  | _ => "bad-request"

end Ccp.Drv.Range
