-- CHANNEL inputx
import Ccp.Wire
import Ccp.Model.InputArgs
import Ccp.Drv.Input
namespace Ccp.Drv.InputArgs
open Ccp.Py Ccp.Wire Ccp.Input

def excName : Exc → String
  | .fileNotFoundError => "err:FileNotFoundError"
  | .invalidParameters => "err:InvalidParameters"
  | .typeError => "err:TypeError"
  | .valueError => "err:ValueError"
  | .osError => "err:OSError"
  | .unicodeDecodeError => "err:UnicodeDecodeError"
  | .requirementFailure => "err:RequirementFailure"
  | .isADirectoryError => "err:IsADirectoryError"
  | .unicodeEncodeError => "err:UnicodeEncodeError"

def decItem (w : String) : Option Item :=
  if w == "L" then some .cfgLine else if w == "O" then some .other else (decStr w).map .str

def decKind : String → Option Kind
  | "list" => some .list
  | "tuple" => some .tuple
  | "seq" => some .seq
  | "sized" => some .sized
  | _ => Option.none

/-- `coll` argument: `<kind>( <item>)*`, an item is `L` (a BaseCfgLine), `O` (another type) or an encoded str -/
def decColl (arg : String) : Option Arg :=
  match (splitOn ' ' arg.toList).map String.ofList with
  | k :: items =>
    match decKind k, items.mapM decItem with
    | some kind, some its => some (.coll kind its)
    | _, _ => Option.none
  | [] => Option.none

def decArg (form arg : String) : Option Arg :=
  match form with
  | "coll" => decColl arg
  | "noiter" => (decNat arg).map .noIter
  | "unsized" => some .unsized
  | _ => (Ccp.Drv.Input.decInput form arg).map .input

/-- what is at the one path of the request: `-` nothing, `d` a directory, `u` an undecodable file, `r` an unreadable
file, else the file's text -/
def decNode (w : String) : Option Node :=
  if w == "-" then some .absent else if w == "d" then some .dir else if w == "u" then some .undecodable
  else if w == "r" then some .unreadable else (decStr w).map .file

def oneForm (cfg : Tree.Cfg) (sp : Str) (k : Nat) (form arg fspath fsnode : String) : String :=
  match decArg form arg, decStr fspath, decNode fsnode with
  | some a, some fp, some node =>
    let fs : Path → Node := fun q => if q = fp then node else .absent
    match loadArg cfg fs a with
    | .error e => excName e
    | .ok t => "&".intercalate (Ccp.Drv.Tree.answer t "all" :: Ccp.Drv.Input.cycles cfg sp k (getText t))
  | _, _, _ => "bad-request"

def forms (cfg : Tree.Cfg) (sp : Str) (k : Nat) : List String → List String
  | form :: arg :: fspath :: fsnode :: rest => oneForm cfg sp k form arg fspath fsnode :: forms cfg sp k rest
  | [] => []
  | _ => ["bad-request"]

def decCodec : String → Option Codec
  | "utf-8" => some .utf8
  | "latin-1" => some .latin1
  | _ => Option.none

/-- one operation on the finished object whose texts are `ls` -/
def afterOp (codec : Codec) (sp : Str) (ls : List Str) (op : String) : String :=
  let save (t : Target) : String :=
    match saveAsTo codec t sp ls with
    | .ok w => encStr w
    | .error e => excName e
  match op with
  | "save:ok" => save .writable
  | "save:dir" => save .directory
  | "save:nodir" => save .noParent
  | "reread" => (match rereadFinished [] with | .ok l => encStrs l | .error e => excName e)
  | _ => "bad-request"

/--
* `inputx forms <ios 0/1> <delims> <ignore_blank 0/1> <linesep> <ncycles> (<form> <arg> <fspath> <fsnode>)*`
  like channel `input`, with the further forms `coll`, `noiter`, `unsized` and the further nodes `d`, `u`, `r`
* `inputx after <ios 0/1> <delims> <ignore_blank 0/1> <linesep> <codec> <lines> <op>*`
  the object is built from the list `lines`; each op (`save:ok`, `save:dir`, `save:nodir`, `reread`) is
  answered with the text written / the lines read or the exception class, separated by `|` -/
def handle : List String → String
  | "forms" :: ios :: delims :: ign :: sep :: n :: rest =>
    match decStr delims, decStr sep, decNat n with
    | some ds, some sp, some k =>
      let cfg : Tree.Cfg := { ios := ios == "1", delims := ds, ignoreBlank := ign == "1" }
      "#".intercalate (forms cfg sp k rest)
    | _, _, _ => "bad-request"
  | "after" :: ios :: delims :: ign :: sep :: codec :: lines :: ops =>
    match decStr delims, decStr sep, decCodec codec, decStrs lines with
    | some ds, some sp, some cd, some ls =>
      let cfg : Tree.Cfg := { ios := ios == "1", delims := ds, ignoreBlank := ign == "1" }
      let texts := getText (Tree.parse cfg ls)
      "|".intercalate (ops.map (afterOp cd sp texts))
    | _, _, _, _ => "bad-request"
  | _ => "bad-request"

end Ccp.Drv.InputArgs
