-- CHANNEL bracex
import Ccp.Wire
import Ccp.Model.BraceOpts
import Ccp.Drv.Brace
namespace Ccp.Drv.BraceOpts
open Ccp.Py Ccp.Wire Ccp.Brace

def errNameA : ErrA → String
  | .base e => Ccp.Drv.Brace.errName e
  | .invalidParameters => "err:InvalidParameters"
  | .notImplemented => "err:NotImplementedError"

/-- `L`/`T`/`X` + the lines -/
def decLines (kind ls : String) : Option Lines :=
  match kind with
  | "L" => (decStrs ls).map Lines.list
  | "T" => (decStrs ls).map Lines.tuple
  | "X" => some .other
  | _ => none

def showTexts : Except ErrA (List Str) → String
  | .ok out => "ok|" ++ encStrs out
  | .error e => errNameA e

/-- `N` = omitted, otherwise the list -/
def decDelimsOpt (w : String) : Option (Option (List Str)) :=
  if w == "N" then some none else (decStrs (String.ofList (w.toList.drop 1))).map some

/--
`bracex bp <S|X> <text> <N|=delims> <stop_width> <semicolon_end>`   BraceParse(...) called directly
`bracex cj <L|T|X> <lines> <int|X> <X|N|=delims> <debug is int>`     convert_junos_to_ios(...)
`bracex hb <J|I|X> <L|T|X> <lines>`                                  handle_ccp_brace_syntax(...)
`bracex pw <ignore_blank> <L|T|X> <lines>`                           CiscoConfParse(lines, syntax='junos', ...): texts and parents
-/
def handle : List String → String
  | ["bp", tk, txt, ds, stop, semi] =>
    match decStr txt, decDelimsOpt ds, decInt stop with
    | some t, some d, some w =>
      showTexts (braceParseArgs { txt := if tk == "S" then some t else none, delims := d, stopWidth := w, semiEnd := semi == "1" })
    | _, _, _ => "bad-request"
  | ["cj", lk, ls, stop, ds, dbg] =>
    match decLines lk ls with
    | none => "bad-request"
    | some input =>
      let sw : Option (Option Int) := if stop == "X" then some none else (decInt stop).map some
      let dl : Option (Option (Option (List Str))) := if ds == "X" then some none else (decDelimsOpt ds).map some
      match sw, dl with
      | some sw, some dl => showTexts (convertArgs { input := input, stopWidth := sw, delims := dl, debugIsInt := dbg == "1" })
      | _, _ => "bad-request"
  | ["hb", syn, lk, ls] =>
    match decLines lk ls with
    | none => "bad-request"
    | some input =>
      showTexts (handleBrace (if syn == "J" then .junos else if syn == "I" then .indented else .invalid) input)
  | ["pw", ign, lk, ls] =>
    match decLines lk ls with
    | none => "bad-request"
    | some input =>
      match junosParseWith (ign == "1") input with
      | .error e => errNameA e
      | .ok t => "ok|" ++ encStrs t.texts ++ "|" ++ Ccp.Drv.Brace.encParents t.parents
  | _ => "bad-request"

end Ccp.Drv.BraceOpts
