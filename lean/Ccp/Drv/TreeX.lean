-- CHANNEL treex
import Ccp.Wire
import Ccp.Model.TreeViews
import Ccp.Drv.Tree
import Ccp.Drv.Brace
namespace Ccp.Drv.TreeX
open Ccp.Py Ccp.Wire Ccp.Tree

/-- the seven views of `Ccp.Drv.Tree.viewOf`, then `has_children` and `geneology_text` -/
def viewX (t : T) (i : Nat) : String :=
  Ccp.Drv.Tree.viewOf t i ++ "/" ++ Ccp.Drv.Tree.flag (hasChildren t i) ++ "/" ++ encStrs (geneologyText t i)

def links (t : T) : String :=
  encNats t.parents ++ "|" ++ Ccp.Drv.Tree.natLists ((List.range t.size).map (children t))

def forestX (t : T) : String :=
  links t ++ "&" ++ "|".intercalate ((List.range t.size).map (viewX t))

/-- `treex forestx <ios 0/1> <delims> <ignore_blank 0/1> <lines>` → links `&` extended views of `CiscoConfParse(lines, …)`;
`treex junos <lines>` → `<texts>&<links>&<extended views>` of `CiscoConfParse(lines, syntax='junos')`, or `err:<class>` -/
def handle : List String → String
  | ["forestx", ios, delims, ign, lines] =>
    match decStr delims, decStrs lines with
    | some ds, some ls =>
      let cfg : Cfg := { ios := ios == "1", delims := ds, ignoreBlank := ign == "1" }
      forestX (parse cfg ls)
    | _, _ => "bad-request"
  | ["junos", lines] =>
    match decStrs lines with
    | none => "bad-request"
    | some ls =>
      match Ccp.Brace.junosParse ls with
      | .error e => Ccp.Drv.Brace.errName e
      | .ok t => encStrs t.texts ++ "&" ++ forestX t
  | _ => "bad-request"

end Ccp.Drv.TreeX
