-- CHANNEL iptext
import Ccp.Wire
import Ccp.Model.IPText
/-!
`iptext <op> <arg>` with `op` one of
`v4s`/`v6s` (text constructor, `arg` a wire string), `v4i`/`v6i` (integer constructor, `arg` a decimal
integer), `v4c`/`v6c` (copy constructor applied to the object built from the text `arg`).
Answer: `err:<class>` when the constructor raises, else `ok|…` with every derived value
(a value whose property raises is printed as `exc:<class>`).
-/
namespace Ccp.Drv.IPText
open Ccp.Py Ccp.Wire Ccp.IPText

def errName : Err → String
  | .addressValueError => "AddressValueError"
  | .netmaskValueError => "NetmaskValueError"
  | .requirementFailure => "RequirementFailure"
  | .notImplementedError => "NotImplementedError"
  | .valueError => "ValueError"

def showE (f : α → String) : Except Err α → String
  | .ok v => f v
  | .error e => "exc:" ++ errName e

def nat (n : Nat) : String := toString n

def show4 (o : Obj) : String :=
  "|".intercalate
    [ "ok", nat o.ip,
      showE (fun n => nat n.1) (V4.network o), nat o.len,
      nat (V4.netmask o), nat (V4.hostmask o), nat (V4.broadcast o),
      showE nat (V4.asDecimal o), showE nat (V4.asDecimalNetwork o), showE nat (V4.asDecimalBroadcast o),
      showE nat (V4.numhosts o),
      encStr (V4.ipStr o), encStr (V4.asCidrAddr o), showE encStr (V4.asCidrNet o),
      showE encStr (V4.asZeropadded o), showE encStr (V4.asZeropaddedNetwork o),
      showE encStr (V4.asHex o), showE encStrs (V4.asHexTuple o), showE encStrs (V4.asBinaryTuple o),
      encStr (V4.ipStr o) ]

def show6 (o : Obj) : String :=
  "|".intercalate
    [ "ok", nat o.ip,
      showE (fun n => nat n.1) (V6.network o), nat o.len,
      nat (V6.netmask o), nat (V6.hostmask o),
      showE nat (V6.asDecimal o), showE nat (V6.asDecimalNetwork o), showE nat (V6.asDecimalNetworkMaxint o),
      showE nat (V6.numhosts o),
      encStr (V6.ipStr o), encStr (V6.asCidrAddr o), showE encStr (V6.asCidrNet o),
      showE encStr (V6.asHex o), encStrs (V6.asHexTuple o), showE encStrs (V6.asBinaryTuple o),
      encStr (V6.exploded o), encStr (V6.compressed o) ]

def answer (sh : Obj → String) : Except Err Obj → String
  | .ok o => sh o
  | .error e => "err:" ++ errName e

def handle : List String → String
  | [op, arg] =>
    match op with
    | "v4s" => match decStr arg with
      | some t => answer show4 (V4.fromStr t)
      | none => "bad-request"
    | "v6s" => match decStr arg with
      | some t => answer show6 (V6.fromStr t)
      | none => "bad-request"
    | "v4c" => match decStr arg with
      | some t => answer show4 (V4.fromStr t >>= V4.copy)
      | none => "bad-request"
    | "v6c" => match decStr arg with
      | some t => answer show6 (V6.fromStr t >>= V6.copy)
      | none => "bad-request"
    | "v4i" => match decInt arg with
      | some v => answer show4 (V4.fromInt v)
      | none => "bad-request"
    | "v6i" => match decInt arg with
      | some v => answer show6 (V6.fromInt v)
      | none => "bad-request"
    | _ => "bad-request"
  | _ => "bad-request"

end Ccp.Drv.IPText
