import Ccp.Gen.PyRuntime
/-!
Python primitives over `List Char`.  Model files import only this directory and
`Ccp.Gen`, never Mathlib, so that the driver links as a native executable.
-/
namespace Ccp.Py

abbrev Str := List Char

/-- `str.isspace()` of one character / `\s` of Python's `re` on `str` patterns. -/
def isSpace (c : Char) : Bool := Gen.whitespace.contains c.toNat

def lstrip (s : Str) : Str := s.dropWhile isSpace
def rstrip (s : Str) : Str := (s.reverse.dropWhile isSpace).reverse
def strip (s : Str) : Str := rstrip (lstrip s)

/-- number of leading whitespace characters: `len(s) - len(s.lstrip())` -/
def indent (s : Str) : Nat := s.length - (lstrip s).length

def isDigit (c : Char) : Bool := 48 ≤ c.toNat && c.toNat ≤ 57

def digitVal (c : Char) : Nat := c.toNat - 48

/-! ### `str(n)` and `int(s)` -/

def toDecRev (n : Nat) : List Char :=
  if h : n < 10 then [Nat.digitChar n] else Nat.digitChar (n % 10) :: toDecRev (n / 10)
decreasing_by omega

/-- `str(n)` for a natural number -/
def toDec (n : Nat) : Str := (toDecRev n).reverse

def intToDec (i : Int) : Str :=
  match i with
  | .ofNat n => toDec n
  | .negSucc n => '-' :: toDec (n + 1)

def ofDigitsAux : List Char → Nat → Option Nat
  | [], acc => some acc
  | c :: cs, acc => if isDigit c then ofDigitsAux cs (acc * 10 + digitVal c) else none

/-- a non-empty run of ASCII digits, as a number -/
def ofDigits (s : Str) : Option Nat := if s = [] then none else ofDigitsAux s 0

/-- Python `int(s)` restricted to what the generators emit: surrounding
whitespace, an optional sign, ASCII digits.  (CPython also accepts `_` between
digits and non-ASCII decimal digits; those are never generated.) -/
def pyInt (s : Str) : Option Int :=
  match strip s with
  | '-' :: ds => (ofDigits ds).map (fun n => - (Int.ofNat n))
  | '+' :: ds => (ofDigits ds).map Int.ofNat
  | ds => (ofDigits ds).map Int.ofNat

/-! ### splitting and joining -/

/-- `s.split(sep)` for a single-character separator -/
def splitOn (sep : Char) : Str → List Str
  | [] => [[]]
  | c :: cs =>
    match splitOn sep cs with
    | [] => [[]]            -- unreachable: the result is never empty
    | w :: ws => if c = sep then [] :: w :: ws else (c :: w) :: ws

def join (sep : Str) : List Str → Str
  | [] => []
  | [w] => w
  | w :: ws => w ++ sep ++ join sep ws

end Ccp.Py
