import Ccp.Proofs.Edit
import Ccp.Proofs.EditX
/-!
# C07 — after commit the tree is that of a fresh parse, for any edit history

Property theorems only; helper lemmas and the invariants live in `Ccp.Proofs.Edit`:

* `FreshInv s` := `s.dirty = false → s.tree = parse s.cfg s.texts ∧ s.texts = s.tree.texts ∧
  s.items = committedItems s.tree` (a state without uncommitted change holds the tree of a
  from-scratch parse of its texts, and the list holds exactly the tree's objects: the
  `k`-th element is the object with line number `k`);
* `AutoInv s` := `s.auto = true → s.dirty = false ∧ s.stale = false`;
* `Forest` is the C03 vocabulary (`Ccp.Proofs.TreeForest`).

The state machine is `Ccp.Model.Edit` (`S`, `Op`, `step`, `run`, `commit`, `init`); a state
holds a list of items (text + identity) and `s.texts` is the list of their texts.  A tree
`T` is the triple texts / parent index per line / keep flags; line numbers are positions
`0..n-1` and child lists are derived from the parent indices, so `tree = parse cfg texts`
is equality of texts, line numbers, parent links and child lists at once.  `stale` is the
boolean abstraction of `current_checkpoint ≠ commit_checkpoint`, `dirty` marks an
uncommitted change.  That the model's `step` is what the code does — including that each
mutator ends in the auto-commit — is what the correspondence `harness/props/c07.py`
measures.
-/
namespace Ccp.C07
open Ccp.Tree Ccp.Edit Ccp.Py

/-! ## bootstrap is idempotent on its own output -/

/-- **`bootstrap` is idempotent**: bootstrapping the texts of a bootstrap result gives the
same tree, for every option set.  With `ignore_blank_lines` the result of the model's
re-bootstrapping loop is a fixed point of the blank-line filter (the fuel `ls.length` is
enough because each round strictly shortens the list); without it the texts are unchanged. -/
theorem bootstrap_idempotent (cfg : Cfg) (ls : List Str) :
    bootstrap cfg (bootstrap cfg ls).texts = bootstrap cfg ls :=
  Ccp.Edit.bootstrap_idempotent cfg ls

/-- Hence the second bootstrap that `CiscoConfParse(...)` performs through `commit()`
changes nothing: a parse is one bootstrap. -/
theorem parse_eq_bootstrap (cfg : Cfg) (ls : List Str) : parse cfg ls = bootstrap cfg ls :=
  Ccp.Edit.parse_eq_bootstrap cfg ls

/-- … and parsing the texts of a parse gives the same tree. -/
theorem parse_idempotent (cfg : Cfg) (ls : List Str) : parse cfg (parse cfg ls).texts = parse cfg ls := by
  rw [Ccp.Edit.parse_eq_bootstrap, Ccp.Edit.parse_eq_bootstrap, Ccp.Edit.bootstrap_idempotent]

/-- Without `ignore_blank_lines` a bootstrap keeps every line text in place. -/
theorem bootstrap_keeps_texts (cfg : Cfg) (ls : List Str) (h : cfg.ignoreBlank = false) :
    (bootstrap cfg ls).texts = ls := bootstrap_texts_noignore cfg ls h

/-- With `ignore_blank_lines` a bootstrap can only drop lines, and only blank ones: the
result's texts are a sublist of the input and every non-blank line survives, in order. -/
theorem bootstrap_drops_only_blank (cfg : Cfg) (ls : List Str) :
    (bootstrap cfg ls).texts.Sublist ls ∧
    (bootstrap cfg ls).texts.filter (fun x => !isBlank x) = ls.filter (fun x => !isBlank x) :=
  bootstrap_texts cfg ls

/-! ## commit -/

/-- **After `commit` the tree is that of a fresh parse**, for every state whatsoever (any
texts, any stale tree, any flags): the committed tree equals `parse` of the committed
texts, the texts are the tree's, the list holds exactly the tree's objects with line
numbers `0..n-1` in order, and both flags are cleared. -/
theorem commit_is_fresh_parse (s : S) :
    (commit s).tree = parse s.cfg (commit s).texts ∧
    (commit s).texts = (commit s).tree.texts ∧
    (commit s).items = committedItems (commit s).tree ∧
    (commit s).dirty = false ∧ (commit s).stale = false :=
  ⟨(commit_fresh s).1, (commit_fresh s).2.1, rfl, rfl, rfl⟩

/-- The objects of a committed tree: their texts are the tree's texts and their line
numbers (identities) are `0, 1, …, n-1` in list order. -/
theorem committed_line_numbers (t : T) :
    (committedItems t).map Item.text = t.texts ∧
    (committedItems t).map Item.id = (List.range t.texts.length).map some :=
  ⟨committedItems_texts t, committedItems_ids t⟩

/-- **Committing again changes nothing.** -/
theorem commit_idempotent (s : S) : commit (commit s) = commit s := Ccp.Edit.commit_idempotent s

/-- The same through the operation alphabet: two `.commit` steps equal one. -/
theorem commit_commit_step (s : S) : (step (step s .commit).1 .commit).1 = (step s .commit).1 :=
  Ccp.Edit.commit_idempotent s

/-- The committed tree is a forest (C03). -/
theorem commit_tree_forest (s : S) : Forest (commit s).tree := bootstrap_forest s.cfg s.texts

/-! ## the invariant over histories -/

/-- The initial state (`CiscoConfParse(ls, …)`) satisfies the invariant. -/
theorem init_fresh (cfg : Cfg) (auto : Bool) (width : Nat) (ls : List Str) :
    FreshInv (init cfg auto width ls) ∧ AutoInv (init cfg auto width ls) :=
  ⟨Ccp.Edit.init_fresh cfg auto width ls, init_auto cfg auto width ls⟩

/-- Every operation preserves the invariant, from every state. -/
theorem step_preserves_fresh (s : S) (op : Op) :
    (FreshInv s → FreshInv (step s op).1) ∧ (AutoInv s → AutoInv (step s op).1) :=
  ⟨step_fresh s op, step_autoInv s op⟩

/-- Configuration, auto-commit flag and indent width never change. -/
theorem step_keeps_options (s : S) (op : Op) :
    (step s op).1.cfg = s.cfg ∧ (step s op).1.auto = s.auto ∧ (step s op).1.width = s.width :=
  step_frame s op

/-- **Every history**: whatever sequence of operations is run from whatever initial
config, a reached state that has no uncommitted change holds exactly the tree a
from-scratch parse of its current texts (with the original options) yields, its texts
are the tree's texts and its objects carry the line numbers `0..n-1` in order. -/
theorem run_committed_fresh (cfg : Cfg) (auto : Bool) (width : Nat) (ls : List Str) (ops : List Op) :
    let s := run (init cfg auto width ls) ops
    s.cfg = cfg ∧
    (s.dirty = false →
      s.tree = parse cfg s.texts ∧ s.texts = s.tree.texts ∧ s.items = committedItems s.tree) := by
  intro s
  have hc : s.cfg = cfg := (run_frame (init cfg auto width ls) ops).1
  refine ⟨hc, fun hd => ?_⟩
  have h := run_fresh _ ops (Ccp.Edit.init_fresh cfg auto width ls) hd
  rw [hc] at h
  exact h

/-- **With auto-commit on** every reached state — after every single operation of every
history, successful or not — has no uncommitted change, is not stale, and holds the tree
of a fresh parse of its texts. -/
theorem auto_commit_always_fresh (cfg : Cfg) (width : Nat) (ls : List Str) (ops : List Op) :
    let s := run (init cfg true width ls) ops
    s.dirty = false ∧ s.stale = false ∧ s.tree = parse cfg s.texts ∧ s.texts = s.tree.texts := by
  intro s
  have ha : s.auto = true := (run_frame (init cfg true width ls) ops).2.1
  have h1 := run_autoInv _ ops (init_auto cfg true width ls) ha
  have h2 := (run_committed_fresh cfg true width ls ops).2 h1.1
  exact ⟨h1.1, h1.2, h2.1, h2.2.1⟩

/-- **With auto-commit off (or on), directly after an explicit `commit`** at the end of
any history the tree is that of a fresh parse. -/
theorem explicit_commit_fresh (cfg : Cfg) (auto : Bool) (width : Nat) (ls : List Str) (ops : List Op) :
    let s := run (init cfg auto width ls) (ops ++ [.commit])
    s.dirty = false ∧ s.stale = false ∧ s.tree = parse cfg s.texts ∧ s.texts = s.tree.texts := by
  intro s
  have hs : s = commit (run (init cfg auto width ls) ops) := by
    simp only [s, run_append]; rfl
  have hd : s.dirty = false := by rw [hs]; rfl
  have h2 := (run_committed_fresh cfg auto width ls (ops ++ [.commit])).2 hd
  exact ⟨hd, by rw [hs]; rfl, h2.1, h2.2.1⟩

/-- Every reached state without uncommitted change carries a forest (C03's `Forest`):
one parent index per line and no parent after its child. -/
theorem commit_forest (cfg : Cfg) (auto : Bool) (width : Nat) (ls : List Str) (ops : List Op) :
    let s := run (init cfg auto width ls) ops
    s.dirty = false → Forest s.tree := by
  intro s hd
  have h := (run_committed_fresh cfg auto width ls ops).2 hd
  rw [h.1]
  exact Ccp.Tree.bootstrap_forest cfg _

/-! ## the stale-tree seatbelt -/

/-- A search probe never changes the state; it refuses with `NotImplementedError` exactly
when the state is stale, and answers otherwise. -/
theorem probe_refuses_iff_stale (s : S) :
    (step s .probe).1 = s ∧
    ((step s .probe).2 = .error .notImplemented ↔ s.stale = true) ∧
    ((step s .probe).2 = .ok () ↔ s.stale = false) := by
  refine ⟨rfl, ?_, ?_⟩ <;> cases h : s.stale <;> simp [Edit.step, h]

/-- With auto-commit off a list `insert` always succeeds and makes the state stale. -/
theorem insert_sets_stale (s : S) (ha : s.auto = false) (k : Int) (txt : Str) :
    (step s (.insert k txt)).2 = .ok () ∧ (step s (.insert k txt)).1.stale = true := by
  simp [Edit.step, autoCommit, ha]

/-- With auto-commit off a successful `append_to_family` makes the state stale. -/
theorem appendToFamily_sets_stale (s : S) (ha : s.auto = false) (i : Nat) (txt : Str) (ind : Int) (ai : Bool)
    (hok : (step s (.appendToFamily i txt ind ai)).2 = .ok ()) :
    (step s (.appendToFamily i txt ind ai)).1.stale = true := by
  revert hok
  unfold Edit.step; dsimp only
  repeat' split
  all_goals first
    | (intro h; cases h; done)
    | (intro _; simp [autoCommit, ha])

/-- With auto-commit off staleness survives every operation except `commit`. -/
theorem stale_persists (s : S) (op : Op) (ha : s.auto = false) (hs : s.stale = true) (hop : op ≠ .commit) :
    (step s op).1.stale = true := step_stale_keeps s op ha hs hop

/-- Only `insert` and `append_to_family` (or an earlier one of them) make a state stale. -/
theorem stale_only_from_insert (s : S) (op : Op) (h : (step s op).1.stale = true) :
    s.stale = true ∨ (∃ k txt, op = .insert k txt) ∨ (∃ i txt ind ai, op = .appendToFamily i txt ind ai) := by
  rcases hs : s.stale with _ | _
  · right
    cases op
    case insert k txt => exact .inl ⟨k, txt, rfl⟩
    case appendToFamily i txt ind ai => exact .inr ⟨i, txt, ind, ai, rfl⟩
    all_goals
      exfalso
      revert h
      unfold Edit.step; dsimp only
      repeat' split
      all_goals first
        | (simp [hs]; done)
        | (simp [commit]; done)
        | (unfold autoCommit; split <;> simp [commit, hs])
  · exact .inl rfl

/-- `commit` clears staleness, and the next probe answers. -/
theorem commit_restores (s : S) :
    (step s .commit).2 = .ok () ∧ (step s .commit).1.stale = false ∧
    (step (step s .commit).1 .probe).2 = .ok () := ⟨rfl, rfl, rfl⟩

/-- **Stale tree refuses, commit restores** (auto-commit off): after a list `insert`, and
after any further operations that are not `commit`, every search probe raises
`NotImplementedError`; after the `commit` it answers again. -/
theorem stale_refuses (s : S) (ha : s.auto = false) (k : Int) (txt : Str) (ops : List Op)
    (hno : ∀ op ∈ ops, op ≠ .commit) :
    let s' := run (step s (.insert k txt)).1 ops
    (step s' .probe).2 = .error .notImplemented ∧ (step (step s' .commit).1 .probe).2 = .ok () := by
  intro s'
  have h1 : (step s (.insert k txt)).1.auto = false := by rw [(step_frame s _).2.1, ha]
  have h2 := run_stale_keeps _ ops h1 (insert_sets_stale s ha k txt).2 hno
  exact ⟨(probe_refuses_iff_stale s').2.1.mpr h2, rfl⟩

/-- The same after a successful `append_to_family`. -/
theorem stale_refuses_family (s : S) (ha : s.auto = false) (i : Nat) (txt : Str) (ind : Int) (ai : Bool)
    (hok : (step s (.appendToFamily i txt ind ai)).2 = .ok ()) (ops : List Op)
    (hno : ∀ op ∈ ops, op ≠ .commit) :
    let s' := run (step s (.appendToFamily i txt ind ai)).1 ops
    (step s' .probe).2 = .error .notImplemented ∧ (step (step s' .commit).1 .probe).2 = .ok () := by
  intro s'
  have h1 : (step s (.appendToFamily i txt ind ai)).1.auto = false := by rw [(step_frame s _).2.1, ha]
  have h2 := run_stale_keeps _ ops h1 (appendToFamily_sets_stale s ha i txt ind ai hok) hno
  exact ⟨(probe_refuses_iff_stale s').2.1.mpr h2, rfl⟩

/-- With auto-commit on no reached state is stale: every probe answers. -/
theorem auto_never_stale (cfg : Cfg) (width : Nat) (ls : List Str) (ops : List Op) :
    (step (run (init cfg true width ls) ops) .probe).2 = .ok () :=
  (probe_refuses_iff_stale _).2.2.mpr (auto_commit_always_fresh cfg width ls ops).2.1

/-! ## the extended alphabet (`Ccp.Model.EditX`): `ConfigList.remove`, deleting an object that is gone,
every guarded search entry point, line-object payloads, malformed calls -/

/-- The base alphabet is embedded unchanged: same next state, same success, same error. -/
theorem base_embedded (s : S) (op : Op) :
    (EditX.step s (.base op)).1 = (step s op).1 ∧
    ((EditX.step s (.base op)).2 = .ok () ↔ (step s op).2 = .ok ()) ∧
    (∀ e, (EditX.step s (.base op)).2 = .error (.base e) ↔ (step s op).2 = .error e) :=
  ⟨rfl, EditX.liftRes_ok _, fun e => EditX.liftRes_err _ e⟩

/-- Every extended operation preserves the invariant, from every state. -/
theorem stepX_preserves_fresh (s : S) (op : EditX.Op) :
    (FreshInv s → FreshInv (EditX.step s op).1) ∧ (AutoInv s → AutoInv (EditX.step s op).1) :=
  ⟨EditX.step_fresh s op, EditX.step_autoInv s op⟩

/-- **Every history over the extended alphabet**: a reached state without uncommitted change holds
exactly the tree a from-scratch parse of its current texts yields, and its objects carry the line
numbers `0..n-1` in order. -/
theorem runX_committed_fresh (cfg : Cfg) (auto : Bool) (width : Nat) (ls : List Str) (ops : List EditX.Op) :
    let s := EditX.run (init cfg auto width ls) ops
    s.cfg = cfg ∧
    (s.dirty = false →
      s.tree = parse cfg s.texts ∧ s.texts = s.tree.texts ∧ s.items = committedItems s.tree) := by
  intro s
  have hc : s.cfg = cfg := (EditX.run_frame (init cfg auto width ls) ops).1
  refine ⟨hc, fun hd => ?_⟩
  have h := EditX.run_fresh _ ops (Ccp.Edit.init_fresh cfg auto width ls) hd
  rw [hc] at h
  exact h

/-- With auto-commit on, after every single extended operation — successful, refused or malformed —
the state has no uncommitted change, is not stale and holds the tree of a fresh parse. -/
theorem autoX_commit_always_fresh (cfg : Cfg) (width : Nat) (ls : List Str) (ops : List EditX.Op) :
    let s := EditX.run (init cfg true width ls) ops
    s.dirty = false ∧ s.stale = false ∧ s.tree = parse cfg s.texts ∧ s.texts = s.tree.texts := by
  intro s
  have ha : s.auto = true := (EditX.run_frame (init cfg true width ls) ops).2.1
  have h1 := EditX.run_autoInv _ ops (init_auto cfg true width ls) ha
  have h2 := (runX_committed_fresh cfg true width ls ops).2 h1.1
  exact ⟨h1.1, h1.2, h2.1, h2.2.1⟩

/-- Directly after an explicit `commit` at the end of any extended history the tree is that of a
fresh parse. -/
theorem explicit_commitX_fresh (cfg : Cfg) (auto : Bool) (width : Nat) (ls : List Str) (ops : List EditX.Op) :
    let s := EditX.run (init cfg auto width ls) (ops ++ [.base .commit])
    s.dirty = false ∧ s.stale = false ∧ s.tree = parse cfg s.texts ∧ s.texts = s.tree.texts := by
  intro s
  have hs : s = commit (EditX.run (init cfg auto width ls) ops) := by
    simp only [s, EditX.run_append]; rfl
  have hd : s.dirty = false := by rw [hs]; rfl
  have h2 := (runX_committed_fresh cfg auto width ls (ops ++ [.base .commit])).2 hd
  exact ⟨hd, by rw [hs]; rfl, h2.1, h2.2.1⟩

/-- `ConfigList.remove(obj)` is `obj.delete()`: same next state, same outcome. -/
theorem remove_is_delete (s : S) (h : Nat) :
    EditX.step s (.remove h) = EditX.step s (.base (.delete h)) := rfl

/-- … so on a state without uncommitted change it succeeds and removes exactly the object and its
descendants (the texts before the auto-commit are the old ones without those positions). -/
theorem remove_spec (s : S) (h : Nat) (hd : s.dirty = false) (hh : h < s.items.length) :
    (EditX.step s (.remove h)).2 = .ok () ∧
    (EditX.step s (.remove h)).1 =
      autoCommit { s with items := eraseAll s.items (descendantsAndSelf s.tree h), dirty := true } := by
  have hn : ¬ (h ≥ s.items.length) := by omega
  simp [EditX.step, EditX.liftRes, Edit.step, hd, hn]

/-- `obj.delete()` on an object of the last commit that is no longer in the list raises
`ConfigListItemDoesNotExist` and changes nothing; on an object that is still there it is `delete`. -/
theorem deleteAny_gone (s : S) (h : Nat) (hh : h < s.tree.size) (hp : posOf s.items h = none) :
    EditX.step s (.deleteAny h) = (s, .error (.base .doesNotExist)) := by
  have hn : ¬ (h ≥ s.tree.size) := by omega
  simp [EditX.step, hn, hp]

theorem deleteAny_present (s : S) (h p : Nat) (hh : h < s.tree.size) (hp : posOf s.items h = some p) :
    EditX.step s (.deleteAny h) = EditX.step s (.base (.delete h)) := by
  have hn : ¬ (h ≥ s.tree.size) := by omega
  simp [EditX.step, hn, hp]

/-- **Every search refuses exactly on a stale state**: each of the sixteen search entry points never changes the
state, raises `NotImplementedError` exactly when the state is stale and answers otherwise.
(Before the repair `fix: CiscoConfParse.re_match_iter_typed() refuses to search an uncommitted config` the sixteenth
one, `CiscoConfParse.re_match_iter_typed`, had no guard and answered from the uncommitted list -- finding FC07a; this
theorem was then `search_refuses_iff_stale_partial`, for the fifteen guarded entry points only.) -/
theorem search_refuses_iff_stale (s : S) (k : EditX.Search) :
    (EditX.step s (.search k)).1 = s ∧
    ((EditX.step s (.search k)).2 = .error (.base .notImplemented) ↔ s.stale = true) ∧
    ((EditX.step s (.search k)).2 = .ok () ↔ s.stale = false) := by
  have hs : EditX.step s (.search k) = EditX.liftRes (step s .probe) := rfl
  rw [hs]
  refine ⟨rfl, ?_, ?_⟩
  · rw [EditX.liftRes_err]; exact (probe_refuses_iff_stale s).2.1
  · rw [EditX.liftRes_ok]; exact (probe_refuses_iff_stale s).2.2

/-- A call with a malformed argument is rejected with the error class of the code and changes nothing. -/
theorem malformed_rejected (s : S) (txt : Str) (k : Int) (after : Bool) :
    EditX.step s (.insertBadIndex txt) = (s, .error (.base .valueError)) ∧
    EditX.step s (.insertBadValue k) = (s, .error .typeError) ∧
    EditX.step s (.listInsBadValue after) = (s, .error (.base .valueError)) ∧
    EditX.step s .removeBadValue = (s, .error (.base .invalidParameters)) := ⟨rfl, rfl, rfl, rfl⟩

/-- List-level `insert_before/after(regex, <line object>)`: refused with `ValueError` for an empty regex,
otherwise the object's text is inserted at every matching line — the blank-payload refusal under
`ignore_blank_lines` does not apply to a line object; whenever that refusal would not fire, the
operation is the string form. -/
theorem listInsObj_spec (s : S) (after emptyRx : Bool) (row : List Bool) (txt : Str) :
    (emptyRx = true → EditX.step s (.listInsObj after emptyRx row txt) = (s, .error (.base .valueError))) ∧
    (emptyRx = false → EditX.step s (.listInsObj after emptyRx row txt) =
      (autoCommit { s with items := insertAtMatches after (fresh txt) s.items row, dirty := true }, .ok ())) ∧
    ((isBlank txt && s.cfg.ignoreBlank) = false →
      EditX.step s (.listInsObj after emptyRx row txt) =
        EditX.step s (.base (if after then .listInsAfter emptyRx row txt else .listInsBefore emptyRx row txt))) := by
  refine ⟨fun h => by simp [EditX.step, h], fun h => by simp [EditX.step, h], fun hb => ?_⟩
  cases after <;> cases emptyRx <;> simp [EditX.step, EditX.liftRes, Edit.step, hb]

/-- **Stale tree refuses, commit restores, over the extended alphabet** (auto-commit off): after a list
`insert` and any further extended operations that are not `commit`, every search entry point raises
`NotImplementedError`; after the `commit` it answers again. -/
theorem staleX_refuses (s : S) (ha : s.auto = false) (k : Int) (txt : Str) (ops : List EditX.Op)
    (hno : ∀ op ∈ ops, op ≠ .base .commit) (q : EditX.Search) :
    let s' := EditX.run (step s (.insert k txt)).1 ops
    (EditX.step s' (.search q)).2 = .error (.base .notImplemented) ∧
    (EditX.step (commit s') (.search q)).2 = .ok () := by
  intro s'
  have h1 : (step s (.insert k txt)).1.auto = false := by rw [(step_frame s _).2.1, ha]
  have h2 := EditX.run_stale_keeps _ ops h1 (insert_sets_stale s ha k txt).2 hno
  exact ⟨(search_refuses_iff_stale s' q).2.1.mpr h2,
         (search_refuses_iff_stale (commit s') q).2.2.mpr rfl⟩

/-! ## non-vacuity: a concrete config and concrete histories -/

def exCfg : Cfg := { ios := true, delims := ['!'], ignoreBlank := false }

def exLines : List Str :=
  ["interface Eth1".toList, " ip address 1.1.1.1".toList, " shutdown".toList, "!".toList,
   "interface Eth10".toList]

/-- three object-level edits, auto-commit on -/
def exAuto : List Op :=
  [.objInsAfter 0 " description x".toList, .delete 4, .appendToFamily 0 " mtu 9000".toList (-1) false]

/-- a list insert, a list append and a probe, auto-commit off -/
def exManual : List Op := [.insert 2 " no shutdown".toList, .append "end".toList, .probe]

/-- `auto_commit_always_fresh` on a history that changes texts and tree -/
example : (run (init exCfg true 1 exLines) exAuto).texts =
    ["interface Eth1".toList, " description x".toList, " ip address 1.1.1.1".toList,
     " shutdown".toList, " mtu 9000".toList, "interface Eth10".toList] ∧
    (run (init exCfg true 1 exLines) exAuto).tree.parents = [0, 0, 0, 0, 0, 5] ∧
    (init exCfg true 1 exLines).tree.parents = [0, 0, 0, 3, 4] := by decide
example : (run (init exCfg true 1 exLines) exAuto).tree
    = parse exCfg (run (init exCfg true 1 exLines) exAuto).texts :=
  (auto_commit_always_fresh exCfg 1 exLines exAuto).2.2.1

/-- auto-commit off: the state is dirty and stale (the hypothesis `dirty = false` of
`run_committed_fresh` fails and the old tree is still there), the probe refuses -/
example : (run (init exCfg false 1 exLines) exManual).dirty = true ∧
    (run (init exCfg false 1 exLines) exManual).stale = true ∧
    (run (init exCfg false 1 exLines) exManual).tree.parents = [0, 0, 0, 3, 4] ∧
    (run (init exCfg false 1 exLines) exManual).texts.length = 7 ∧
    (step (run (init exCfg false 1 exLines) exManual) .probe).2 = .error .notImplemented := by decide
/-- … and after the explicit commit the hypothesis holds and the tree is the fresh one -/
example : (run (init exCfg false 1 exLines) (exManual ++ [.commit])).dirty = false ∧
    (run (init exCfg false 1 exLines) (exManual ++ [.commit])).tree.parents = [0, 0, 0, 0, 4, 5, 6] ∧
    (step (run (init exCfg false 1 exLines) (exManual ++ [.commit])) .probe).2 = .ok () := by decide
/-- the hypotheses of `stale_refuses` / `stale_refuses_family` are satisfiable -/
example : ∀ op ∈ [Op.append "end".toList, Op.probe, Op.pop 0], op ≠ Op.commit := by simp
example : (step (init exCfg false 1 exLines) (.appendToFamily 0 " mtu 9000".toList (-1) false)).2 = .ok () := by
  decide
/-- `ignore_blank_lines`: the filter really drops lines, and the result is a fixed point -/
example : (bootstrap { exCfg with ignoreBlank := true }
    ["a".toList, "".toList, " b".toList, "  ".toList]).texts = ["a".toList, " b".toList] := by decide
example : (run (init { exCfg with ignoreBlank := true } true 1 exLines)
    [.insert 1 "".toList, .append "  ".toList, .objInsBefore 1 " x".toList]).texts =
    ["interface Eth1".toList, " x".toList, " ip address 1.1.1.1".toList, " shutdown".toList,
     "!".toList, "interface Eth10".toList] := by decide
/-- `bootstrap_keeps_texts` needs its hypothesis -/
example : (bootstrap { exCfg with ignoreBlank := true } ["a".toList, "".toList]).texts ≠ ["a".toList, "".toList] := by
  decide

/-! ### the extended alphabet on concrete histories -/

/-- `ConfigList.remove`, a malformed insert, a line-object payload and two searches, auto-commit on -/
def exAutoX : List EditX.Op :=
  [.remove 0, .insertBadValue 0, .listInsObj true false [true] " mtu 9000".toList, .search .findChildObjects,
   .search .ccpReMatchIterTyped]

example : (EditX.run (init exCfg true 1 exLines) exAutoX).texts =
    ["!".toList, " mtu 9000".toList, "interface Eth10".toList] ∧
    (EditX.run (init exCfg true 1 exLines) exAutoX).tree.parents = [0, 1, 2] := by decide
example : (EditX.run (init exCfg true 1 exLines) exAutoX).tree
    = parse exCfg (EditX.run (init exCfg true 1 exLines) exAutoX).texts :=
  (autoX_commit_always_fresh exCfg 1 exLines exAutoX).2.2.1
/-- hypotheses of `remove_spec` -/
example : (init exCfg true 1 exLines).dirty = false ∧ 0 < (init exCfg true 1 exLines).items.length := by decide
/-- hypotheses of `deleteAny_gone` / `deleteAny_present`: auto-commit off, object 4 popped and not yet committed -/
def exPopped : S := (step (init exCfg false 1 exLines) (.pop 4)).1
example : 4 < exPopped.tree.size ∧ posOf exPopped.items 4 = none ∧ posOf exPopped.items 3 = some 3 ∧
    (EditX.step exPopped (.deleteAny 4)).2 = .error (.base .doesNotExist) := by decide
/-- hypotheses of `staleX_refuses`; on a stale state every entry point refuses, `CiscoConfParse.re_match_iter_typed`
included (it answered there before the repair of FC07a) -/
example : ∀ op ∈ [EditX.Op.remove 1, .search .reSearch, .insertBadIndex []], op ≠ EditX.Op.base .commit := by simp
def exStaleX : S := EditX.run (init exCfg false 1 exLines) [.base (.insert 2 " no shutdown".toList), .removeBadValue]
example : exStaleX.stale = true ∧
    (EditX.step exStaleX (.search .findParentObjects)).2 = .error (.base .notImplemented) ∧
    (EditX.step exStaleX (.search .ccpReMatchIterTyped)).2 = .error (.base .notImplemented) ∧
    (EditX.step (commit exStaleX) (.search .findParentObjects)).2 = .ok () := by decide
/-- `listInsObj_spec`: a blank line-object payload under `ignore_blank_lines` is inserted (and dropped again by the
auto-commit), where the string form is refused -/
def exIgnX : S := init { exCfg with ignoreBlank := true } true 1 exLines
example : (isBlank " ".toList && exIgnX.cfg.ignoreBlank) = true ∧
    (EditX.step exIgnX (.listInsObj false false [true] " ".toList)).2 = .ok () ∧
    (EditX.step exIgnX (.base (.listInsBefore false [true] " ".toList))).2 = .error (.base .invalidParameters) ∧
    (EditX.step exIgnX (.listInsObj false false [true] " ".toList)).1.texts = exIgnX.texts := by decide

end Ccp.C07
