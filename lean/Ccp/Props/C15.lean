import Ccp.Proofs.Intf
/-!
# C15 — interface names round-trip and sort numerically; interface ranges expand exactly
-/
namespace Ccp.C15
open Ccp.Intf Ccp.Py

/-- equal interfaces have equal hashes -/
theorem eq_hash (a b : Intf) (h : eq a b = true) : pyHash a = pyHash b := by
  simp only [eq, Bool.and_eq_true, beq_iff_eq] at h
  simp [pyHash, hashRaw, h.2]

end Ccp.C15
