import Ccp.Proofs.Intf
import Ccp.Proofs.IntfX
/-!
# C15 — interface names round-trip and sort numerically; interface ranges expand exactly

Property theorems only; helper lemmas live in `Ccp.Proofs.Intf`.
-/
namespace Ccp.C15
open Ccp.Intf Ccp.Py Ccp.Range Ccp.IntfX

/-! ## names -/

/-- A description of the property's grammar: prefix over `[A-Za-z-]` (may be empty), one number
(no slot, no separator) or `slot/port` / `slot/card/port` with separator `/`, optional
subinterface and channel, optional class word: non-empty, over `[A-Za-z-]` (a word with a digit
such as `l2transport` is not a class word for this parser). Numbers are unbounded. -/
structure WellFormed (d : Intf) : Prop where
  pfx : ∀ c ∈ d.pfx, isWordCh c = true
  shape : (d.slot = none ∧ d.card = none ∧ d.sep = none) ∨ (d.slot.isSome = true ∧ d.sep = some '/')
  cls : GoodCls d.cls

/-- **name_roundtrip** (first half): every well-formed description renders, and parsing the
rendering gives back exactly that description — all eight components. -/
theorem name_roundtrip (d : Intf) (h : WellFormed d) : ∃ s, render d = .ok s ∧ Intf.parse s = .ok d :=
  canon_roundtrip d ⟨fun c hc => by simp [isPfxCh, h.pfx c hc], strip_word d.pfx h.pfx, h.shape, h.cls⟩

/-- **name_roundtrip** (second half): for EVERY accepted text `s` — blank after the prefix, interior
blanks in the prefix (`Port channel1`), leading zeros, trailing junk, `1//2` … — the constructed
object renders, and parsing the rendering gives exactly the same object (all eight components):
`parse (render (parse s)) = parse s`. -/
theorem name_reparse (s : Str) (d : Intf) (h : Intf.parse s = .ok d) :
    ∃ r, render d = .ok r ∧ Intf.parse r = .ok d :=
  canon_roundtrip d (parse_canon s d h)

/-- consequently rendering is a fixed point: the re-parsed object renders to the same text and
is `==` to the original. -/
theorem name_roundtrip_stable (d : Intf) (h : WellFormed d) :
    ∃ s, render d = .ok s ∧ (Intf.parse s).bind render = .ok s ∧
      (Intf.parse s).map (fun j => eq d j) = .ok true := by
  obtain ⟨s, h1, h2⟩ := name_roundtrip d h
  refine ⟨s, h1, by simp [h2, Except.bind, h1], ?_⟩
  simp [h2, Except.map, eq]

-- non-vacuity of `name_reparse`: accepted texts that are not canonical
example : ((Intf.parse " Port channel 01//2 foo bar ".toList).toOption.map
            (fun d => (d.pfx, d.slot, d.card, d.port, d.cls)))
          = some ("Port channel".toList, some 1, none, 2, some "bar".toList) := by decide

-- non-vacuity: the docstring example of the class, three numbers, subinterface, channel, class word
example : WellFormed { pfx := "Serial".toList, sep := some '/', slot := some 4, card := some 1, port := 2,
                       sub := some 9, chan := some 5, cls := some "point-to-point".toList } :=
  ⟨by decide, Or.inr ⟨rfl, rfl⟩, by intro w hw; cases hw; exact ⟨by decide, by decide⟩⟩
example : ((Intf.parse "Serial 4/1/2.9:5 point-to-point".toList).toOption.map
            (fun d => (d.slot, d.card, d.port, d.sub, d.chan)))
          = some (some 4, some 1, 2, some 9, some 5) := by decide
example : render { pfx := "Serial".toList, sep := some '/', slot := some 4, card := some 1, port := 2,
                   sub := some 9, chan := some 5, cls := some "point-to-point".toList }
          = .ok "Serial4/1/2.9:5 point-to-point".toList := by
  simp [render, number, sepStr, optNum, clsStr, toDec, toDecRev]

/-! ## equality, hash, order -/

/-- **eq_hash**: objects that compare equal have the same `__hash__` value and the same `hash()`. -/
theorem eq_hash (a b : Intf) (h : eq a b = true) : hashRaw a = hashRaw b ∧ pyHash a = pyHash b := by
  simp only [eq, Bool.and_eq_true, beq_iff_eq] at h
  unfold pyHash hashRaw
  rw [h.2]
  exact ⟨rfl, rfl⟩

/-- equality is consistent with the order: equal objects are neither `<` nor `>`, and the
comparison does not raise. -/
theorem eq_not_lt (a b : Intf) (h : eq a b = true) : lt a b = .ok false ∧ gt a b = .ok false := by
  simp only [eq, Bool.and_eq_true, beq_iff_eq] at h
  simp [lt, gt, h.2, listLt_self]

/-- **same_shape_numeric_order**: two interfaces with the same optional components present never
raise on `<`, and `<` is the lexicographic order of the *numeric* components
(slot, card, port, subinterface, channel), the class word breaking ties. -/
theorem same_shape_numeric_order (a b : Intf) (h : shape a = shape b) :
    lt a b = .ok (if key a = key b then clsLt a.cls b.cls else lexLt (key a) (key b)) ∧
    gt a b = .ok (if key b = key a then clsLt b.cls a.cls else lexLt (key b) (key a)) :=
  ⟨lt_same_shape a b h, lt_same_shape b a h.symm⟩

-- non-vacuity: Eth1/2 < Eth1/10 (numeric, not lexical), same shape
example : (do let a ← Intf.parse "Eth1/2".toList; let b ← Intf.parse "Eth1/10".toList
              pure (shape a == shape b, ← lt a b, ← gt a b, eq a b)).toOption
          = some (true, true, false, false) := by decide
-- different shapes raise
example : (match (do let a ← Intf.parse "Eth1".toList; let b ← Intf.parse "Eth1/10".toList; lt a b) with
           | .error e => some e | .ok _ => none) = some Err.typeError := by decide

/-! ## ranges -/

/-- spec: `n` is denoted by the bounds of one comma-separated part -/
def InBounds (p : Option Nat × Option Nat) (n : Nat) : Prop :=
  match p with
  | (v, none) => v = some n
  | (some lo, some hi) => lo ≤ n ∧ n ≤ hi
  | (none, some _) => False

theorem mem_expandBounds (p : Option Nat × Option Nat) (n : Nat) :
    some n ∈ expandBounds p ↔ InBounds p n := by
  obtain ⟨v, e⟩ := p
  cases e with
  | none => simp [expandBounds, InBounds, eq_comm]
  | some hi =>
    cases v with
    | none => simp [expandBounds, InBounds]
    | some lo => simp [expandBounds, InBounds, mem_upto]

/-- **range_expands**: an accepted, non-empty range text — since fix f223496 of `/repo` a part is
cut only at a hyphen between two digits (`splitIv`), so texts with a hyphenated prefix such as
`Port-channel1-3` or `Bundle-Ether10-12,15` are accepted and inside this theorem — has a begin object `b`, an iterated
attribute `a` (the last numeric component of `b`) and bounds `ps`, one per comma-separated part.
When every part carries the iterated component (`ns` are the denoted integers), the members are
exactly `b` with that component varied over `ns`: each once, ascending in the `<` of the
interfaces, and the ordered view `as_list()` returns them unchanged. -/
theorem range_expands (text : Str) (d : List Intf) (h : parseRange text = .ok d) (hne : text ≠ []) :
    ∃ b a ps, plan text = .ok (b, a, ps) ∧ a = iterAttr b ∧
      ∀ ns, ps.flatMap expandBounds = ns.map some →
        d = (sortedSet ns).map (vary b a) ∧
        d.Pairwise (fun x y => lt x y = .ok true) ∧
        (∀ m, m ∈ d ↔ ∃ n, (∃ p ∈ ps, InBounds p n) ∧ m = vary b a n) ∧
        (asList d).2 = .ok d ∧ (asSet d).2 = .ok d := by
  unfold parseRange at h
  simp only [hne, if_false] at h
  split at h
  · cases h
  · split at h
    · cases h
    · rename_i b a ps hplan
      refine ⟨b, a, ps, hplan, ?_, ?_⟩
      · exact plan_attr text b a ps hplan
      · intro ns hns
        rw [hns, List.map_map] at h
        have hm : (ns.map (setAttr b a ∘ some)) = ns.map (vary b a) := rfl
        rw [hm] at h
        split at h
        · cases h
        · rw [sortedMembers_vary] at h
          cases h
          have hs := sortedSet_sorted ns
          have hid : sortedMembers ((sortedSet ns).map (vary b a)) = .ok ((sortedSet ns).map (vary b a)) := by
            rw [sortedMembers_vary, sortedSet_of_sorted _ hs]
          refine ⟨rfl, pairwise_vary b a _ hs, ?_, hid, hid⟩
          intro m
          simp only [List.mem_map, mem_sortedSet]
          constructor
          · rintro ⟨n, hn, rfl⟩
            refine ⟨n, ?_, rfl⟩
            have : some n ∈ ps.flatMap expandBounds := by rw [hns]; exact List.mem_map_of_mem hn
            obtain ⟨p, hp, hpn⟩ := List.mem_flatMap.mp this
            exact ⟨p, hp, (mem_expandBounds p n).mp hpn⟩
          · rintro ⟨n, ⟨p, hp, hpn⟩, rfl⟩
            refine ⟨n, ?_, rfl⟩
            have : some n ∈ ps.flatMap expandBounds :=
              List.mem_flatMap.mpr ⟨p, hp, (mem_expandBounds p n).mpr hpn⟩
            rw [hns] at this
            simpa using this

/-- **range_readers_pure**: every reading accessor leaves `data` as it is (whatever it is). -/
theorem range_readers_pure (data : List Intf) :
    (len data).1 = data ∧ (iter data).1 = data ∧ (asList data).1 = data ∧ (asSet data).1 = data ∧
    (len data).2 = data.length ∧ (iter data).2 = data :=
  ⟨rfl, rfl, rfl, rfl, rfl, rfl⟩

-- non-vacuity: overlap, duplicate, a descending interval; members vary the port only
example : ((parseRange "Eth1/1-3,5,2,9-7".toList).toOption.map (fun d => d.map (fun i => (i.slot, i.port))))
          = some [(some 1, 1), (some 1, 2), (some 1, 3), (some 1, 5)] := by decide
example : ((plan "Eth1/1-3,5,2,9-7".toList).toOption.map (fun r => (r.2.1, r.2.2)))
          = some (Attr.port, [(some 1, some 3), (some 5, none), (some 2, none), (some 9, some 7)]) := by decide

-- non-vacuity on a hyphenated prefix: the hyphen of `Port-channel` is not an interval hyphen
example : splitIv "Port-channel1-3".toList = ["Port-channel1".toList, "3".toList] := by decide
example : ((parseRange "Port-channel1-3,7".toList).toOption.map (fun d => d.map (fun i => (i.pfx, i.port))))
          = some [("Port-channel".toList, 1), ("Port-channel".toList, 2), ("Port-channel".toList, 3),
                  ("Port-channel".toList, 7)] := by decide
example : ((plan "Port-channel1-3,7".toList).toOption.map (fun r => (r.2.1, r.2.2)))
          = some (Attr.port, [(some 1, some 3), (some 7, none)]) := by decide

/-! ## further entry points: repr / name, rebuilding from the components, dictionaries, typed views -/

/-- `repr(o)` is the rendering in angle brackets, `.name` is the rendering. -/
theorem repr_is_name (d : Intf) :
    reprOf d = (render d).map (fun s => "<CiscoIOSInterface ".toList ++ s ++ ['>']) := by
  unfold reprOf; cases render d <;> rfl

/-- **Rebuilding from the components**: for every accepted text `s`, all three ways to build an
object from `o.as_dict()` — `CiscoIOSInterface(interface_dict=…)`, `CiscoIOSInterface(o)` and
`o.from_dict(…)` — give exactly `o` again (all eight components, hence `==`, same name). -/
theorem rebuild_from_components (s : Str) (d : Intf) (h : Intf.parse s = .ok d) :
    fromDictCtor d = .ok d ∧ fromDictMethod d = d ∧ eq d d = true := by
  have hc := parse_canon s d h
  obtain ⟨pfx, sep, slot, card, port, sub, chan, cls⟩ := d
  have hst : strip pfx = pfx := hc.pfxstrip
  refine ⟨?_, by simp [fromDictMethod, hst], by simp [eq]⟩
  rcases hc.shape with ⟨h1, h2, _⟩ | ⟨h1, _⟩
  · simp only at h1 h2; subst h1; subst h2
    simp [fromDictCtor, toRaw, updateInternalState, hst]
  · simp only at h1
    cases slot with
    | none => simp at h1
    | some sl => simp [fromDictCtor, toRaw, updateInternalState, hst]

example : ((Intf.parse " Serial 4/1/2.9:5 point-to-point".toList).toOption.map
    (fun d => ((fromDictCtor d).toOption == some d, fromDictMethod d == d))) = some (true, true) := by decide

/-- Assigning a prefix over `[A-Za-z- ]` keeps the round trip: the edited object renders, and
parsing the rendering gives the edited object. -/
theorem set_prefix_roundtrip (s p : Str) (d : Intf) (h : Intf.parse s = .ok d)
    (hp : ∀ c ∈ p, isPfxCh c = true) :
    ∃ r, render (setPrefix d p) = .ok r ∧ Intf.parse r = .ok (setPrefix d p) := by
  have hc := parse_canon s d h
  exact canon_roundtrip _ ⟨fun c hcm => hp c (strip_mem p c hcm), strip_strip p, hc.shape, hc.cls⟩

example : ((Intf.parse "Eth1/2".toList).toOption.map (fun d => render (setPrefix d " Gi \t".toList)))
    = some (.ok "Gi1/2".toList) := by decide +kernel

/-- `check_interface_dict` accepts exactly the dictionaries with eight keys, all of them known. -/
theorem check_dict_spec (ks : List String) :
    checkDict ks = .ok () ↔ ks.length = 8 ∧ ∀ k ∈ ks, k ∈ dictKeys := by
  unfold checkDict
  by_cases hl : ks.length = 8
  · by_cases ha : ks.all (fun k => dictKeys.contains k) = true
    · simp only [hl, ha, ne_eq, not_true_eq_false, if_false, if_true, true_and, true_iff]
      intro k hk
      have := List.all_eq_true.mp ha k hk
      simpa using this
    · simp only [hl, ha, ne_eq, not_true_eq_false, if_false, true_and]
      constructor
      · intro h; cases h
      · intro h; exact absurd (List.all_eq_true.mpr (fun k hk => by simpa using h k hk)) ha
  · simp [hl]

/-- The constructor on a dictionary: with exactly the eight known keys (in any order) and the
components of a parsed name it gives that object back; when a key other than `card` is missing it
raises `KeyError`. -/
theorem ctor_dict_spec (s : Str) (d : Intf) (h : Intf.parse s = .ok d) (ks : List String) :
    (ks.length = 8 → (∀ k ∈ dictKeys, k ∈ ks) → (∀ k ∈ ks, k ∈ dictKeys) → ctorDict d ks = .ok d) ∧
    (∀ k ∈ dictKeys, k ≠ "card" → k ∉ ks → ctorDict d ks = .error .keyError) := by
  constructor
  · intro hl hall hknown
    have h1 : (dictKeys.filter (fun k => d.slot.isSome || k != "card")).all (fun k => ks.contains k) = true := by
      apply List.all_eq_true.mpr
      intro k hk
      have := hall k (List.mem_filter.mp hk).1
      simpa using this
    have h2 := (check_dict_spec ks).mpr ⟨hl, hknown⟩
    unfold ctorDict
    rw [if_pos h1, (rebuild_from_components s d h).1, h2]
  · intro k hk hne hnot
    have h1 : ¬ (dictKeys.filter (fun k => d.slot.isSome || k != "card")).all (fun k => ks.contains k) = true := by
      intro hall
      have hm : k ∈ dictKeys.filter (fun k => d.slot.isSome || k != "card") :=
        List.mem_filter.mpr ⟨hk, by simp [hne]⟩
      have := List.all_eq_true.mp hall k hm
      exact hnot (by simpa using this)
    unfold ctorDict
    rw [if_neg h1]

example : checkDict dictKeys = .ok () ∧ checkDict (dictKeys.drop 1) = .error (.base .valueError) ∧
    checkDict ("extra" :: dictKeys.drop 1) = .error .keyError := by decide

/-- **Typed views of an interface range.** Under the hypotheses of `range_expands` (accepted
text, every part carries the iterated component), for every `reverse` flag the constructor
holds the same members, `as_list(result_type=None | str)` lists them — as objects or as names —
in ascending order, in descending order exactly under `reverse=True`, and
`as_set(result_type=None | str)` holds the same members. -/
theorem range_typed_views (text : Str) (d : List Intf) (h : parseRange text = .ok d) (hne : text ≠ []) :
    ∃ b a ps, plan text = .ok (b, a, ps) ∧
      ∀ ns : List Nat, ps.flatMap expandBounds = ns.map some → ∀ rev : Bool,
        IntfX.construct rev text = .ok ⟨d, rev⟩ ∧
        asListT ⟨d, rev⟩ .none = .ok ⟨true, false, if rev then d.reverse else d⟩ ∧
        asListT ⟨d, rev⟩ .str = .ok ⟨true, true, if rev then d.reverse else d⟩ ∧
        asSetT ⟨d, rev⟩ .none = .ok ⟨false, false, d⟩ ∧
        asSetT ⟨d, rev⟩ .str = .ok ⟨false, true, d⟩ ∧
        d.Pairwise (fun x y => lt x y = .ok true) ∧
        d.reverse.Pairwise (fun x y => gt x y = .ok true) := by
  obtain ⟨b, a, ps, hplan, _, hall⟩ := range_expands text d h hne
  refine ⟨b, a, ps, hplan, ?_⟩
  intro ns hns rev
  obtain ⟨_, hpw, _, hl, _⟩ := hall ns hns
  have hs : sortedMembers d = .ok d := hl
  have hord : ordered ⟨d, rev⟩ = .ok (if rev then d.reverse else d) := by
    simp [ordered, hs]
  refine ⟨by simp [IntfX.construct, h], ?_, ?_, rfl, rfl, hpw, ?_⟩
  · simp [asListT, hord]
  · simp [asListT, hord]
  · exact List.pairwise_reverse.mpr hpw

example : ((IntfX.construct true "Eth1/1-3,7".toList).toOption.bind
    (fun s => match asListT s .str with
      | .ok v => some (v.isList, v.asNames, v.items.map (fun i => i.port))
      | .error _ => none)) = some (true, true, [7, 3, 2, 1]) := by decide

/-- The views never change the range; the casts that make no sense for an interface are refused
on a non-empty range (`as_list` turns every failure into `ValueError`, `as_set` lets the
`TypeError` through). -/
theorem range_bad_casts (s : RSt) (hne : s.data ≠ []) (hs : sortedMembers s.data = .ok s.data) :
    asListT s .int = .error (.base .valueError) ∧ asListT s .float = .error (.base .valueError) ∧
    asListT s .inst = .error (.base .valueError) ∧ asListT s .bad = .error (.base .valueError) ∧
    asSetT s .int = .error (.base .typeError) ∧ asSetT s .float = .error (.base .typeError) ∧
    asSetT s .inst = .error (.base .typeError) ∧ asSetT s .bad = .error (.base .valueError) := by
  have hr : (if s.rev then s.data.reverse else s.data) ≠ [] := by
    split <;> simp [hne]
  simp [asListT, asSetT, ordered, hs, hne, hr]

example : (∃ d, parseRange "Eth1/1-3".toList = .ok d ∧ d ≠ [] ∧ sortedMembers d = .ok d) := by
  refine ⟨_, rfl, by decide, by decide⟩

/-! ## `str()`, `repr()`, `obj[k]`, `==`, `obj.data` of a range; `reverse` is invisible to them -/

theorem listEq_refl (d : List Intf) : listEq d d = true := by
  induction d with
  | nil => rfl
  | cons a d ih => simp [listEq, ih, eq]

/-- The further readers of a range are functions of the data alone (`reverse` does not matter,
and no new state is produced): a range that has only been read is `==` to a freshly parsed one,
`obj.data` is the member list that iteration shows, `obj[k]` is its `k`-th member and raises
`IndexError` from `len` on. -/
theorem range_further_readers (rt : Str) (d : List Intf) (r1 r2 : Bool) (x : RRead) (k : Nat) :
    readR rt d ⟨d, r1⟩ x = readR rt d ⟨d, r2⟩ x ∧
    readR rt d ⟨d, r1⟩ .eqFresh = .ok (.bool true) ∧
    readR rt d ⟨d, r1⟩ .data = .ok (.members (iter d).2) ∧
    (∀ h : k < d.length, readR rt d ⟨d, r1⟩ (.idx k) = .ok (.member d[k])) ∧
    (d.length ≤ k → readR rt d ⟨d, r1⟩ (.idx k) = .error .indexError) := by
  refine ⟨by cases x <;> rfl, by simp [readR, listEq_refl], rfl, ?_, ?_⟩
  · intro h; simp [readR, List.getElem?_eq_getElem h]
  · intro h; simp [readR, List.getElem?_eq_none h]

example : ((IntfX.construct true "Eth1/1-2".toList).toOption.map (fun s =>
    (readR "None".toList s.data s .str, readR "None".toList s.data s .eqFresh, readR "None".toList s.data s (.idx 2)))) =
    some (.ok (.text "[Eth1/1, Eth1/2]".toList), .ok (.bool true), .error .indexError) := by decide +kernel

end Ccp.C15
