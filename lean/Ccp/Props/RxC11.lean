import Ccp.Gen.Tables
/-!
# RxC11 — the regular expressions the scanners of `Ccp.Model.IPText` were written for

`Ccp.Gen.Tables` is regenerated from `/repo`'s source on every run (`harness/translate.py` + `harness/rxscan.py`, AST
only).  The theorem below states that every regular expression / separator of `ccp_util.py` for which
`lean/Ccp/Model/IPText.lean` contains a hand-written scanner still has exactly the text that scanner was written for.
Editing one of them in the code breaks this obligation (the check of C11 then reports a violation even when no failing
input is found); re-indenting a `re.VERBOSE` pattern, editing a comment inside it, or renaming a local variable does
not (patterns compiled with `re.VERBOSE` are compared in canonical verbose form: white space and `#` comments outside
character classes removed — what `re` itself skips).

| source (ccp_util.py) | scanner in `lean/Ccp/Model/IPText.lean` |
|---|---|
| `_IPV6_RGX_CLS` = `[0-9a-fA-F]{1,4}` (substituted into `_IPV6_REGEX_STR`, so part of the text below) | `isH` (with `isHexDigit`) |
| `_RGX_IPV4ADDR_WITH_MASK` (VERBOSE) | `matchV4` (groups `V4Groups`; pieces `quad`, `digitsDot`, `fullDigits`, `isReDigit`) |
| `_RGX_IPV6ADDR` = `re.compile(_IPV6_REGEX_STR, re.VERBOSE)` | `matchV6`: `tripleColonAhead` = `(?!:::\S+?$)`, `hexFormParts` / `matchHexForm` = `opt1`, `opt3` … `opt11`, `matchEmbedded` = `opt2`, the tail `([/\s](?P<masklen>\d+))?$` |
| `IPv4Obj.__init__`: `re.search(r"^\d+$", …)` | `fullDigits` |
| `IPv4Obj.__init__`: `re.search(r"^\d+\.\d+\.\d+\.\d+$", …)` | `fullQuad` |
| `IPv4Obj.__init__`: `re.search(r"\d+\.\d+\.\d+\.\d+", …)` | `searchQuad` |
| `IPv6Obj.__init__`: `re.split(r"\s+", …)` | `splitWs` / `splitWsAux` |
| `IPv6Obj.__init__`: `"/".join(tmp)` | the `a ++ '/' :: b` of `V6.fromStr` |

`rx…` are *scan sets* (`harness/rxscan.py`, `scan_closure`): for the named entry point and every helper of the same
source file it reaches, every regex call (with flags; a compiled pattern's method is reported as the `re.` function
with the pattern's text), literal `str` separator, as a sorted duplicate-free list of
`(what, text, flags or detail)`.  So a regex call that is added to, or removed from, the modelled code breaks the
obligation as well, while moving a test into a helper method, re-ordering tests, negating one (`!=` is reported as
`==`, `not in` as `in`), hoisting a pattern into a compiled constant or renaming a constant / local variable does not.
(`_IPV4_REGEX_STR` / `_RGX_IPV4ADDR` and `_IPV6_REGEX_STR_COMPRESSED1..3` are not scanned for by any model and are
therefore deliberately not tied.)

**Scan sets as revised.**  The lists below contain only what identifies the regex / separator a scanner was written
for: regex-engine calls (`re.*`, methods of compiled patterns, the `re_*` helpers of the package) with the pattern in
*canonical form* — canonical verbose form and no VERBOSE flag for a pattern compiled with `re.VERBOSE`; group names
removed (`(?P<n>…)` is written `(…)`, `(?P=n)` by number); redundant escapes removed (`\:` is `:`); a pattern handed to a
same-file helper as an argument, or built from a local name that ranges over a constant collection, reported once per
value; a search that cannot fail (`.*`) not reported — with the flags and, for `re.sub`, the replacement; and the
separator arguments of `str.split / rsplit / partition / rpartition / join / replace / strip / splitlines`.  The literal
tests (`"lit" in …`, comparisons with string literals and their subscripts, `str.startswith / endswith / find …`) that
earlier versions of these lists contained are now the INFORMATIONAL definitions `Gen.rx…Info`: no theorem is about
them, so reading a regex group into a local, hoisting a `.split()`, merging branches or renaming a group does not break
an obligation.  Where the text above speaks of such a test as part of a scan set, read: part of `…Info`.
-/
namespace Ccp.RxC11

/-- **regexes_as_modelled** — see the table in the module comment above: every regular expression / separator of the
source for which the model contains a hand-written scanner has the text that scanner was written for.  (The goals
are named `regexes_as_modelled__<definition>`, so that a failing build names the constant that was edited.) -/
theorem regexes_as_modelled :
    Gen.rxIPv4ObjInit =
      [("re.search", "(?:^(\\d+\\.\\d+\\.\\d+\\.\\d+)$|(?:^(?:(\\d+\\.\\d+\\.\\d+\\.\\d+))(\\s+|/)(?:(\\d+\\.\\d+\\.\\d+\\.\\d+))$)|^(?:\\s*(\\d+\\.\\d+\\.\\d+\\.\\d+)(?:/(\\d+))\\s*)$)", ""),
       ("re.search", "\\d+\\.\\d+\\.\\d+\\.\\d+", ""),
       ("re.search", "^\\d+$", ""),
       ("re.search", "^\\d+\\.\\d+\\.\\d+\\.\\d+$", "")] ∧
    Gen.rxIPv6ObjInit =
      [("re.search", "^(?!:::\\S+?$)(([0-9a-fA-F]{1,4}(?::[0-9a-fA-F]{1,4}){7})|([0-9a-fA-F:]+?\\d+\\.\\d+\\.\\d+\\.\\d+)|((?:[0-9a-fA-F]{1,4}:){1}(?::[0-9a-fA-F]{1,4}){1,6})|((?:[0-9a-fA-F]{1,4}:){2}(?::[0-9a-fA-F]{1,4}){1,5})|((?:[0-9a-fA-F]{1,4}:){3}(?::[0-9a-fA-F]{1,4}){1,4})|((?:[0-9a-fA-F]{1,4}:){4}(?::[0-9a-fA-F]{1,4}){1,3})|((?:[0-9a-fA-F]{1,4}:){5}(?::[0-9a-fA-F]{1,4}){1,2})|((?:[0-9a-fA-F]{1,4}:){6}(?::[0-9a-fA-F]{1,4}){1,1})|(:(?::[0-9a-fA-F]{1,4}){1,7})|((?:[0-9a-fA-F]{1,4}:){1,7}:)|((?:::)))([/\\s](\\d+))?$", ""),
       ("re.split", "\\s+", ""),
       ("str.join", "/", "")] := by
  refine ⟨?regexes_as_modelled__rxIPv4ObjInit, ?regexes_as_modelled__rxIPv6ObjInit⟩
  all_goals rfl

end Ccp.RxC11
