import Ccp.Gen.Tables
/-!
# RxC20 — the regular expressions the token matchers of `Ccp.Model.Asa` were written for

`Ccp.Gen.Tables` is regenerated from `/repo`'s source on every run (`harness/translate.py` + `harness/rxscan.py`, AST
only).  The theorem states that the ASA regular expressions (ciscoconfparse2.py `ConfigList`, models_asa.py) and the
keyword / separator tests of `L4Object.__init__` (ccp_util.py) for which `lean/Ccp/Model/Asa.lean` contains a
hand-written matcher still have exactly the text that matcher was written for.  Editing one of them in the code breaks
this obligation; re-indenting a `re.VERBOSE` pattern (compared in canonical verbose form), editing a comment inside it
or renaming a local variable does not.

| source | matcher in `lean/Ccp/Model/Asa.lean` |
|---|---|
| `ConfigList.__init__`: `self._RE_NAMES = re.compile(r"^\s*name\s+(\d+\.\d+\.\d+\.\d+)\s+(\S+)")`, used by `asa_object_group_names` | `reNames` (`nameDefs`) |
| `ConfigList.__init__`: `self._RE_OBJNET = re.compile(r"^\s*object-group\s+network\s+(\S+)")`, used by `asa_object_group_network` | `reObjNet` (`groupObjs`, `groupDefs`) |
| `ConfigList.__init__`: `self._RE_OBJACL = re.compile(r"^\s*access-list\s+(\S+)")`, used by `asa_access_list` | `reObjAcl` (`aclDefs`) |
| models_asa.py `ASAObjGroupNetwork.__init__`: `re_match_typed(r"^object-group\s+network\s+(\S+)", …)` | `groupName` |
| models_asa.py `_RE_NETOBJECT` (VERBOSE), `network_strings`: `== "255.255.255.255"`, `"description " in obj.text` | `parseMember` (alternatives `host` / `network netmask` / `group-object`), `mask32`, `plainMember` |
| models_asa.py `ASAObjGroupNetwork.is_object_for`: `"object-group network " in line[0:21].lower()` | fragment assumption of the model ("group headers start in column 0 and are written `object-group network <name>`") |
| models_asa.py `_RE_NAMEOBJECT` (VERBOSE), `ASAName.is_object_for`: `"name " in line[0:5].lower()` | fragment assumption of the model ("`name` lines are accepted by the `ASAName` factory regex") |
| ccp_util.py `L4Object.__init__`: `"neq " / "eq " / "range " / "lt " / "gt " in …`, `re.split(r"\s+", …)`, `re.search(r"^\S+$", …)`, `== "asa" / "tcp" / "udp"` | `ladder` (`hasSub`, `words`), `parseSpec` |

The pieces every matcher is built from: `ws1` = `\s+`, `tok` = `(\S+)`, `lit`, `digits1` = `\d+`, `dottedQuad` =
`\d+\.\d+\.\d+\.\d+`.  `rx…` are *scan sets* (`harness/rxscan.py`, `scan_closure`): for the named entry point and every helper of the same
source file it reaches, every regex call (with flags; a compiled pattern's method is reported as the `re.` function
with the pattern's text), literal `str` separator, `"lit" in …` test and comparison against a `str` literal (with the constant subscript of the other side), as a sorted duplicate-free list of
`(what, text, flags or detail)`.  So a regex call that is added to, or removed from, the modelled code breaks the
obligation as well, while moving a test into a helper method, re-ordering tests, negating one (`!=` is reported as
`==`, `not in` as `in`), hoisting a pattern into a compiled constant or renaming a constant / local variable does not.

**Scan sets as revised.**  The lists below contain only what identifies the regex / separator a scanner was written
for: regex-engine calls (`re.*`, methods of compiled patterns, the `re_*` helpers of the package) with the pattern in
*canonical form* — canonical verbose form and no VERBOSE flag for a pattern compiled with `re.VERBOSE`; group names
removed (`(?P<n>…)` is written `(…)`, `(?P=n)` by number); redundant escapes removed (`\:` is `:`); a pattern handed to a
same-file helper as an argument, or built from a local name that ranges over a constant collection, reported once per
value; a search that cannot fail (`.*`) not reported — with the flags and, for `re.sub`, the replacement; and the
separator arguments of `str.split / rsplit / partition / rpartition / join / replace / strip / splitlines`.  The literal
tests (`"lit" in …`, comparisons with string literals and their subscripts, `str.startswith / endswith / find …`) that
earlier versions of these lists contained are now the INFORMATIONAL definitions `Gen.rx…Info`: no theorem is about
them, so reading a regex group into a local, hoisting a `.split()`, merging branches or renaming a group does not break
an obligation.  Where the text above speaks of such a test as part of a scan set, read: part of `…Info`.
-/
namespace Ccp.RxC20

/-- **regexes_as_modelled** — see the table in the module comment above: every regular expression / separator of the
source for which the model contains a hand-written scanner has the text that scanner was written for.  (The goals
are named `regexes_as_modelled__<definition>`, so that a failing build names the constant that was edited.) -/
theorem regexes_as_modelled :
    Gen.rxAsaNames =
      [(".re_match_typed", "^\\s*name\\s+(\\d+\\.\\d+\\.\\d+\\.\\d+)\\s+(\\S+)", "")] ∧
    Gen.rxAsaObjNet =
      [(".re_match_typed", "^\\s*object-group\\s+network\\s+(\\S+)", "")] ∧
    Gen.rxAsaAcl =
      [(".re_match_typed", "^\\s*access-list\\s+(\\S+)", "")] ∧
    Gen.rxAsaGroupInit =
      [(".re_match_typed", "^object-group\\s+network\\s+(\\S+)", "")] ∧
    Gen.rxAsaGroupIsObjectFor =
      [] ∧
    Gen.rxAsaGroupNetworkStrings =
      [("re.search", "(?:(^\\s*network-object\\s+host\\s+(\\S+))|(^\\s*network-object\\s+(\\S+)\\s+(\\d+\\.\\d+\\.\\d+\\.\\d+))|(^\\s*group-object\\s+(\\S+)))", "")] ∧
    Gen.rxAsaNameInit =
      [("re.search", "^name\\s+(\\d+\\.\\d+\\.\\d+\\.\\d+)\\s(\\S+)", "")] ∧
    Gen.rxAsaNameIsObjectFor =
      [] ∧
    Gen.rxL4ObjectInit =
      [("re.search", "^\\S+$", ""),
       ("re.split", "\\s+", "")] := by
  refine ⟨?regexes_as_modelled__rxAsaNames, ?regexes_as_modelled__rxAsaObjNet, ?regexes_as_modelled__rxAsaAcl,
    ?regexes_as_modelled__rxAsaGroupInit, ?regexes_as_modelled__rxAsaGroupIsObjectFor,
    ?regexes_as_modelled__rxAsaGroupNetworkStrings, ?regexes_as_modelled__rxAsaNameInit,
    ?regexes_as_modelled__rxAsaNameIsObjectFor, ?regexes_as_modelled__rxL4ObjectInit⟩
  all_goals rfl

end Ccp.RxC20
