import Ccp.Proofs.Cli
namespace Ccp.C18
open Ccp.Cli
theorem stub : diffSyntaxPassed ⟨[], [], []⟩ = ios := rfl
end Ccp.C18
