import Ccp.Proofs.Cli
import Ccp.Model.CliNs
import Ccp.Proofs.IPVal
/-!
# C18 — the command-line greps are order-preserving filters; `parent` / `child` / `branch` /
`diff` print exactly what the API returns

Property theorems only; the model is `Ccp.Model.Cli` (what `CliApplication.__init__` appends to
`CliApplication.stdout`), helper lemmas and the spec-side definitions (`wordOut`, `addrOf`,
`inSome`, `excluded`, `firstOccs`, `lineEv`) live in `Ccp.Proofs.Cli`.

Everything is stated for an arbitrary `Oracle` (`re.split`, `IPv4Obj(w)` / `IPv6Obj(w)` as
text → `(ip, prefixlen)`, address text, `re.search`) and an arbitrary `Api`
(`CiscoConfParse(...)`, `Diff(...)`), i.e. for all texts, delimiters, regexes and configs.

`Disjoint O` = no word is accepted by both `IPv4Obj` and `IPv6Obj` (true of the real
constructors; checked on every word of every correspondence run).  Without it the general forms
`ipgrep_filter_general` / `ipgrep_unique_general` hold.
-/
namespace Ccp.C18
open Ccp.Cli Ccp.Py

/-! ## ipgrep, word mode -/

/-- **ipgrep_filter_general** (no hypothesis): per input word, in input order, the rendering of
the first requested subnet (in iteration order) that contains it and is not excluded. -/
theorem ipgrep_filter_general (O : Oracle) (o : Opts) (subnets : List Addr) (words : List Str)
    (hu : o.unique = false) :
    addrMatches O o subnets words = words.filterMap (fun w => subnets.findSome? (hitRender O o w)) :=
  addrMatches_plain O o subnets words hu

/-- **ipgrep_filter**: the output is `words.filterMap` of "valid address ∧ inside at least one
requested subnet ∧ not excluded ↦ its rendering" (`wordOut`). -/
theorem ipgrep_filter (O : Oracle) (hd : Disjoint O) (o : Opts) (subnets : List Addr) (words : List Str)
    (hu : o.unique = false) :
    addrMatches O o subnets words = words.filterMap (wordOut O o subnets) := by
  rw [addrMatches_plain O o subnets words hu]
  congr 1
  funext w
  exact findSome_hitRender O o hd subnets w

/-- `wordOut` spelled out: the printed text of a word is `render` of the address it denotes, and it
is printed iff that address is in some requested subnet of its family and not excluded. -/
theorem wordOut_spec (O : Oracle) (o : Opts) (subnets : List Addr) (w r : Str) :
    wordOut O o subnets w = some r ↔
      ∃ a, addrOf O w = some a ∧ (∃ s ∈ subnets, hitA s a = true) ∧ excluded O o a = false
        ∧ r = render O o a := by
  unfold wordOut inSome
  cases addrOf O w with
  | none => simp
  | some a =>
    simp only [Option.some.injEq, exists_eq_left']
    constructor
    · intro h
      split at h
      · rename_i hc
        simp only [Bool.and_eq_true, List.any_eq_true, Bool.not_eq_true'] at hc
        exact ⟨hc.1, hc.2, (Option.some.inj h).symm⟩
      · cases h
    · rintro ⟨h1, h2, rfl⟩
      have : (subnets.any (fun s => hitA s a) && !excluded O o a) = true := by
        simp only [Bool.and_eq_true, List.any_eq_true, Bool.not_eq_true']
        exact ⟨h1, h2⟩
      rw [if_pos this]

/-- **ipgrep_sublist**: hence the output is a subsequence of the renderings of the input words, in
input order, with one line per kept occurrence (never more lines than words; F22). -/
theorem ipgrep_sublist (O : Oracle) (hd : Disjoint O) (o : Opts) (subnets : List Addr) (words : List Str)
    (hu : o.unique = false) :
    ∃ kept : List Str, kept.Sublist words ∧
      (∀ w ∈ kept, (wordOut O o subnets w).isSome) ∧
      addrMatches O o subnets words = kept.filterMap (wordOut O o subnets) ∧
      (addrMatches O o subnets words).length = kept.length := by
  refine ⟨words.filter (fun w => (wordOut O o subnets w).isSome), List.filter_sublist, ?_, ?_, ?_⟩
  · intro w hw; exact (List.mem_filter.mp hw).2
  · rw [ipgrep_filter O hd o subnets words hu]
    induction words with
    | nil => rfl
    | cons w ws ih =>
      rw [List.filterMap_cons, List.filter_cons]
      cases h : wordOut O o subnets w <;> simp [h, ih]
  · rw [ipgrep_filter O hd o subnets words hu]
    induction words with
    | nil => rfl
    | cons w ws ih =>
      rw [List.filterMap_cons, List.filter_cons]
      cases h : wordOut O o subnets w <;> simp [ih]

/-- **ipgrep_subnets_irrelevant**: the code keeps the requested subnets in a Python `set`
(arbitrary order, duplicates merged); the output only depends on *which* subnets are requested. -/
theorem ipgrep_subnets_irrelevant (O : Oracle) (hd : Disjoint O) (o : Opts) (s1 s2 : List Addr)
    (words : List Str) (hu : o.unique = false) (hs : ∀ s, s ∈ s1 ↔ s ∈ s2) :
    addrMatches O o s1 words = addrMatches O o s2 words := by
  rw [ipgrep_filter O hd o s1 words hu, ipgrep_filter O hd o s2 words hu]
  congr 1
  funext w
  unfold wordOut inSome
  have : ∀ a, s1.any (fun s => hitA s a) = s2.any (fun s => hitA s a) := by
    intro a
    rw [Bool.eq_iff_iff, List.any_eq_true, List.any_eq_true]
    exact ⟨fun ⟨s, h1, h2⟩ => ⟨s, (hs s).mp h1, h2⟩, fun ⟨s, h1, h2⟩ => ⟨s, (hs s).mpr h1, h2⟩⟩
  simp only [this]

/-- **ipgrep_unique_general** (no hypothesis): with `--unique` the output is the first occurrences
of the kept hits of all (word, subnet) pairs. -/
theorem ipgrep_unique_general (O : Oracle) (o : Opts) (subnets : List Addr) (words : List Str)
    (hu : o.unique = true) :
    addrMatches O o subnets words =
      firstOccs (words.flatMap (fun w => subnets.filterMap (hitRender O o w))) :=
  addrMatches_unique O o subnets words hu

/-- **ipgrep_unique**: with `--unique` the output is exactly the first occurrences of the output
without it. -/
theorem ipgrep_unique (O : Oracle) (hd : Disjoint O) (o : Opts) (subnets : List Addr) (words : List Str) :
    addrMatches O { o with unique := true } subnets words =
      firstOccs (addrMatches O { o with unique := false } subnets words) := by
  rw [ipgrep_filter O hd { o with unique := false } subnets words rfl]
  unfold addrMatches firstOccs
  simp only [if_true]
  have h1 : ∀ acc w, wordUnique O { o with unique := true } w subnets acc =
      (match wordOut O { o with unique := false } subnets w with
       | some r => insNew acc r
       | none => acc) := by
    intro acc w
    rw [wordUnique_eq, foldl_hitRender O _ hd]
    rfl
  simp only [h1]
  exact foldl_match_filterMap _ words []

/-- what "first occurrences" means: duplicate free, same members, a subsequence, the head is kept
and removed from the rest; it is core's `List.eraseDups`. -/
theorem firstOccs_spec (l : List Str) :
    (firstOccs l).Nodup ∧ (∀ x, x ∈ firstOccs l ↔ x ∈ l) ∧ (firstOccs l).Sublist l ∧
    firstOccs l = l.eraseDups ∧
    (∀ x xs, l = x :: xs → firstOccs l = x :: firstOccs (xs.filter (fun b => !b == x))) := by
  refine ⟨nodup_foldl_insNew l [] List.nodup_nil, fun x => ?_, ?_,
    firstOccs_eq_eraseDups l.length l (Nat.le_refl _), ?_⟩
  · unfold firstOccs; rw [mem_foldl_insNew]; simp
  · obtain ⟨t, h1, h2⟩ := foldl_insNew_sublist l ([] : List Str)
    unfold firstOccs; rw [h1]; simpa using h2
  · rintro x xs rfl; exact firstOccs_cons x xs

/-- **render_spec**: address, CIDR address or network as requested (`--show-networks` wins). -/
theorem render_spec (O : Oracle) (o : Opts) (a : Addr) :
    (o.showNetworks = true → render O o a = O.txt a.ver a.o.net ++ ['/'] ++ toDec a.o.len) ∧
    (o.showNetworks = false → o.showCidr = true →
      render O o a = O.txt a.ver a.o.ip ++ ['/'] ++ toDec a.o.len) ∧
    (o.showNetworks = false → o.showCidr = false → render O o a = O.txt a.ver a.o.ip) := by
  unfold render cidrNet cidrAddr ipText slash
  refine ⟨fun h => by simp [h], fun h1 h2 => by simp [h1, h2], fun h1 h2 => by simp [h1, h2]⟩

/-- the text compared by the `--unique` bookkeeping is the text that is printed -/
theorem uniqueKey_eq_render (O : Oracle) (o : Opts) (a : Addr) : uniqueKey O o a = render O o a :=
  uniqueKey_eq_render' O o a

/-- **hostExcluded_spec**: what `--exclude-hosts` drops (given an injective address text): host
routes always; an address with host bits set unless networks are shown. -/
theorem hostExcluded_spec (O : Oracle) (o : Opts) (a : Addr)
    (hinj : ∀ v m n, O.txt v m = O.txt v n → m = n) :
    hostExcluded O o a = true ↔
      o.excludeHosts = true ∧
        (a.o.len = a.ver.hostLen ∨ (o.showNetworks = false ∧ a.o.net ≠ a.o.ip)) := by
  have htxt : cidrNet O a = cidrAddr O a ↔ a.o.net = a.o.ip := by
    unfold cidrNet cidrAddr
    constructor
    · intro h
      exact hinj _ _ _ (List.append_cancel_right (List.append_cancel_right h))
    · intro h; rw [h]
  unfold hostExcluded Ver.hostLen
  cases o.excludeHosts
  · simp
  · cases hv : a.ver <;> cases o.showNetworks <;>
      by_cases hl4 : a.o.len = 32 <;> by_cases hl6 : a.o.len = 128 <;>
      simp [hl4, hl6, htxt] <;> omega

/-- no option of the CLI sets `exclude_networks` -/
theorem netExcluded_never (o : Opts) (a : Addr) (h : o.excludeNetworks = false) :
    netExcluded o a = false := by
  unfold netExcluded; simp [h]

/-- **hit_is_containment** (with C12): `addr in subnet` as the grep evaluates it is subnet
containment — same family, the subnet's prefix is not longer, and the leading `len` bits agree. -/
theorem hit_is_containment (s a : Addr) (vs : IPVal.Valid s.ver.fam s.o) (va : IPVal.Valid a.ver.fam a.o) :
    hitA s a = true ↔
      a.ver = s.ver ∧ s.o.len ≤ a.o.len ∧
        a.o.ip >>> (s.ver.fam.w - s.o.len) = s.o.ip >>> (s.ver.fam.w - s.o.len) := by
  unfold hitA containsA
  by_cases hv : a.ver = s.ver
  · rw [hv] at va
    simp only [hv, beq_self_eq_true, Bool.true_and, true_and]
    cases hs : s.ver with
    | v4 =>
      rw [hs] at vs va
      exact IPVal.contains4_iff_prefix _ _ _ vs va
    | v6 =>
      rw [hs] at vs va
      exact IPVal.contains6_iff_prefix _ _ _ vs va
  · have : (a.ver == s.ver) = false := by simpa using hv
    simp [this, hv]

/-! ## ipgrep, line mode -/

/-- **ipgrep_line_filter**: line mode prints, in input order and once each, exactly the lines on
which some word is a kept hit and no word is an excluded hit (the code's `exclude_line`). -/
theorem ipgrep_line_filter (O : Oracle) (o : Opts) (subnets : List Addr) (lines : List Str) :
    lineMatches O o subnets lines =
      lines.filter (fun line =>
        (O.split line).any (fun w => subnets.any (fun s => lineEv O o w s == some false)) &&
        !((O.split line).any (fun w => subnets.any (fun s => lineEv O o w s == some true)))) := by
  unfold lineMatches
  rw [foldl_append_if]
  simp only [List.nil_append]
  apply List.filter_congr
  intro line _
  rw [lineScan_eq, evScan_append]
  simp only [Bool.false_or, List.any_flatMap, List.any_map]
  rfl

/-- **ipgrep_line_filter_plain**: without `--exclude-hosts`, exactly the lines having a word that is
a valid address inside at least one requested subnet. -/
theorem ipgrep_line_filter_plain (O : Oracle) (hd : Disjoint O) (o : Opts) (subnets : List Addr)
    (lines : List Str) (hH : o.excludeHosts = false) (hN : o.excludeNetworks = false) :
    lineMatches O o subnets lines =
      lines.filter (fun line => (O.split line).any (fun w =>
        match addrOf O w with
        | some a => inSome subnets a
        | none => false)) := by
  rw [ipgrep_line_filter]
  apply List.filter_congr
  intro line _
  have hex : ∀ a, excluded O o a = false := by
    intro a; unfold excluded netExcluded hostExcluded; simp [hH, hN]
  have hev : ∀ w s, lineEv O o w s = (hitRender O o w s).map (fun _ => false) := by
    intro w s
    unfold lineEv hitRender
    cases mkAddr O s.ver w with
    | none => rfl
    | some a =>
      have := hex a
      unfold excluded at this
      simp only [Bool.or_eq_false_iff] at this
      simp only [hex, this.1, this.2, Bool.not_false, Bool.and_true]
      cases hitA s a <;> simp
  have hno : (O.split line).any (fun w => subnets.any (fun s => lineEv O o w s == some true)) = false := by
    rw [List.any_eq_false]
    intro w _
    rw [Bool.not_eq_true, List.any_eq_false]
    intro s _
    rw [hev]
    cases hitRender O o w s <;> simp
  rw [hno]
  simp only [Bool.not_false, Bool.and_true]
  congr 1
  funext w
  cases ha : addrOf O w with
  | none =>
    rw [List.any_eq_false]
    intro s _
    rw [hev, hitRender_of_none O o w ha]
    simp
  | some a =>
    simp only [inSome]
    rw [Bool.eq_iff_iff, List.any_eq_true, List.any_eq_true]
    constructor
    · rintro ⟨s, hs, h⟩
      refine ⟨s, hs, ?_⟩
      rw [hev, hitRender_of_addr O o hd w a ha, hex] at h
      cases hh : hitA s a
      · simp [hh] at h
      · rfl
    · rintro ⟨s, hs, h⟩
      refine ⟨s, hs, ?_⟩
      rw [hev, hitRender_of_addr O o hd w a ha, hex, h]
      simp

/-! ## ipgrep as a whole: option plumbing -/

/-- `-4` / `-6` stand for `0.0.0.0/0` / `::/0`; they exclude `-s`; one of the three is required. -/
theorem ipgrep_subnet_options (a : IpArgs) :
    (a.subnets = none → a.ipv4 = true → a.ipv6 = false → effectiveSubnets a = .ok (some "0.0.0.0/0".toList)) ∧
    (a.subnets = none → a.ipv4 = false → a.ipv6 = true → effectiveSubnets a = .ok (some "::/0".toList)) ∧
    (a.subnets = none → a.ipv4 = true → a.ipv6 = true → effectiveSubnets a = .ok (some "0.0.0.0/0,::/0".toList)) ∧
    (a.subnets = none → a.ipv4 = false → a.ipv6 = false → effectiveSubnets a = .ok none) ∧
    (∀ s, a.subnets = some s → (a.ipv4 = true ∨ a.ipv6 = true) → effectiveSubnets a = .error .systemExit) := by
  unfold effectiveSubnets
  refine ⟨?_, ?_, ?_, ?_, ?_⟩
  · intro h1 h2 h3; simp [h1, h2, h3]
  · intro h1 h2 h3; simp [h1, h2, h3]
  · intro h1 h2 h3; simp [h1, h2, h3]
  · intro h1 h2 h3; simp [h1, h2, h3]
  · intro s h1 h2
    rcases h2 with h | h <;> simp [h1, h]

/-- **ipgrep_word_mode**: a run that gets past the option checks prints `addrMatches` of the
`re.split` words of the whole text against the parsed `--subnets` items; `--show-networks`
implies `--show-cidr`. -/
theorem ipgrep_word_mode (O : Oracle) (a : IpArgs) (sub : Str) (subs : List Addr)
    (h1 : effectiveSubnets a = .ok (some sub))
    (h2 : (splitOn ',' sub).mapM (parseSubnet O) = .ok subs) (hl : a.line = false) :
    ipgrep O a = .ok (addrMatches O
      ⟨a.showNetworks || a.showCidr, a.showNetworks, a.excludeHosts, false, a.unique⟩ subs (O.split a.text)) := by
  unfold ipgrep
  simp only [h1, bind, Except.bind, h2, hl]
  cases a.showNetworks <;> simp

/-- **ipgrep_line_mode**: with `--line` (and neither `--show-cidr` nor `--show-networks`) it prints
`lineMatches` of `text.splitlines()`. -/
theorem ipgrep_line_mode (O : Oracle) (a : IpArgs) (sub : Str) (subs : List Addr)
    (h1 : effectiveSubnets a = .ok (some sub))
    (h2 : (splitOn ',' sub).mapM (parseSubnet O) = .ok subs) (hl : a.line = true)
    (hc : a.showCidr = false) (hn : a.showNetworks = false) :
    ipgrep O a = .ok (lineMatches O ⟨false, false, a.excludeHosts, false, a.unique⟩ subs
      (Diff.splitlines a.text)) := by
  unfold ipgrep
  simp only [h1, bind, Except.bind, h2, hl, hc, hn]
  simp

/-! ## macgrep -/

/-- a word counts iff it is a MAC / EUI-64 and some regex finds some spelling of it -/
theorem macWordMatches_iff (O : Oracle) (regexes : List Str) (w : Str) :
    macWordMatches O regexes w = true ↔
      ∃ k v, macOf w = some (k, v) ∧ ∃ r ∈ regexes, ∃ t ∈ macTexts k v, O.rx r t = true := by
  unfold macWordMatches searchAllFormats
  cases macOf w with
  | none => simp
  | some kv =>
    obtain ⟨k, v⟩ := kv
    simp only [List.any_eq_true, Option.some.injEq, Prod.mk.injEq]
    constructor
    · rintro ⟨r, hr, t, ht, h⟩; exact ⟨k, v, ⟨rfl, rfl⟩, r, hr, t, ht, h⟩
    · rintro ⟨k', v', ⟨rfl, rfl⟩, r, hr, t, ht, h⟩; exact ⟨r, hr, t, ht, h⟩

/-- the spellings a regex is tried on are C16's renderings -/
theorem macTexts_spec (k : Mac.Kind) (v : Nat) :
    macTexts k v = [Mac.dash k v, Mac.colon k v, Mac.cisco k v, (Mac.dash k v).filter (· != '-')] := rfl

/-- **macgrep_word_is_mac** (with C16): `MACEUISearch` classifies a word as kind `k` (MAC or
EUI-64) with value `v` exactly when C16's constructor of that kind accepts the word with that
value — i.e. (C16 `accepted_iff`) when it instantiates one of the four spellings of that size, in
any letter case. -/
theorem macgrep_word_is_mac (w : Str) (k : Mac.Kind) (v : Nat) :
    macOf w = some (k, v) ↔ Mac.parseObj k w = .ok v := macOf_iff w k v

/-- **macgrep_filter**: word mode prints exactly the matching words, in input order, once per
occurrence, as they are written. -/
theorem macgrep_filter (O : Oracle) (regexes : List Str) (words : List Str) :
    macAddrMatches O regexes false words = words.filter (macWordMatches O regexes) := by
  unfold macAddrMatches
  simp only [Bool.false_eq_true, if_false]
  rw [foldl_append_if]
  rfl

/-- **macgrep_unique**: with `--unique`, the first occurrences (by spelling) of that output. -/
theorem macgrep_unique (O : Oracle) (regexes : List Str) (words : List Str) :
    macAddrMatches O regexes true words = firstOccs (macAddrMatches O regexes false words) := by
  rw [macgrep_filter]
  unfold macAddrMatches firstOccs
  simp only [if_true]
  have key : ∀ acc : List Str,
      words.foldl (fun acc w => if macWordMatches O regexes w then
        (if acc.contains w then acc else acc ++ [w]) else acc) acc
      = (words.filter (macWordMatches O regexes)).foldl insNew acc := by
    induction words with
    | nil => intro acc; rfl
    | cons w ws ih =>
      intro acc
      rw [List.foldl_cons, List.filter_cons]
      cases h : macWordMatches O regexes w
      · simpa using ih acc
      · simp only [if_true, List.foldl_cons]
        rw [ih]
        rfl
  exact key []

/-- **macgrep_line_filter**: line mode prints, in order and once each, exactly the lines having a
matching word. -/
theorem macgrep_line_filter (O : Oracle) (regexes : List Str) (lines : List Str) :
    macLineMatches O regexes lines =
      lines.filter (fun line => (O.split line).any (macWordMatches O regexes)) := by
  unfold macLineMatches
  rw [foldl_append_if]
  simp only [List.nil_append]
  apply List.filter_congr
  intro line _
  exact macLineHas_eq O regexes line

/-- `macgrep` dispatch: the regex list is the comma separated `-r` value; word mode works on
`re.split(delim, text)`, line mode on `text.splitlines()`. -/
theorem macgrep_modes (O : Oracle) (a : MacArgs) :
    (a.line = false → macgrep O a = macAddrMatches O (splitOn ',' a.regex) a.unique (O.split a.text)) ∧
    (a.line = true → macgrep O a = macLineMatches O (splitOn ',' a.regex) (Diff.splitlines a.text)) := by
  unfold macgrep
  exact ⟨fun h => by simp [h], fun h => by simp [h]⟩

/-! ## parent / child / branch / diff print what the API returns -/

/-- **cli_is_api_parent**: `ccp parent -a ARGS -d DELIM -s SYNTAX FILE…` prints, file after file,
the `.text` of `CiscoConfParse(config=FILE, syntax=SYNTAX).find_parent_objects(ARGS.split(DELIM))`
— every other argument of both calls at its default; the first exception ends the run.
(The `-A` / `--all_children` flag is stored and never used.) -/
theorem cli_is_api_parent (A : Api) (a : FindArgs) (h : a.output = rawText) :
    parentCmd A a = (do
      let terms ← splitStr a.delimiter a.args
      let outs ← a.files.mapM (fun f => do
        let p ← A.parse f a.syn
        let objs ← p.findParentObjects terms
        pure (objs.map Line.text))
      pure outs.flatten) := by
  unfold parentCmd
  cases splitStr a.delimiter a.args with
  | error e => rfl
  | ok terms =>
    simp only [bind, Except.bind, h, if_true, forFiles_eq]
    rfl

/-- **cli_is_api_child**: the same with `find_child_objects`. -/
theorem cli_is_api_child (A : Api) (a : FindArgs) (h : a.output = rawText) :
    childCmd A a = (do
      let terms ← splitStr a.delimiter a.args
      let outs ← a.files.mapM (fun f => do
        let p ← A.parse f a.syn
        let objs ← p.findChildObjects terms
        pure (objs.map Line.text))
      pure outs.flatten) := by
  unfold childCmd
  cases splitStr a.delimiter a.args with
  | error e => rfl
  | ok terms =>
    simp only [bind, Except.bind, h, if_true, forFiles_eq]
    rfl

/-- **cli_is_api_branch_raw**: `ccp branch` (raw_text, at least two terms) prints the `.text` of
every line of every branch of `find_object_branches(terms)`, branch after branch. -/
theorem cli_is_api_branch_raw (A : Api) (a : FindArgs) (terms : List Str) (h : a.output = rawText)
    (ht : splitStr a.delimiter a.args = .ok terms) (h2 : terms.length ≠ 1) :
    branchCmd A a = (do
      let outs ← a.files.mapM (fun f => do
        let p ← A.parse f a.syn
        let bs ← p.findObjectBranches terms
        let ts ← bs.mapM branchTexts
        pure ts.flatten)
      pure outs.flatten) := by
  unfold branchCmd
  simp only [ht, bind, Except.bind, h, if_true, forFiles_eq, h2, if_false]
  rfl

/-- with a single term, raw_text output is refused -/
theorem branch_raw_one_term (A : Api) (a : FindArgs) (t : Str) (f : Str) (fs : List Str) (p : Parse)
    (h : a.output = rawText) (ht : splitStr a.delimiter a.args = .ok [t]) (hf : a.files = f :: fs)
    (hp : A.parse f a.syn = .ok p) :
    branchCmd A a = .error .notImplemented := by
  unfold branchCmd forFiles
  simp [ht, bind, Except.bind, h, hf, hp]

/-- a branch without `None` prints the texts of its lines -/
theorem branchTexts_some (b : List Line) : branchTexts (b.map some) = .ok (b.map Line.text) := by
  unfold branchTexts
  induction b with
  | nil => rfl
  | cons l ls ih =>
    rw [List.map_cons, List.mapM_cons, List.map_cons]
    simp only [bind, Except.bind]
    rw [ih]
    rfl

/-- **cli_is_api_branch_original**: `ccp branch -o original` with several terms prints the lines of
all branches of `find_object_branches(terms)`, each line once, in line-number order. -/
theorem cli_is_api_branch_original (A : Api) (a : FindArgs) (terms : List Str) (h : a.output = original)
    (ht : splitStr a.delimiter a.args = .ok terms) (h2 : terms.length ≠ 1) :
    branchCmd A a = (do
      let outs ← a.files.mapM (fun f => do
        let p ← A.parse f a.syn
        let bs ← p.findObjectBranches terms
        let s ← bs.foldlM (fun s b => b.foldlM (fun s o => match o with
          | some l => pure (setAdd s l)
          | none => .error .attributeError) s) []
        pure ((sortLines s).map Line.text))
      pure outs.flatten) := by
  have hne : original ≠ rawText := by decide
  unfold branchCmd
  simp only [ht, bind, Except.bind, h, hne, if_true, if_false, forFiles_eq, h2]
  rfl

/-- `sortLines` is ascending in `linenum` and keeps exactly the lines it is given -/
theorem sortLines_spec (s : List Line) :
    (sortLines s).Pairwise (fun x y => x.linenum ≤ y.linenum) ∧ ∀ l, l ∈ sortLines s ↔ l ∈ s := by
  have hins : ∀ (x : Line) (l : List Line), l.Pairwise (fun x y => x.linenum ≤ y.linenum) →
      (insertLine x l).Pairwise (fun x y => x.linenum ≤ y.linenum) ∧ ∀ z, z ∈ insertLine x l ↔ z = x ∨ z ∈ l := by
    intro x l
    induction l with
    | nil => intro _; simp [insertLine]
    | cons y ys ih =>
      intro hp
      rw [List.pairwise_cons] at hp
      obtain ⟨ih1, ih2⟩ := ih hp.2
      unfold insertLine
      by_cases hlt : x.linenum < y.linenum
      · simp only [hlt, if_true]
        refine ⟨?_, by simp⟩
        rw [List.pairwise_cons]
        refine ⟨?_, List.pairwise_cons.mpr hp⟩
        intro z hz
        rcases List.mem_cons.mp hz with rfl | hz
        · omega
        · have := hp.1 z hz; omega
      · simp only [hlt, if_false]
        refine ⟨?_, ?_⟩
        · rw [List.pairwise_cons]
          refine ⟨?_, ih1⟩
          intro z hz
          rcases (ih2 z).mp hz with rfl | hz
          · omega
          · exact hp.1 z hz
        · intro z
          rw [List.mem_cons, ih2, List.mem_cons]
          constructor
          · rintro (h | h | h)
            · exact Or.inr (Or.inl h)
            · exact Or.inl h
            · exact Or.inr (Or.inr h)
          · rintro (h | h | h)
            · exact Or.inr (Or.inl h)
            · exact Or.inl h
            · exact Or.inr (Or.inr h)
  unfold sortLines
  induction s with
  | nil => simp
  | cons x xs ih =>
    rw [List.foldr_cons]
    obtain ⟨a, b⟩ := hins x _ ih.1
    refine ⟨a, fun l => ?_⟩
    rw [b, ih.2, List.mem_cons]

/-- **cli_is_api_diff**: `ccp diff -m METHOD F0 F1` prints `Diff(open(F0).read(), open(F1).read(),
syntax=<what diffSyntaxPassed says>)` `.get_diff()` for `-m diff`, `.get_rollback()` for
`-m rollback` (F23). -/
theorem cli_is_api_diff (A : Api) (f0 f1 : Str) (m syn : Str) :
    diffCmd A ⟨[f0, f1], m, syn⟩ = (do
      let old ← A.read f0
      let new ← A.read f1
      let d ← A.diff old new (diffSyntaxPassed ⟨[f0, f1], m, syn⟩)
      if m = mDiff then pure d.1 else if m = mRollback then pure d.2 else .error .valueError) := rfl

/-- **diff_honours_syntax** (after the repair of F48): the syntax handed to `Diff` is the `-s` value. -/
theorem diff_honours_syntax (a : DiffArgs) : diffSyntaxPassed a = a.syn := rfl

/-! ## the Namespace level: input source, `exclude_networks`, unknown command (model `Ccp.Model.CliNs`) -/

/-- **The text may come from a file or from standard input — it is the same grep.** -/
theorem grep_source_irrelevant (O : Oracle) (a : IpArgs) (m : MacArgs) (t : Str) :
    ipgrepFrom O a false (.file t) = ipgrep O { a with text := t } ∧
    ipgrepFrom O a false (.stdin t) = ipgrep O { a with text := t } ∧
    macgrepFrom O m (.file t) = .ok (macgrep O { m with text := t }) ∧
    macgrepFrom O m (.stdin t) = .ok (macgrep O { m with text := t }) :=
  ⟨rfl, rfl, rfl, rfl⟩

/-- without a FILE argument and with a terminal as standard input there is nothing to grep: both greps end with
the argument parser's error (`SystemExit`), before any other option is looked at -/
theorem grep_needs_input (O : Oracle) (a : IpArgs) (xn : Bool) (m : MacArgs) :
    ipgrepFrom O a xn .ttyNoFile = .error .systemExit ∧ macgrepFrom O m .ttyNoFile = .error .systemExit :=
  ⟨rfl, rfl⟩

/-- `exclude_networks` (an attribute of the Namespace that no command-line option sets): with `false` this is
`ipgrep`; with any value the word mode is `addrMatches` and the line mode `lineMatches` for `Opts` carrying that
value — so `ipgrep_filter`, `ipgrep_unique`, `ipgrep_line_filter` (stated for every `Opts`) describe these runs too -/
theorem ipgrepX_modes (O : Oracle) (a : IpArgs) (xn : Bool) (sub : Str) (subs : List Addr)
    (h1 : effectiveSubnets a = .ok (some sub))
    (h2 : (splitOn ',' sub).mapM (parseSubnet O) = .ok subs) :
    ipgrepX O a false = ipgrep O a ∧
    (a.line = false → ipgrepX O a xn = .ok (addrMatches O
      ⟨a.showNetworks || a.showCidr, a.showNetworks, a.excludeHosts, xn, a.unique⟩ subs (O.split a.text))) ∧
    (a.line = true → a.showCidr = false → a.showNetworks = false →
      ipgrepX O a xn = .ok (lineMatches O ⟨false, false, a.excludeHosts, xn, a.unique⟩ subs (Diff.splitlines a.text))) := by
  refine ⟨rfl, ?_, ?_⟩
  · intro hl
    unfold ipgrepX
    simp only [h1, bind, Except.bind, h2, hl]
    cases a.showNetworks <;> simp
  · intro hl hc hn
    unfold ipgrepX
    simp only [h1, bind, Except.bind, h2, hl, hc, hn]
    simp

/-- what `exclude_networks` excludes: every hit that is not a host (/32 resp. /128) -/
theorem netExcluded_spec (o : Opts) (a : Addr) (h : o.excludeNetworks = true) :
    netExcluded o a = !(a.o.len == a.ver.hostLen) := by
  unfold netExcluded
  rw [h]
  cases hv : a.ver
  · by_cases hl : a.o.len = 32 <;> simp [Ver.hostLen, hl]
  · by_cases hl : a.o.len = 128 <;> simp [Ver.hostLen, hl]

/-- a Namespace whose `command` is none of the six sub-commands is refused with ValueError -/
theorem other_command_rejected (name : Str) (h : name ∉ commands) : otherCommand name = some .valueError := by
  unfold otherCommand
  simp [h]

/-! ## non-vacuity -/

section Examples

def w6 : Str := "::1".toList

/-- a toy oracle: blank-separated words; five IPv4 words and one IPv6 word are known -/
def exO : Oracle where
  split := fun s => (splitOn ' ' s)
  ip4 := fun w =>
    if w = "10.0.0.1".toList then some (0x0A000001, 32)
    else if w = "10.0.0.1/24".toList then some (0x0A000001, 24)
    else if w = "10.0.0.0/8".toList then some (0x0A000000, 8)
    else if w = "10.0.0.0/24".toList then some (0x0A000000, 24)
    else if w = "11.0.0.1".toList then some (0x0B000001, 32)
    else none
  ip6 := fun w => if w = w6 then some (1, 128) else none
  txt := fun v n => match v with
    | .v4 => if n = 0x0A000001 then "10.0.0.1".toList else if n = 0x0A000000 then "10.0.0.0".toList
        else "11.0.0.1".toList
    | .v6 => w6
  rx := fun r t => r.isPrefixOf t

def exSubs : List Addr :=
  [⟨.v4, IPVal.ofIpLen IPVal.v4 0x0A000000 24⟩, ⟨.v4, IPVal.ofIpLen IPVal.v4 0x0A000000 8⟩]

def exWords : List Str :=
  ["x".toList, "10.0.0.1".toList, "11.0.0.1".toList, "10.0.0.1/24".toList, w6, "10.0.0.1".toList]

theorem exO_disjoint : Disjoint exO := by
  intro w
  by_cases h : w = w6
  · left; subst h; decide
  · right
    show (if w = w6 then some ((1 : Nat), (128 : Nat)) else none) = none
    rw [if_neg h]

-- a word inside both requested subnets is printed once per occurrence (F22), others dropped
example : addrMatches exO ⟨false, false, false, false, false⟩ exSubs exWords
    = ["10.0.0.1".toList, "10.0.0.1".toList, "10.0.0.1".toList] := by decide +kernel
-- `--unique`
example : addrMatches exO ⟨false, false, false, false, true⟩ exSubs exWords = ["10.0.0.1".toList] := by
  decide +kernel
-- `--show-networks --exclude-hosts`: only the /24 network remains
example : addrMatches exO ⟨true, true, true, false, false⟩ exSubs exWords = ["10.0.0.0/24".toList] := by
  decide +kernel
-- line mode: with `--exclude-hosts` a line holding a host is dropped
example : lineMatches exO ⟨false, false, false, false, false⟩ exSubs
    ["a 10.0.0.0/24 10.0.0.1".toList, "11.0.0.1 ::1".toList, "10.0.0.0/24".toList]
    = ["a 10.0.0.0/24 10.0.0.1".toList, "10.0.0.0/24".toList] := by decide +kernel
example : lineMatches exO ⟨false, false, true, false, false⟩ exSubs
    ["a 10.0.0.0/24 10.0.0.1".toList, "11.0.0.1 ::1".toList, "10.0.0.0/24".toList]
    = ["10.0.0.0/24".toList] := by decide +kernel
-- macgrep over three spellings of one address, `--unique` is by spelling
example : macAddrMatches exO ["dead".toList] false
    ["dead.beef.0001".toList, "x".toList, "DE-AD-BE-EF-00-01".toList, "00:ad:be:ef:00:01".toList, "dead.beef.0001".toList]
    = ["dead.beef.0001".toList, "DE-AD-BE-EF-00-01".toList, "dead.beef.0001".toList] := by decide +kernel
example : macOf "dead.beef.0001.0002".toList = some (.eui64, 0xdeadbeef00010002) := by decide +kernel
example : (splitStr "::".toList "a::b:c::".toList).toOption = some ["a".toList, "b:c".toList, []] := by
  decide +kernel

-- `exclude_networks`: the /24 spelling is dropped, the host spellings stay (word mode, not unique)
example : addrMatches exO ⟨false, false, false, true, false⟩ exSubs exWords
    = ["10.0.0.1".toList, "10.0.0.1".toList] := by decide +kernel
-- `other_command_rejected`: the hypothesis is satisfiable
example : "frobnicate".toList ∉ commands := by decide

end Examples

end Ccp.C18
