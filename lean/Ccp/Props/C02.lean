import Ccp.Spec.Indent
import Ccp.Proofs.TreeLink
import Ccp.Proofs.TreeLossless
import Ccp.Proofs.TreeKeep
/-!
# C02 — parent/child links follow the indentation rule

The specification (`Ccp/Spec/Indent.lean`): `specParent infos i` is `i` itself (a root) when
line `i` is not indented, or is a comment whose directly preceding line is indented deeper;
otherwise it is the largest `j < i` such that line `j` is a configuration line (not blank, not
a comment) indented strictly less than line `i`, and `i` if there is no such line.
`specChildren infos p` lists the `i ≠ p` with `specParent infos i = p`, ascending.

Property theorems only; helper lemmas live in `Ccp.Proofs.TreeLink` / `Ccp.Proofs.TreeLossless`.
-/
namespace Ccp.C02
open Ccp.Tree Ccp.Py

/-- what the loop should settle on before the comment exception (`Proofs.TreeLink.candSpec`):
nothing for an unindented line, else the walk-back answer over the processed lines. -/
example (rp : List (Nat × Info)) (l : Info) :
    candSpec rp l = if l.indent = 0 then none else walkBack rp l.indent := rfl

/-- **Cache invariant** of the bootstrap loop.  `CacheInv cache mx revPre` says: every cached
entry `k ↦ p` is the walk-back answer for indent `k` over the processed lines `revPre`, and
`0 < k ≤ mx` (`mx` = `max_indent`).  It holds for the initial state and every iteration
preserves it, for every state and every line; under it the parent chosen by the iteration
is the specified candidate passed through the comment exception (cached hit = walk-back). -/
theorem cache_inv :
    CacheInv St.init.cache St.init.mx St.init.revPre ∧
    ∀ (st : St) (i : Nat) (l : Info), CacheInv st.cache st.mx st.revPre →
      CacheInv (step st i l).1.cache (step st i l).1.mx (step st i l).1.revPre ∧
      (step st i l).2 = attach st.revPre i l (candSpec st.revPre l) :=
  ⟨cacheInv_init, fun st i l h => ⟨(step_correct st i l h).2, (step_correct st i l h).1⟩⟩

/-- the invariant, unfolded (so that the statement above can be read without the helper file) -/
example (cache : Cache) (mx : Nat) (rp : List (Nat × Info)) :
    CacheInv cache mx rp ↔
      ∀ k p, lookup cache k = some p → walkBack rp k = some p ∧ 0 < k ∧ k ≤ mx := Iff.rfl

/-- `nearestShallower infos k n` is the largest `j < n` whose line is a configuration line
indented less than `k` … -/
theorem nearestShallower_some (infos : List Info) (k n j : Nat) :
    nearestShallower infos k n = some j ↔
      j < n ∧ (∃ l, infos[j]? = some l ∧ l.isCfg = true ∧ l.indent < k) ∧
      ∀ m l, j < m → m < n → infos[m]? = some l → ¬ (l.isCfg = true ∧ l.indent < k) :=
  nearestShallower_eq_some infos k n j

/-- … and `none` exactly when there is no such line. -/
theorem nearestShallower_none (infos : List Info) (k n : Nat) :
    nearestShallower infos k n = none ↔
      ∀ m l, m < n → infos[m]? = some l → ¬ (l.isCfg = true ∧ l.indent < k) :=
  nearestShallower_eq_none infos k n

/-- **The specification, read declaratively.**  For a line `i` with info `l`:
an unindented line and a comment under a deeper line are roots; otherwise `p` is the parent
iff either `p = i` and no earlier configuration line is indented less, or `p < i` is a
configuration line indented less than `l` and no line strictly between `p` and `i` is. -/
theorem specParent_spec (infos : List Info) (i : Nat) (l : Info) (hl : infos[i]? = some l) :
    ((l.indent = 0 ∨ commentUnderDeeper infos i = true) → specParent infos i = i) ∧
    (¬ (l.indent = 0 ∨ commentUnderDeeper infos i = true) → ∀ p, specParent infos i = p ↔
      (p = i ∧ ∀ m k, m < i → infos[m]? = some k → ¬ (k.isCfg = true ∧ k.indent < l.indent)) ∨
      (p < i ∧ (∃ k, infos[p]? = some k ∧ k.isCfg = true ∧ k.indent < l.indent) ∧
        ∀ m k, p < m → m < i → infos[m]? = some k → ¬ (k.isCfg = true ∧ k.indent < l.indent))) := by
  unfold specParent
  rw [hl]
  refine ⟨fun h => by simp [h], fun h p => ?_⟩
  simp only [h, if_false]
  cases hn : nearestShallower infos l.indent i with
  | none =>
    have h0 := (nearestShallower_eq_none infos l.indent i).mp hn
    constructor
    · intro hp; exact Or.inl ⟨hp.symm, h0⟩
    · rintro (⟨hp, _⟩ | ⟨hp, ⟨k, hk, hc⟩, _⟩)
      · exact hp.symm
      · exact absurd hc (h0 p k hp hk)
  | some q =>
    obtain ⟨hq, hc, hbetween⟩ := (nearestShallower_eq_some infos l.indent i q).mp hn
    constructor
    · intro hp
      have : q = p := by simpa using hp
      subst this; exact Or.inr ⟨hq, hc, hbetween⟩
    · rintro (⟨_, hnone⟩ | hp)
      · obtain ⟨k, hk, hc'⟩ := hc
        exact absurd hc' (hnone q k hq hk)
      · have := (nearestShallower_eq_some infos l.indent i p).mpr hp
        rw [hn] at this
        simpa using this

/-- **Pass 1 computes the specification**: for every configuration of the parser and every
list of lines, `linkByIndent` returns one parent per line and the parent of line `i` is
`specParent` of the line infos.  No hypotheses. -/
theorem linkByIndent_eq_spec (cfg : Cfg) (ls : List Str) :
    (linkByIndent cfg ls).length = ls.length ∧
    ∀ i, i < ls.length → (linkByIndent cfg ls)[i]? = some (specParent (ls.map (info cfg)) i) := by
  rw [linkByIndent_eq_map]
  refine ⟨by simp, fun i hi => ?_⟩
  simp [hi]

/-- the derived child lists are exactly the specified children, for every tree whose parents
are the specified ones (in particular the tree after pass 1 and, by `parse_links_eq_spec`,
the final tree of a config without banner / macro starts) -/
theorem children_eq_spec (t : T) (infos : List Info) (hlen : infos.length = t.size)
    (hpar : t.parents = (List.range t.size).map (specParent infos)) (p : Nat) :
    children t p = specChildren infos p := by
  unfold children specChildren
  rw [hlen]
  apply List.filter_congr
  intro j hj
  have hj' : j < t.size := List.mem_range.mp hj
  simp [parentOf, hpar, hj']

theorem linkByIndent_children (cfg : Cfg) (ls : List Str) (keep : List Bool) (p : Nat) :
    children { texts := ls, parents := linkByIndent cfg ls, keep := keep } p =
      specChildren (ls.map (info cfg)) p :=
  children_eq_spec _ _ (by simp [T.size]) (by simp [T.size, linkByIndent_eq_map]) p

/-- **Final tree**: if no line is a banner start, no line is a macro start under syntax ios,
and `ignore_blank_lines` is off (the property's "outside banner/macro bodies"), the tree
returned by `parse` (bootstrap + commit) keeps the texts, its parents are `specParent` and
its child lists are `specChildren`. -/
theorem parse_links_eq_spec (cfg : Cfg) (ls : List Str)
    (hb : ∀ x ∈ ls, isBannerStart x = false)
    (hm : cfg.ios = true → ∀ x ∈ ls, isMacroStart x = false)
    (hi : cfg.ignoreBlank = false) :
    (parse cfg ls).texts = ls ∧
    (parse cfg ls).parents = (List.range ls.length).map (specParent (ls.map (info cfg))) ∧
    ∀ p, children (parse cfg ls) p = specChildren (ls.map (info cfg)) p := by
  have h : parse cfg ls = { texts := ls, parents := linkByIndent cfg ls, keep := ls.map (fun _ => false) } := by
    rw [parse_eq_bootstrap, bootstrap, bootstrapFuel_noIgnore cfg hi, link_plain cfg ls hb hm]
  rw [h]
  exact ⟨rfl, linkByIndent_eq_map cfg ls, fun p => linkByIndent_children cfg ls _ p⟩

/-- the same with `ignore_blank_lines` on: the blank lines go, and the links of the result are
the specification applied to the remaining lines -/
theorem parse_links_eq_spec_ignore_blank (cfg : Cfg) (ls : List Str)
    (hb : ∀ x ∈ ls, isBannerStart x = false)
    (hm : cfg.ios = true → ∀ x ∈ ls, isMacroStart x = false)
    (hi : cfg.ignoreBlank = true) :
    (parse cfg ls).texts = ls.filter nonBlank ∧
    (parse cfg ls).parents =
      (List.range (ls.filter nonBlank).length).map (specParent ((ls.filter nonBlank).map (info cfg))) ∧
    ∀ p, children (parse cfg ls) p = specChildren ((ls.filter nonBlank).map (info cfg)) p := by
  have ht : (bootstrap cfg ls).texts = ls.filter nonBlank := by
    rw [bootstrap_texts_eq_scan cfg hi, keptScan_plain cfg ls hb hm]
  have h : parse cfg ls = { texts := ls.filter nonBlank, parents := linkByIndent cfg (ls.filter nonBlank),
                            keep := (ls.filter nonBlank).map (fun _ => false) } := by
    rw [parse_eq_bootstrap, bootstrap, bootstrapFuel_is_link]
    show link cfg (bootstrap cfg ls).texts = _
    rw [ht, link_plain cfg _ (fun x hx => hb x (List.mem_filter.mp hx).1)
      (fun hios x hx => hm hios x (List.mem_filter.mp hx).1)]
  rw [h]
  exact ⟨rfl, linkByIndent_eq_map cfg _, fun p => linkByIndent_children cfg _ _ p⟩

/-- **Syntax independence**, pass 1: the links depend on the configuration only through the
comment delimiters — not on the syntax (`cfg.ios`), not on `ignore_blank_lines`. -/
theorem links_syntax_independent (cfg cfg' : Cfg) (ls : List Str) (hd : cfg.delims = cfg'.delims) :
    linkByIndent cfg ls = linkByIndent cfg' ls := by
  unfold linkByIndent; rw [info_delims cfg cfg' hd]

/-- **Syntax independence**, final tree: same lines, same delimiters, no banner start, no
`macro name` line (so that the hypothesis does not depend on the syntax), blank lines kept
⇒ the same parents and the same child lists whatever the two syntaxes are. -/
theorem parse_links_syntax_independent (cfg cfg' : Cfg) (ls : List Str)
    (hd : cfg.delims = cfg'.delims)
    (hb : ∀ x ∈ ls, isBannerStart x = false) (hm : ∀ x ∈ ls, isMacroStart x = false)
    (hi : cfg.ignoreBlank = false) (hi' : cfg'.ignoreBlank = false) :
    (parse cfg ls).parents = (parse cfg' ls).parents ∧
    ∀ p, children (parse cfg ls) p = children (parse cfg' ls) p := by
  obtain ⟨_, h1, h2⟩ := parse_links_eq_spec cfg ls hb (fun _ => hm) hi
  obtain ⟨_, h1', h2'⟩ := parse_links_eq_spec cfg' ls hb (fun _ => hm) hi'
  rw [info_delims cfg cfg' hd] at h1 h2
  exact ⟨h1.trans h1'.symm, fun p => (h2 p).trans (h2' p).symm⟩

/-! ## non-vacuity -/

private def iosCfg : Cfg := { ios := true, delims := ['!'], ignoreBlank := false }
private def nxosCfg : Cfg := { ios := false, delims := ['!'], ignoreBlank := false }

/-- seven lines; a comment under a deeper line (line 3), then a dedent and a re-indent -/
private def ex7 : List Str :=
  ["a".toList, " b".toList, "  c".toList, " !x".toList, " d".toList, "   e".toList, "  f".toList]

example : linkByIndent iosCfg ex7 = [0, 0, 1, 3, 0, 4, 4] := by decide
example : (List.range 7).map (specParent (ex7.map (info iosCfg))) = [0, 0, 1, 3, 0, 4, 4] := by decide
example : specChildren (ex7.map (info iosCfg)) 0 = [1, 4] ∧ specChildren (ex7.map (info iosCfg)) 4 = [5, 6] := by decide
example : (parse iosCfg ex7).parents = [0, 0, 1, 3, 0, 4, 4] ∧ (parse nxosCfg ex7).parents = [0, 0, 1, 3, 0, 4, 4] := by decide
/-- the hypotheses of `parse_links_eq_spec` / `parse_links_syntax_independent` are satisfiable -/
example : (∀ x ∈ ex7, isBannerStart x = false) ∧ (∀ x ∈ ex7, isMacroStart x = false) := by decide
example : (parse { iosCfg with ignoreBlank := true } ["a".toList, "".toList, " b".toList, "  ".toList, "  c".toList]).parents
    = [0, 0, 1] := by decide
/-- a cached parent is really used and really pruned: indents 1,2,2 (hit), then 1 (prune), 2 -/
example : linkByIndent iosCfg ["a".toList, " b".toList, "  c".toList, "  d".toList, " e".toList, "  f".toList]
    = [0, 0, 1, 1, 0, 4] := by decide
/-- the hypotheses matter: a banner body is *not* linked by indentation -/
example : (parse iosCfg ["banner motd ^".toList, " x".toList, "  y".toList, "^".toList]).parents = [0, 0, 0, 0] := by decide

end Ccp.C02
