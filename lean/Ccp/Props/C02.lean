import Ccp.Spec.Indent
import Ccp.Proofs.TreeLink
import Ccp.Proofs.TreeLossless
import Ccp.Proofs.TreeKeep
import Ccp.Spec.BannerLinks
import Ccp.Proofs.TreeBanner
/-!
# C02 — parent/child links follow the indentation rule

The specification (`Ccp/Spec/Indent.lean`): `specParent infos i` is `i` itself (a root) when
line `i` is not indented, or is a comment whose directly preceding line is indented deeper;
otherwise it is the largest `j < i` such that line `j` is a configuration line (not blank, not
a comment) indented strictly less than line `i`, and `i` if there is no such line.
`specChildren infos p` lists the `i ≠ p` with `specParent infos i = p`, ascending.

The specification with banner and macro bodies included (`Ccp/Spec/BannerLinks.lean`):
`specParentFull cfg ls i` is the last `macro name` line (syntax ios) whose stretch reaches line
`i`; else the last banner start whose stretch reaches `i`; else `specParent`.  The stretch of a
banner start = the following lines up to and including the first one containing the delimiter
(to the end of the config if there is none); of a macro start = up to and including the first
`@` line.  See the second half of this file.

Property theorems only; helper lemmas live in `Ccp.Proofs.TreeLink` / `Ccp.Proofs.TreeLossless` /
`Ccp.Proofs.TreeBanner`.
-/
namespace Ccp.C02
open Ccp.Tree Ccp.Py

/-- what the loop should settle on before the comment exception (`Proofs.TreeLink.candSpec`):
nothing for an unindented line, else the walk-back answer over the processed lines. -/
example (rp : List (Nat × Info)) (l : Info) :
    candSpec rp l = if l.indent = 0 then none else walkBack rp l.indent := rfl

/-- **Cache invariant** of the bootstrap loop.  `CacheInv cache mx revPre` says: every cached
entry `k ↦ p` is the walk-back answer for indent `k` over the processed lines `revPre`, and
`0 < k ≤ mx` (`mx` = `max_indent`).  It holds for the initial state and every iteration
preserves it, for every state and every line; under it the parent chosen by the iteration
is the specified candidate passed through the comment exception (cached hit = walk-back). -/
theorem cache_inv :
    CacheInv St.init.cache St.init.mx St.init.revPre ∧
    ∀ (st : St) (i : Nat) (l : Info), CacheInv st.cache st.mx st.revPre →
      CacheInv (step st i l).1.cache (step st i l).1.mx (step st i l).1.revPre ∧
      (step st i l).2 = attach st.revPre i l (candSpec st.revPre l) :=
  ⟨cacheInv_init, fun st i l h => ⟨(step_correct st i l h).2, (step_correct st i l h).1⟩⟩

/-- the invariant, unfolded (so that the statement above can be read without the helper file) -/
example (cache : Cache) (mx : Nat) (rp : List (Nat × Info)) :
    CacheInv cache mx rp ↔
      ∀ k p, lookup cache k = some p → walkBack rp k = some p ∧ 0 < k ∧ k ≤ mx := Iff.rfl

/-- `nearestShallower infos k n` is the largest `j < n` whose line is a configuration line
indented less than `k` … -/
theorem nearestShallower_some (infos : List Info) (k n j : Nat) :
    nearestShallower infos k n = some j ↔
      j < n ∧ (∃ l, infos[j]? = some l ∧ l.isCfg = true ∧ l.indent < k) ∧
      ∀ m l, j < m → m < n → infos[m]? = some l → ¬ (l.isCfg = true ∧ l.indent < k) :=
  nearestShallower_eq_some infos k n j

/-- … and `none` exactly when there is no such line. -/
theorem nearestShallower_none (infos : List Info) (k n : Nat) :
    nearestShallower infos k n = none ↔
      ∀ m l, m < n → infos[m]? = some l → ¬ (l.isCfg = true ∧ l.indent < k) :=
  nearestShallower_eq_none infos k n

/-- **The specification, read declaratively.**  For a line `i` with info `l`:
an unindented line and a comment under a deeper line are roots; otherwise `p` is the parent
iff either `p = i` and no earlier configuration line is indented less, or `p < i` is a
configuration line indented less than `l` and no line strictly between `p` and `i` is. -/
theorem specParent_spec (infos : List Info) (i : Nat) (l : Info) (hl : infos[i]? = some l) :
    ((l.indent = 0 ∨ commentUnderDeeper infos i = true) → specParent infos i = i) ∧
    (¬ (l.indent = 0 ∨ commentUnderDeeper infos i = true) → ∀ p, specParent infos i = p ↔
      (p = i ∧ ∀ m k, m < i → infos[m]? = some k → ¬ (k.isCfg = true ∧ k.indent < l.indent)) ∨
      (p < i ∧ (∃ k, infos[p]? = some k ∧ k.isCfg = true ∧ k.indent < l.indent) ∧
        ∀ m k, p < m → m < i → infos[m]? = some k → ¬ (k.isCfg = true ∧ k.indent < l.indent))) := by
  unfold specParent
  rw [hl]
  refine ⟨fun h => by simp [h], fun h p => ?_⟩
  simp only [h, if_false]
  cases hn : nearestShallower infos l.indent i with
  | none =>
    have h0 := (nearestShallower_eq_none infos l.indent i).mp hn
    constructor
    · intro hp; exact Or.inl ⟨hp.symm, h0⟩
    · rintro (⟨hp, _⟩ | ⟨hp, ⟨k, hk, hc⟩, _⟩)
      · exact hp.symm
      · exact absurd hc (h0 p k hp hk)
  | some q =>
    obtain ⟨hq, hc, hbetween⟩ := (nearestShallower_eq_some infos l.indent i q).mp hn
    constructor
    · intro hp
      have : q = p := by simpa using hp
      subst this; exact Or.inr ⟨hq, hc, hbetween⟩
    · rintro (⟨_, hnone⟩ | hp)
      · obtain ⟨k, hk, hc'⟩ := hc
        exact absurd hc' (hnone q k hq hk)
      · have := (nearestShallower_eq_some infos l.indent i p).mpr hp
        rw [hn] at this
        simpa using this

/-- **Pass 1 computes the specification**: for every configuration of the parser and every
list of lines, `linkByIndent` returns one parent per line and the parent of line `i` is
`specParent` of the line infos.  No hypotheses. -/
theorem linkByIndent_eq_spec (cfg : Cfg) (ls : List Str) :
    (linkByIndent cfg ls).length = ls.length ∧
    ∀ i, i < ls.length → (linkByIndent cfg ls)[i]? = some (specParent (ls.map (info cfg)) i) := by
  rw [linkByIndent_eq_map]
  refine ⟨by simp, fun i hi => ?_⟩
  simp [hi]

/-- the derived child lists are exactly the specified children, for every tree whose parents
are the specified ones (in particular the tree after pass 1 and, by `parse_links_eq_spec`,
the final tree of a config without banner / macro starts) -/
theorem children_eq_spec (t : T) (infos : List Info) (hlen : infos.length = t.size)
    (hpar : t.parents = (List.range t.size).map (specParent infos)) (p : Nat) :
    children t p = specChildren infos p := by
  unfold children specChildren
  rw [hlen]
  apply List.filter_congr
  intro j hj
  have hj' : j < t.size := List.mem_range.mp hj
  simp [parentOf, hpar, hj']

theorem linkByIndent_children (cfg : Cfg) (ls : List Str) (keep : List Bool) (p : Nat) :
    children { texts := ls, parents := linkByIndent cfg ls, keep := keep } p =
      specChildren (ls.map (info cfg)) p :=
  children_eq_spec _ _ (by simp [T.size]) (by simp [T.size, linkByIndent_eq_map]) p

/-- **Final tree**: if no line is a banner start, no line is a macro start under syntax ios,
and `ignore_blank_lines` is off (the property's "outside banner/macro bodies"), the tree
returned by `parse` (bootstrap + commit) keeps the texts, its parents are `specParent` and
its child lists are `specChildren`. -/
theorem parse_links_eq_spec (cfg : Cfg) (ls : List Str)
    (hb : ∀ x ∈ ls, isBannerStart x = false)
    (hm : cfg.ios = true → ∀ x ∈ ls, isMacroStart x = false)
    (hi : cfg.ignoreBlank = false) :
    (parse cfg ls).texts = ls ∧
    (parse cfg ls).parents = (List.range ls.length).map (specParent (ls.map (info cfg))) ∧
    ∀ p, children (parse cfg ls) p = specChildren (ls.map (info cfg)) p := by
  have h : parse cfg ls = { texts := ls, parents := linkByIndent cfg ls, keep := ls.map (fun _ => false) } := by
    rw [parse_eq_bootstrap, bootstrap, bootstrapFuel_noIgnore cfg hi, link_plain cfg ls hb hm]
  rw [h]
  exact ⟨rfl, linkByIndent_eq_map cfg ls, fun p => linkByIndent_children cfg ls _ p⟩

/-- the same with `ignore_blank_lines` on: the blank lines go, and the links of the result are
the specification applied to the remaining lines -/
theorem parse_links_eq_spec_ignore_blank (cfg : Cfg) (ls : List Str)
    (hb : ∀ x ∈ ls, isBannerStart x = false)
    (hm : cfg.ios = true → ∀ x ∈ ls, isMacroStart x = false)
    (hi : cfg.ignoreBlank = true) :
    (parse cfg ls).texts = ls.filter nonBlank ∧
    (parse cfg ls).parents =
      (List.range (ls.filter nonBlank).length).map (specParent ((ls.filter nonBlank).map (info cfg))) ∧
    ∀ p, children (parse cfg ls) p = specChildren ((ls.filter nonBlank).map (info cfg)) p := by
  have ht : (bootstrap cfg ls).texts = ls.filter nonBlank := by
    rw [bootstrap_texts_eq_scan cfg hi, keptScan_plain cfg ls hb hm]
  have h : parse cfg ls = { texts := ls.filter nonBlank, parents := linkByIndent cfg (ls.filter nonBlank),
                            keep := (ls.filter nonBlank).map (fun _ => false) } := by
    rw [parse_eq_bootstrap, bootstrap, bootstrapFuel_is_link]
    show link cfg (bootstrap cfg ls).texts = _
    rw [ht, link_plain cfg _ (fun x hx => hb x (List.mem_filter.mp hx).1)
      (fun hios x hx => hm hios x (List.mem_filter.mp hx).1)]
  rw [h]
  exact ⟨rfl, linkByIndent_eq_map cfg _, fun p => linkByIndent_children cfg _ _ p⟩

/-- **Syntax independence**, pass 1: the links depend on the configuration only through the
comment delimiters — not on the syntax (`cfg.ios`), not on `ignore_blank_lines`. -/
theorem links_syntax_independent (cfg cfg' : Cfg) (ls : List Str) (hd : cfg.delims = cfg'.delims) :
    linkByIndent cfg ls = linkByIndent cfg' ls := by
  unfold linkByIndent; rw [info_delims cfg cfg' hd]

/-- **Syntax independence**, final tree: same lines, same delimiters, no banner start, no
`macro name` line (so that the hypothesis does not depend on the syntax), blank lines kept
⇒ the same parents and the same child lists whatever the two syntaxes are. -/
theorem parse_links_syntax_independent (cfg cfg' : Cfg) (ls : List Str)
    (hd : cfg.delims = cfg'.delims)
    (hb : ∀ x ∈ ls, isBannerStart x = false) (hm : ∀ x ∈ ls, isMacroStart x = false)
    (hi : cfg.ignoreBlank = false) (hi' : cfg'.ignoreBlank = false) :
    (parse cfg ls).parents = (parse cfg' ls).parents ∧
    ∀ p, children (parse cfg ls) p = children (parse cfg' ls) p := by
  obtain ⟨_, h1, h2⟩ := parse_links_eq_spec cfg ls hb (fun _ => hm) hi
  obtain ⟨_, h1', h2'⟩ := parse_links_eq_spec cfg' ls hb (fun _ => hm) hi'
  rw [info_delims cfg cfg' hd] at h1 h2
  exact ⟨h1.trans h1'.symm, fun p => (h2 p).trans (h2' p).symm⟩

/-! ## non-vacuity -/

private def iosCfg : Cfg := { ios := true, delims := ['!'], ignoreBlank := false }
private def nxosCfg : Cfg := { ios := false, delims := ['!'], ignoreBlank := false }

/-- seven lines; a comment under a deeper line (line 3), then a dedent and a re-indent -/
private def ex7 : List Str :=
  ["a".toList, " b".toList, "  c".toList, " !x".toList, " d".toList, "   e".toList, "  f".toList]

example : linkByIndent iosCfg ex7 = [0, 0, 1, 3, 0, 4, 4] := by decide
example : (List.range 7).map (specParent (ex7.map (info iosCfg))) = [0, 0, 1, 3, 0, 4, 4] := by decide
example : specChildren (ex7.map (info iosCfg)) 0 = [1, 4] ∧ specChildren (ex7.map (info iosCfg)) 4 = [5, 6] := by decide
example : (parse iosCfg ex7).parents = [0, 0, 1, 3, 0, 4, 4] ∧ (parse nxosCfg ex7).parents = [0, 0, 1, 3, 0, 4, 4] := by decide
/-- the hypotheses of `parse_links_eq_spec` / `parse_links_syntax_independent` are satisfiable -/
example : (∀ x ∈ ex7, isBannerStart x = false) ∧ (∀ x ∈ ex7, isMacroStart x = false) := by decide
example : (parse { iosCfg with ignoreBlank := true } ["a".toList, "".toList, " b".toList, "  ".toList, "  c".toList]).parents
    = [0, 0, 1] := by decide
/-- a cached parent is really used and really pruned: indents 1,2,2 (hit), then 1 (prune), 2 -/
example : linkByIndent iosCfg ["a".toList, " b".toList, "  c".toList, "  d".toList, " e".toList, "  f".toList]
    = [0, 0, 1, 1, 0, 4] := by decide
/-- the hypotheses matter: a banner body is *not* linked by indentation -/
example : (parse iosCfg ["banner motd ^".toList, " x".toList, "  y".toList, "^".toList]).parents = [0, 0, 0, 0] := by decide

/-! ## banner and macro bodies included: the final tree of EVERY line list -/

/-- `covers cov ls q j`: line `j` comes after line `q` and within the stretch of `q`. -/
theorem covers_spec (cov : Str → List Str → Nat) (ls : List Str) (q j : Nat) :
    covers cov ls q j = true ↔ q < j ∧ j - q ≤ cov (ls.getD q []) (ls.drop (q + 1)) :=
  covers_iff cov ls q j

/-- **Banner stretch, read position by position.**  For a banner start `x` followed by the lines
`rest`, the line `rest[k]` is in the stretch iff `x` is a banner start whose delimiter `d` is
recognised and occurs at most once in `x`, the line exists, and none of `rest[0..k-1]` contains
`d`.  So the closing line (the first one that contains `d`) is the last line of the stretch, an
unterminated banner runs to the end of the config, and nothing after the closing line belongs
to it. -/
theorem coverB_spec (x : Str) (rest : List Str) (k : Nat) :
    k + 1 ≤ coverB x rest ↔
      isBannerStart x = true ∧ ∃ d, bannerDelim x = some d ∧ countChar d x < 2 ∧ k < rest.length ∧
        ∀ m y, m < k → rest[m]? = some y → (strip y).contains d = false := by
  unfold coverB
  by_cases hb : isBannerStart x = true
  · simp only [hb, if_true, true_and]
    cases hd : bannerDelim x with
    | none => simp
    | some d =>
      by_cases hc : countChar d x ≥ 2
      · simp only [hc, if_true, Option.some.injEq, exists_eq_left']
        constructor
        · intro h; omega
        · rintro ⟨h, _⟩; omega
      · simp only [hc, if_false, Option.some.injEq, exists_eq_left', bannerLinkLen_spec]
        constructor
        · rintro ⟨h1, h2⟩; exact ⟨by omega, h1, h2⟩
        · rintro ⟨_, h1, h2⟩; exact ⟨h1, h2⟩
  · simp [hb]

/-- **Macro stretch, read position by position**: `rest[k]` is in the stretch of the macro start
`x` iff `x` begins with `macro name `, the line exists and none of `rest[0..k-1]` is `@` (trailing
white space ignored) — the `@` line itself is the last line of the stretch. -/
theorem coverM_spec (x : Str) (rest : List Str) (k : Nat) :
    k + 1 ≤ coverM x rest ↔
      isMacroStart x = true ∧ k < rest.length ∧
        ∀ m y, m < k → rest[m]? = some y → (rstrip y == ['@']) = false := by
  unfold coverM
  by_cases hb : isMacroStart x = true
  · simp only [hb, if_true, true_and, macroBodyLen_spec]
  · simp [hb]

/-- the stretch of a banner start is its body in the sense of `Spec/BlankKeep.lean` (the lines
protected from `ignore_blank_lines`) plus the closing line when there is one -/
theorem bannerStretch_eq_body_plus_close (d : Char) (rest : List Str) :
    bannerLinkLen d rest = min (bannerBodyLen d rest + 1) rest.length :=
  bannerLinkLen_eq d rest

/-- `lastCover cov ls j n` is the largest `q < n` whose stretch reaches `j` … -/
theorem lastCover_some (cov : Str → List Str → Nat) (ls : List Str) (j n q : Nat) :
    lastCover cov ls j n = some q ↔
      q < n ∧ covers cov ls q j = true ∧ ∀ m, q < m → m < n → covers cov ls m j = false :=
  lastCover_eq_some cov ls j n q

/-- … and `none` exactly when no `q < n` reaches `j`. -/
theorem lastCover_none (cov : Str → List Str → Nat) (ls : List Str) (j n : Nat) :
    lastCover cov ls j n = none ↔ ∀ m, m < n → covers cov ls m j = false :=
  lastCover_eq_none cov ls j n

/-- **The full specification, read declaratively.**  `p` is the specified final parent of line
`i` iff one of:
* (syntax ios) `p < i` is a macro start whose stretch reaches `i` and no macro start strictly
  between `p` and `i` reaches `i`;
* no macro start (ios) reaches `i`, `p < i` is a banner start whose stretch reaches `i` and no
  banner start strictly between reaches `i`;
* no macro start (ios) and no banner start reaches `i`, and `p` is the indentation parent
  `specParent` — in particular a line *after* a stretch keeps its indentation parent even
  when that parent is a body line. -/
theorem specParentFull_spec (cfg : Cfg) (ls : List Str) (i p : Nat) :
    specParentFull cfg ls i = p ↔
      (cfg.ios = true ∧ p < i ∧ covers coverM ls p i = true ∧
        ∀ m, p < m → m < i → covers coverM ls m i = false) ∨
      ((cfg.ios = true → ∀ m, m < i → covers coverM ls m i = false) ∧
        p < i ∧ covers coverB ls p i = true ∧ ∀ m, p < m → m < i → covers coverB ls m i = false) ∨
      ((cfg.ios = true → ∀ m, m < i → covers coverM ls m i = false) ∧
        (∀ m, m < i → covers coverB ls m i = false) ∧ specParent (ls.map (info cfg)) i = p) := by
  unfold specParentFull
  have hM : macroOwner cfg ls i = none ↔ (cfg.ios = true → ∀ m, m < i → covers coverM ls m i = false) := by
    unfold macroOwner
    cases hi : cfg.ios with
    | false => simp
    | true => simp [lastCover_eq_none]
  cases hm : macroOwner cfg ls i with
  | some m =>
    have hios : cfg.ios = true := by
      unfold macroOwner at hm
      cases hi : cfg.ios with
      | false => simp [hi] at hm
      | true => rfl
    have hm' : lastCover coverM ls i i = some m := by simpa [macroOwner, hios] using hm
    obtain ⟨h1, h2, h3⟩ := (lastCover_eq_some coverM ls i i m).mp hm'
    have hnot : ¬ (cfg.ios = true → ∀ m, m < i → covers coverM ls m i = false) := by
      intro h; have := h hios m h1; rw [h2] at this; cases this
    constructor
    · intro h; subst h; exact Or.inl ⟨hios, h1, h2, h3⟩
    · rintro (⟨_, q1, q2, q3⟩ | ⟨h, _⟩ | ⟨h, _⟩)
      · have := (lastCover_eq_some coverM ls i i p).mpr ⟨q1, q2, q3⟩
        rw [hm'] at this; simpa using this
      · exact absurd h hnot
      · exact absurd h hnot
  | none =>
    have hno := hM.mp hm
    simp only
    cases hb : bannerOwner ls i with
    | some b =>
      have hb' : lastCover coverB ls i i = some b := hb
      obtain ⟨h1, h2, h3⟩ := (lastCover_eq_some coverB ls i i b).mp hb'
      constructor
      · intro h; subst h; exact Or.inr (Or.inl ⟨hno, h1, h2, h3⟩)
      · rintro (⟨hios, q1, q2, _⟩ | ⟨_, q1, q2, q3⟩ | ⟨_, h, _⟩)
        · have := hno hios p q1; rw [q2] at this; cases this
        · have := (lastCover_eq_some coverB ls i i p).mpr ⟨q1, q2, q3⟩
          rw [hb'] at this; simpa using this
        · have := h b h1; rw [h2] at this; cases this
    | none =>
      have hb' : lastCover coverB ls i i = none := hb
      have hnb := (lastCover_eq_none coverB ls i i).mp hb'
      constructor
      · intro h; exact Or.inr (Or.inr ⟨hno, hnb, h⟩)
      · rintro (⟨hios, q1, q2, _⟩ | ⟨_, q1, q2, _⟩ | ⟨_, _, h⟩)
        · have := hno hios p q1; rw [q2] at this; cases this
        · have := hnb p q1; rw [q2] at this; cases this
        · exact h

/-- **Passes 1–3 compute the full specification**, for every configuration of the parser and
EVERY list of lines — banner starts nested, overlapping, unterminated, macros containing banner
starts and vice versa, indented closing lines, anything.  No hypotheses. -/
theorem link_links_eq_spec_full (cfg : Cfg) (ls : List Str) :
    (link cfg ls).texts = ls ∧
    (link cfg ls).parents = (List.range ls.length).map (specParentFull cfg ls) ∧
    ∀ p, children (link cfg ls) p = specChildrenFull cfg ls p :=
  ⟨link_texts_ll cfg ls, link_parents_eq_spec cfg ls, link_children_eq_spec cfg ls⟩

/-- **Final tree, all line lists, every option set** (`ignore_blank_lines` on or off): the
parents of the tree returned by `parse` (bootstrap + commit) are `specParentFull` of the tree's
own line texts, and its child lists are the specified ones.  No hypotheses.  (Which texts
remain is C01's business: all of them when `ignore_blank_lines` is off, the `keepSpec` ones
otherwise — the next two theorems substitute that in.) -/
theorem parse_links_eq_spec_all (cfg : Cfg) (ls : List Str) :
    (parse cfg ls).parents =
      (List.range (parse cfg ls).texts.length).map (specParentFull cfg (parse cfg ls).texts) ∧
    ∀ p, children (parse cfg ls) p = specChildrenFull cfg (parse cfg ls).texts p := by
  have h := parse_is_link cfg ls
  constructor
  · conv => lhs; rw [h]
    exact link_parents_eq_spec cfg _
  · intro p
    conv => lhs; rw [h]
    exact link_children_eq_spec cfg _ p

/-- **Final tree, `ignore_blank_lines` off, ALL line lists** (the extension of
`parse_links_eq_spec` that drops its two hypotheses): texts unchanged, parents =
`specParentFull`, child lists = `specChildrenFull`. -/
theorem parse_links_eq_spec_full (cfg : Cfg) (ls : List Str) (hi : cfg.ignoreBlank = false) :
    (parse cfg ls).texts = ls ∧
    (parse cfg ls).parents = (List.range ls.length).map (specParentFull cfg ls) ∧
    ∀ p, children (parse cfg ls) p = specChildrenFull cfg ls p := by
  have ht := parse_texts_noIgnore cfg ls hi
  have h := parse_links_eq_spec_all cfg ls
  rw [ht] at h
  exact ⟨ht, h.1, h.2⟩

/-- **Final tree, `ignore_blank_lines` on, ALL line lists**: the texts are the lines selected
by `keepSpec` (non-blank, or protected by a banner / macro start — C01), and the links are the
full specification applied to those kept lines. -/
theorem parse_links_eq_spec_full_ignore_blank (cfg : Cfg) (ls : List Str) (hi : cfg.ignoreBlank = true) :
    let kept := (ls.zipIdx.filter (fun xj => keepSpec cfg ls xj.2)).map Prod.fst
    (parse cfg ls).texts = kept ∧
    (parse cfg ls).parents = (List.range kept.length).map (specParentFull cfg kept) ∧
    ∀ p, children (parse cfg ls) p = specChildrenFull cfg kept p := by
  intro kept
  have ht : (parse cfg ls).texts = kept := parse_texts_ignore cfg ls hi
  have h := parse_links_eq_spec_all cfg ls
  rw [ht] at h
  exact ⟨ht, h.1, h.2⟩

/-- **Consistency with the indentation-only statement**: without banner starts and (ios) macro
starts the full specification *is* the indentation rule, so `parse_links_eq_spec` is the
special case of `parse_links_eq_spec_full`. -/
theorem specParentFull_eq_specParent_of_no_start (cfg : Cfg) (ls : List Str)
    (hb : ∀ x ∈ ls, isBannerStart x = false)
    (hm : cfg.ios = true → ∀ x ∈ ls, isMacroStart x = false) (i : Nat) (hi : i < ls.length) :
    specParentFull cfg ls i = specParent (ls.map (info cfg)) i :=
  specParentFull_plain cfg ls hb hm i hi

/-- **Syntax dependence, made precise**: two configurations with the same comment delimiters
give the same final links on a line list without `macro name` lines, banners included
(`ignore_blank_lines` off) — the `macro name` walk is the only place where the syntax enters. -/
theorem parse_links_syntax_independent_full (cfg cfg' : Cfg) (ls : List Str)
    (hd : cfg.delims = cfg'.delims) (hm : ∀ x ∈ ls, isMacroStart x = false)
    (hi : cfg.ignoreBlank = false) (hi' : cfg'.ignoreBlank = false) :
    (parse cfg ls).parents = (parse cfg' ls).parents := by
  rw [(parse_links_eq_spec_full cfg ls hi).2.1, (parse_links_eq_spec_full cfg' ls hi').2.1]
  apply List.map_congr_left
  intro i hi
  have hil : i < ls.length := List.mem_range.mp hi
  have hnone : ∀ c : Cfg, macroOwner c ls i = none := by
    intro c
    unfold macroOwner
    split
    · exact lastCover_none_of_no_cover coverM ls i i
        (fun q x hx => by simp [coverM, hm x (List.mem_of_getElem? hx)]) (by omega)
    · rfl
  unfold specParentFull
  rw [hnone cfg, hnone cfg', info_delims cfg cfg' hd]

/-! ## non-vacuity (banner / macro part) -/

/-- overlapping banner starts: line 1 is itself a banner start inside the stretch of line 0;
its stretch (delimiter `#`) runs to line 4, beyond the closing line 3 of the outer banner.  The
last start wins: lines 2, 3, 4 belong to line 1; line 5 (after both stretches) keeps its
indentation parent, which is the body line 4. -/
private def exOverlap : List Str :=
  ["banner motd ^".toList, "banner exec #".toList, " x".toList, "^".toList, "y #".toList, " z".toList]

example : (List.range 6).map (specParentFull iosCfg exOverlap) = [0, 0, 1, 1, 1, 4] := by decide
example : (parse iosCfg exOverlap).parents = [0, 0, 1, 1, 1, 4] := by decide
example : (parse nxosCfg exOverlap).parents = [0, 0, 1, 1, 1, 4] := by decide
example : covers coverB exOverlap 0 3 = true ∧ covers coverB exOverlap 1 3 = true ∧
    covers coverB exOverlap 0 4 = false ∧ covers coverB exOverlap 1 5 = false := by decide
example : specChildrenFull iosCfg exOverlap 1 = [2, 3, 4] ∧ specChildrenFull iosCfg exOverlap 4 = [5] := by decide

/-- a macro containing a banner start: inside the macro's stretch (lines 1–5) the macro wins
(ios only), but the banner start at line 2 is unterminated (`^` never occurs again) and still
owns the lines AFTER the macro's closing `@` (6, 7) until the next banner start's stretch (8, 9);
an indented ` @ ` does NOT close the macro (only trailing white space is ignored); deeper body
lines followed by dedents -/
private def exMixed : List Str :=
  ["macro name m".toList, " a".toList, "banner motd ^".toList, "   b".toList, " @ ".toList, "@".toList,
   "  c".toList, "banner login %".toList, "  d".toList, " e".toList]

example : (List.range 10).map (specParentFull iosCfg exMixed) = [0, 0, 0, 0, 0, 0, 2, 2, 7, 7] := by decide
example : (parse iosCfg exMixed).parents = [0, 0, 0, 0, 0, 0, 2, 2, 7, 7] := by decide
/-- the same lines under a syntax without macros -/
example : (List.range 10).map (specParentFull nxosCfg exMixed) = [0, 0, 2, 2, 2, 2, 2, 2, 7, 7] := by decide
example : (parse nxosCfg exMixed).parents = [0, 0, 2, 2, 2, 2, 2, 2, 7, 7] := by decide
/-- with `ignore_blank_lines` a blank line outside every stretch goes, one inside stays, and the
links are the specification over the kept lines -/
example : (parse { iosCfg with ignoreBlank := true }
    ["a".toList, "".toList, "banner motd ^".toList, "".toList, " x".toList, "^".toList, " b".toList]).parents
    = [0, 1, 1, 1, 1, 4] := by decide
/-- the hypotheses of `parse_links_syntax_independent_full` are satisfiable by a config WITH a banner -/
example : ∀ x ∈ exOverlap, isMacroStart x = false := by decide

end Ccp.C02
