import Ccp.Model.Tree
namespace Ccp.C02
open Ccp.Tree Ccp.Py

theorem placeholder_reparent_texts (t : T) (p c : Nat) : (reparent t p c).texts = t.texts := rfl

end Ccp.C02
