import Ccp.Proofs.IPVal
/-!
# C12 — membership between address objects is exactly subnet containment

`contains4 f y x` / `contains6 f y x` are `x in y` as computed by `IPv4Obj.__contains__` /
`IPv6Obj.__contains__`.  All statements hold for every family record `f` (any address
width), hence for `v4` and `v6`; `Valid f x` is the class invariant (address below `2^w`,
prefix length at most `w`, `network_object` is the network of `ip_object`).  Helper lemmas
live in `Ccp.Proofs.IPVal`.
-/
namespace Ccp.C12
open Ccp.IPVal

/-- **IPv4 membership is subnet containment.**  `x in y` holds iff `y`'s prefix is not longer
than `x`'s and the leading `y.len` bits of the two addresses agree; equivalently iff the address
interval of `x`'s network lies inside that of `y`'s; equivalently iff every address of `x`'s
network is an address of `y`'s network. -/
theorem contains4_iff (f : Fam) (y x : Obj) (vy : Valid f y) (vx : Valid f x) :
    (contains4 f y x = true ↔
      (y.len ≤ x.len ∧ x.ip >>> (f.w - y.len) = y.ip >>> (f.w - y.len))) ∧
    (contains4 f y x = true ↔
      (y.len ≤ x.len ∧ y.net ≤ x.net ∧ asDecimalBroadcast f x ≤ asDecimalBroadcast f y)) ∧
    (contains4 f y x = true ↔
      (y.len ≤ x.len ∧ ∀ a, (x.net ≤ a ∧ a ≤ asDecimalBroadcast f x) →
        (y.net ≤ a ∧ a ≤ asDecimalBroadcast f y))) := by
  have h1 := contains4_iff_prefix f y x vy vx
  have h2 := interval_iff_prefix f y x vy vx
  have h3 := subset_iff_interval f y x
  refine ⟨h1, h1.trans h2.symm, ?_⟩
  rw [h1, ← h2]
  exact ⟨fun ⟨a, b⟩ => ⟨a, h3.mpr b⟩, fun ⟨a, b⟩ => ⟨a, h3.mp b⟩⟩

/-- **IPv6 membership is subnet containment** (same three readings; the code path differs from
IPv4: no third conjunct, upper bound `as_decimal_network_maxint`). -/
theorem contains6_iff (f : Fam) (y x : Obj) (vy : Valid f y) (vx : Valid f x) :
    (contains6 f y x = true ↔
      (y.len ≤ x.len ∧ x.ip >>> (f.w - y.len) = y.ip >>> (f.w - y.len))) ∧
    (contains6 f y x = true ↔
      (y.len ≤ x.len ∧ y.net ≤ x.net ∧ asDecimalBroadcast f x ≤ asDecimalBroadcast f y)) ∧
    (contains6 f y x = true ↔
      (y.len ≤ x.len ∧ ∀ a, (x.net ≤ a ∧ a ≤ asDecimalBroadcast f x) →
        (y.net ≤ a ∧ a ≤ asDecimalBroadcast f y))) := by
  rw [contains6_eq_contains4 f y x vy vx]
  exact contains4_iff f y x vy vx

/-- the addresses of an object's network (the interval `[network, broadcast]`) are exactly the
addresses that share its leading `len` bits — so "interval" above really is "the network" -/
theorem network_addresses (f : Fam) (x : Obj) (vx : Valid f x) (a : Nat) :
    (x.net ≤ a ∧ a ≤ asDecimalBroadcast f x) ↔ a >>> (f.w - x.len) = x.ip >>> (f.w - x.len) :=
  inNet_iff f x vx a

/-- every object is inside itself (both families) -/
theorem contains_refl (f : Fam) (x : Obj) (vx : Valid f x) :
    contains4 f x x = true ∧ contains6 f x x = true := by
  rw [contains6_eq_contains4 f x x vx vx, and_self, contains4_iff_prefix f x x vx vx]
  exact ⟨Nat.le_refl _, rfl⟩

/-- membership is transitive (both families) -/
theorem contains_trans (f : Fam) (z y x : Obj) (vz : Valid f z) (vy : Valid f y) (vx : Valid f x) :
    (contains4 f z y = true → contains4 f y x = true → contains4 f z x = true) ∧
    (contains6 f z y = true → contains6 f y x = true → contains6 f z x = true) := by
  rw [contains6_eq_contains4 f z y vz vy, contains6_eq_contains4 f y x vy vx,
    contains6_eq_contains4 f z x vz vx, and_self]
  rw [(contains4_iff f z y vz vy).2.1, (contains4_iff f y x vy vx).2.1, (contains4_iff f z x vz vx).2.1]
  rintro ⟨a1, a2, a3⟩ ⟨b1, b2, b3⟩
  exact ⟨by omega, by omega, by omega⟩

/-- host routes, /31 and /127 links, the all-zero prefix: a host route is inside `y` iff its
address is one of `y`'s addresses, first and last included -/
theorem host_route_in (f : Fam) (y : Obj) (a : Nat) (vy : Valid f y) (ha : a < 2 ^ f.w) :
    contains4 f y (ofIpLen f a f.w) = true ↔ (y.net ≤ a ∧ a ≤ asDecimalBroadcast f y) := by
  have vx := valid_ofIpLen f a f.w ha (Nat.le_refl _)
  rw [(contains4_iff f y _ vy vx).1, network_addresses f y vy a]
  simp only [ofIpLen, vy.len_le, true_and]

/-- the family constants of the generated tables satisfy what the proofs assume -/
theorem families_ok : v4.Ok ∧ v6.Ok ∧ v4.w = 32 ∧ v6.w = 128 := ⟨v4_ok, v6_ok, by decide, by decide⟩

-- non-vacuity: a /127 inside a /64, the last address of a /64 (the F17 input), a /31, the zero prefix
example : Valid v6 (ofIpLen v6 0x20010db8000000000000000000000003 127) := by decide
example : contains6 v6 (ofIpLen v6 0x20010db8000000000000000000000000 64)
    (ofIpLen v6 0x20010db8000000000000000000000003 127) = true := by decide
example : contains6 v6 (ofIpLen v6 0x20010db8000000000000000000000000 64)
    (ofIpLen v6 0x20010db800000000ffffffffffffffff 128) = true := by decide
/-- F17 as it was before the repair: the last address of the /64 was reported outside -/
example : contains6AsWritten v6 (ofIpLen v6 0x20010db8000000000000000000000000 64)
    (ofIpLen v6 0x20010db800000000ffffffffffffffff 128) = false := by decide
example : contains4 v4 (ofIpLen v4 0x0a000001 31) (ofIpLen v4 0x0a000000 32) = true := by decide
example : contains4 v4 (ofIpLen v4 0x0a000001 31) (ofIpLen v4 0x0a000002 32) = false := by decide
example : contains4 v4 (ofIpLen v4 0x0a000001 0) (ofIpLen v4 0xffffffff 32) = true := by decide
example : contains4 v4 (ofIpLen v4 0x0a000001 24) (ofIpLen v4 0x0a000001 23) = false := by decide

end Ccp.C12
