import Ccp.Proofs.IPVal
import Ccp.Proofs.IPValCollapse
/-!
# C12 — membership between address objects is exactly subnet containment

`contains4 f y x` / `contains6 f y x` are `x in y` as computed by `IPv4Obj.__contains__` /
`IPv6Obj.__contains__`.  All statements hold for every family record `f` (any address
width), hence for `v4` and `v6`; `Valid f x` is the class invariant (address below `2^w`,
prefix length at most `w`, `network_object` is the network of `ip_object`).  Helper lemmas
live in `Ccp.Proofs.IPVal`.
-/
namespace Ccp.C12
open Ccp.IPVal

/-- **IPv4 membership is subnet containment.**  `x in y` holds iff `y`'s prefix is not longer
than `x`'s and the leading `y.len` bits of the two addresses agree; equivalently iff the address
interval of `x`'s network lies inside that of `y`'s; equivalently iff every address of `x`'s
network is an address of `y`'s network. -/
theorem contains4_iff (f : Fam) (y x : Obj) (vy : Valid f y) (vx : Valid f x) :
    (contains4 f y x = true ↔
      (y.len ≤ x.len ∧ x.ip >>> (f.w - y.len) = y.ip >>> (f.w - y.len))) ∧
    (contains4 f y x = true ↔
      (y.len ≤ x.len ∧ y.net ≤ x.net ∧ asDecimalBroadcast f x ≤ asDecimalBroadcast f y)) ∧
    (contains4 f y x = true ↔
      (y.len ≤ x.len ∧ ∀ a, (x.net ≤ a ∧ a ≤ asDecimalBroadcast f x) →
        (y.net ≤ a ∧ a ≤ asDecimalBroadcast f y))) := by
  have h1 := contains4_iff_prefix f y x vy vx
  have h2 := interval_iff_prefix f y x vy vx
  have h3 := subset_iff_interval f y x
  refine ⟨h1, h1.trans h2.symm, ?_⟩
  rw [h1, ← h2]
  exact ⟨fun ⟨a, b⟩ => ⟨a, h3.mpr b⟩, fun ⟨a, b⟩ => ⟨a, h3.mp b⟩⟩

/-- **IPv6 membership is subnet containment** (same three readings; the code path differs from
IPv4: no third conjunct, upper bound `as_decimal_network_maxint`). -/
theorem contains6_iff (f : Fam) (y x : Obj) (vy : Valid f y) (vx : Valid f x) :
    (contains6 f y x = true ↔
      (y.len ≤ x.len ∧ x.ip >>> (f.w - y.len) = y.ip >>> (f.w - y.len))) ∧
    (contains6 f y x = true ↔
      (y.len ≤ x.len ∧ y.net ≤ x.net ∧ asDecimalBroadcast f x ≤ asDecimalBroadcast f y)) ∧
    (contains6 f y x = true ↔
      (y.len ≤ x.len ∧ ∀ a, (x.net ≤ a ∧ a ≤ asDecimalBroadcast f x) →
        (y.net ≤ a ∧ a ≤ asDecimalBroadcast f y))) := by
  rw [contains6_eq_contains4 f y x vy vx]
  exact contains4_iff f y x vy vx

/-- the addresses of an object's network (the interval `[network, broadcast]`) are exactly the
addresses that share its leading `len` bits — so "interval" above really is "the network" -/
theorem network_addresses (f : Fam) (x : Obj) (vx : Valid f x) (a : Nat) :
    (x.net ≤ a ∧ a ≤ asDecimalBroadcast f x) ↔ a >>> (f.w - x.len) = x.ip >>> (f.w - x.len) :=
  inNet_iff f x vx a

/-- every object is inside itself (both families) -/
theorem contains_refl (f : Fam) (x : Obj) (vx : Valid f x) :
    contains4 f x x = true ∧ contains6 f x x = true := by
  rw [contains6_eq_contains4 f x x vx vx, and_self, contains4_iff_prefix f x x vx vx]
  exact ⟨Nat.le_refl _, rfl⟩

/-- membership is transitive (both families) -/
theorem contains_trans (f : Fam) (z y x : Obj) (vz : Valid f z) (vy : Valid f y) (vx : Valid f x) :
    (contains4 f z y = true → contains4 f y x = true → contains4 f z x = true) ∧
    (contains6 f z y = true → contains6 f y x = true → contains6 f z x = true) := by
  rw [contains6_eq_contains4 f z y vz vy, contains6_eq_contains4 f y x vy vx,
    contains6_eq_contains4 f z x vz vx, and_self]
  rw [(contains4_iff f z y vz vy).2.1, (contains4_iff f y x vy vx).2.1, (contains4_iff f z x vz vx).2.1]
  rintro ⟨a1, a2, a3⟩ ⟨b1, b2, b3⟩
  exact ⟨by omega, by omega, by omega⟩

/-- host routes, /31 and /127 links, the all-zero prefix: a host route is inside `y` iff its
address is one of `y`'s addresses, first and last included -/
theorem host_route_in (f : Fam) (y : Obj) (a : Nat) (vy : Valid f y) (ha : a < 2 ^ f.w) :
    contains4 f y (ofIpLen f a f.w) = true ↔ (y.net ≤ a ∧ a ≤ asDecimalBroadcast f y) := by
  have vx := valid_ofIpLen f a f.w ha (Nat.le_refl _)
  rw [(contains4_iff f y _ vy vx).1, network_addresses f y vy a]
  simp only [ofIpLen, vy.len_le, true_and]

/-! ## `collapse_addresses`

`collapseNets f nets` is the model of `ipaddress.collapse_addresses` on a list of networks
`(network address, prefix length)` (the stdlib routine `_collapse_addresses_internal`: the
`supernet → net` dict loop followed by the ascending pass that skips covered networks);
`collapse f objs = collapseNets f (objs.map network)` is `ccp_util.collapse_addresses`, which maps
every object to `obj.network` first.  `AlignedNet f n`: prefix length at most `w`, address below
`2^w`, host bits clear.  "`c` is an address of `n`" is `n.1 ≤ c ∧ c ≤ netBcast f n`. -/

/-- **the collapsed networks cover exactly the addresses of the input networks** -/
theorem collapse_covers (f : Fam) (nets : List Net) (al : ∀ n ∈ nets, AlignedNet f n) (c : Nat) :
    (∃ n ∈ collapseNets f nets, n.1 ≤ c ∧ c ≤ netBcast f n) ↔
    (∃ n ∈ nets, n.1 ≤ c ∧ c ≤ netBcast f n) :=
  (collapseNets_spec f nets al).2.1 c

/-- **the collapsed networks are well formed, ascending and pairwise disjoint**: each one ends
before the next one (and every later one) starts -/
theorem collapse_sorted_disjoint (f : Fam) (nets : List Net) (al : ∀ n ∈ nets, AlignedNet f n) :
    (∀ n ∈ collapseNets f nets, AlignedNet f n) ∧
    (collapseNets f nets).Pairwise (fun a b => netBcast f a < b.1) ∧
    (collapseNets f nets).Pairwise (fun a b => a.1 < b.1 ∧
      ∀ c, ¬ ((a.1 ≤ c ∧ c ≤ netBcast f a) ∧ (b.1 ≤ c ∧ c ≤ netBcast f b))) := by
  obtain ⟨h1, _, h3, _⟩ := collapseNets_spec f nets al
  refine ⟨h1, h3, h3.imp ?_⟩
  intro a b hab
  have : a.1 ≤ netBcast f a := by unfold netBcast; omega
  exact ⟨by omega, fun c hc => by omega⟩

/-- **the collapsed networks are the canonical minimal cover**: no two of them have the same
supernet (so no pair of siblings is left unmerged), none lies inside another, and every well-formed
network whose addresses are all covered by the input lies inside a single output network — the
outputs are exactly the maximal networks inside the covered address set -/
theorem collapse_minimal (f : Fam) (nets : List Net) (al : ∀ n ∈ nets, AlignedNet f n) :
    (collapseNets f nets).Pairwise (fun a b => supernet f a ≠ supernet f b) ∧
    (∀ a ∈ collapseNets f nets, ∀ b ∈ collapseNets f nets,
      (∀ c, (b.1 ≤ c ∧ c ≤ netBcast f b) → (a.1 ≤ c ∧ c ≤ netBcast f a)) → a = b) ∧
    (∀ q, AlignedNet f q →
      (∀ c, (q.1 ≤ c ∧ c ≤ netBcast f q) → ∃ n ∈ nets, n.1 ≤ c ∧ c ≤ netBcast f n) →
      ∃ s ∈ collapseNets f nets, ∀ c, (q.1 ≤ c ∧ c ≤ netBcast f q) → (s.1 ≤ c ∧ c ≤ netBcast f s)) := by
  obtain ⟨h1, h2, _, h4⟩ := collapseNets_spec f nets al
  have h3 := (collapse_sorted_disjoint f nets al).2.2
  refine ⟨h4, ?_, ?_⟩
  · intro a ha b hb hsub
    apply Classical.byContradiction
    intro hne
    have hd := pairwise_of_ne (R := fun a b : Net => ∀ c, ¬ ((a.1 ≤ c ∧ c ≤ netBcast f a) ∧
        (b.1 ≤ c ∧ c ≤ netBcast f b)))
      (fun x y hxy c hc => hxy c ⟨hc.2, hc.1⟩) (h3.imp (fun h => h.2)) a ha b hb hne
    have hb0 : b.1 ≤ b.1 ∧ b.1 ≤ netBcast f b := by unfold netBcast; omega
    exact hd b.1 ⟨hsub _ hb0, hb0⟩
  · intro q alq hcov
    exact canonical_cover f _ h1 h4 _ q alq rfl (fun c hc => (h2 c).mpr (hcov c hc))

/-- **API level**: `collapse_addresses(objs)` for objects that may have host bits set.  The output
covers exactly the addresses of the objects' networks (the addresses sharing an object's leading
`len` bits), and is the well-formed, ascending, disjoint, canonical cover of that set. -/
theorem collapse_api (f : Fam) (objs : List Obj) (hv : ∀ x ∈ objs, Valid f x) :
    (∀ c, (∃ n ∈ collapse f objs, n.1 ≤ c ∧ c ≤ netBcast f n) ↔
      (∃ x ∈ objs, c >>> (f.w - x.len) = x.ip >>> (f.w - x.len))) ∧
    (∀ n ∈ collapse f objs, AlignedNet f n) ∧
    (collapse f objs).Pairwise (fun a b => netBcast f a < b.1) ∧
    (collapse f objs).Pairwise (fun a b => supernet f a ≠ supernet f b) ∧
    (∀ q, AlignedNet f q →
      (∀ c, (q.1 ≤ c ∧ c ≤ netBcast f q) → ∃ x ∈ objs, c >>> (f.w - x.len) = x.ip >>> (f.w - x.len)) →
      ∃ s ∈ collapse f objs, ∀ c, (q.1 ≤ c ∧ c ≤ netBcast f q) → (s.1 ≤ c ∧ c ≤ netBcast f s)) := by
  have al : ∀ n ∈ objs.map network, AlignedNet f n := by
    intro n hn
    obtain ⟨x, hx, rfl⟩ := List.mem_map.mp hn
    exact aligned_network f x (hv x hx)
  have tr : ∀ c, (∃ n ∈ objs.map network, n.1 ≤ c ∧ c ≤ netBcast f n) ↔
      (∃ x ∈ objs, c >>> (f.w - x.len) = x.ip >>> (f.w - x.len)) := by
    intro c
    constructor
    · rintro ⟨n, hn, h⟩
      obtain ⟨x, hx, rfl⟩ := List.mem_map.mp hn
      exact ⟨x, hx, (network_addresses f x (hv x hx) c).mp h⟩
    · rintro ⟨x, hx, h⟩
      exact ⟨network x, List.mem_map.mpr ⟨x, hx, rfl⟩, (network_addresses f x (hv x hx) c).mpr h⟩
  have sd := collapse_sorted_disjoint f _ al
  have mn := collapse_minimal f _ al
  refine ⟨fun c => (collapse_covers f _ al c).trans (tr c), sd.1, sd.2.1, mn.1, ?_⟩
  intro q alq hcov
  exact mn.2.2 q alq (fun c hc => (tr c).mpr (hcov c hc))

/-- the family constants of the generated tables satisfy what the proofs assume -/
theorem families_ok : v4.Ok ∧ v6.Ok ∧ v4.w = 32 ∧ v6.w = 128 := ⟨v4_ok, v6_ok, by decide, by decide⟩

-- non-vacuity: a /127 inside a /64, the last address of a /64 (the F17 input), a /31, the zero prefix
example : Valid v6 (ofIpLen v6 0x20010db8000000000000000000000003 127) := by decide
example : contains6 v6 (ofIpLen v6 0x20010db8000000000000000000000000 64)
    (ofIpLen v6 0x20010db8000000000000000000000003 127) = true := by decide
example : contains6 v6 (ofIpLen v6 0x20010db8000000000000000000000000 64)
    (ofIpLen v6 0x20010db800000000ffffffffffffffff 128) = true := by decide
/-- F17 as it was before the repair: the last address of the /64 was reported outside -/
example : contains6AsWritten v6 (ofIpLen v6 0x20010db8000000000000000000000000 64)
    (ofIpLen v6 0x20010db800000000ffffffffffffffff 128) = false := by decide
example : contains4 v4 (ofIpLen v4 0x0a000001 31) (ofIpLen v4 0x0a000000 32) = true := by decide
example : contains4 v4 (ofIpLen v4 0x0a000001 31) (ofIpLen v4 0x0a000002 32) = false := by decide
example : contains4 v4 (ofIpLen v4 0x0a000001 0) (ofIpLen v4 0xffffffff 32) = true := by decide
example : contains4 v4 (ofIpLen v4 0x0a000001 24) (ofIpLen v4 0x0a000001 23) = false := by decide

-- non-vacuity: objects with host bits satisfy the hypotheses; on their networks the dict loop merges the
-- two /25 halves, then 10.0.0.0/24 with 10.0.1.0/24, and the final pass drops the covered host route
-- (`List.mergeSort` is defined by well-founded recursion and does not reduce under `decide`; the two
-- stages around it do)
example : ∀ x ∈ [ofIpLen v4 0x0a000001 25, ofIpLen v4 0x0a000085 25, ofIpLen v4 0x0a000105 24,
    ofIpLen v4 0x0a000107 32, ofIpLen v4 0xc0000201 32], Valid v4 x := by decide
example : ([ofIpLen v4 0x0a000001 25, ofIpLen v4 0x0a000085 25, ofIpLen v4 0x0a000105 24,
    ofIpLen v4 0x0a000107 32, ofIpLen v4 0xc0000201 32].map network)
    = [(0x0a000000, 25), (0x0a000080, 25), (0x0a000100, 24), (0x0a000107, 32), (0xc0000201, 32)] := by decide
example : (mergeLoop v4 34 [(0xc0000201, 32), (0x0a000107, 32), (0x0a000100, 24), (0x0a000080, 25),
    (0x0a000000, 25)] []).map (·.2) = [(0x0a000000, 23), (0x0a000107, 32), (0xc0000201, 32)] := by decide
example : dropCovered v4 none [(0x0a000000, 23), (0x0a000107, 32), (0xc0000201, 32)]
    = [(0x0a000000, 23), (0xc0000201, 32)] := by decide

end Ccp.C12
