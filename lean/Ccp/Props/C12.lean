import Ccp.Proofs.IPVal
import Ccp.Proofs.IPValCollapse
import Ccp.Proofs.IPValX
/-!
# C12 — membership between address objects is exactly subnet containment

`contains4 f y x` / `contains6 f y x` are `x in y` as computed by `IPv4Obj.__contains__` /
`IPv6Obj.__contains__`.  All statements hold for every family record `f` (any address
width), hence for `v4` and `v6`; `Valid f x` is the class invariant (address below `2^w`,
prefix length at most `w`, `network_object` is the network of `ip_object`).  Helper lemmas
live in `Ccp.Proofs.IPVal`.
-/
namespace Ccp.C12
open Ccp.IPVal

/-- **IPv4 membership is subnet containment.**  `x in y` holds iff `y`'s prefix is not longer
than `x`'s and the leading `y.len` bits of the two addresses agree; equivalently iff the address
interval of `x`'s network lies inside that of `y`'s; equivalently iff every address of `x`'s
network is an address of `y`'s network. -/
theorem contains4_iff (f : Fam) (y x : Obj) (vy : Valid f y) (vx : Valid f x) :
    (contains4 f y x = true ↔
      (y.len ≤ x.len ∧ x.ip >>> (f.w - y.len) = y.ip >>> (f.w - y.len))) ∧
    (contains4 f y x = true ↔
      (y.len ≤ x.len ∧ y.net ≤ x.net ∧ asDecimalBroadcast f x ≤ asDecimalBroadcast f y)) ∧
    (contains4 f y x = true ↔
      (y.len ≤ x.len ∧ ∀ a, (x.net ≤ a ∧ a ≤ asDecimalBroadcast f x) →
        (y.net ≤ a ∧ a ≤ asDecimalBroadcast f y))) := by
  have h1 := contains4_iff_prefix f y x vy vx
  have h2 := interval_iff_prefix f y x vy vx
  have h3 := subset_iff_interval f y x
  refine ⟨h1, h1.trans h2.symm, ?_⟩
  rw [h1, ← h2]
  exact ⟨fun ⟨a, b⟩ => ⟨a, h3.mpr b⟩, fun ⟨a, b⟩ => ⟨a, h3.mp b⟩⟩

/-- **IPv6 membership is subnet containment** (same three readings; the code path differs from
IPv4: no third conjunct, upper bound `as_decimal_network_maxint`). -/
theorem contains6_iff (f : Fam) (y x : Obj) (vy : Valid f y) (vx : Valid f x) :
    (contains6 f y x = true ↔
      (y.len ≤ x.len ∧ x.ip >>> (f.w - y.len) = y.ip >>> (f.w - y.len))) ∧
    (contains6 f y x = true ↔
      (y.len ≤ x.len ∧ y.net ≤ x.net ∧ asDecimalBroadcast f x ≤ asDecimalBroadcast f y)) ∧
    (contains6 f y x = true ↔
      (y.len ≤ x.len ∧ ∀ a, (x.net ≤ a ∧ a ≤ asDecimalBroadcast f x) →
        (y.net ≤ a ∧ a ≤ asDecimalBroadcast f y))) := by
  rw [contains6_eq_contains4 f y x vy vx]
  exact contains4_iff f y x vy vx

/-- the addresses of an object's network (the interval `[network, broadcast]`) are exactly the
addresses that share its leading `len` bits — so "interval" above really is "the network" -/
theorem network_addresses (f : Fam) (x : Obj) (vx : Valid f x) (a : Nat) :
    (x.net ≤ a ∧ a ≤ asDecimalBroadcast f x) ↔ a >>> (f.w - x.len) = x.ip >>> (f.w - x.len) :=
  inNet_iff f x vx a

/-- every object is inside itself (both families) -/
theorem contains_refl (f : Fam) (x : Obj) (vx : Valid f x) :
    contains4 f x x = true ∧ contains6 f x x = true := by
  rw [contains6_eq_contains4 f x x vx vx, and_self, contains4_iff_prefix f x x vx vx]
  exact ⟨Nat.le_refl _, rfl⟩

/-- membership is transitive (both families) -/
theorem contains_trans (f : Fam) (z y x : Obj) (vz : Valid f z) (vy : Valid f y) (vx : Valid f x) :
    (contains4 f z y = true → contains4 f y x = true → contains4 f z x = true) ∧
    (contains6 f z y = true → contains6 f y x = true → contains6 f z x = true) := by
  rw [contains6_eq_contains4 f z y vz vy, contains6_eq_contains4 f y x vy vx,
    contains6_eq_contains4 f z x vz vx, and_self]
  rw [(contains4_iff f z y vz vy).2.1, (contains4_iff f y x vy vx).2.1, (contains4_iff f z x vz vx).2.1]
  rintro ⟨a1, a2, a3⟩ ⟨b1, b2, b3⟩
  exact ⟨by omega, by omega, by omega⟩

/-- host routes, /31 and /127 links, the all-zero prefix: a host route is inside `y` iff its
address is one of `y`'s addresses, first and last included -/
theorem host_route_in (f : Fam) (y : Obj) (a : Nat) (vy : Valid f y) (ha : a < 2 ^ f.w) :
    contains4 f y (ofIpLen f a f.w) = true ↔ (y.net ≤ a ∧ a ≤ asDecimalBroadcast f y) := by
  have vx := valid_ofIpLen f a f.w ha (Nat.le_refl _)
  rw [(contains4_iff f y _ vy vx).1, network_addresses f y vy a]
  simp only [ofIpLen, vy.len_le, true_and]

/-! ## `collapse_addresses`

`collapseNets f nets` is the model of `ipaddress.collapse_addresses` on a list of networks
`(network address, prefix length)` (the stdlib routine `_collapse_addresses_internal`: the
`supernet → net` dict loop followed by the ascending pass that skips covered networks);
`collapse f objs = collapseNets f (objs.map network)` is `ccp_util.collapse_addresses`, which maps
every object to `obj.network` first.  `AlignedNet f n`: prefix length at most `w`, address below
`2^w`, host bits clear.  "`c` is an address of `n`" is `n.1 ≤ c ∧ c ≤ netBcast f n`. -/

/-- **the collapsed networks cover exactly the addresses of the input networks** -/
theorem collapse_covers (f : Fam) (nets : List Net) (al : ∀ n ∈ nets, AlignedNet f n) (c : Nat) :
    (∃ n ∈ collapseNets f nets, n.1 ≤ c ∧ c ≤ netBcast f n) ↔
    (∃ n ∈ nets, n.1 ≤ c ∧ c ≤ netBcast f n) :=
  (collapseNets_spec f nets al).2.1 c

/-- **the collapsed networks are well formed, ascending and pairwise disjoint**: each one ends
before the next one (and every later one) starts -/
theorem collapse_sorted_disjoint (f : Fam) (nets : List Net) (al : ∀ n ∈ nets, AlignedNet f n) :
    (∀ n ∈ collapseNets f nets, AlignedNet f n) ∧
    (collapseNets f nets).Pairwise (fun a b => netBcast f a < b.1) ∧
    (collapseNets f nets).Pairwise (fun a b => a.1 < b.1 ∧
      ∀ c, ¬ ((a.1 ≤ c ∧ c ≤ netBcast f a) ∧ (b.1 ≤ c ∧ c ≤ netBcast f b))) := by
  obtain ⟨h1, _, h3, _⟩ := collapseNets_spec f nets al
  refine ⟨h1, h3, h3.imp ?_⟩
  intro a b hab
  have : a.1 ≤ netBcast f a := by unfold netBcast; omega
  exact ⟨by omega, fun c hc => by omega⟩

/-- **the collapsed networks are the canonical minimal cover**: no two of them have the same
supernet (so no pair of siblings is left unmerged), none lies inside another, and every well-formed
network whose addresses are all covered by the input lies inside a single output network — the
outputs are exactly the maximal networks inside the covered address set -/
theorem collapse_minimal (f : Fam) (nets : List Net) (al : ∀ n ∈ nets, AlignedNet f n) :
    (collapseNets f nets).Pairwise (fun a b => supernet f a ≠ supernet f b) ∧
    (∀ a ∈ collapseNets f nets, ∀ b ∈ collapseNets f nets,
      (∀ c, (b.1 ≤ c ∧ c ≤ netBcast f b) → (a.1 ≤ c ∧ c ≤ netBcast f a)) → a = b) ∧
    (∀ q, AlignedNet f q →
      (∀ c, (q.1 ≤ c ∧ c ≤ netBcast f q) → ∃ n ∈ nets, n.1 ≤ c ∧ c ≤ netBcast f n) →
      ∃ s ∈ collapseNets f nets, ∀ c, (q.1 ≤ c ∧ c ≤ netBcast f q) → (s.1 ≤ c ∧ c ≤ netBcast f s)) := by
  obtain ⟨h1, h2, _, h4⟩ := collapseNets_spec f nets al
  have h3 := (collapse_sorted_disjoint f nets al).2.2
  refine ⟨h4, ?_, ?_⟩
  · intro a ha b hb hsub
    apply Classical.byContradiction
    intro hne
    have hd := pairwise_of_ne (R := fun a b : Net => ∀ c, ¬ ((a.1 ≤ c ∧ c ≤ netBcast f a) ∧
        (b.1 ≤ c ∧ c ≤ netBcast f b)))
      (fun x y hxy c hc => hxy c ⟨hc.2, hc.1⟩) (h3.imp (fun h => h.2)) a ha b hb hne
    have hb0 : b.1 ≤ b.1 ∧ b.1 ≤ netBcast f b := by unfold netBcast; omega
    exact hd b.1 ⟨hsub _ hb0, hb0⟩
  · intro q alq hcov
    exact canonical_cover f _ h1 h4 _ q alq rfl (fun c hc => (h2 c).mpr (hcov c hc))

/-- **API level**: `collapse_addresses(objs)` for objects that may have host bits set.  The output
covers exactly the addresses of the objects' networks (the addresses sharing an object's leading
`len` bits), and is the well-formed, ascending, disjoint, canonical cover of that set. -/
theorem collapse_api (f : Fam) (objs : List Obj) (hv : ∀ x ∈ objs, Valid f x) :
    (∀ c, (∃ n ∈ collapse f objs, n.1 ≤ c ∧ c ≤ netBcast f n) ↔
      (∃ x ∈ objs, c >>> (f.w - x.len) = x.ip >>> (f.w - x.len))) ∧
    (∀ n ∈ collapse f objs, AlignedNet f n) ∧
    (collapse f objs).Pairwise (fun a b => netBcast f a < b.1) ∧
    (collapse f objs).Pairwise (fun a b => supernet f a ≠ supernet f b) ∧
    (∀ q, AlignedNet f q →
      (∀ c, (q.1 ≤ c ∧ c ≤ netBcast f q) → ∃ x ∈ objs, c >>> (f.w - x.len) = x.ip >>> (f.w - x.len)) →
      ∃ s ∈ collapse f objs, ∀ c, (q.1 ≤ c ∧ c ≤ netBcast f q) → (s.1 ≤ c ∧ c ≤ netBcast f s)) := by
  have al : ∀ n ∈ objs.map network, AlignedNet f n := by
    intro n hn
    obtain ⟨x, hx, rfl⟩ := List.mem_map.mp hn
    exact aligned_network f x (hv x hx)
  have tr : ∀ c, (∃ n ∈ objs.map network, n.1 ≤ c ∧ c ≤ netBcast f n) ↔
      (∃ x ∈ objs, c >>> (f.w - x.len) = x.ip >>> (f.w - x.len)) := by
    intro c
    constructor
    · rintro ⟨n, hn, h⟩
      obtain ⟨x, hx, rfl⟩ := List.mem_map.mp hn
      exact ⟨x, hx, (network_addresses f x (hv x hx) c).mp h⟩
    · rintro ⟨x, hx, h⟩
      exact ⟨network x, List.mem_map.mpr ⟨x, hx, rfl⟩, (network_addresses f x (hv x hx) c).mpr h⟩
  have sd := collapse_sorted_disjoint f _ al
  have mn := collapse_minimal f _ al
  refine ⟨fun c => (collapse_covers f _ al c).trans (tr c), sd.1, sd.2.1, mn.1, ?_⟩
  intro q alq hcov
  exact mn.2.2 q alq (fun c hc => (tr c).mpr (hcov c hc))

/-- the family constants of the generated tables satisfy what the proofs assume -/
theorem families_ok : v4.Ok ∧ v6.Ok ∧ v4.w = 32 ∧ v6.w = 128 := ⟨v4_ok, v6_ok, by decide, by decide⟩

-- non-vacuity: a /127 inside a /64, the last address of a /64 (the F17 input), a /31, the zero prefix
example : Valid v6 (ofIpLen v6 0x20010db8000000000000000000000003 127) := by decide
example : contains6 v6 (ofIpLen v6 0x20010db8000000000000000000000000 64)
    (ofIpLen v6 0x20010db8000000000000000000000003 127) = true := by decide
example : contains6 v6 (ofIpLen v6 0x20010db8000000000000000000000000 64)
    (ofIpLen v6 0x20010db800000000ffffffffffffffff 128) = true := by decide
/-- F17 as it was before the repair: the last address of the /64 was reported outside -/
example : contains6AsWritten v6 (ofIpLen v6 0x20010db8000000000000000000000000 64)
    (ofIpLen v6 0x20010db800000000ffffffffffffffff 128) = false := by decide
example : contains4 v4 (ofIpLen v4 0x0a000001 31) (ofIpLen v4 0x0a000000 32) = true := by decide
example : contains4 v4 (ofIpLen v4 0x0a000001 31) (ofIpLen v4 0x0a000002 32) = false := by decide
example : contains4 v4 (ofIpLen v4 0x0a000001 0) (ofIpLen v4 0xffffffff 32) = true := by decide
example : contains4 v4 (ofIpLen v4 0x0a000001 24) (ofIpLen v4 0x0a000001 23) = false := by decide

-- non-vacuity: objects with host bits satisfy the hypotheses; on their networks the dict loop merges the
-- two /25 halves, then 10.0.0.0/24 with 10.0.1.0/24, and the final pass drops the covered host route
-- (`List.mergeSort` is defined by well-founded recursion and does not reduce under `decide`; the two
-- stages around it do)
example : ∀ x ∈ [ofIpLen v4 0x0a000001 25, ofIpLen v4 0x0a000085 25, ofIpLen v4 0x0a000105 24,
    ofIpLen v4 0x0a000107 32, ofIpLen v4 0xc0000201 32], Valid v4 x := by decide
example : ([ofIpLen v4 0x0a000001 25, ofIpLen v4 0x0a000085 25, ofIpLen v4 0x0a000105 24,
    ofIpLen v4 0x0a000107 32, ofIpLen v4 0xc0000201 32].map network)
    = [(0x0a000000, 25), (0x0a000080, 25), (0x0a000100, 24), (0x0a000107, 32), (0xc0000201, 32)] := by decide
example : (mergeLoop v4 34 [(0xc0000201, 32), (0x0a000107, 32), (0x0a000100, 24), (0x0a000080, 25),
    (0x0a000000, 25)] []).map (·.2) = [(0x0a000000, 23), (0x0a000107, 32), (0xc0000201, 32)] := by decide
example : dropCovered v4 none [(0x0a000000, 23), (0x0a000107, 32), (0xc0000201, 32)]
    = [(0x0a000000, 23), (0xc0000201, 32)] := by decide

/-! ## The other operands `in` and `collapse_addresses` meet

`containsX self val` is `val in self` for any two operands (`Ccp.Model.IPValX`): a non-empty object of
either family, the empty object `IPv4Obj()` / `IPv6Obj()`, or a `str`; the answer is a truth value or
the exception class that escapes.  `collapseX isSeq items` is `collapse_addresses(arg)` for an argument
that is a `Sequence` or not, with items that are objects, stdlib networks, empty objects or something else. -/

open Ccp.IPValX in
/-- **on two non-empty objects of one family the general operator is the membership test of the
theorems above** (so `contains4_iff` / `contains6_iff` speak about `in` itself), and it never raises there -/
theorem containsX_same_family (y x : Obj) :
    containsX (.obj4 y) (.obj4 x) = some (.ok (contains4 v4 y x)) ∧
    containsX (.obj6 y) (.obj6 x) = some (.ok (contains6 v6 y x)) := by
  refine ⟨rfl, ?_⟩
  simp only [containsX, contains6X]
  split
  · next h => simp [contains6, h]
  · rfl

open Ccp.IPValX in
/-- **empty objects, IPv4**: `IPv4Obj() in IPv4Obj()` is true; an empty object is in no non-empty
object and contains none; between IPv4 operands (empty or not) `in` never raises. -/
theorem containsX_empty4 (x : Obj) :
    containsX .empty4 .empty4 = some (.ok true) ∧
    containsX (.obj4 x) .empty4 = some (.ok false) ∧
    containsX .empty4 (.obj4 x) = some (.ok false) := ⟨rfl, rfl, rfl⟩

open Ccp.IPValX in
/-- **empty objects, IPv6**: an empty container raises `ValueError` whatever the operand; an empty
operand raises `ValueError` unless the container is the zero prefix, which answers `True` before it
looks at the operand. -/
theorem containsX_empty6 (y : Obj) (val : Arg) :
    containsX .empty6 val = some (.error .valueError) ∧
    (y.len ≠ 0 → containsX (.obj6 y) .empty6 = some (.error .valueError)) ∧
    (y.len = 0 → containsX (.obj6 y) val = some (.ok true)) := by
  refine ⟨rfl, fun h => ?_, fun h => ?_⟩ <;> simp [containsX, contains6X, h]

open Ccp.IPValX in
/-- **the other family** (what `ipgrep` guards against with `addr.version == subnet.version`): an IPv6
operand in an IPv4 container is decided by the prefix lengths and the first comparison, else
`ValueError`; an IPv4 operand in an IPv6 container is `True` for the zero prefix, `False` for a longer
container prefix, else `ValueError`.  It is never decided by containment. -/
theorem containsX_other_family (y x : Obj) :
    containsX (.obj4 y) (.obj6 x) = some (
      if y.len = 0 then .ok true else if y.len > x.len then .ok false
      else if y.net ≤ x.net then .error .valueError else .ok false) ∧
    containsX (.obj6 y) (.obj4 x) = some (
      if y.len = 0 then .ok true else if y.len > x.len then .ok false else .error .valueError) :=
  ⟨rfl, rfl⟩

open Ccp.IPValX in
/-- **`collapse_addresses` accepts objects and stdlib networks alike**: for a `Sequence` of objects /
networks of one family the result is the stdlib collapse of the networks they stand for (so
`collapse_covers` … `collapse_minimal` apply); in particular a list of objects and the list of their
`.network`s give the same result, which is `collapse` of the theorems above. -/
theorem collapseX_forms (fam : Nat) (items : List Item) (hg : ∀ i ∈ items, GoodItem i)
    (hf : ∀ i ∈ items, (itemNet i).1 = fam) (hne : items ≠ []) :
    collapseX true items = .ok (collapseNets (famOfNat fam) (items.map (fun i => (itemNet i).2))) := by
  have hs : sameVersion (items.map itemNet) = true :=
    sameVersion_const fam _ (fun p hp => by
      obtain ⟨i, hi, rfl⟩ := List.mem_map.mp hp
      exact hf i hi)
  simp only [collapseX, Bool.not_true, Bool.false_eq_true, if_false, ipNets_good items hg, hs]
  cases items with
  | nil => exact absurd rfl hne
  | cons i is =>
    have := hf i (List.mem_cons_self ..)
    simp only [List.map_cons, this, List.map_map]
    rfl

open Ccp.IPValX in
theorem collapseX_objects (fam : Nat) (objs : List Obj) :
    collapseX true (objs.map (.obj fam)) = .ok (collapse (famOfNat fam) objs) ∧
    collapseX true (objs.map (fun x => .net fam (network x))) = .ok (collapse (famOfNat fam) objs) := by
  cases objs with
  | nil => exact ⟨by simp [collapseX, ipNets, sameVersion, collapse, collapseNets, mergeLoop, dropCovered],
      by simp [collapseX, ipNets, sameVersion, collapse, collapseNets, mergeLoop, dropCovered]⟩
  | cons x xs =>
    constructor
    · rw [collapseX_forms fam _ (by simp [GoodItem]) (by simp [itemNet]) (by simp)]
      simp [collapse, itemNet, Function.comp_def]
    · rw [collapseX_forms fam _ (by simp [GoodItem]) (by simp [itemNet]) (by simp)]
      simp [collapse, itemNet, Function.comp_def]

open Ccp.IPValX in
/-- **what `collapse_addresses` rejects**: an argument that is not a `Sequence` (a set, a dict, an
iterator) → `ValueError`; otherwise the first item that is neither object nor network decides —
`ValueError` for another type, `AttributeError` for an empty object; two neighbouring items of
different families → `TypeError` (from the stdlib). -/
theorem collapseX_rejects (items pre post : List Item) (hp : ∀ i ∈ pre, GoodItem i) :
    collapseX false items = .error .valueError ∧
    collapseX true (pre ++ .bad :: post) = .error .valueError ∧
    collapseX true (pre ++ .empty :: post) = .error .attributeError ∧
    (∀ a b : Item, GoodItem a → GoodItem b → (∀ i ∈ post, GoodItem i) → (itemNet a).1 ≠ (itemNet b).1 →
      collapseX true (pre ++ a :: b :: post) = .error .typeError) := by
  refine ⟨rfl, ?_, ?_, ?_⟩
  · simp [collapseX, ipNets_first_bad pre .bad post hp .valueError rfl]
  · simp [collapseX, ipNets_first_bad pre .empty post hp .attributeError rfl]
  · intro a b ha hb hpost hne
    have hg : ∀ i ∈ pre ++ a :: b :: post, GoodItem i := by
      intro i hi
      simp only [List.mem_append, List.mem_cons] at hi
      rcases hi with h | rfl | rfl | h
      · exact hp i h
      · exact ha
      · exact hb
      · exact hpost i h
    have hs := sameVersion_adjacent (pre.map itemNet) (itemNet a) (itemNet b) (post.map itemNet) hne
    simp only [collapseX, Bool.not_true, Bool.false_eq_true, if_false, ipNets_good _ hg, List.map_append,
      List.map_cons, hs, Bool.not_false, if_true]

-- non-vacuity: the first comparison decides `False` for the other family, else `ValueError`; the zero prefix
-- of IPv6 contains a str
open Ccp.IPValX in
example : containsX (.obj4 (ofIpLen v4 0x0a000001 8)) (.obj6 (ofIpLen v6 0x0a000001 128)) = some (.error .valueError) ∧
    containsX (.obj4 (ofIpLen v4 0x0a000001 8)) (.obj6 (ofIpLen v6 1 128)) = some (.ok false) ∧
    containsX (.obj6 (ofIpLen v6 1 0)) .other = some (.ok true) ∧
    containsX (.obj4 (ofIpLen v4 1 0)) .other = some (.error .attributeError) := by decide
open Ccp.IPValX in
example : collapseX true [.obj 4 (ofIpLen v4 0x0a000001 24), .bad, .empty] = .error .valueError ∧
    collapseX true [.obj 4 (ofIpLen v4 0x0a000001 24), .empty, .bad] = .error .attributeError ∧
    collapseX true [.obj 4 (ofIpLen v4 0x0a000001 24), .net 6 (0, 64)] = .error .typeError ∧
    collapseX false [] = .error .valueError ∧ collapseX true [] = .ok [] := by decide

end Ccp.C12
