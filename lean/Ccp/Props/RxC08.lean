import Ccp.Gen.Tables
/-!
# RxC08 — the pyparsing configuration the scanner of `Ccp.Model.Brace` was written for

`BraceParse.parse_braces_to_nested_list` (ciscoconfparse2.py) contains no `re` call; its grammar is a pyparsing
expression, which `lean/Ccp/Model/Brace.lean` re-implements by hand.  `Ccp.Gen.Tables` is regenerated on every run:
the arguments of the pyparsing calls are read from `/repo`'s source (`harness/translate.py` + `harness/rxscan.py`, AST
only); the constants of pyparsing itself (`pp…`) are read from the *installed* third-party package by importing it
(like the `macaddress` templates of C16; they are not part of `/repo`).  The theorem states that both are what the
model was written for.

| source | scanner in `lean/Ccp/Model/Brace.lean` |
|---|---|
| `Word(printables, exclude_chars="{}")`, `White(' ')`, `Combine(OneOrMore(… \| …))` | `isRunChar` (`isPrintable` = `pyparsing.printables`), the content runs of `lexHead` |
| `nested_expr(opener="{", closer="}", content=valid_chars)` — no `ignore_expr=` keyword, so pyparsing's default `quoted_string` | `parseItems` / `lexHead` / `nextTok` (`isSkip` = `DEFAULT_WHITE_CHARS`), `quotedBody` (the `Regex` of `quoted_string`, with `isHex`) |
| `parseobj.parse_string("{" + config_txt + "}")` — one positional argument, so `parse_all=False` | `braceText`: text after the closing brace of the outermost group is ignored; `expandTabsFrom` (`parse_string` expands tabs) |
| `unpack_nested_list_to_config_objs`: `elem[-1] == ';'` | `cleanTok` |
| `pyparsing.printables`, `ParserElement.DEFAULT_WHITE_CHARS`, the two `Regex` patterns of `pyparsing.quoted_string`, the defaults of `nested_expr(ignore_expr=)` and `parse_string(parse_all=)` | as above (`isPrintable`: the 94 code points 33 … 126; `isSkip`: blank, `\n`, `\r`, `\t`) |

In `rxBraceCalls` a value is the quoted text of a string constant, `name X` for an imported name passed as is,
`template '…'` for a string built around a non-constant part, and `<dynamic>` for any other expression.
(`BraceParse.stop_width` and the junos comment delimiter are tied by `Ccp.C08.stop_width_is_four` and the theorems of
`Ccp.Props.C08`.)

**Scan sets as revised.**  The lists below contain only what identifies the regex / separator a scanner was written
for: regex-engine calls (`re.*`, methods of compiled patterns, the `re_*` helpers of the package) with the pattern in
*canonical form* — canonical verbose form and no VERBOSE flag for a pattern compiled with `re.VERBOSE`; group names
removed (`(?P<n>…)` is written `(…)`, `(?P=n)` by number); redundant escapes removed (`\:` is `:`); a pattern handed to a
same-file helper as an argument, or built from a local name that ranges over a constant collection, reported once per
value; a search that cannot fail (`.*`) not reported — with the flags and, for `re.sub`, the replacement; and the
separator arguments of `str.split / rsplit / partition / rpartition / join / replace / strip / splitlines`.  The literal
tests (`"lit" in …`, comparisons with string literals and their subscripts, `str.startswith / endswith / find …`) that
earlier versions of these lists contained are now the INFORMATIONAL definitions `Gen.rx…Info`: no theorem is about
them, so reading a regex group into a local, hoisting a `.split()`, merging branches or renaming a group does not break
an obligation.  Where the text above speaks of such a test as part of a scan set, read: part of `…Info`.
-/
namespace Ccp.RxC08

/-- **regexes_as_modelled** — see the table in the module comment above: every regular expression / separator of the
source for which the model contains a hand-written scanner has the text that scanner was written for.  (The goals
are named `regexes_as_modelled__<definition>`, so that a failing build names the constant that was edited.) -/
theorem regexes_as_modelled :
    Gen.rxBraceCalls =
      [("Word 0", "name printables"),
       ("Word exclude_chars", "'{}'"),
       ("White 0", "' '"),
       ("Combine 0", "<dynamic>"),
       ("OneOrMore 0", "<dynamic>"),
       ("nested_expr opener", "'{'"),
       ("nested_expr closer", "'}'"),
       ("nested_expr content", "<dynamic>"),
       ("parse_string 0", "template '{<dynamic>}'")] ∧
    Gen.rxBraceUnpack =
      [] ∧
    Gen.ppPrintables =
      "0123456789abcdefghijklmnopqrstuvwxyzABCDEFGHIJKLMNOPQRSTUVWXYZ!\"#$%&'()*+,-./:;<=>?@[\\]^_`{|}~" ∧
    Gen.ppDefaultWhiteChars =
      "\x09\x0a\x0d " ∧
    Gen.ppQuotedStringRegexes =
      ["\"(?:[^\"\\n\\r\\\\]|(?:\"\")|(?:\\\\(?:[^x]|x[0-9a-fA-F]+)))*", "'(?:[^'\\n\\r\\\\]|(?:'')|(?:\\\\(?:[^x]|x[0-9a-fA-F]+)))*"] ∧
    Gen.ppNestedExprIgnoreDefault =
      "quoted_string" ∧
    Gen.ppParseAllDefault =
      "False" := by
  refine ⟨?regexes_as_modelled__rxBraceCalls, ?regexes_as_modelled__rxBraceUnpack,
    ?regexes_as_modelled__ppPrintables, ?regexes_as_modelled__ppDefaultWhiteChars,
    ?regexes_as_modelled__ppQuotedStringRegexes, ?regexes_as_modelled__ppNestedExprIgnoreDefault,
    ?regexes_as_modelled__ppParseAllDefault⟩
  all_goals rfl

end Ccp.RxC08
