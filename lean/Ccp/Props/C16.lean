import Ccp.Proofs.Mac
import Ccp.Proofs.MacSearch
import Ccp.Gen.Tables
/-!
# C16 — MAC and EUI-64 objects: every rendering denotes the same address

Property theorems only; helper lemmas and the spec functions (`toHex`, `ofHex`, `fill`,
`tmatch`, `hexFold`, `tpl`) live in `Ccp.Proofs.Mac`.

Reading guide.  `k : Kind` is `MACObj` (6 bytes) or `EUI64Obj` (8 bytes).
`parseObj k s` is the constructor on a `str` (`.ok value` or `.error .valueError`).
`tpl k i` is the i-th template of `macaddress` for that size
(`xx-xx-…`, `xx:xx:…`, `xxxx.xxxx.…`, bare hex).  `fill t ds` writes the digits `ds` into the
`x` positions of template `t`; `toHex w v` is `format(v, "0{w}x")`; `tmatch t s` says that the
text `s` instantiates template `t` with hex digits of either case.
-/
namespace Ccp.C16
open Ccp.Mac Ccp.Py

/-- the `2·nbytes` lower-case hex digits of an address, most significant first -/
abbrev digits (k : Kind) (v : Nat) : Str := toHex (2 * k.nbytes) v

/-- **hex_roundtrip**: reading back the `w`-digit hex text of `v < 16^w` gives `v`. -/
theorem hex_roundtrip (w v : Nat) (h : v < 16 ^ w) : ofHex (toHex w v) = v := by
  rw [ofHex_toHex, Nat.mod_eq_of_lt h]

example : toHex 4 0x0a0f = "0a0f".toList ∧ ofHex "0A0f".toList = 0x0a0f := by decide

/-- **render_lower_grouped**: for every value, each rendering is the corresponding template
(dash, colon, Cisco-dotted; `unix` is the dash form) with its `x` positions filled, left to
right, by the lower-case hex digits of the value — hence grouped in twos (fours) with the
right separator — and it contains nothing but lower-case hex digits and that separator. -/
theorem render_lower_grouped (k : Kind) (v : Nat) :
    dash k v = fill (tpl k 0) (digits k v) ∧
    colon k v = fill (tpl k 1) (digits k v) ∧
    cisco k v = fill (tpl k 2) (digits k v) ∧
    unix v = fill (tpl .mac 0) (digits .mac v) ∧
    (∀ c ∈ dash k v, c ∈ lowerDigits ∨ c = '-') ∧
    (∀ c ∈ colon k v, c ∈ lowerDigits ∨ c = ':') ∧
    (∀ c ∈ cisco k v, c ∈ lowerDigits ∨ c = '.') := by
  refine ⟨dash_eq k v, colon_eq k v, cisco_eq k v, dash_eq .mac v, ?_, ?_, ?_⟩
  · intro c hc
    rw [dash_eq] at hc
    rcases fill_chars k _ (tpl_mem k 0 (by omega)) v c hc with h | h
    · exact Or.inl h
    · have : ∀ c ∈ tpl k 0, c = 'x' ∨ c = '-' := by cases k <;> decide
      exact Or.inr ((this c h.1).resolve_left h.2)
  · intro c hc
    rw [colon_eq] at hc
    rcases fill_chars k _ (tpl_mem k 1 (by omega)) v c hc with h | h
    · exact Or.inl h
    · have : ∀ c ∈ tpl k 1, c = 'x' ∨ c = ':' := by cases k <;> decide
      exact Or.inr ((this c h.1).resolve_left h.2)
  · intro c hc
    rw [cisco_eq] at hc
    rcases fill_chars k _ (tpl_mem k 2 (by omega)) v c hc with h | h
    · exact Or.inl h
    · have : ∀ c ∈ tpl k 2, c = 'x' ∨ c = '.' := by cases k <;> decide
      exact Or.inr ((this c h.1).resolve_left h.2)

-- the templates, spelled out
example : tpl .mac 0 = "xx-xx-xx-xx-xx-xx".toList ∧ tpl .mac 1 = "xx:xx:xx:xx:xx:xx".toList ∧
    tpl .mac 2 = "xxxx.xxxx.xxxx".toList ∧ tpl .mac 3 = "xxxxxxxxxxxx".toList := by decide
example : tpl .eui64 0 = "xx-xx-xx-xx-xx-xx-xx-xx".toList ∧ tpl .eui64 1 = "xx:xx:xx:xx:xx:xx:xx:xx".toList ∧
    tpl .eui64 2 = "xxxx.xxxx.xxxx.xxxx".toList ∧ tpl .eui64 3 = "xxxxxxxxxxxxxxxx".toList := by decide
-- leading-zero bytes, an `ff` byte, letters
example : cisco .mac 0x000a0bff0c0d = "000a.0bff.0c0d".toList ∧ colon .mac 0x000a0bff0c0d = "00:0a:0b:ff:0c:0d".toList ∧
    dash .eui64 0x000a0bff0c0d0e0f = "00-0a-0b-ff-0c-0d-0e-0f".toList := by decide

/-- **render_bytes**: the same renderings read byte-wise — the two lower-case hex digits of each
byte, most significant byte first, joined by the separator (Cisco form: bytes paired). -/
theorem render_bytes_mac (v : Nat) :
    let b := fun j => toHex 2 (v / 256 ^ (5 - j) % 256)
    dash .mac v = join ['-'] [b 0, b 1, b 2, b 3, b 4, b 5] ∧
    colon .mac v = join [':'] [b 0, b 1, b 2, b 3, b 4, b 5] ∧
    cisco .mac v = join ['.'] [b 0 ++ b 1, b 2 ++ b 3, b 4 ++ b 5] := by
  have e : ∀ a b : Nat, a = b → hexL a = hexL b := fun _ _ h => by rw [h]
  rw [dash_mac, colon_mac, cisco_mac]
  simp only [tpl, Kind.cls, eui48, List.getD_cons_zero, List.getD_cons_succ, fill, toHex, join,
    List.nil_append, List.cons_append, if_true, if_false, Char.reduceEq]
  refine ⟨?_, ?_, ?_⟩ <;> simp only [List.cons.injEq, and_true, true_and] <;>
    (repeat' apply And.intro) <;> (apply e; omega)

theorem render_bytes_eui64 (v : Nat) :
    let b := fun j => toHex 2 (v / 256 ^ (7 - j) % 256)
    dash .eui64 v = join ['-'] [b 0, b 1, b 2, b 3, b 4, b 5, b 6, b 7] ∧
    colon .eui64 v = join [':'] [b 0, b 1, b 2, b 3, b 4, b 5, b 6, b 7] ∧
    cisco .eui64 v = join ['.'] [b 0 ++ b 1, b 2 ++ b 3, b 4 ++ b 5, b 6 ++ b 7] := by
  have e : ∀ a b : Nat, a = b → hexL a = hexL b := fun _ _ h => by rw [h]
  rw [dash_eui64, colon_eui64, cisco_eui64]
  simp only [tpl, Kind.cls, eui64, List.getD_cons_zero, List.getD_cons_succ, fill, toHex, join,
    List.nil_append, List.cons_append, if_true, if_false, Char.reduceEq]
  refine ⟨?_, ?_, ?_⟩ <;> simp only [List.cons.injEq, and_true, true_and] <;>
    (repeat' apply And.intro) <;> (apply e; omega)

/-- **reparse_eq**: for every 48-bit (64-bit) value each rendering — and the separator-free
form `dash.replace('-', '')` that `macgrep` searches — constructs an object with the same value. -/
theorem reparse_eq (k : Kind) (v : Nat) (hv : v < 2 ^ (8 * k.nbytes)) :
    parseObj k (dash k v) = .ok v ∧ parseObj k (colon k v) = .ok v ∧
    parseObj k (cisco k v) = .ok v ∧ parseObj k ((dash k v).filter (· != '-')) = .ok v := by
  rw [bare_eq, dash_eq, colon_eq, cisco_eq]
  exact ⟨parse_fill k _ (tpl_mem k 0 (by omega)) v hv, parse_fill k _ (tpl_mem k 1 (by omega)) v hv,
    parse_fill k _ (tpl_mem k 2 (by omega)) v hv, parse_fill k _ (tpl_mem k 3 (by omega)) v hv⟩

theorem reparse_unix (v : Nat) (hv : v < 2 ^ 48) : parseObj .mac (unix v) = .ok v :=
  (reparse_eq .mac v hv).1

example : (2 : Nat) ^ 48 - 1 < 2 ^ (8 * Kind.mac.nbytes) := by decide

/-- **accepted_iff** (all spellings, all letter cases): a text is accepted exactly when it
instantiates one of the four templates of its size — every `x` position holds one of
`0-9A-Fa-f`, every other position the template's separator — and the value is then the number
spelled by its hex digits. -/
theorem accepted_iff (k : Kind) (s : Str) (v : Nat) :
    parseObj k s = .ok v ↔ (∃ t ∈ k.cls.formats, tmatch t s = true) ∧ v = hexFold 0 s := by
  rw [parseObj_eq]
  by_cases h : k.cls.formats.any (fun t => tmatch t s) = true
  · rw [if_pos h]
    constructor
    · intro hv; cases hv; exact ⟨List.any_eq_true.mp h, rfl⟩
    · rintro ⟨_, rfl⟩; rfl
  · rw [if_neg h]
    constructor
    · intro hv; cases hv
    · rintro ⟨hm, _⟩; exact absurd (List.any_eq_true.mpr hm) h

/-- **spelling_accepted**: conversely every way of writing `2·nbytes` hex digits, in any mix of
upper and lower case, into any of the four templates is accepted and denotes those digits. -/
theorem spelling_accepted (k : Kind) (t : Str) (ht : t ∈ k.cls.formats) (ds : Str)
    (hd : ∀ d ∈ ds, isHex d = true) (hl : ds.length = 2 * k.nbytes) :
    parseObj k (fill t ds) = .ok (ofHex ds) :=
  parse_fill_digits k t ht ds hd hl

/-- **case_irrelevant**: two spellings in the same template whose digits have the same values
position by position (e.g. they differ only in letter case) construct the same value. -/
theorem case_irrelevant (k : Kind) (t : Str) (ht : t ∈ k.cls.formats) (ds ds' : Str)
    (hd : ∀ d ∈ ds, isHex d = true) (hd' : ∀ d ∈ ds', isHex d = true)
    (hl : ds.length = 2 * k.nbytes) (hl' : ds'.length = 2 * k.nbytes)
    (h : ds.map hexVal = ds'.map hexVal) :
    parseObj k (fill t ds) = parseObj k (fill t ds') := by
  have e : ∀ l : Str, ofHex l = (l.map hexVal).foldl (fun a x => a * 16 + x) 0 := by
    intro l; simp [ofHex, List.foldl_map]
  rw [spelling_accepted k t ht ds hd hl, spelling_accepted k t ht ds' hd' hl', e ds, e ds', h]

example : "00aAbBcCdDfF".toList.map hexVal = "00AABBCCDDFF".toList.map hexVal := by decide

-- mixed case, Cisco template; the same digits in another case denote the same value
example : fill (tpl .mac 2) "00aAbBcCdDfF".toList = "00aA.bBcC.dDfF".toList ∧
    ofHex "00aAbBcCdDfF".toList = ofHex "00AABBCCDDFF".toList := by decide

/-- every accepted text denotes a value below `2^48` (`2^64`) -/
theorem value_in_range (k : Kind) (s : Str) (v : Nat) (h : parseObj k s = .ok v) :
    v < 2 ^ (8 * k.nbytes) := parseObj_lt k s v h

/-- **eq_iff_value**: two objects built from any two accepted texts (whatever template and
letter case) compare `==` iff their values are equal; the same holds for `==` against a plain
`macaddress` object of the same class. -/
theorem eq_iff_value (k : Kind) (s1 s2 : Str) (v1 v2 : Nat)
    (h1 : parseObj k s1 = .ok v1) (h2 : parseObj k s2 = .ok v2) :
    (eq k v1 v2 = true ↔ v1 = v2) ∧ (eqRaw k v1 v2 = true ↔ v1 = v2) := by
  have b1 := parseObj_lt k s1 v1 h1
  have b2 := parseObj_lt k s2 v2 h2
  have key : ∀ i, i < 4 → fill (tpl k i) (digits k v1) = fill (tpl k i) (digits k v2) → v1 = v2 := by
    intro i hi he
    have p1 := parse_fill k _ (tpl_mem k i hi) v1 b1
    have p2 := parse_fill k _ (tpl_mem k i hi) v2 b2
    rw [he, p2] at p1
    exact (Except.ok.inj p1).symm
  constructor
  · simp only [eq, dash_eq, lower_fill_toHex k _ (tpl_mem k 0 (by omega)), beq_iff_eq]
    exact ⟨key 0 (by omega), fun h => by rw [h]⟩
  · simp only [eqRaw, canon_eq, beq_iff_eq]
    exact ⟨key 0 (by omega), fun h => by rw [h]⟩

-- two spellings of one address, and a neighbour
example : (parseObj .mac "00AA.bbCC.0001".toList).toOption = some 0x00aabbcc0001 ∧
    (parseObj .mac "00:aa:BB:cc:00:01".toList).toOption = some 0x00aabbcc0001 ∧
    eq .mac 0x00aabbcc0001 0x00aabbcc0001 = true ∧ eq .mac 0x00aabbcc0001 0x00aabbcc0002 = false := by
  decide

/-- **wrong_length_rejected**: a text whose length is not that of one of the four templates of
the class (12, 14, 17 characters for 48 bits; 16, 19, 23 for 64 bits) raises `ValueError`;
in particular a 64-bit spelling is not a `MACObj` and vice versa. -/
theorem wrong_length_rejected (k : Kind) (s : Str)
    (h : match k with
      | .mac => s.length ≠ 12 ∧ s.length ≠ 14 ∧ s.length ≠ 17
      | .eui64 => s.length ≠ 16 ∧ s.length ≠ 19 ∧ s.length ≠ 23) :
    parseObj k s = .error .valueError := by
  rw [parseObj_eq]
  have : k.cls.formats.any (fun t => tmatch t s) = false := by
    rw [Bool.eq_false_iff]
    intro hany
    obtain ⟨t, ht, hm⟩ := List.any_eq_true.mp hany
    have hl := tmatch_length t s hm
    cases k
    · simp only [Kind.cls, eui48, List.mem_cons, List.not_mem_nil, or_false] at ht
      rcases ht with rfl | rfl | rfl | rfl <;> simp at hl <;> omega
    · simp only [Kind.cls, eui64, List.mem_cons, List.not_mem_nil, or_false] at ht
      rcases ht with rfl | rfl | rfl | rfl <;> simp at hl <;> omega
  rw [this]; rfl

/-- **rejected_iff**: more generally a text is rejected (always with `ValueError`) exactly when
it instantiates none of the templates — right length or not. -/
theorem rejected_iff (k : Kind) (s : Str) :
    parseObj k s = .error .valueError ↔ ∀ t ∈ k.cls.formats, tmatch t s = false := by
  rw [parseObj_eq]
  by_cases h : k.cls.formats.any (fun t => tmatch t s) = true
  · rw [if_pos h]
    constructor
    · intro hv; cases hv
    · intro hall
      obtain ⟨t, ht, hm⟩ := List.any_eq_true.mp h
      rw [hall t ht] at hm; cases hm
  · rw [if_neg h]
    refine ⟨fun _ t ht => ?_, fun _ => rfl⟩
    cases hm : tmatch t s
    · rfl
    · exact absurd (List.any_eq_true.mpr ⟨t, ht, hm⟩) h

-- near misses: one group short, a 1-digit group, mixed separators, 13 hex digits, a non-hex
-- letter, a literal `x`, a blank before / after, the other size
example : ["0123.45ab".toList, "1:23:45:ab:cd:ef".toList, "01-23-45:ab-cd-ef".toList,
    "0123456789abc".toList, "0123.45ab.cdeg".toList, "xxxx.xxxx.xxxx".toList, " 0123.45ab.cdef".toList,
    "0123.45ab.cdef ".toList, "0123.45ab.cdef.0001".toList, []].all
      (fun s => (parseObj .mac s).toOption == none) = true := by decide
example : (parseObj .eui64 "0123.45ab.cdef.0001".toList).toOption = some 0x012345abcdef0001 ∧
    (parseObj .eui64 "0123.45ab.cdef".toList).toOption = none := by decide

/-! ## The templates are those of the installed package -/

/-- **templates_as_modelled**: the templates, sizes and hex alphabet written in the model are
those of the installed `macaddress` package (`Ccp.Gen.Tables` is regenerated from
`macaddress.EUI48.formats` / `EUI64.formats` / `.size` / `_HEX_DIGITS` on every run). -/
theorem templates_as_modelled :
    Gen.macTemplates48.map String.toList = eui48.formats ∧
    Gen.macTemplates64.map String.toList = eui64.formats ∧
    Gen.macSize48 = eui48.size ∧ Gen.macSize64 = eui64.size ∧
    Gen.macHexDigits.toList = hexDigits := by decide

/-! ## `macaddress.parse(word, MAC, EUI64)` — the classification `MACEUISearch` (macgrep) uses -/

/-- **classify_iff_parseObj**: a word is classified as kind `k` with value `v` exactly when the
constructor of that kind (`MACObj` for 48 bits, `EUI64Obj` for 64 bits) accepts it with value `v`. -/
theorem classify_iff_parseObj (w : Str) (k : Kind) (v : Nat) :
    classify w = .ok (k, v) ↔ parseObj k w = .ok v := Mac.classify_iff_parseObj w k v

/-- **classify_spec**: a word is classified as the 48-bit (64-bit) kind iff it instantiates one of
that size's four templates, and the value is the number its hex digits spell … -/
theorem classify_spec (w : Str) (k : Kind) (v : Nat) :
    classify w = .ok (k, v) ↔ (∃ t ∈ k.cls.formats, tmatch t w = true) ∧ v = hexFold 0 w := by
  rw [classify_iff_parseObj, accepted_iff]

/-- … never both: no word is accepted by the constructors of both sizes (so the classification
does not depend on the order of the classes in the call). -/
theorem classify_exclusive (w : Str) (v v' : Nat) :
    ¬ (parseObj .mac w = .ok v ∧ parseObj .eui64 w = .ok v') := by
  rintro ⟨h1, h2⟩
  have a := (classify_iff_parseObj w .mac v).mpr h1
  have b := (classify_iff_parseObj w .eui64 v').mpr h2
  rw [a] at b
  cases b

/-- **classify_rejects_iff**: a word is rejected (`ValueError`, `mac_retval = None`) exactly when
it instantiates no template of either size, i.e. when both constructors reject it. -/
theorem classify_rejects_iff (w : Str) :
    classify w = .error .valueError ↔
      (∀ k : Kind, ∀ t ∈ k.cls.formats, tmatch t w = false) := by
  constructor
  · intro h k
    apply (rejected_iff k w).mp
    cases hp : parseObj k w with
    | error e => cases e; rfl
    | ok v =>
      have := (classify_iff_parseObj w k v).mpr hp
      rw [this] at h; cases h
  · intro h
    cases hc : classify w with
    | error e => cases e; rfl
    | ok r =>
      obtain ⟨k, v⟩ := r
      have hp := (classify_iff_parseObj w k v).mp hc
      rw [(rejected_iff k w).mpr (h k)] at hp
      cases hp

example : (classify "dead.beef.0001".toList).toOption = some (.mac, 0xdeadbeef0001) ∧
    (classify "DE-AD-BE-EF-00-01-00-02".toList).toOption = some (.eui64, 0xdeadbeef00010002) ∧
    (classify "dead.beef.001".toList).toOption = none := by decide

/-! ## `==` across sizes and against plain `macaddress` objects -/

/-- **eq_across_kinds**: `==` between any two objects — `MACObj`, `EUI64Obj`, plain
`macaddress.EUI48` / `EUI64`, in either order — built from accepted texts is true exactly when
they have the same size and the same address.  In particular a 48-bit and a 64-bit object with
the same integer are never equal, and a wrapper equals the plain object of its own size with the
same address (from either side). -/
theorem eq_across_kinds (a b : Obj) (sa sb : Str)
    (ha : parseObj a.kind sa = .ok a.value) (hb : parseObj b.kind sb = .ok b.value) :
    objEq a b = true ↔ a.kind = b.kind ∧ a.value = b.value :=
  objEq_iff a b (parseObj_lt _ sa _ ha) (parseObj_lt _ sb _ hb)

/-- the same integer in the two sizes: unequal for every value and every combination of wrapper /
plain objects, with no hypothesis on the value -/
theorem same_integer_other_size_ne (v w : Nat) :
    objEq (.wrapped .mac v) (.wrapped .eui64 w) = false ∧ objEq (.wrapped .eui64 v) (.wrapped .mac w) = false ∧
    objEq (.wrapped .mac v) (.plain .eui64 w) = false ∧ objEq (.wrapped .eui64 v) (.plain .mac w) = false ∧
    objEq (.plain .mac v) (.wrapped .eui64 w) = false ∧ objEq (.plain .eui64 v) (.wrapped .mac w) = false := by
  simp [objEq]

example : objEq (.wrapped .mac 0xff) (.plain .mac 0xff) = true ∧ objEq (.plain .mac 0xff) (.wrapped .mac 0xff) = true ∧
    objEq (.wrapped .mac 0xff) (.wrapped .eui64 0xff) = false ∧ objEq (.plain .eui64 0xff) (.wrapped .eui64 0xfe) = false := by
  decide

/-! ## `str()` / `repr()` of the objects -/

/-- **str_repr_spec**: `str(obj)` and `repr(obj)` are `<MACObj T>` / `<EUI64Obj T>` where `T` is the
canonical text of macaddress; `T` is the dash rendering in upper case (lower-casing it gives `dash`),
it is the dash template filled with the upper-case digits of the value, and — like every other
rendering — it constructs an object with the same value. -/
theorem str_repr_spec (k : Kind) (v : Nat) (hv : v < 2 ^ (8 * k.nbytes)) :
    reprObj k v = reprHead k ++ hwStr k.cls v ++ ['>'] ∧
    hwStr k.cls v = fill (tpl k 0) (toHexU (2 * k.nbytes) v) ∧
    lower (hwStr k.cls v) = dash k v ∧
    parseObj k (hwStr k.cls v) = .ok v :=
  ⟨rfl, str_eq k v, by rw [canon_eq, dash_eq], parse_str k v hv⟩

example : reprHead .mac = "<MACObj ".toList ∧ reprHead .eui64 = "<EUI64Obj ".toList ∧
    reprObj .mac 0x000a0bff0c0d = "<MACObj 00-0A-0B-FF-0C-0D>".toList ∧
    reprObj .eui64 0x000a0bff0c0d0e0f = "<EUI64Obj 00-0A-0B-FF-0C-0D-0E-0F>".toList := by decide

/-! ## `MACEUISearch`: `__str__` and `search_all_formats` (macgrep) -/

/-- **search_str_spec**: `str(MACEUISearch(word))` names the word and the Cisco rendering of the
address the word was classified as (`MAC` for 48 bits, `EUI64` for 64 bits), or `None`. -/
theorem search_str_spec (w : Str) :
    (∀ v, parseObj .mac w = .ok v → searchStr w =
      searchHead ++ w ++ searchMid ++ (['M', 'A', 'C', ' '] ++ cisco .mac v) ++ ['>']) ∧
    (∀ v, parseObj .eui64 w = .ok v → searchStr w =
      searchHead ++ w ++ searchMid ++ (['E', 'U', 'I', '6', '4', ' '] ++ cisco .eui64 v) ++ ['>']) ∧
    ((∀ k : Kind, parseObj k w = .error .valueError) → searchStr w =
      searchHead ++ w ++ searchMid ++ ['N', 'o', 'n', 'e'] ++ ['>']) := by
  refine ⟨fun v h => ?_, fun v h => ?_, fun h => ?_⟩
  · rw [searchStr, (classify_iff_parseObj w .mac v).mpr h]; rfl
  · rw [searchStr, (classify_iff_parseObj w .eui64 v).mpr h]; rfl
  · cases hc : classify w with
    | error e => rw [searchStr, hc]; rfl
    | ok r =>
      obtain ⟨k, v⟩ := r
      have := (classify_iff_parseObj w k v).mp hc
      rw [h k] at this; cases this

example : searchHead = "<MACEUISearch word: ".toList ∧ searchMid = ", found: ".toList ∧
    searchStr "DEAD.beef.0001".toList = "<MACEUISearch word: DEAD.beef.0001, found: MAC dead.beef.0001>".toList ∧
    searchStr "dead.beef".toList = "<MACEUISearch word: dead.beef, found: None>".toList := by decide

/-- **search_iff**: `search_all_formats(regexes)` is true exactly when the word is an address (of
either size) and some regex of the set is found in its dash, colon, Cisco or undelimited rendering;
a word that is not an address matches nothing. -/
theorem search_iff (rgxs : List Str) (w : Str) :
    searchAllFormats rgxs w = true ↔
      ∃ k v, parseObj k w = .ok v ∧ ∃ r ∈ rgxs, ∃ t ∈ searchTexts k v, rxSearch r t = true := by
  unfold searchAllFormats
  cases hc : classify w with
  | error e =>
    simp only [Bool.false_eq_true, false_iff]
    rintro ⟨k, v, hp, _⟩
    rw [(classify_iff_parseObj w k v).mpr hp] at hc; cases hc
  | ok r =>
    obtain ⟨k, v⟩ := r
    have hp := (classify_iff_parseObj w k v).mp hc
    simp only [List.any_eq_true]
    constructor
    · rintro ⟨r, hr, t, ht, h⟩; exact ⟨k, v, hp, r, hr, t, ht, h⟩
    · rintro ⟨k', v', hp', r, hr, t, ht, h⟩
      have := (classify_iff_parseObj w k' v').mpr hp'
      rw [hc] at this
      cases this
      exact ⟨r, hr, t, ht, h⟩

/-- **search_finds_own_renderings**: searching for any of the four renderings of an address (used
verbatim as the regex; the `.` of the Cisco form is then a wildcard) finds every spelling of that
address — whatever template and letter case the word was written in. -/
theorem search_finds_own_renderings (k : Kind) (w : Str) (v : Nat) (h : parseObj k w = .ok v) :
    ∀ t ∈ searchTexts k v, searchAllFormats [t] w = true := by
  intro t ht
  rw [search_iff]
  refine ⟨k, v, h, t, List.mem_singleton.mpr rfl, t, ht, ?_⟩
  simpa using rxSearch_infix t [] []

/-- **search_literal_iff**: a regex made only of lower-case hex digits, `-` and `:` (no
metacharacter) is found exactly when it is a substring of one of the four renderings. -/
theorem search_literal_iff (k : Kind) (w : Str) (v : Nat) (h : parseObj k w = .ok v) (r : Str)
    (hr : ∀ c ∈ r, c ∈ lowerDigits ∨ c = '-' ∨ c = ':') :
    searchAllFormats [r] w = true ↔ ∃ t ∈ searchTexts k v, r <:+: t := by
  have hr' : ∀ c ∈ r, c ≠ '.' ∧ lowerChar c = c := by
    intro c hc
    have : ∀ c, (c ∈ lowerDigits ∨ c = '-' ∨ c = ':') → c ≠ '.' ∧ lowerChar c = c := by
      intro c h
      rcases h with h | rfl | rfl
      · exact (by decide : ∀ c ∈ lowerDigits, c ≠ '.' ∧ lowerChar c = c) c h
      · decide
      · decide
    exact this c (hr c hc)
  rw [search_iff]
  constructor
  · rintro ⟨k', v', hp', r', hr1, t, ht, hs⟩
    have e1 := (classify_iff_parseObj w k' v').mpr hp'
    rw [(classify_iff_parseObj w k v).mpr h] at e1
    cases e1
    rw [List.mem_singleton] at hr1
    subst hr1
    exact ⟨t, ht, (rxSearch_literal _ hr' t (searchTexts_lower k v t ht)).mp hs⟩
  · rintro ⟨t, ht, hi⟩
    exact ⟨k, v, h, r, List.mem_singleton.mpr rfl, t, ht,
      (rxSearch_literal r hr' t (searchTexts_lower k v t ht)).mpr hi⟩

-- a piece that crosses a byte boundary is found only through the undelimited text; letter case of
-- the regex does not matter; a non-address matches nothing, not even the empty regex
example : searchAllFormats ["adbe".toList] "DE-AD-BE-EF-00-01".toList = true ∧
    searchAllFormats ["AD:BE".toList] "dead.beef.0001".toList = true ∧
    searchAllFormats ["ad.be".toList] "dead.beef.0001".toList = true ∧
    searchAllFormats ["adbf".toList] "dead.beef.0001".toList = false ∧
    searchAllFormats [[]] "dead.beef.001".toList = false ∧
    searchAllFormats [] "dead.beef.0001".toList = false := by decide

end Ccp.C16
