import Ccp.Proofs.Mac
namespace Ccp.C16
open Ccp.Mac Ccp.Py

theorem placeholder : (parseObj .mac "0123.45ab.CDEF".toList) = .ok 1251004370415 := by decide

end Ccp.C16
