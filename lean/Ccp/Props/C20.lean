import Ccp.Proofs.Asa
import Ccp.Proofs.AsaX
/-!
# C20 — ASA object-groups and port specs expand to exactly the denoted networks/ports

Property theorems only; helper lemmas and the specification `Flatten` live in `Ccp.Proofs.Asa`.
`l4` models `L4Object(protocol, port_spec, syntax).port_list`, `expand` models
`ASAObjGroupNetwork.network_strings`, `dictGet`/`dictItems`/`multiItems` model the dictionaries
`asa_object_group_names`, `asa_object_group_network`, `asa_access_list`.
-/
namespace Ccp.C20
open Ccp.Asa Ccp.Py Ccp.AsaX

/-! ## port specifications -/

/-- **Spec.** the subset of ports an operator denotes -/
def Denotes : PortOp → Nat → Prop
  | .eq n, k => k = n
  | .range a b, k => a ≤ k ∧ k ≤ b
  | .lt n, k => 1 ≤ k ∧ k < n
  | .gt n, k => n < k ∧ k ≤ 65535
  | .neq n, k => (1 ≤ k ∧ k ≤ 65535) ∧ k ≠ n

/-- what the model puts into `port_list` is the denoted set, strictly ascending -/
theorem portList_denotes (op : PortOp) (hv : valid op = true) :
    (portList op).Pairwise (· < ·) ∧ (∀ k, k ∈ portList op ↔ Denotes op k) ∧
    (∀ k ∈ portList op, 1 ≤ k ∧ k ≤ 65535) := by
  refine ⟨portList_sorted op, ?_, ?_⟩
  · intro k
    cases op with
    | eq n => simp [portList, Denotes]
    | range a b => exact mem_portList_range a b k
    | lt n => exact mem_portList_lt n k
    | gt n => simp [valid] at hv; exact mem_portList_gt n k (by omega)
    | neq n => exact mem_portList_neq n k
  · intro k hk
    cases op with
    | eq n => simp [portList] at hk; simp [valid] at hv; omega
    | range a b => have := (mem_portList_range a b k).mp hk; simp [valid] at hv; omega
    | lt n => have := (mem_portList_lt n k).mp hk; simp [valid] at hv; omega
    | gt n => simp [valid] at hv; have := (mem_portList_gt n k (by omega)).mp hk; omega
    | neq n => have := (mem_portList_neq n k).mp hk; omega

/-- **ports_denote** (all five written operators, every numeric operand, tcp and udp): a
specification whose operands respect the bounds yields exactly the denoted subset of
1..65535 in strictly ascending order. -/
theorem ports_denote (proto : Str) (hp : isProto proto) (op : PortOp) (hv : valid op = true) :
    ∃ l, l4 proto "asa".toList (specText op) = .ok l ∧
      l.Pairwise (· < ·) ∧ (∀ k, k ∈ l ↔ Denotes op k) ∧ (∀ k ∈ l, 1 ≤ k ∧ k ≤ 65535) := by
  refine ⟨portList op, ?_, portList_denotes op hv⟩
  unfold l4; rw [parseSpec_specText proto hp op, hv]; rfl

/-- **ports_denote**, bare form: `N` alone means `eq N`. -/
theorem ports_denote_bare (proto : Str) (hp : isProto proto) (n : Nat) (h : 1 ≤ n ∧ n ≤ 65535) :
    l4 proto "asa".toList (toDec n) = .ok [n] := by
  have hv : valid (.eq n) = true := by simp [valid, h]
  unfold l4; rw [parseSpec_bare proto hp n, hv]; rfl

/-- **bad_bounds_rejected**: an operand outside its bounds (0, > 65535, a descending range, and
the two operators whose denotation would be empty: `lt 1`, `gt 65535`) raises `RequirementFailure`. -/
theorem bad_bounds_rejected (proto : Str) (hp : isProto proto) (op : PortOp) (hv : valid op = false) :
    l4 proto "asa".toList (specText op) = .error .requirementFailure := by
  unfold l4; rw [parseSpec_specText proto hp op, hv]; rfl

theorem bad_bounds_rejected_bare (proto : Str) (hp : isProto proto) (n : Nat) (h : n = 0 ∨ 65535 < n) :
    l4 proto "asa".toList (toDec n) = .error .requirementFailure := by
  have hv : valid (.eq n) = false := by
    simp only [valid, Bool.and_eq_false_iff, decide_eq_false_iff_not]; omega
  unfold l4; rw [parseSpec_bare proto hp n, hv]; rfl

/-- the bounds, spelled out -/
theorem valid_iff (op : PortOp) : valid op = true ↔
    match op with
    | .eq n => 1 ≤ n ∧ n ≤ 65535
    | .range a b => 1 ≤ a ∧ a ≤ b ∧ b ≤ 65535
    | .lt n => 2 ≤ n ∧ n ≤ 65535
    | .gt n => 1 ≤ n ∧ n ≤ 65534
    | .neq n => 1 ≤ n ∧ n ≤ 65535 := by
  cases op <;> simp [valid, and_assoc]

/-- **named_ports_in_range** (over the tables generated from `protocol_values.py`) -/
theorem named_ports_in_range :
    (∀ p ∈ Gen.asaTcpPorts, 1 ≤ p.2 ∧ p.2 ≤ 65535) ∧ (∀ p ∈ Gen.asaUdpPorts, 1 ≤ p.2 ∧ p.2 ≤ 65535) := by
  constructor
  · intro p hp; have := List.all_eq_true.mp tcp_in_range p hp; simpa using this
  · intro p hp; have := List.all_eq_true.mp udp_in_range p hp; simpa using this

/-- **ports_denote**, named operands: every service name of the generated tables, in every
operator, stands for its table number. -/
theorem named_ports_denote (p : String × Nat) :
    (p ∈ Gen.asaTcpPorts → namedOk "tcp".toList p = true) ∧
    (p ∈ Gen.asaUdpPorts → namedOk "udp".toList p = true) :=
  ⟨fun h => List.all_eq_true.mp tcp_named p h, fun h => List.all_eq_true.mp udp_named p h⟩

/-- e.g. `eq <name>` is the one-element list of the table number, `neq <name>` its complement -/
theorem named_eq_neq (p : String × Nat) (hp : p ∈ Gen.asaTcpPorts) :
    l4 "tcp".toList "asa".toList ("eq ".toList ++ p.1.toList) = .ok [p.2] ∧
    ∃ l, l4 "tcp".toList "asa".toList ("neq ".toList ++ p.1.toList) = .ok l ∧
      ∀ k, k ∈ l ↔ (1 ≤ k ∧ k ≤ 65535) ∧ k ≠ p.2 := by
  have h := (named_ports_denote p).1 hp
  simp only [namedOk, Bool.and_eq_true] at h
  obtain ⟨⟨⟨⟨⟨h1, _⟩, h3⟩, _⟩, _⟩, _⟩ := h
  refine ⟨by unfold l4; rw [okIs_eq h1]; rfl, portList (.neq p.2), by unfold l4; rw [okIs_eq h3]; rfl, ?_⟩
  intro k; exact mem_portList_neq p.2 k

-- non-vacuity
example : (l4 "tcp".toList "asa".toList "range ssh smtp".toList).toOption = some [22, 23, 24, 25] := by decide +kernel
example : (l4 "udp".toList "asa".toList " lt  3 ".toList).toOption = some [1, 2] := by decide +kernel
example : (l4 "tcp".toList "asa".toList "gt 65533".toList).toOption = some [65534, 65535] := by decide +kernel
example : errOf (l4 "tcp".toList "asa".toList "lt 1".toList) = some .requirementFailure := by decide +kernel
example : errOf (l4 "tcp".toList "asa".toList "range 0 5".toList) = some .requirementFailure := by decide +kernel
example : (parseSpec "tcp".toList "asa".toList "neq www".toList).toOption = some (.neq 80) := by decide +kernel
example : valid (.range 1 65535) = true ∧ valid (.lt 1) = false ∧ valid (.gt 65535) = false := by decide

/-! ## object-groups -/

/-- **groups_flatten**: for every alias table, every group table and every rank function that
witnesses acyclicity (each `group-object` points to a table entry of strictly smaller rank, no body
contains an unparseable line), the model's expansion of a group — run with the fuel the model
really uses — succeeds and is the flattening of its members in config order with aliases resolved;
and that flattening is unique. -/
theorem groups_flatten (names : List (Str × Str)) (tbl : List (Str × Group)) (rank : Str → Nat)
    (hac : Acyclic tbl rank) (g : Group) (hwf : WellFormed tbl rank g.name g.members) :
    ∃ l, expand names tbl (tbl.length + 1) g = .ok l ∧ Flatten names tbl g.members l ∧
      ∀ l', Flatten names tbl g.members l' → l' = l := by
  obtain ⟨l, h1, h2⟩ := expand_flatten_model_fuel names tbl rank hac g hwf
  exact ⟨l, h1, h2, fun l' h' => Flatten.unique h' h2⟩

/-- the same for the config-level entry point `networkStrings` -/
theorem networkStrings_flatten (lines : List Str) (rank : Str → Nat)
    (hac : Acyclic (groupTable lines) rank) (g : Group)
    (hwf : WellFormed (groupTable lines) rank g.name g.members) :
    ∃ l, networkStrings lines g = .ok l ∧ Flatten (nameDefs lines) (groupTable lines) g.members l :=
  expand_flatten_model_fuel _ _ rank hac g hwf

/-- more fuel never changes a successful expansion (so the bound `tbl.length + 1` is not special) -/
theorem groups_flatten_any_fuel (names : List (Str × Str)) (tbl : List (Str × Group)) (rank : Str → Nat)
    (hac : Acyclic tbl rank) (g : Group) (hwf : WellFormed tbl rank g.name g.members)
    (fuel : Nat) (hf : rank g.name ≤ fuel) :
    ∃ l, expand names tbl fuel g = .ok l ∧ Flatten names tbl g.members l :=
  expand_flatten names tbl rank hac fuel g hwf hf

/-- outside the acyclic case: a group that names itself, or a group the table does not hold, raises
`ValueError` at that member (earlier members cannot mask it unless they fail themselves). -/
theorem bad_reference_rejected (names : List (Str × Str)) (tbl : List (Str × Group))
    (recur : Group → Except Err (List Str)) (self g : Str) (ms : List Member)
    (h : g = self ∨ dictGet tbl g = none) :
    expandList names tbl recur self (.grp g :: ms) = .error .valueError := by
  rcases h with h | h
  · subst h; simp [expandList, plainMember, bind, Except.bind]
  · by_cases hs : g = self
    · subst hs; simp [expandList, plainMember, bind, Except.bind]
    · simp [expandList, plainMember, hs, h, bind, Except.bind]

/-- **tables_exact** (name and group tables): the table answers `v` for `k` exactly when a
definition `(k, v)` exists that no later definition of `k` follows; it answers nothing exactly for
undefined keys; its items are exactly these pairs, one per key. -/
theorem tables_exact {α : Type} (defs : List (Str × α)) (k : Str) :
    (∀ v, dictGet defs k = some v ↔ ∃ pre post, defs = pre ++ (k, v) :: post ∧ k ∉ post.map (·.1)) ∧
    (dictGet defs k = none ↔ k ∉ defs.map (·.1)) ∧
    (∀ v, (k, v) ∈ dictItems defs ↔ dictGet defs k = some v) :=
  ⟨dictGet_eq_some_iff defs k, dictGet_eq_none_iff defs k, mem_dictItems defs k⟩

/-- **tables_exact** (access-list table): a key is present iff some line defines it, and it holds
all the defining lines in config order. -/
theorem acl_table_exact {α : Type} (defs : List (Str × α)) (k : Str) (vs : List α) :
    (k, vs) ∈ multiItems defs ↔ k ∈ defs.map (·.1) ∧ vs = (defs.filter (·.1 = k)).map (·.2) :=
  mem_multiItems defs k vs

/-- the name table of a config holds a key iff some line matches the `name` regex with that key -/
theorem name_table_keys (lines : List Str) (k : Str) :
    (∃ v, (k, v) ∈ dictItems (nameDefs lines)) ↔ ∃ l ∈ lines, ∃ a, reNames l = some (k, a) := by
  constructor
  · rintro ⟨v, hv⟩
    have := dictGet_mem_keys _ k v ((mem_dictItems _ k v).mp hv)
    simp only [nameDefs, List.mem_map, List.mem_filterMap] at this
    obtain ⟨⟨k', a⟩, ⟨l, hl, hr⟩, rfl⟩ := this
    exact ⟨l, hl, a, hr⟩
  · rintro ⟨l, hl, a, hr⟩
    cases h : dictGet (nameDefs lines) k with
    | some v => exact ⟨v, (mem_dictItems _ k v).mpr h⟩
    | none =>
      have := (dictGet_eq_none_iff _ k).mp h
      exact absurd (by simp only [nameDefs, List.mem_map, List.mem_filterMap]; exact ⟨(k, a), ⟨l, hl, hr⟩, rfl⟩) this

-- non-vacuity: aliases (one redefined), a /32 network, a forward reference, a duplicate group name
def demo : List Str := [
  "name 1.1.1.1 web", "name 2.2.2.2 web",
  "object-group network A", " network-object host web", " group-object B", " network-object 10.0.0.0 255.0.0.0",
  "object-group network B", " network-object host 9.9.9.9",
  "object-group network B", " description x", " network-object db 255.255.255.255",
  "access-list X extended permit ip any any", "access-list X extended deny ip any any"].map String.toList

example : (groupObjs 0 demo).map (fun t => (t.1, (networkStrings demo t.2.2).toOption)) =
    [(2, some ["2.2.2.2".toList, "db".toList, "10.0.0.0/255.0.0.0".toList]),
     (6, some ["9.9.9.9".toList]), (8, some ["db".toList])] := by decide +kernel
example : (dictItems (groupDefs demo)).map (fun p => (p.1, p.2.1)) = [("A".toList, 2), ("B".toList, 8)] := by
  decide +kernel
example : multiItems (aclDefs 0 demo) = [("X".toList, [11, 12])] := by decide +kernel
-- a reference cycle runs out of fuel, a self reference and an undefined reference raise ValueError
example : errOf (networkStrings (["object-group network A", " group-object B", "object-group network B", " group-object A"].map String.toList)
    ⟨"A".toList, [.grp "B".toList]⟩) = some .recursionError := by decide +kernel
example : errOf (expand [] [] 5 ⟨"A".toList, [.grp "A".toList]⟩) = some .valueError := by decide +kernel
example : errOf (expand [] [] 5 ⟨"A".toList, [.grp "B".toList]⟩) = some .valueError := by decide +kernel
-- the hypotheses of `groups_flatten` are satisfiable by a two-level graph
example : ∃ rank, Acyclic [(['B'], ⟨['B'], [.host ['h']]⟩), (['A'], ⟨['A'], [.grp ['B']]⟩)] rank :=
  ⟨fun s => if s = ['A'] then 1 else 0, by
    intro k g hk
    simp only [dictGet, List.foldl_cons, List.foldl_nil] at hk
    split at hk
    · cases hk
      intro m hm; simp at hm; subst hm
      refine ⟨by simp, ?_⟩
      intro g hg; cases hg
      exact ⟨⟨['B'], [.host ['h']]⟩, by decide, rfl, by decide⟩
    · split at hk
      · cases hk
        intro m hm; simp at hm; subst hm
        exact ⟨by simp, fun g hg => by cases hg⟩
      · cases hk⟩

/-! ## further entry points: L4Object equality / repr, group-object equality and counts, tables under another syntax -/

/-- `L4Object.__eq__` compares the protocol and the port list. -/
theorem l4_eq_iff (a b : L4) : l4Eq a b = true ↔ a.proto = b.proto ∧ a.ports = b.ports := by
  simp [l4Eq]

/-- **Equal objects denote the same ports**: for two specifications within their bounds on the
same protocol, the objects are `==` exactly when the operators denote the same set of ports
(`lt 3` and `range 1 2`, `neq 1` and `gt 1`, …); `!=` is the negation. -/
theorem l4_eq_denotes (proto : Str) (hp : isProto proto) (op1 op2 : PortOp)
    (hv1 : valid op1 = true) (hv2 : valid op2 = true) :
    ∃ a b, mkL4 proto "asa".toList (specText op1) = .ok a ∧ mkL4 proto "asa".toList (specText op2) = .ok b ∧
      (l4Eq a b = true ↔ ∀ k, Denotes op1 k ↔ Denotes op2 k) := by
  obtain ⟨l1, h1, s1, m1, _⟩ := ports_denote proto hp op1 hv1
  obtain ⟨l2, h2, s2, m2, _⟩ := ports_denote proto hp op2 hv2
  refine ⟨⟨proto, l1⟩, ⟨proto, l2⟩, by unfold mkL4; rw [h1]; rfl, by unfold mkL4; rw [h2]; rfl, ?_⟩
  rw [l4_eq_iff]
  constructor
  · rintro ⟨_, hl⟩ k
    simp only at hl
    rw [← m1 k, ← m2 k, hl]
  · intro h
    refine ⟨rfl, asc_ext l1 l2 s1 s2 (fun k => ?_)⟩
    rw [m1 k, m2 k]; exact h k

example : (do let a ← mkL4 "tcp".toList "asa".toList "lt 3".toList
              let b ← mkL4 "tcp".toList "asa".toList "range 1 2".toList
              let c ← mkL4 "udp".toList "asa".toList "range 1 2".toList
              pure (l4Eq a b, l4Eq b c)).toOption = some (true, false) := by decide +kernel

/-- `repr()` of an `L4Object` raises for every object (the source reads `CiscoRange.compressed_str`,
an attribute that does not exist) — a defect outside the property, recorded as it is. -/
theorem l4_repr_unavailable (a : L4) : l4Repr a = .error .attributeError := rfl

/-- The `asa_*` tables are served under syntax `asa` only. -/
theorem table_access_iff (syn : Str) : tableAccess syn = .ok () ↔ syn = "asa".toList := by
  unfold tableAccess
  by_cases h : syn = "asa".toList <;> simp [h]

/-- Group objects compare (and hash) by line number and header text: `==` is reflexive,
symmetric, `!=` is its negation, and the group objects of one configuration are pairwise
different. -/
theorem group_objects_eq (lines : List Str) :
    (∀ a : GObj, objEq a a = true) ∧ (∀ a b : GObj, objEq a b = objEq b a) ∧
    (∀ a b : GObj, objNe a b = !objEq a b) ∧
    (∀ a b : GObj, objEq a b = true ↔ a.linenum = b.linenum ∧ a.text = b.text) ∧
    (gobjs lines).Pairwise (fun a b => objEq a b = false) := by
  refine ⟨by simp [objEq], ?_, fun _ _ => rfl, by simp [objEq], ?_⟩
  · intro a b
    simp only [objEq]
    rw [Bool.eq_iff_iff]
    simp only [Bool.and_eq_true, beq_iff_eq]
    constructor <;> (rintro ⟨h1, h2⟩; exact ⟨h1.symm, h2.symm⟩)
  · unfold gobjs
    rw [List.pairwise_map]
    refine (groupObjs_increasing 0 lines).imp ?_
    intro s t hst
    simp only [objEq, Bool.and_eq_false_iff, beq_eq_false_iff_ne, ne_eq]
    left; omega

/-- `network_count` is the length of `network_strings`; two groups have the same
`hash_children` exactly when their `network_strings` agree (no hash collision assumed). -/
theorem count_and_hash_children (a b : GObj) (x y : List Str) (ha : a.strings = .ok x) (hb : b.strings = .ok y) :
    networkCount a = .ok x.length ∧ hcEq a b = .ok (x == y) := by
  simp [networkCount, hcEq, ha, hb, Except.map]

example : (gobjs demo).map (fun a => (a.linenum, (networkCount a).toOption)) = [(2, some 3), (6, some 1), (8, some 1)] := by
  decide +kernel

/-- **No history**: in a sequence of constructions carried out in one process, every answer is
the answer of that construction alone, whatever was built before or after it (in particular the
same `port_spec` under the other protocol: a service name is looked up in the table of the
protocol at hand every time). -/
theorem pseq_history_free (before after : List (Str × Str)) (proto spec : Str) :
    pseq (before ++ (proto, spec) :: after) =
      pseq before ++ l4 proto "asa".toList spec :: pseq after := by
  simp [pseq]

example : (pseq [("tcp".toList, "eq rtsp".toList), ("udp".toList, "eq rtsp".toList), ("udp".toList, "eq ssh".toList)]).map
    (fun r => r.toOption) = [some [554], some [5004], none] := by decide +kernel

end Ccp.C20
