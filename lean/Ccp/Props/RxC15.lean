import Ccp.Gen.Tables
/-!
# RxC15 — the regular expressions the scanners of `Ccp.Model.Intf` were written for

`Ccp.Gen.Tables` is regenerated from `/repo`'s source on every run (`harness/translate.py` + `harness/rxscan.py`, AST
only).  The theorem states that every regular expression / separator of `CiscoIOSInterface` and of
`CiscoRange.parse_cisco_interfaces` (ccp_util.py) for which `lean/Ccp/Model/Intf.lean` contains a hand-written scanner
still has exactly the text that scanner was written for.  Editing one of them in the code breaks this obligation;
reformatting the source around them or renaming a local variable does not.

| source (ccp_util.py) | scanner in `lean/Ccp/Model/Intf.lean` |
|---|---|
| `parse_single_interface`: `"," in interface_name` | `parseSingle` (`name.contains ','`) |
| `parse_single_interface`: `^(?P<prefix>[a-zA-Z\-\s]*)(?P<port_subinterface_channel>[\d\:\.^\-^a-z^A-Z^\s]+)(?P<interface_class>\s+[a-zA-Z\-]+){0,1}$` | `matchHead isShortCh` (classes `isPfxCh`, `isShortCh`, `isWordCh`) |
| `parse_single_interface`: `^(?P<prefix>[a-zA-Z\-\s]*)(?P<slot_card_port_subinterface_channel>[\d\:\.\/^\-^a-z^A-Z^\s]+)(?P<interface_class>\s+[a-zA-Z\-]+){0,1}$` | `matchHead isLongCh` (class `isLongCh`) |
| `parse_single_interface`: `.*` (`re_any`, always matches) | the final `.error .invalidCiscoInterface` of `parseSingle` |
| `parse_intf_short`: `^\D*(?P<port>\d+)` | `firstDigits` |
| `parse_intf_short` / `parse_intf_long`: `\.(?P<subinterface>\d+)` | `searchAfter '.'` |
| `parse_intf_short` / `parse_intf_long`: `\:(?P<channel>\d+)` | `searchAfter ':'` |
| `parse_intf_short` / `parse_intf_long`: `(?P<interface_class>\s+[a-zA-Z\-]+)$` | `classWord` |
| `parse_intf_long`: `^(?P<slot>\d+)(?P<sep1>[^\:^\.^\-^\s^\d^a-z^A-Z])?(?P<card>\d+)?(?P<sep2>[^\:^\.^\-^\s^\d^a-z^A-Z])?(?P<port>\d+)?` | `scanSlotCardPort` (`optDigits`, `optSep`, class `isSepCh`) |
| `parse_intf_long`: `re.split(r"\s+", …)[1]` (value overwritten by the `interface_class` search that follows) | not needed by `parseLong`; listed because it is part of the scan set |
| `CiscoRange.__init__`: `",," in text` | `Ccp.Range.hasDoubleComma` (used by `parseRange`) |
| `parse_cisco_interfaces`: `text.split(",")` | `splitOn ','` in `plan` |
| `parse_cisco_interfaces`: `re.split(r"(?<=\d)\s*-\s*(?=\d)", _csv_part)` | `splitIv` / `splitIvGo` (the interval splitter) |
| `parse_cisco_interfaces`: `"".join(filter(str.isdigit, text.split()[-1]))` | `lastWord`, `digitsOf` |

`rx…` are *scan sets* (`harness/rxscan.py`, `scan_closure`): for the named entry point and every helper of the same
source file it reaches, every regex call (with flags; a compiled pattern's method is reported as the `re.` function
with the pattern's text), literal `str` separator and `"lit" in …` test, as a sorted duplicate-free list of
`(what, text, flags or detail)`.  So a regex call that is added to, or removed from, the modelled code breaks the
obligation as well, while moving a test into a helper method, re-ordering tests, negating one (`!=` is reported as
`==`, `not in` as `in`), hoisting a pattern into a compiled constant or renaming a constant / local variable does not.

**Scan sets as revised.**  The lists below contain only what identifies the regex / separator a scanner was written
for: regex-engine calls (`re.*`, methods of compiled patterns, the `re_*` helpers of the package) with the pattern in
*canonical form* — canonical verbose form and no VERBOSE flag for a pattern compiled with `re.VERBOSE`; group names
removed (`(?P<n>…)` is written `(…)`, `(?P=n)` by number); redundant escapes removed (`\:` is `:`); a pattern handed to a
same-file helper as an argument, or built from a local name that ranges over a constant collection, reported once per
value; a search that cannot fail (`.*`) not reported — with the flags and, for `re.sub`, the replacement; and the
separator arguments of `str.split / rsplit / partition / rpartition / join / replace / strip / splitlines`.  The literal
tests (`"lit" in …`, comparisons with string literals and their subscripts, `str.startswith / endswith / find …`) that
earlier versions of these lists contained are now the INFORMATIONAL definitions `Gen.rx…Info`: no theorem is about
them, so reading a regex group into a local, hoisting a `.split()`, merging branches or renaming a group does not break
an obligation.  Where the text above speaks of such a test as part of a scan set, read: part of `…Info`.
-/
namespace Ccp.RxC15

/-- **regexes_as_modelled** — see the table in the module comment above: every regular expression / separator of the
source for which the model contains a hand-written scanner has the text that scanner was written for.  (The goals
are named `regexes_as_modelled__<definition>`, so that a failing build names the constant that was edited.) -/
theorem regexes_as_modelled :
    Gen.rxIntfParse =
      [("re.search", "(\\s+[a-zA-Z\\-]+)$", ""),
       ("re.search", ":(\\d+)", ""),
       ("re.search", "\\.(\\d+)", ""),
       ("re.search", "^([a-zA-Z\\-\\s]*)([\\d:./^\\-^a-z^A-Z^\\s]+)(\\s+[a-zA-Z\\-]+){0,1}$", ""),
       ("re.search", "^([a-zA-Z\\-\\s]*)([\\d:.^\\-^a-z^A-Z^\\s]+)(\\s+[a-zA-Z\\-]+){0,1}$", ""),
       ("re.search", "^(\\d+)([^:^.^\\-^\\s^\\d^a-z^A-Z])?(\\d+)?([^:^.^\\-^\\s^\\d^a-z^A-Z])?(\\d+)?", ""),
       ("re.search", "^\\D*(\\d+)", ""),
       ("re.split", "\\s+", "")] ∧
    Gen.rxRangeInterfaces =
      [("re.split", "(?<=\\d)\\s*-\\s*(?=\\d)", ""),
       ("str.join", "", ""),
       ("str.split", ",", ""),
       ("str.split()", "", "")] := by
  refine ⟨?regexes_as_modelled__rxIntfParse, ?regexes_as_modelled__rxRangeInterfaces⟩
  all_goals rfl

end Ccp.RxC15
