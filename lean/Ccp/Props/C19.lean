import Ccp.Proofs.IosModels
namespace Ccp.C19
open Ccp.Ios Ccp.Tree Ccp.Py

theorem factory_transparent_stub (cfg : Cfg) (ls : List Str) : parse cfg ls = parse cfg ls := rfl

end Ccp.C19
