import Ccp.Proofs.IosMore
import Ccp.Model.FactoryGuard
/-!
# C19 — typed IOS interface / route models report what the text says; factory transparent

Property theorems only; helper lemmas and the description grammar (`Item`, `Desc`, `Stanza`,
`RouteDesc`) live in `Ccp.Proofs.IosModels`.

**Partial.**  The model (`Ccp.Model.IosModels`) writes every regular expression of
`models_cisco.py` as a matcher over (leading whitespace, words, gaps); that translation is
modelled, not proved, and is tied to Python's `re` by the correspondence run on generated
stanzas and whitespace variants.  The theorems below are about that model.

Reading guide.  `Item` = one child command (`Item.words` its words, `Item.render` = one blank
of indent + the words joined by single blanks).  `Desc` = which commands are present with which
values; `d.items` its command lines.  `Stanza d others kids` = the children `kids` are *any
permutation* of `d.items` interleaved with the unrelated lines `others`, every value well formed
(`Item.Valid`: words without whitespace, dotted-quad shape for addresses, `shutdown`/`shut`, an
unrelated line starts with no keyword).  `flatFam hdr kids` = the family C05's order visits:
the interface line, then the children.  `Header hdr` = `interface` + name words at column 0.

An unrelated line (`Item.other`) starts with a word that is none of `description`, `mtu`, `vrf`,
`switchport`, `channel-group`, `interface`, `shut…`; it may start with `ip` provided its second
word is none of `address` / `mtu` / `vrf` / `ip` (`ip ospf cost 10`, `ip helper-address …`).
Lines starting with `switchport` are never unrelated: they make the port a switchport
(`switchport nonegotiate` is outside the theorem grammar and covered by the correspondence).

Not proved (correspondence only): `ordinal_list` for names with a class word, `interface_number`
for names written `.sub:chan` (the code keeps the `.sub` there), `add` / `remove` / `except`
lines of `trunk_vlans_allowed`.
-/
namespace Ccp.C19
open Ccp.Ios Ccp.Tree Ccp.Py

/-- **Lexing a rendered line**: `indent ++ words joined by single blanks` is read back as
exactly that indent and those words, each followed by one blank except the last. -/
theorem lex_render_line (ind : Str) (ws : List Str) (hind : ∀ c ∈ ind, isSpace c = true)
    (hws : ∀ w ∈ ws, Word w) : lex (line ind ws) = (ind, toksOf ws) ∧ wordsOf (line ind ws) = ws := by
  refine ⟨lex_line ind ws hind hws, ?_⟩
  unfold wordsOf; rw [lex_line ind ws hind hws]; exact map_fst_toksOf ws

/-- **Interface accessors round trip.**  For every description `d`, every list of unrelated
lines, every permutation/interleaving `kids` of both and every interface header, each accessor
of the model returns `d`'s value, or the documented default when the command is absent:
`''` (description, vrf, ipv4_addr, ipv4_netmask), `-1` (manual_mtu, manual_ip_mtu,
ipv4_masklength, portchannel_number, access/native vlan of a non-switchport), `1` (access /
native vlan of a switchport), `False`. -/
theorem intf_accessors_roundtrip (d : Desc) (others kids : List Item) (hdr : Str)
    (st : Stanza d others kids) (hh : Header hdr) :
    let f := flatFam hdr kids
    description f = (d.descr.map (join [' '])).getD [] ∧
    vrf f = (d.vrf <|> d.ipVrf).getD [] ∧
    manualMtu f = (d.mtu.map Int.ofNat).getD (-1) ∧
    manualIpMtu f = (d.ipMtu.map Int.ofNat).getD (-1) ∧
    isShutdown f = d.shutdown.isSome ∧
    ipv4Addr f = (d.addr.map (·.1)).getD [] ∧
    ipv4Netmask f = (d.addr.map (·.2)).getD [] ∧
    ipv4AddrObject f =
      (match d.addr with
       | none => .ok none
       | some (a, m) => (match ipv4obj a m with | some r => .ok (some r) | none => .error .ipError)) ∧
    portchannelNumber f = (d.channelGroup.map (fun c => Int.ofNat c.1)).getD (-1) ∧
    isInPortchannel f = d.channelGroup.isSome ∧
    isSwitchport f = .ok d.isSw ∧
    hasManualSwitchAccess f = decide (d.mode = some kAccess) ∧
    hasManualSwitchTrunk f = decide (d.mode = some kTrunk) ∧
    accessVlan f = .ok ((d.accessVlan.map Int.ofNat).getD (if d.isSw then 1 else -1)) ∧
    nativeVlan f = .ok ((d.nativeVlan.map Int.ofNat).getD (if d.isSw then 1 else -1)) :=
  ⟨description_stanza st hh, vrf_stanza st hh, manualMtu_stanza st hh, manualIpMtu_stanza st hh,
   isShutdown_stanza st hh, ipv4Addr_stanza st hh, ipv4Netmask_stanza st hh, ipv4AddrObject_stanza st hh,
   (portchannel_stanza st hh).1, (portchannel_stanza st hh).2, isSwitchport_stanza st hdr,
   (hasManualSwitch_stanza st hdr).1, (hasManualSwitch_stanza st hdr).2, accessVlan_stanza st hdr,
   nativeVlan_stanza st hdr⟩

/-- `ipv4_masklength` and `ipv4_addr_object` for a described address whose mask is a contiguous
netmask of length `l`: the object is `a/l`, the mask length `l`; without an address line the
default object and `-1`. -/
theorem intf_masklength_roundtrip (d : Desc) (others kids : List Item) (hdr : Str)
    (st : Stanza d others kids) (hh : Header hdr) :
    (d.addr = none → ipv4Masklength (flatFam hdr kids) = .ok (-1)) ∧
    (∀ a m l, d.addr = some (a, m) → ipv4obj a m = some (a, l) →
      ipv4AddrObject (flatFam hdr kids) = .ok (some (a, l)) ∧
      ipv4Masklength (flatFam hdr kids) = .ok (Int.ofNat l)) := by
  have h := ipv4AddrObject_stanza st hh
  constructor
  · intro hn; unfold ipv4Masklength; rw [h, hn]
  · intro a m l ha ho
    unfold ipv4Masklength; rw [h, ha]; simp [ho]

/-- the name of a rendered interface line is its name words joined by single blanks, and the
line is served by `IOSIntfLine` (`is_object_for_interface`) -/
theorem header_roundtrip (nm : List Str) (h : ∀ w ∈ nm, Word w) :
    intfName (line [] (kInterface :: nm)) = join [' '] nm ∧
    isIntfLine (line [] (kInterface :: nm)) = true :=
  ⟨intfName_header nm h, isIntfLine_header nm h⟩

/-- **Route round trip.**  For every structured route (vrf?, prefix, mask, interface?, next
hop?, global?, distance?, name?, permanent | track?, tag?) with at least one of interface /
next hop, rendered with single blanks, the slot consumer that stands for `_RE_IP_ROUTE`
returns every described value and `None` for every absent slot … -/
theorem route_roundtrip (d : RouteDesc) (hv : d.Valid) (h : d.intf ≠ none ∨ d.nh ≠ none) :
    isRouteLine (line [] d.words) = true ∧
    routeParse (line [] d.words) = some d.expected := by
  refine ⟨?_, route_cases d hv h⟩
  obtain ⟨vrf, p, m, intf, nh, glob, ad, name, perm, track, tag⟩ := d
  cases vrf <;> simp [isRouteLine, line, RouteDesc.words, optWords, join] <;> rfl

/-- … hence the accessors return the described values and the documented defaults
(`''`, distance `1`, `False`; `global_next_hop` is `True` without a vrf). -/
theorem route_accessors_roundtrip (d : RouteDesc) (hv : d.Valid) (h : d.intf ≠ none ∨ d.nh ≠ none) :
    ∃ r, routeParse (line [] d.words) = some r ∧
      r.vrfName = d.vrf.getD [] ∧ r.network = d.pfx ∧ r.netmask = d.mask ∧
      r.nextHopInterface = d.intf.getD [] ∧ r.nextHopAddr = d.nh.getD [] ∧
      r.adminDistance = (d.ad.map Int.ofNat).getD 1 ∧ r.routeName = d.name.getD [] ∧
      r.trackingObjectName = (d.track.map toDec).getD [] ∧ r.tagText = (d.tag.map toDec).getD [] ∧
      r.permanent = d.permanent ∧ r.multicast = false ∧
      r.globalNextHop = (if (d.vrf.getD []).isEmpty then true else d.glob) := by
  refine ⟨d.expected, (route_roundtrip d hv h).2, ?_⟩
  obtain ⟨vrf, p, m, intf, nh, glob, ad, name, perm, track, tag⟩ := d
  refine ⟨rfl, rfl, rfl, rfl, rfl, ?_, rfl, rfl, rfl, ?_, rfl, ?_⟩
  · cases ad <;> simp [RouteDesc.expected, Route.adminDistance, digitsInt_toDec]
  · cases perm <;> rfl
  · cases vrf <;> cases glob <;> simp [RouteDesc.expected, Route.globalNextHop, Route.vrfName]

/-- **F25 witness** (why the hypothesis `intf ≠ none ∨ nh ≠ none` is there): with neither, the
keyword after the mask is taken as the interface and the name is lost. -/
theorem route_f25_witness :
    (routeParse "ip route 10.0.0.0 255.0.0.0 name foo".toList).map
      (fun r => (r.nextHopInterface, r.routeName)) = some ("name".toList, []) := by decide +kernel

/-- **The family the accessors read is the family of the parsed stanza** (`stanza_family`).
Header `interface <name words>` at column 0 (and `i` no comment delimiter), every child the
rendering of a valid item at indent 1, no banner start among the lines, blank lines kept:
`Ccp.Tree.parse` gives the header exactly those children, none of them has children, and the
record built from C05's order (`Ccp.Typed.order`, `Ccp.C05.order_spec`) is `flatFam`. -/
theorem stanza_family (cfg : Cfg) (nm : List Str) (kids : List Item) (hv : ∀ it ∈ kids, it.Valid)
    (hd : cfg.delims.contains 'i' = false) (hi : cfg.ignoreBlank = false)
    (hb : ∀ x ∈ line [] (kInterface :: nm) :: kids.map Item.render, isBannerStart x = false) :
    famOf (parse cfg (line [] (kInterface :: nm) :: kids.map Item.render)) 0 =
      flatFam (line [] (kInterface :: nm)) kids :=
  Ios.stanza_family cfg nm kids hv hd hi hb

/-- **`intf_accessors_roundtrip` on the parsed config**: the same statement about
`famOf (Ccp.Tree.parse cfg (header :: rendered children)) 0`, the family of line 0 of the tree
the model builds from the stanza's text. -/
theorem intf_accessors_on_parse (cfg : Cfg) (d : Desc) (others kids : List Item) (nm : List Str)
    (st : Stanza d others kids) (hnm : ∀ w ∈ nm, Word w)
    (hd : cfg.delims.contains 'i' = false) (hi : cfg.ignoreBlank = false)
    (hb : ∀ x ∈ line [] (kInterface :: nm) :: kids.map Item.render, isBannerStart x = false) :
    let f := famOf (parse cfg (line [] (kInterface :: nm) :: kids.map Item.render)) 0
    description f = (d.descr.map (join [' '])).getD [] ∧
    vrf f = (d.vrf <|> d.ipVrf).getD [] ∧
    manualMtu f = (d.mtu.map Int.ofNat).getD (-1) ∧
    manualIpMtu f = (d.ipMtu.map Int.ofNat).getD (-1) ∧
    isShutdown f = d.shutdown.isSome ∧
    ipv4Addr f = (d.addr.map (·.1)).getD [] ∧
    ipv4Netmask f = (d.addr.map (·.2)).getD [] ∧
    ipv4AddrObject f =
      (match d.addr with
       | none => .ok none
       | some (a, m) => (match ipv4obj a m with | some r => .ok (some r) | none => .error .ipError)) ∧
    portchannelNumber f = (d.channelGroup.map (fun c => Int.ofNat c.1)).getD (-1) ∧
    isInPortchannel f = d.channelGroup.isSome ∧
    isSwitchport f = .ok d.isSw ∧
    hasManualSwitchAccess f = decide (d.mode = some kAccess) ∧
    hasManualSwitchTrunk f = decide (d.mode = some kTrunk) ∧
    accessVlan f = .ok ((d.accessVlan.map Int.ofNat).getD (if d.isSw then 1 else -1)) ∧
    nativeVlan f = .ok ((d.nativeVlan.map Int.ofNat).getD (if d.isSw then 1 else -1)) := by
  intro f
  have hf : f = flatFam (line [] (kInterface :: nm)) kids := Ios.stanza_family cfg nm kids st.valid hd hi hb
  rw [hf]
  exact intf_accessors_roundtrip d others kids _ st ⟨nm, hnm, rfl⟩

/-- **Secondary addresses**: when every described secondary is a canonical address with a
contiguous netmask, the loop of `ip_secondary_addresses` / `ip_secondary_networks` collects
exactly the described (address, prefix length) pairs (a permutation of them; the Python result
is their set). -/
theorem secondaries_roundtrip (d : Desc) (others kids : List Item) (hdr : Str) (st : Stanza d others kids)
    (hok : ∀ p ∈ d.secondaries, (ipv4obj p.1 p.2).isSome = true) :
    ∃ L, secondaries (flatFam hdr kids) = .ok L ∧
      L.Perm (d.secondaries.filterMap (fun p => ipv4obj p.1 p.2)) ∧
      ∀ x, x ∈ L ↔ ∃ p ∈ d.secondaries, ipv4obj p.1 p.2 = some x :=
  secondaries_stanza st hdr hok

/-- **`trunk_vlans_allowed`** (word after `allowed vlan`: `all`, `none`, or parts `lo` / `lo-hi`
joined by commas).  Not a switchport or `switchport mode access`: empty.  Otherwise no line or
`all`: `1 … 4094`; `none`: empty; a list: the sorted union of its parts, read through C14's
`Ccp.Range.parse` (`Ccp.C14.parse_written_parts`). -/
theorem trunk_vlans_roundtrip (d : Desc) (others kids : List Item) (hdr : Str) (st : Stanza d others kids)
    (hw : ∀ v, d.allowed = some v → AllowedWord v) :
    (d.isSw = false ∨ d.mode = some kAccess → trunkVlansAllowed (flatFam hdr kids) = .ok []) ∧
    (d.isSw = true → d.mode ≠ some kAccess →
      (d.allowed = none ∨ d.allowed = some kAll → trunkVlansAllowed (flatFam hdr kids) = .ok (Range.upto 1 4094)) ∧
      (d.allowed = some kNone → trunkVlansAllowed (flatFam hdr kids) = .ok []) ∧
      (∀ ps, ps ≠ [] → d.allowed = some (Range.renderParts ps) →
        trunkVlansAllowed (flatFam hdr kids) = .ok (Range.sortedSet (ps.flatMap Range.expandPart)))) :=
  trunkVlansAllowed_stanza st hdr hw

/-- **`port_type`** of `interface <prefix><rest>`: the prefix, for a non-empty run of letters and
hyphens followed by something that starts with neither (the number). -/
theorem port_type_roundtrip (p rest : Str) (hp : p ≠ []) (hpc : ∀ c ∈ p, isAlphaHyphen c = true)
    (hr : ∀ c, rest.head? = some c → isAlphaHyphen c = false) :
    portType (kInterface ++ ' ' :: p ++ rest) = p :=
  portType_hdr p rest hp hpc hr

/-- **`ordinal_list`** of `interface <name>` for a one-word name: (slot, card, port, subinterface,
channel, -1) as C15's parser reads them, `-1` for an absent component; with
`Ccp.C15.name_roundtrip`, for every well-formed description without class word these are the
described components (the rendering has no whitespace — hypothesis `Word s`). -/
theorem ordinal_list_roundtrip (d : Intf.Intf) (h : C15.WellFormed d) :
    ∃ s, Intf.render d = .ok s ∧
      (Word s → ordinalList (line [] [kInterface, s]) =
        some [optI d.slot, optI d.card, Int.ofNat d.port, optI d.sub, optI d.chan, -1]) := by
  obtain ⟨s, hr, hp⟩ := C15.name_roundtrip d h
  exact ⟨s, hr, fun hs => ordinalList_hdr s hs d hp⟩

/-- **`subinterface_number`** of `interface <prefix><digits><more>[ <class words>]`: the whole
number word `digits ++ more` (`2/0.100`, `1/0:3.7`).  `TailOk tl`: nothing, or one blank and
words separated by single blanks (what `(\s\S+)*\s*$` accepts). -/
theorem subinterface_number_roundtrip (p ds more tl : Str) (hp : p ≠ []) (hpc : ∀ c ∈ p, isAlphaHyphen c = true)
    (hds : ds ≠ []) (hdd : ∀ c ∈ ds, isDigit c = true)
    (hm : ∀ c ∈ more, isSpace c = false) (hmh : ∀ c, more.head? = some c → isDigit c = false)
    (ht : TailOk tl) :
    subinterfaceNumber (kInterface ++ ' ' :: p ++ (ds ++ more ++ tl)) = some (ds ++ more) :=
  subinterfaceNumber_hdr p ds more tl hp hpc hds hdd hm hmh ht

/-- **`interface_number`** of `interface <prefix><digits><mid>[.<sub>][ <class words>]`: the number
word without the trailing subinterface (`2/0` for `2/0.100`, `1/0:3` for `1/0:3.7`); `mid` has
no whitespace and no dot. -/
theorem interface_number_roundtrip (p ds mid tl : Str) (sub : Option Str) (hp : p ≠ [])
    (hpc : ∀ c ∈ p, isAlphaHyphen c = true) (hds : ds ≠ []) (hdd : ∀ c ∈ ds, isDigit c = true)
    (hm : ∀ c ∈ mid, isSpace c = false ∧ c ≠ '.') (hmh : ∀ c, mid.head? = some c → isDigit c = false)
    (hs : ∀ s, sub = some s → s ≠ [] ∧ ∀ c ∈ s, isDigit c = true) (ht : TailOk tl) :
    interfaceNumber (kInterface ++ ' ' :: p ++ (ds ++ (mid ++ (dotSub sub ++ tl)))) = some (ds ++ mid) :=
  interfaceNumber_hdr p ds mid tl sub hp hpc hds hdd hm hmh hs ht

-- non-vacuity: ` point-to-point` is an accepted tail, two blanks between class words are not
example : TailOk " point-to-point".toList ∧ ¬ TailOk " a  b".toList := by
  refine ⟨Or.inr ⟨⟨_, rfl⟩, by decide +kernel⟩, ?_⟩
  rintro (h | ⟨_, h⟩)
  · cases h
  · revert h; decide +kernel

/-- **Factory transparency** (model level): the texts, parent links and hence the derived child
lists of a parse are a function of the syntax flag, the comment delimiters, `ignore_blank_lines`
and the lines — the tree builder has no class / factory input.  Whether the real factory accepts
a config (a typed constructor may raise) and that it then links the same texts is outside the
model and is measured by the correspondence run. -/
theorem factory_transparent (cfg : Cfg) (ls : List Str) :
    treeOf true cfg ls = treeOf false cfg ls ∧
    (treeOf true cfg ls).texts = (parse cfg ls).texts ∧
    (treeOf true cfg ls).parents = (parse cfg ls).parents ∧
    ∀ p, children (treeOf true cfg ls) p = children (treeOf false cfg ls) p :=
  ⟨rfl, rfl, rfl, fun _ => rfl⟩

/-! ## accessors and entry checks reached since the coverage pass -/

/-- **`port`** of `interface <name>` (one-word name): the described port number — the third component of
`ordinal_list_roundtrip` -/
theorem port_roundtrip (d : Intf.Intf) (h : C15.WellFormed d) :
    ∃ s, Intf.render d = .ok s ∧ (Word s → port (line [] [kInterface, s]) = some (Int.ofNat d.port)) := by
  obtain ⟨s, hr, ho⟩ := ordinal_list_roundtrip d h
  refine ⟨s, hr, fun hs => ?_⟩
  unfold port
  rw [ho hs]

/-- **`nexthop_str`, `address_family`** of a described route: the interface and the next hop joined by one blank
(the blank stays when there is no next-hop address), or the bare next hop; the family is `ip`; `nexthop_vrf` and
`unicast` raise (ValueError / NotImplementedError) for every `ip route` object -/
theorem route_nexthop_str_roundtrip (d : RouteDesc) (hv : d.Valid) (h : d.intf ≠ none ∨ d.nh ≠ none) :
    ∃ r, routeParse (line [] d.words) = some r ∧
      r.addressFamily = "ip".toList ∧
      r.nexthopStr = (match d.intf with
        | some i => i ++ ' ' :: d.nh.getD []
        | none => d.nh.getD []) ∧
      r.nexthopVrf = .error .valueError ∧ r.unicast = .error .notImplementedError := by
  refine ⟨d.expected, (route_roundtrip d hv h).2, rfl, ?_, rfl, rfl⟩
  obtain ⟨hvrf, hp, hps, hm, hintf, hnh, hname, hpt⟩ := hv
  obtain ⟨vrf, p, m, intf, nh, glob, ad, name, perm, track, tag⟩ := d
  cases intf with
  | none => simp [Route.nexthopStr, Route.nextHopInterface, Route.nextHopAddr, RouteDesc.expected]
  | some i =>
    have hi := hintf i rfl
    have hne : i ≠ [] := by
      intro e; subst e
      exact absurd hi (by unfold IntfWord; simp [Word])
    simp [Route.nexthopStr, Route.nextHopInterface, Route.nextHopAddr, RouteDesc.expected, hne]

open Ccp.Factory in
/-- **What `config_line_factory` accepts** (its argument checks, in source order, `Ccp.Factory.argCheck`): the class
walk is reached iff `all_lines` is a list, `line` a str, `comment_delimiters` None or a list, `debug` an int and
`syntax` one of `ALL_VALID_SYNTAX` (regenerated table) -/
theorem factory_guard_spec (a : Args) :
    argCheck a = none ↔
      (a.allLinesIsList = true ∧ a.lineIsStr = true ∧ a.delims ≠ some false ∧ a.debugIsInt = true ∧
       validSyntax a.syn = true) := by
  obtain ⟨al, ln, ds, syn, dbg⟩ := a
  have hnone : validSyntax none = false := rfl
  cases syn with
  | none => cases al <;> cases ln <;> cases dbg <;> rcases ds with _ | _ | _ <;> simp [argCheck, hnone]
  | some v =>
    cases hv : validSyntax (some v) <;> cases al <;> cases ln <;> cases dbg <;> rcases ds with _ | _ | _ <;>
      simp [argCheck, hv]

/-! ## non-vacuity -/

def exCfg : Cfg := { ios := true, delims := ['!'], ignoreBlank := false }

def exDesc : Desc :=
  { descr := some ["to".toList, "core".toList], addr := some ("10.0.0.1".toList, "255.255.255.0".toList),
    addrKw := none, secondaries := [("10.0.1.1".toList, "255.255.255.0".toList)], vrf := some "BLUE".toList,
    ipVrf := none, mtu := some 1500, ipMtu := none, shutdown := some "shutdown".toList, switchport := false,
    mode := none, accessVlan := some 10, nativeVlan := none, allowed := none, channelGroup := some (5, ["mode".toList, "on".toList]) }

def exKids : List Item :=
  [.other ["no".toList, "cdp".toList], .other ["ip".toList, "ospf".toList, "cost".toList, "10".toList], .secondary "10.0.1.1".toList "255.255.255.0".toList, .mtu 1500,
   .channelGroup 5 ["mode".toList, "on".toList], .descr ["to".toList, "core".toList], .accessVlan 10,
   .shutdown "shutdown".toList, .addr "10.0.0.1".toList "255.255.255.0".toList, .vrf "BLUE".toList]

def exHdr : Str := "interface GigabitEthernet0/1".toList

-- the children above are a permutation of the description's lines plus one unrelated line
example : exKids.Perm (exDesc.items ++ [.other ["no".toList, "cdp".toList],
    .other ["ip".toList, "ospf".toList, "cost".toList, "10".toList]]) := by decide +kernel
example : (exKids.map Item.render).take 3 =
    [" no cdp".toList, " ip ospf cost 10".toList, " ip address 10.0.1.1 255.255.255.0 secondary".toList] := by decide +kernel
-- the model's accessors on the rendered stanza (computed, not via the theorem)
example : manualMtu (flatFam exHdr exKids) = 1500 ∧ description (flatFam exHdr exKids) = "to core".toList ∧
    vrf (flatFam exHdr exKids) = "BLUE".toList ∧ ipv4Addr (flatFam exHdr exKids) = "10.0.0.1".toList ∧
    (ipv4Masklength (flatFam exHdr exKids)).toOption = some 24 ∧ (accessVlan (flatFam exHdr exKids)).toOption = some 10 ∧
    (nativeVlan (flatFam exHdr exKids)).toOption = some 1 ∧ portchannelNumber (flatFam exHdr exKids) = 5 ∧
    isShutdown (flatFam exHdr exKids) = true ∧ manualIpMtu (flatFam exHdr exKids) = -1 := by decide +kernel
-- the tree builder puts exactly these children under the interface line: `flatFam` is what
-- C05's order yields on the parsed stanza
theorem stanza_family_example :
    famOf (parse exCfg (exHdr :: exKids.map Item.render)) 0 = flatFam exHdr exKids := by decide +kernel
-- trunk_vlans_allowed / secondaries / ordinal_list on concrete inputs
example : AllowedWord "1-3,7".toList := by
  have : "1-3,7".toList = Range.renderParts [(1, some 3), (7, none)] := by decide +kernel
  rw [this]; exact AllowedWord.list _ (by simp)
example : (secondaries (flatFam exHdr exKids)).toOption = some [("10.0.1.1".toList, 24)] := by decide +kernel
example : ordinalList "interface Serial4/1/2.9:5".toList = some [4, 1, 2, 9, 5, -1] ∧
    portType "interface Serial4/1/2.9:5".toList = "Serial".toList ∧
    interfaceNumber "interface ATM2/0.100 point-to-point".toList = some "2/0".toList ∧
    subinterfaceNumber "interface ATM2/0.100 point-to-point".toList = some "2/0.100".toList := by decide +kernel
example : maskLen "255.255.255.0".toList = some 24 ∧ maskLen "0.0.0.0".toList = some 0 ∧
    maskLen "255.255.255.255".toList = some 32 ∧ maskLen "255.0.255.0".toList = none := by decide +kernel

def exRoute : RouteDesc :=
  { vrf := some "X".toList, pfx := "10.0.0.0".toList, mask := "255.0.0.0".toList, intf := some "GigabitEthernet0/1".toList,
    nh := some "1.1.1.1".toList, glob := false, ad := some 200, name := some "foo".toList, permanent := false,
    track := some 3, tag := none }
example : line [] exRoute.words = "ip route vrf X 10.0.0.0 255.0.0.0 GigabitEthernet0/1 1.1.1.1 200 name foo track 3".toList := by
  decide +kernel
example : exRoute.intf ≠ none ∨ exRoute.nh ≠ none := Or.inl (by decide)
example : (routeParse (line [] exRoute.words)).map (fun r => (r.adminDistance, r.routeName, r.trackingObjectName)) =
    some (200, "foo".toList, "3".toList) := by decide +kernel
-- the whitespace quirk the model mirrors: two blanks before the next hop make it the "interface"
example : (routeParse "ip route 10.0.0.0 255.0.0.0  1.1.1.1".toList).map (fun r => (r.nextHopInterface, r.nextHopAddr)) =
    some (" 1.1.1.1".toList, []) := by decide +kernel

-- the new accessors on concrete inputs
example : port "interface Serial4/1/2.9:5".toList = some 2 ∧ port " interface Gi0/1".toList = none := by decide +kernel
example : (routeParse (line [] exRoute.words)).map (fun r => (r.addressFamily, r.nexthopStr)) =
    some ("ip".toList, "GigabitEthernet0/1 1.1.1.1".toList) := by decide +kernel
example : (routeParse "ip route 10.0.0.0 255.0.0.0 Null0".toList).map Route.nexthopStr = some "Null0 ".toList := by decide +kernel
-- `factory_guard_spec`: an accepted call and the three rejection classes
example : Factory.argCheck ⟨true, true, none, some "nxos".toList, true⟩ = none ∧
    Factory.argCheck ⟨true, true, none, some "foo".toList, true⟩ = some .notImplementedError ∧
    Factory.argCheck ⟨true, true, some true, some "foo".toList, true⟩ = some .valueError ∧
    Factory.argCheck ⟨true, false, some true, some "ios".toList, true⟩ = some .invalidParameters := by decide +kernel

end Ccp.C19
