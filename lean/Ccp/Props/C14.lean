import Ccp.Proofs.Range
/-!
# C14 — integer range strings expand to the denoted set and compress back canonically

Property theorems only; helper lemmas live in `Ccp.Proofs.Range`.
-/
namespace Ccp.C14
open Ccp.Range Ccp.Py

/-- spec: `n` is denoted by one comma-separated part -/
def InPart (p : Nat × Option Nat) (n : Nat) : Prop :=
  match p with
  | (lo, none) => n = lo
  | (lo, some hi) => lo ≤ n ∧ n ≤ hi

theorem mem_expandPart (p : Nat × Option Nat) (n : Nat) : n ∈ expandPart p ↔ InPart p n := by
  obtain ⟨lo, e⟩ := p
  cases e with
  | none => simp [expandPart, InPart]
  | some hi => simp [expandPart, InPart, mem_upto]

/-- **Expansion**: whenever a text is accepted, the members are exactly the union of the
closed intervals written in it, strictly ascending (hence duplicate free).  A descending
interval denotes nothing. -/
theorem parse_denotes (text : Str) (d : List Nat) (h : parse text = .ok d) :
    d.Pairwise (· < ·) ∧
    (text ≠ [] → ∃ ps, parseParts text = .ok ps ∧ ∀ n, n ∈ d ↔ ∃ p ∈ ps, InPart p n) ∧
    (text = [] → d = []) := by
  unfold parse at h
  split at h
  · rename_i h0
    cases h
    exact ⟨List.Pairwise.nil, fun hne => absurd h0 hne, fun _ => rfl⟩
  · split at h
    · cases h
    · split at h
      · rename_i ps hps
        cases h
        refine ⟨sortedSet_sorted _, ?_, fun h0 => absurd h0 ‹_›⟩
        intro _
        refine ⟨ps, hps, ?_⟩
        intro n
        rw [mem_sortedSet, List.mem_flatMap]
        constructor
        · rintro ⟨p, hp, hn⟩; exact ⟨p, hp, (mem_expandPart p n).mp hn⟩
        · rintro ⟨p, hp, hn⟩; exact ⟨p, hp, (mem_expandPart p n).mpr hn⟩
      · cases h

/-- `append` is sorted-set insertion and raises exactly for a duplicate. -/
theorem append_spec (d : List Nat) (v : Nat) (_hd : d.Pairwise (· < ·)) :
    (v ∈ d → append d v = .error .duplicate) ∧
    (v ∉ d → ∃ d', append d v = .ok d' ∧ d'.Pairwise (· < ·) ∧ ∀ n, n ∈ d' ↔ n ∈ d ∨ n = v) := by
  constructor
  · intro h; simp [append, h]
  · intro h
    refine ⟨sortedSet (d ++ [v]), by simp [append, h], sortedSet_sorted _, ?_⟩
    intro n; rw [mem_sortedSet]; simp

/-- `remove` is sorted-set deletion and raises exactly for an absent member. -/
theorem remove_spec (d : List Nat) (v : Nat) (hd : d.Pairwise (· < ·)) :
    (v ∉ d → remove d v = .error .absent) ∧
    (v ∈ d → ∃ d', remove d v = .ok d' ∧ d'.Pairwise (· < ·) ∧ ∀ n, n ∈ d' ↔ n ∈ d ∧ n ≠ v) := by
  constructor
  · intro h; simp [remove, h]
  · intro h
    refine ⟨d.filter (· != v), by simp [remove, h], hd.filter _, ?_⟩
    intro n; simp

/-- Every ordered view of an ascending duplicate-free state is the state itself:
`as_list()`/`as_set()` (`sorted(set(data))`) return `data`. -/
theorem views_are_data (d : List Nat) (hd : d.Pairwise (· < ·)) : sortedSet d = d :=
  sortedSet_of_sorted d hd

-- non-vacuity: a text with overlap, blanks, a duplicate and a descending interval
example : (parse "3-5, 1,4 ,9-7,1".toList).toOption = some [1, 3, 4, 5] := by decide

end Ccp.C14
