import Ccp.Proofs.Range
import Ccp.Proofs.RangeCompress
/-!
# C14 — integer range strings expand to the denoted set and compress back canonically

Property theorems only; helper lemmas live in `Ccp.Proofs.Range` and
`Ccp.Proofs.RangeCompress`.
-/
namespace Ccp.C14
open Ccp.Range Ccp.Py

/-- spec: `n` is denoted by one comma-separated part -/
def InPart (p : Nat × Option Nat) (n : Nat) : Prop :=
  match p with
  | (lo, none) => n = lo
  | (lo, some hi) => lo ≤ n ∧ n ≤ hi

theorem mem_expandPart (p : Nat × Option Nat) (n : Nat) : n ∈ expandPart p ↔ InPart p n := by
  obtain ⟨lo, e⟩ := p
  cases e with
  | none => simp [expandPart, InPart]
  | some hi => simp [expandPart, InPart, mem_upto]

/-- **Expansion**: whenever a text is accepted, the members are exactly the union of the
closed intervals written in it, strictly ascending (hence duplicate free).  A descending
interval denotes nothing. -/
theorem parse_denotes (text : Str) (d : List Nat) (h : parse text = .ok d) :
    d.Pairwise (· < ·) ∧
    (text ≠ [] → ∃ ps, parseParts text = .ok ps ∧ ∀ n, n ∈ d ↔ ∃ p ∈ ps, InPart p n) ∧
    (text = [] → d = []) := by
  unfold parse at h
  split at h
  · rename_i h0
    cases h
    exact ⟨List.Pairwise.nil, fun hne => absurd h0 hne, fun _ => rfl⟩
  · split at h
    · cases h
    · split at h
      · rename_i ps hps
        cases h
        refine ⟨sortedSet_sorted _, ?_, fun h0 => absurd h0 ‹_›⟩
        intro _
        refine ⟨ps, hps, ?_⟩
        intro n
        rw [mem_sortedSet, List.mem_flatMap]
        constructor
        · rintro ⟨p, hp, hn⟩; exact ⟨p, hp, (mem_expandPart p n).mp hn⟩
        · rintro ⟨p, hp, hn⟩; exact ⟨p, hp, (mem_expandPart p n).mpr hn⟩
      · cases h

/-- `append` is sorted-set insertion and raises exactly for a duplicate. -/
theorem append_spec (d : List Nat) (v : Nat) (_hd : d.Pairwise (· < ·)) :
    (v ∈ d → append d v = .error .duplicate) ∧
    (v ∉ d → ∃ d', append d v = .ok d' ∧ d'.Pairwise (· < ·) ∧ ∀ n, n ∈ d' ↔ n ∈ d ∨ n = v) := by
  constructor
  · intro h; simp [append, h]
  · intro h
    refine ⟨sortedSet (d ++ [v]), by simp [append, h], sortedSet_sorted _, ?_⟩
    intro n; rw [mem_sortedSet]; simp

/-- `remove` is sorted-set deletion and raises exactly for an absent member. -/
theorem remove_spec (d : List Nat) (v : Nat) (hd : d.Pairwise (· < ·)) :
    (v ∉ d → remove d v = .error .absent) ∧
    (v ∈ d → ∃ d', remove d v = .ok d' ∧ d'.Pairwise (· < ·) ∧ ∀ n, n ∈ d' ↔ n ∈ d ∧ n ≠ v) := by
  constructor
  · intro h; simp [remove, h]
  · intro h
    refine ⟨d.filter (· != v), by simp [remove, h], hd.filter _, ?_⟩
    intro n; simp

/-- Every ordered view of an ascending duplicate-free state is the state itself:
`as_list()`/`as_set()` (`sorted(set(data))`) return `data`. -/
theorem views_are_data (d : List Nat) (hd : d.Pairwise (· < ·)) : sortedSet d = d :=
  sortedSet_of_sorted d hd

-- non-vacuity: a text with overlap, blanks, a duplicate and a descending interval
example : (parse "3-5, 1,4 ,9-7,1".toList).toOption = some [1, 3, 4, 5] := by decide

/-! ## The compressed string

Spec.  `runs S` are the maximal runs of consecutive values of a strictly ascending list, as
`(first, last)`; the canonical text writes a run of one value `a`, of two values `a,b`, of
three or more `a-b`, and joins the runs with commas. -/

/-- maximal runs of consecutive values: `x` extends the first run of the rest when it is
adjacent to it, otherwise it starts a run of its own -/
def runs : List Nat → List (Nat × Nat)
  | [] => []
  | x :: xs =>
    match runs xs with
    | (a, b) :: rs => if x + 1 = a then (x, b) :: rs else (x, x) :: (a, b) :: rs
    | [] => [(x, x)]

def renderRun : Nat × Nat → Str
  | (a, b) =>
    if a = b then toDec a
    else if a + 1 = b then toDec a ++ ',' :: toDec b
    else toDec a ++ '-' :: toDec b

def renderRuns (rs : List (Nat × Nat)) : Str := join [','] (rs.map renderRun)

example : runs [1, 3, 4, 6, 7, 8, 10] = [(1, 1), (3, 4), (6, 8), (10, 10)] := by decide
example : renderRuns (runs [1, 3, 4, 6, 7, 8, 10]) = "1,3,4,6-8,10".toList := by decide +kernel

/-- the spec above is the one the helper lemmas are proved about -/
theorem runs_eq (s : List Nat) : runs s = Range.runs s := by
  induction s with
  | nil => rfl
  | cons x xs ih =>
    rw [runs, Range.runs, ih]
    cases Range.runs xs with
    | nil => rfl
    | cons r rs => rfl

theorem renderRuns_eq (rs : List (Nat × Nat)) : renderRuns rs = Range.renderRuns rs := rfl

/-- **Canonical text**: for every strictly ascending `S` the index loop of
`as_compressed_str` (three-element window, de-duplicated `"-"` markers, comma inserted
exactly between two entries of the same type) writes the maximal runs of `S`:
`a`, `a,b` or `a-b` joined by commas. -/
theorem compress_canonical (S : List Nat) (hS : S.Pairwise (· < ·)) :
    compress S = renderRuns (runs S) := by
  rw [runs_eq, renderRuns_eq]; exact compress_eq S hS

/-- The same for any list: `compress` first sorts and de-duplicates. -/
theorem compress_canonical_any (l : List Nat) :
    compress l = renderRuns (runs (sortedSet l)) := by
  have h := compress_canonical (sortedSet l) (sortedSet_sorted l)
  unfold compress at h ⊢
  rwa [sortedSet_of_sorted _ (sortedSet_sorted l)] at h

/-- **What makes the text canonical**: the runs are well formed (`first ≤ last`), expanded in
order they give back exactly `S` (they cover `S` and nothing else), and any two runs are
separated by a gap (`last + 2 ≤ first` of every later run), so they are ascending and none
can be extended or merged — they are maximal. -/
theorem runs_canonical (S : List Nat) (hS : S.Pairwise (· < ·)) :
    (∀ r ∈ runs S, r.1 ≤ r.2) ∧
    (runs S).flatMap (fun r => upto r.1 r.2) = S ∧
    (runs S).Pairwise (fun r t => r.2 + 2 ≤ t.1) := by
  rw [runs_eq]
  exact ⟨runs_le S, runs_cover S, runs_separated S hS⟩

-- non-vacuity: an ascending list with runs of length 1, 2, 3 and a large value
example : [0, 2, 3, 5, 6, 7, 70000].Pairwise (· < ·) := by decide
example : compress [0, 2, 3, 5, 6, 7, 70000] = "0,2,3,5-7,70000".toList := by decide +kernel

/-- **Round trip at the string level**: for every strictly ascending `S`, the compressed
string is accepted by the parser and expands to `S` again (for `S = []` the text is `""`). -/
theorem expand_compress (S : List Nat) (hS : S.Pairwise (· < ·)) :
    parse (compress S) = .ok S := by
  rw [compress_eq S hS]; exact parse_renderRuns S hS

example : (parse (compress [0, 2, 3, 5, 6, 7, 70000])).toOption = some [0, 2, 3, 5, 6, 7, 70000] := by
  decide +kernel
example : compress [] = [] ∧ (parse []).toOption = some [] := by decide

/-- For any list (unsorted, with duplicates) the compressed string expands to its sorted set. -/
theorem expand_compress_any (l : List Nat) : parse (compress l) = .ok (sortedSet l) := by
  have h := expand_compress (sortedSet l) (sortedSet_sorted l)
  unfold compress at h ⊢
  rwa [sortedSet_of_sorted _ (sortedSet_sorted l)] at h

/-- The compressed string determines the members: two ascending lists with the same
compressed string are equal. -/
theorem compress_injective (S T : List Nat) (hS : S.Pairwise (· < ·)) (hT : T.Pairwise (· < ·))
    (h : compress S = compress T) : S = T := by
  have e := expand_compress S hS
  rw [h, expand_compress T hT] at e
  exact (Except.ok.inj e).symm

/-- Compressing what a text expanded to and expanding again gives the same members. -/
theorem parse_compress_idem (text : Str) (d : List Nat) (h : parse text = .ok d) :
    parse (compress d) = .ok d :=
  expand_compress d (parse_denotes text d h).1

example : (parse "3-5, 1,4 ,9-7,1".toList).toOption = some [1, 3, 4, 5] ∧
    compress [1, 3, 4, 5] = "1,3-5".toList ∧ (parse "1,3-5".toList).toOption = some [1, 3, 4, 5] := by
  decide +kernel

/-- **String level, expansion side**: every non-empty list of parts `lo` / `lo-hi` written
in decimal without blanks and joined by commas is accepted and expands to the sorted union
of its parts. -/
theorem parse_written_parts (ps : List (Nat × Option Nat)) (hne : ps ≠ []) :
    parse (renderParts ps) = .ok (sortedSet (ps.flatMap expandPart)) :=
  parse_renderParts ps hne

example : renderParts [(9, some 11), (3, none), (10, some 12)] = "9-11,3,10-12".toList ∧
    (parse (renderParts [(9, some 11), (3, none), (10, some 12)])).toOption = some [3, 9, 10, 11, 12] := by
  decide +kernel

/-! ## Reading never changes the range -/

/-- **Readers are pure**: every read accessor (`len`, iteration, `as_list`, `as_set`,
`as_compressed_str`, re-expansion, `in`) leaves the state as it was. -/
theorem readers_pure (d : List Nat) (op : Op) (h : op.isRead = true) : (stepOp d op).1 = d := by
  cases op <;> first | rfl | exact absurd h (by simp [Op.isRead])

/-- … and so does any sequence of reads. -/
theorem readers_pure_seq (d : List Nat) (ops : List Op) (h : ∀ op ∈ ops, op.isRead = true) :
    ops.foldl (fun s op => (stepOp s op).1) d = d := by
  induction ops with
  | nil => rfl
  | cons op ops ih =>
    rw [List.foldl_cons, readers_pure d op (h op (by simp))]
    exact ih (fun o ho => h o (by simp [ho]))

/-- A failed `append` / `remove` leaves the state as it was, too. -/
theorem failed_mutation_pure (d : List Nat) (op : Op) (e : Err) (h : (stepOp d op).2 = .err e) :
    (stepOp d op).1 = d := by
  cases op <;> try rfl
  all_goals (simp only [stepOp] at h ⊢; split <;> simp_all)

-- non-vacuity: the seven read operations are reads, the mutators are not and do change the state
example : [Op.len, .iter, .list, .set, .cstr, .rexp, .has 3].all Op.isRead = true := by decide
example : (stepOp [1, 3] (.app 2)).1 = [1, 2, 3] ∧ (stepOp [1, 3] (.rem 3)).1 = [1] ∧
    (stepOp [1, 3] (.app 3)) = ([1, 3], .err .duplicate) := by decide

end Ccp.C14
